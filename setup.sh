#!/bin/sh
# Builds the framework from files on disk only (offline).
set -e
ROOT="$(cd "$(dirname "$0")" && pwd)"
cd "$ROOT/harness"
[ -f Cargo.lock ] || cp /repo/Cargo.lock .
CARGO_NET_OFFLINE=true cargo build --release --offline
mkdir -p "$ROOT/.build/tmp"
"$ROOT/.build/harness-target/release/harness" dump-tables > "$ROOT/.build/tables.tmp"
cmp -s "$ROOT/.build/tables.tmp" "$ROOT/lean/BoolFn/Generated/Tables.lean" || cp "$ROOT/.build/tables.tmp" "$ROOT/lean/BoolFn/Generated/Tables.lean"
cd "$ROOT/lean"
lake build BoolFn driver
