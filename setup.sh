#!/bin/sh
# Builds the framework from files on disk only (offline).
set -e
cd /verif/harness
[ -f Cargo.lock ] || cp /repo/Cargo.lock .
CARGO_NET_OFFLINE=true cargo build --release --offline
mkdir -p /verif/.build/tmp
/verif/.build/harness-target/release/harness dump-tables > /verif/.build/tables.tmp
cmp -s /verif/.build/tables.tmp /verif/lean/BoolFn/Generated/Tables.lean || cp /verif/.build/tables.tmp /verif/lean/BoolFn/Generated/Tables.lean
cd /verif/lean
lake build BoolFn driver
