"""C20 special machinery: the same corpus of calls executed in several separate processes (fresh
RandomState keys per process) with a different shuffle of the call order each, every call executed
twice within a process; per-call digests of the full observable result (canonical value, sat point,
BDD Debug text with node order, Display text) must agree across processes and repetitions, and the
operands must read the same before and after."""
import os
import subprocess


def run(pid, tier, seed, ctx):
    HARNESS = ctx["HARNESS"]
    nproc = 6 if tier == "quick" else 16
    procs = []
    for k in range(nproc):
        env = dict(ctx["ENV"])
        env["VERIF_ORDER"] = str(0 if k == 0 else seed * 1000 + k)
        procs.append(subprocess.Popen([HARNESS, "gen", "C20", tier, str(seed)], stdout=subprocess.PIPE,
                                      stderr=subprocess.PIPE, text=True, env=env))
    outs = []
    problems, violations = [], []
    for k, p in enumerate(procs):
        o, e = p.communicate(timeout=7200)
        if p.returncode != 0:
            problems.append(f"correspondence: process {k} crashed (exit {p.returncode}): {e[-300:]}")
        outs.append([l for l in o.splitlines() if l.startswith("C20 digest")])
    base = outs[0] if outs else []
    calls = len(base)
    impure = 0
    ops = {}
    for line in base:
        parts = line.split()
        # C20 digest <i> <op> <argsdigest> => <resultdigest> <pure> ;nt
        op = parts[3]
        ops[op] = ops.get(op, 0) + 1
        if parts[7] != "1":
            impure += 1
            violations.append((line, "repeating the call in one process gave a different result, or an operand changed"))
    for k in range(1, len(outs)):
        if len(outs[k]) != calls:
            problems.append(f"correspondence: process {k} produced {len(outs[k])} digests, process 0 {calls}")
            continue
        for a, b in zip(base, outs[k]):
            if a != b:
                violations.append((a, f"process {k} (different hash seeds and call order): {b}"))
    cov = {
        "evaluations": calls * len(outs) * 2,
        "distinct_nontrivial": calls,
        "rule": f"a fixed corpus of {calls} calls (enum incl. sat_point, connectives, restrict, quantifiers, derivative, "
                "essential inputs, equivalence, conversions, text forms, substitution; three representations; "
                f"random functions of <= 4 variables) executed in {len(outs)} separate processes, each with its own "
                "shuffle of the call order, every call twice per process; digest of the full observable result "
                "(incl. BDD Debug text = node order, sat_point, Display) compared across processes and repetitions; "
                "operands observed before and after every call. Non-trivial: every call; distinct by call index.",
        "processes": len(outs),
        "operations": ops,
        "calls_with_impure_flag": impure,
        "disagreements_checked": len(violations),
        "samples": base[:3],
    }
    return {"problems": problems, "violations": violations, "coverage": cov,
            "note": "a result depends on something other than the arguments (process, call order, repetition) or an operand was altered"}
