"""C19 special machinery: build the Python extension from /repo's working tree and compare scripted
calls through the Rust API (`harness exec19`) and through the extension (`pyharness.py`)."""
import os
import random
import shutil
import subprocess
import sys

OPS = {
    # wire op -> Python methods it exercises
    "str": ["__str__"], "repr": ["__repr__"], "nnf": ["to_nnf"], "cnf": ["to_cnf"], "dnf": ["to_dnf"],
    "isnnf": ["is_nnf"], "iscnf": ["is_cnf"], "isdnf": ["is_dnf"], "is.literal": ["is_literal"],
    "is.constant": ["is_constant"], "is.not": ["is_not"], "is.and": ["is_and"], "is.or": ["is_or"],
    "evalc": ["evaluate_checked"], "eval0": ["evaluate_safe"], "eval": ["evaluate_with_default"],
    "inputs": ["inputs"], "literals": ["gather_literals"], "essential": ["essential_inputs"],
    "degree": ["degree"], "essdegree": ["essential_degree"],
    "enum": ["domain", "image", "relation", "support", "weight", "sat_point", "__iter__", "__next__"],
    "semeq": ["semantic_eq"], "equiv": ["is_equivalent"], "implied": ["is_implied_by"],
    "and": ["mk_and", "mk_and_binary", "__and__"], "or": ["mk_or", "mk_or_binary", "__or__"], "xor": ["mk_xor"],
    "not": ["mk_not", "__invert__"], "nary": ["mk_and_n_ary", "mk_or_n_ary"],
    "restrict": ["restrict"], "exists": ["existential_quantification"], "forall": ["universal_quantification"],
    "deriv": ["derivative"], "subst": ["substitute"],
    "conv.ET": ["to_table", "from_expression"], "conv.TE": ["to_expression", "from_table"],
    "limit": ["to_bdd", "from_expression"],
    "conv.EB": ["to_bdd", "from_expression"], "conv.TB": ["to_bdd", "from_table"],
    "conv.BT": ["to_table", "from_bdd"], "conv.BE": ["to_expression", "from_bdd"],
    "parse": ["py_new"], "ctor.bad": ["py_new"], "csv.from": ["from_csv_string"], "csv.filebytes": ["from_csv_file"], "csv.to0": ["to_csv"],
    "render": ["to_string_formatted"], "row": ["row"], "nodecount": ["node_count"],
    "after.restrict": ["restrict", "is_equivalent", "is_implied_by", "inputs", "essential_inputs"],
    "after.exists": ["existential_quantification", "is_equivalent", "is_implied_by"],
    "after.forall": ["universal_quantification", "is_equivalent", "is_implied_by"],
    "after.deriv": ["derivative", "is_equivalent", "is_implied_by"],
    "after.not": ["mk_not", "is_equivalent", "is_implied_by"],
    "mk.const": ["mk_const"], "mk.literal": ["mk_literal"], "var": ["var", "vars"], "bool": ["bool"],
}


def hexs(s):
    return s.encode().hex()


def run(pid, tier, seed, ctx):
    ROOT, BUILD, HARNESS, log = ctx["ROOT"], ctx["BUILD"], ctx["HARNESS"], ctx["log"]
    problems, violations = [], []
    pydir = os.path.join(BUILD, "pyext")
    os.makedirs(pydir, exist_ok=True)
    with ctx["Lock"]():
        r = subprocess.run(["cargo", "build", "--offline", "--features", "python,csv", "--target-dir",
                            os.path.join(BUILD, "py-target")], cwd="/repo", stdout=subprocess.PIPE,
                           stderr=subprocess.STDOUT, text=True, env=ctx["ENV"], timeout=3600)
        if r.returncode != 0:
            return {"problems": ["correspondence: the Python extension does not build: " + r.stdout[-400:]],
                    "violations": [], "coverage": {}}
        shutil.copy(os.path.join(BUILD, "py-target", "debug", "libbiodivine_boolean_functions.so"),
                    os.path.join(pydir, "biodivine_boolean_functions.so"))
    rng = random.Random(seed)
    per_op = 150 if tier == "quick" else 2500
    buckets = {}
    sources = ["C01", "C02", "C03", "C04", "C05", "C06", "C07", "C08", "C09", "C10", "C11", "C14", "C16", "C17", "C18"]
    for src in sources:
        g = subprocess.run([HARNESS, "gen", src, "quick", str(seed)], stdout=subprocess.PIPE, text=True,
                           env=ctx["ENV"], timeout=3600)
        for line in g.stdout.splitlines():
            if line.startswith("#") or " => " not in line:
                continue
            head = line.split(" => ")[0]
            parts = head.split(" ", 2)
            op = parts[1]
            rest = parts[2] if len(parts) > 2 else ""
            if op == "csv.to":
                op, rest = "csv.to0", rest.rsplit(" ", 2)[0]
            if op == "roundtrip":
                op = "str"
            if op == "print":
                op = "repr"
            if op in ("csv.file", "csv.round", "display", "forms", "tokens", "semne", "imply", "iff"):
                continue
            if op not in OPS:
                continue
            if len(rest) > 4000:
                continue
            buckets.setdefault(op, []).append(f"C19 {op} {rest}")
            # observations on the *result object* of an operation (derived objects keep their history:
            # lib-bdd's algorithms leave equal functions with different node orders)
            if op in ("restrict", "exists", "forall", "deriv", "not"):
                buckets.setdefault("after." + op, []).append(f"C19 after.{op} {rest}")
            # derived requests for methods no other property exercises
            if op == "nnf":
                for o2 in ("is.literal", "is.constant", "is.not", "is.and", "is.or", "literals", "str"):
                    buckets.setdefault(o2, []).append(f"C19 {o2} {rest}")
            if op == "enum":
                buckets.setdefault("str", []).append(f"C19 str {rest}")
                buckets.setdefault("repr", []).append(f"C19 repr {rest}")
                if rest.startswith("(B"):
                    buckets.setdefault("nodecount", []).append(f"C19 nodecount {rest}")
                if rest.startswith("(T"):
                    buckets.setdefault("row", []).append(f"C19 row {rest} {rng.randrange(0, 9)}")
                    buckets.setdefault("literals", []).append(f"C19 literals {rest}")
            if op == "and" and rest.startswith("(l") or (op == "and" and rest.startswith("(&")):
                buckets.setdefault("nary", []).append(f"C19 nary {rng.choice(['and', 'or'])} {rest}")
    texts = ["a & b | !c", "(a v b) ^ NOT zz", "true", "falſe", "{a b} | x_10", "a &", "(a", "a b", "", "$", "{}", "a)",
             # faults near the end of padded texts: positions and vicinities in the messages are those of the
             # text the caller passed
             "(a & b \n", "{a  ", "a ) ", " (a", "a & b )\t", "{} ", "  $  ", "a & {b", "x | (y & z\r\n", "\n(a"]
    for t in texts:
        buckets.setdefault("parse", []).append(f"C19 parse x{hexs(t)}")
    buckets["ctor.bad"] = ["C19 ctor.bad"]
    # the file entry point: valid text, Latin-1 bytes, a stray 0xFF, a BOM, CRLF, an empty file, no file
    for raw in [b"a,r\n0,1\n1,0\n", b"\xe9,r\n0,1\n1,0\n", b"a,r\n0,\xff\n1,0\n", b"\xef\xbb\xbfa,r\n0,1\n1,0\n",
                b"a,r\r\n0,1\r\n1,0\r\n", b"", b"a,r\n0,1\n", "é,r\n0,1\n1,0\n".encode()]:
        buckets.setdefault("csv.filebytes", []).append(f"C19 csv.filebytes h{raw.hex()}")
    buckets.setdefault("csv.filebytes", []).append("C19 csv.filebytes -")
    # the one failing conversion: more variables than lib-bdd supports (exception kind must be RuntimeError)
    buckets["limit"] = ["C19 limit 65534", "C19 limit 65536", "C19 limit 70000"]
    for n in ["a", "x_10", "é", "-"]:
        buckets.setdefault("var", []).append(f"C19 var x{hexs(n)}")
        for b in "01":
            buckets.setdefault("mk.literal", []).append(f"C19 mk.literal x{hexs(n)} {b}")
    # names that text forms could mangle (quotes, backslashes, control and non-printing characters)
    for n in ['say "x"', "a\\b", "t\tab", "nb\u00a0sp", "e\u0301", "x\u200by", "new\nline", "'q'"]:
        lit = f"(l n{hexs(n)})"
        for op in ("repr", "str", "inputs", "nnf"):
            buckets.setdefault(op, []).insert(0, f"C19 {op} {lit}")
        buckets.setdefault("repr", []).insert(0, f"C19 repr (& {lit} (! {lit}))")
        buckets.setdefault("var", []).append(f"C19 var x{hexs(n)}")
        buckets.setdefault("mk.literal", []).append(f"C19 mk.literal x{hexs(n)} 1")
    buckets["mk.const"] = ["C19 mk.const 0", "C19 mk.const 1"]
    buckets["bool"] = ["C19 bool 0", "C19 bool 1"]
    requests = []
    for op, lines in sorted(buckets.items()):
        head = [l for l in dict.fromkeys(lines[:40])]      # hand-written requests come first, in order
        rest = sorted(set(lines) - set(head))
        rng.shuffle(rest)
        requests += (head + rest)[:per_op]
    rust = subprocess.run([HARNESS, "exec19"], input="\n".join(requests) + "\n", stdout=subprocess.PIPE,
                          stderr=subprocess.PIPE, text=True, env=ctx["ENV"], timeout=7200)
    py = subprocess.run([sys.executable, os.path.join(ROOT, "tools", "pyharness.py"), pydir],
                        input="\n".join(requests) + "\n", stdout=subprocess.PIPE, stderr=subprocess.PIPE,
                        text=True, timeout=7200)
    ra, pa = rust.stdout.splitlines(), py.stdout.splitlines()
    if rust.returncode != 0 or len(ra) != len(requests):
        problems.append(f"correspondence: harness exec19 failed ({rust.returncode}): {rust.stderr[-300:]}")
    if py.returncode != 0 or len(pa) != len(requests):
        # the interpreter died (abort) or the harness crashed: the property forbids aborting the interpreter
        problems.append(f"correspondence: python side failed (exit {py.returncode}, {len(pa)}/{len(requests)} answers): {py.stderr[-300:]}")
    per_method, skipped, exc = {}, 0, {}
    n = min(len(ra), len(pa), len(requests))
    compared = 0
    for i in range(n):
        op = requests[i].split(" ", 2)[1]
        if ra[i] == "SKIP" or pa[i] == "SKIP":
            skipped += 1
            continue
        compared += 1
        for m in OPS.get(op, []):
            per_method[m] = per_method.get(m, 0) + 1
        if ra[i].startswith("EXC:"):
            exc[ra[i]] = exc.get(ra[i], 0) + 1
        if ra[i] != pa[i]:
            violations.append((requests[i], f"rust={ra[i][:300]} python={pa[i][:300]}"))
    cov = {
        "programs": compared,
        "calls_compared": compared,
        "calls_skipped": skipped,
        "disagreements_checked": len(violations),
        "per_method_calls": per_method,
        "exceptions_seen": exc,
        "samples": [{"request": requests[i][:300], "rust": ra[i][:200], "python": pa[i][:200]} for i in range(0, n, max(1, n // 5))][:5],
    }
    return {"problems": problems, "violations": violations, "coverage": cov,
            "note": "the Python extension and the Rust API disagree on these calls"}
