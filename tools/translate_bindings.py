#!/usr/bin/env python3
"""Source translator for C19 / C20.

usage: translate_bindings.py <repo> <out-dir>

Reads the restricted Rust of <repo>/src/bindings/*.rs and emits
  Bindings.lean  — for every function inside a `#[pymethods] impl` (and every `#[pyfunction]`):
                   (class, python-visible name, kind, parameter list, return type, normalised body)
                   plus the error -> exception table of the `From<…> for PyErr` impls;
  Impurity.lean  — every occurrence under <repo>/src (bindings and tests excluded) of a construct
                   that can carry state or unordered iteration, as (file, construct, count).
Whatever it cannot read is emitted as `unknown …`, which breaks the Lean obligation instead of passing.
Prints the names of the files it changed.
"""
import os
import re
import sys

# constructs that can carry state, time, environment, randomness or unordered iteration (regexes)
IMPURE = [("HashMap", r"\bHashMap\b"), ("HashSet", r"\bHashSet\b"), ("static item", r"(?<!')\bstatic\s+(?:mut\s+|ref\s+)?[A-Za-z_]"),
          ("lazy_static", r"\blazy_static\s*!"), ("Cell", r"\b(?:Ref)?Cell\s*<|\bUnsafeCell\b|\bOnceCell\b|\bOnceLock\b"),
          ("lock", r"\bMutex\b|\bRwLock\b"), ("thread_local", r"\bthread_local\b"), ("atomic", r"\bAtomic[A-Z]"),
          ("clock", r"\bSystemTime\b|\bInstant\b"), ("environment", r"\bstd::env\b|\benv::var"),
          ("randomness", r"\brand::|\bRandomState\b|\bthread_rng\b"), ("unsafe", r"\bunsafe\b")]


def strip_comments(src):
    src = re.sub(r"//[^\n]*", "", src)
    src = re.sub(r"/\*.*?\*/", "", src, flags=re.S)
    return src


def match_brace(src, i):
    """index of the brace matching src[i] == '{'"""
    depth = 0
    j = i
    in_str = False
    while j < len(src):
        c = src[j]
        if in_str:
            if c == "\\":
                j += 1
            elif c == '"':
                in_str = False
        elif c == '"':
            in_str = True
        elif c == "{":
            depth += 1
        elif c == "}":
            depth -= 1
            if depth == 0:
                return j
        j += 1
    return -1


def norm(s):
    """layout-independent text: white space collapsed, none next to brackets and punctuation, no
    trailing comma before a closing bracket (rustfmt may move any of these)"""
    s = re.sub(r"\s+", " ", s).strip()
    s = re.sub(r"\s*([()\[\],;.?])\s*", r"\1", s)
    s = re.sub(r"\s*::\s*", "::", s)
    s = re.sub(r",([)\]])", r"\1", s)
    s = re.sub(r"([,;])(?=\S)", r"\1 ", s)
    return s


def lean_str(s):
    return '"' + s.replace("\\", "\\\\").replace('"', '\\"') + '"'


def parse_pymethods(path):
    src = strip_comments(open(path).read())
    out = []
    for m in re.finditer(r"#\[(?:pyo3::)?pymethods\]\s*impl\s+(\w+)\s*\{", src):
        cls = m.group(1)
        start = m.end() - 1
        end = match_brace(src, start)
        body = src[start + 1:end]
        pos = 0
        while True:
            fm = re.search(r"((?:#\[[^\]]*\]\s*)*)(?:pub\s+)?fn\s+(\w+)\s*(<[^>]*>)?\s*\(", body[pos:])
            if not fm:
                break
            attrs = norm(fm.group(1))
            name = fm.group(2)
            # parameter list
            p0 = pos + fm.end() - 1
            depth, j = 0, p0
            while j < len(body):
                if body[j] == "(":
                    depth += 1
                elif body[j] == ")":
                    depth -= 1
                    if depth == 0:
                        break
                j += 1
            params = norm(body[p0 + 1:j])
            b0 = body.find("{", j)
            ret = norm(body[j + 1:b0]).lstrip("->").strip()
            b1 = match_brace(body, b0)
            if b1 < 0:
                out.append((cls, name, "unknown", params, ret, "unknown " + norm(body[b0:b0 + 80])))
                break
            fbody = norm(body[b0 + 1:b1])
            kind = "new" if "#[new]" in attrs else ("static" if "staticmethod" in attrs else "method")
            if "cfg(" in attrs:
                kind += " " + re.search(r"cfg\(([^)]*)\)", attrs).group(1).replace('"', "'")
            pyname = name
            nm = re.search(r'name\s*=\s*"([^"]+)"', attrs)
            if nm:
                pyname = nm.group(1)
            out.append((cls, pyname, kind, params, ret, fbody))
            pos = b1 + 1
    for m in re.finditer(r"#\[(?:pyo3::)?pyfunction\]\s*(?:pub\s+)?fn\s+(\w+)\s*\(([^)]*)\)\s*(->\s*[^{]+)?\{", src):
        b0 = m.end() - 1
        b1 = match_brace(src, b0)
        out.append(("module", m.group(1), "function", norm(m.group(2)), norm((m.group(3) or "").lstrip("->")),
                    norm(src[b0 + 1:b1])))
    return out


def parse_error_maps(repo):
    """error variant -> Python exception, from the `From<…> for PyErr` impls"""
    rows = []
    for rel in ["src/bindings/error.rs", "src/parser/error.rs", "src/table/csv/error.rs"]:
        path = os.path.join(repo, rel)
        if not os.path.exists(path):
            rows.append((rel, "unknown", "missing file"))
            continue
        src = strip_comments(open(path).read())
        for m in re.finditer(r"impl(?:<[^>]*>)?\s+From<([^>]+(?:<[^>]*>)?)>\s+for\s+PyErr\s*\{", src):
            b0 = m.end() - 1
            b1 = match_brace(src, b0)
            body = norm(src[b0 + 1:b1])
            excs = sorted(set(re.findall(r"(Py\w+Error)::new_err", body)))
            rows.append((rel, norm(m.group(1)), body))
            for e in excs:
                pass
    return rows


def scan_impurity(repo):
    rows = []
    for dp, dn, files in os.walk(os.path.join(repo, "src")):
        for fn in sorted(files):
            if not fn.endswith(".rs"):
                continue
            path = os.path.join(dp, fn)
            rel = os.path.relpath(path, repo)
            if rel.startswith("src/bindings"):
                continue
            src = strip_comments(open(path).read())
            # drop test modules
            tm = re.search(r"#\[cfg\(test\)\]\s*mod\s+\w+\s*\{", src)
            if tm:
                src = src[:tm.start()]
            # verification hooks are not part of the library proper
            src = re.sub(r"#\[cfg\(feature = \"verif\"\)\]\s*(pub\s+)?(fn|impl|mod|use)[^{;]*(\{|;)", "", src)
            for label, rx in IMPURE:
                n = len(re.findall(rx, src))
                if n:
                    rows.append((rel, label, n))
    return sorted(rows)


def main():
    repo, outdir = sys.argv[1], sys.argv[2]
    files = ["expression.rs", "table.rs", "bdd.rs"] + sorted(
        os.path.join("iterators", f) for f in os.listdir(os.path.join(repo, "src/bindings/iterators")) if f != "mod.rs")
    rows = []
    for f in files:
        path = os.path.join(repo, "src/bindings", f)
        if not os.path.exists(path):
            rows.append(("unknown", f, "unknown", "", "", "missing file"))
            continue
        rows += parse_pymethods(path)
    errs = parse_error_maps(repo)
    b = ["-- GENERATED by tools/translate_bindings.py from /repo/src/bindings; do not edit.",
         "namespace BoolFn.Generated",
         "/-- (class, python name, kind, parameters, return type, normalised body) of every #[pymethods] function -/",
         "def bindings : List (String × String × String × String × String × String) := ["]
    b.append(",\n".join("  (" + ", ".join(lean_str(x) for x in r) + ")" for r in rows))
    b.append("]")
    b.append("/-- (file, error type, normalised body) of every `From<…> for PyErr` impl -/")
    b.append("def errorMaps : List (String × String × String) := [")
    b.append(",\n".join("  (" + ", ".join(lean_str(x) for x in r) + ")" for r in errs))
    b.append("]")
    b.append("end BoolFn.Generated\n")
    imp = scan_impurity(repo)
    i = ["-- GENERATED by tools/translate_bindings.py from /repo/src (bindings, tests and verif hooks excluded); do not edit.",
         "namespace BoolFn.Generated",
         "/-- (file, construct, occurrences): constructs that can carry state or unordered iteration -/",
         "def impurity : List (String × String × Nat) := ["]
    i.append(",\n".join(f"  ({lean_str(r[0])}, {lean_str(r[1])}, {r[2]})" for r in imp))
    i.append("]")
    i.append("end BoolFn.Generated\n")
    changed = []
    for name, content in (("Bindings.lean", "\n".join(b)), ("Impurity.lean", "\n".join(i))):
        path = os.path.join(outdir, name)
        old = open(path).read() if os.path.exists(path) else None
        if old != content:
            open(path, "w").write(content)
            changed.append(name)
    print(" ".join(changed))


if __name__ == "__main__":
    main()
