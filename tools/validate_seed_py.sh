#!/bin/bash
# usage: validate_seed_py.sh <seed-id> <dir with patch.diff, seed_demo.py, notes.md> <property>…
# like validate_seed.sh, for a demonstration that is a Python script run against the built extension
set -u
ID=$1; SRC=$2; shift 2; PROPS="$@"
WT=/tmp/val-$ID
OUT=/verif/seeded/$ID
mkdir -p $OUT
cp $SRC/patch.diff $OUT/patch.diff
cp $SRC/seed_demo.py $OUT/seed_demo.py
[ -f $SRC/notes.md ] && cp $SRC/notes.md $OUT/notes.md
LOG=$OUT/validation.log
: > $LOG
git -C /repo worktree add -q --detach $WT HEAD
cd $WT
git apply $OUT/patch.diff || { echo "PATCH DOES NOT APPLY" | tee -a $LOG; }
echo "== suite (default features) with the change" >> $LOG
cargo test --offline 2>&1 | grep -E "^test result|FAILED|error(\[|:)" | head -5 >> $LOG
echo "== suite (--features csv) with the change" >> $LOG
cargo test --offline --features csv 2>&1 | grep -E "^test result|FAILED|error(\[|:)" | head -5 >> $LOG
build_ext() {
  cargo build --offline --features python,csv 2>&1 | grep -E "^error" | head -5 >> $LOG
  mkdir -p $WT/ext && cp target/debug/libbiodivine_boolean_functions.so $WT/ext/biodivine_boolean_functions.so
}
echo "== demo with the change (must fail)" >> $LOG
build_ext
python3 $OUT/seed_demo.py $WT/ext > $WT/demo.out 2>&1; echo "exit code $?" >> $LOG; tail -3 $WT/demo.out | cut -c1-200 >> $LOG
[ "$(tail -1 $LOG)" != "" ] || true
grep -q "exit code 0" <(tail -5 $LOG) || echo "FAILED (demo exits non-zero)" >> $LOG
git apply -R $OUT/patch.diff
echo "== demo without the change (must pass)" >> $LOG
build_ext
python3 $OUT/seed_demo.py $WT/ext > $WT/demo.out 2>&1; RC=$?; echo "exit code $RC" >> $LOG
[ $RC -eq 0 ] && echo "test result: ok. demo exits 0" >> $LOG || echo "FAILED" >> $LOG
cd /
git -C /repo worktree remove --force $WT
git -C /repo apply $OUT/patch.diff
for P in $PROPS; do
  rm -f /verif/replays/$P-*
  echo "== ./check $P with the change applied to /repo" >> $LOG
  (cd /verif && ./check $P 2>&1 | grep -E "VIOLATION|KNOWN-FINDING|PROBLEM|: ok" | cut -c1-300) >> $LOG
  if ls /verif/replays/$P-*-violation.txt >/dev/null 2>&1; then
    head -6 /verif/replays/$P-*-violation.txt | cut -c1-400 >> $LOG
  fi
done
git -C /repo checkout -- .
cat $LOG
