#!/bin/bash
# usage: validate_seed.sh <seed-id> <dir with patch.diff, seed_demo.rs, notes.md> <property> [extra properties…]
# 1. confirms in a scratch worktree that the patch compiles, passes both suites, and that the demo fails
#    with it and passes without it;  2. applies the patch to /repo, runs the checks, reverts.
set -u
ID=$1; SRC=$2; shift 2; PROPS="$@"
WT=/tmp/val-$ID
OUT=/verif/seeded/$ID
mkdir -p $OUT
cp $SRC/patch.diff $OUT/patch.diff
cp $SRC/seed_demo.rs $OUT/seed_demo.rs
[ -f $SRC/notes.md ] && cp $SRC/notes.md $OUT/notes.md
LOG=$OUT/validation.log
: > $LOG
git -C /repo worktree add -q --detach $WT HEAD
cd $WT
FEAT=""; grep -q "csv" $OUT/seed_demo.rs && FEAT="--features csv"
git apply $OUT/patch.diff || { echo "PATCH DOES NOT APPLY" | tee -a $LOG; }
echo "== suite (default features) with the change" >> $LOG
cargo test --offline 2>&1 | grep -E "^test result|FAILED|error(\[|:)" | head -5 >> $LOG
echo "== suite (--features csv) with the change" >> $LOG
cargo test --offline --features csv 2>&1 | grep -E "^test result|FAILED|error(\[|:)" | head -5 >> $LOG
cp $OUT/seed_demo.rs tests/seed_demo.rs 2>/dev/null || { mkdir -p tests; cp $OUT/seed_demo.rs tests/seed_demo.rs; }
echo "== demo with the change (must fail)" >> $LOG
cargo test --offline $FEAT --test seed_demo 2>&1 | grep -E "^test result|FAILED|error(\[|:)" | head -5 >> $LOG
git apply -R $OUT/patch.diff
echo "== demo without the change (must pass)" >> $LOG
cargo test --offline $FEAT --test seed_demo 2>&1 | grep -E "^test result|FAILED|error(\[|:)" | head -5 >> $LOG
cd /
git -C /repo worktree remove --force $WT
# checks against the change
git -C /repo apply $OUT/patch.diff
for P in $PROPS; do
  rm -f /verif/replays/$P-*
  echo "== ./check $P with the change applied to /repo" >> $LOG
  (cd /verif && ./check $P 2>&1 | grep -E "VIOLATION|KNOWN-FINDING|PROBLEM|: ok" | cut -c1-300) >> $LOG
  if ls /verif/replays/$P-*-violation.txt >/dev/null 2>&1; then
    head -4 /verif/replays/$P-*-violation.txt | cut -c1-400 >> $LOG
  fi
done
git -C /repo checkout -- .
cat $LOG
