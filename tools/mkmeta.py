#!/usr/bin/env python3
"""usage: mkmeta.py <seeded dir>…  — writes meta.json from validation.log (+ notes.md).
A check section may appear more than once in the log (re-validation after a check was strengthened):
the last occurrence decides `checks_that_caught_it`, earlier misses are kept in `missed_before_strengthening`."""
import json, os, re, sys
for d in sys.argv[1:]:
    d = d.rstrip("/")
    sid = os.path.basename(d)
    log = open(os.path.join(d, "validation.log")).read()
    notes = open(os.path.join(d, "notes.md")).read() if os.path.exists(os.path.join(d, "notes.md")) else ""
    secs = re.split(r"^== ", log, flags=re.M)
    conf = {"suite_default": False, "suite_csv": False, "demo_fails_with_change": False, "demo_passes_without": False}
    runs = {}
    for s in secs:
        head, _, body = s.partition("\n")
        if head.startswith("suite (default"):
            conf["suite_default"] = "FAILED" not in body and "error" not in body and "test result: ok" in body
        elif head.startswith("suite (--features csv"):
            conf["suite_csv"] = "FAILED" not in body and "error" not in body and "test result: ok" in body
        elif head.startswith("demo with the change"):
            conf["demo_fails_with_change"] = "FAILED" in body
        elif head.startswith("demo without"):
            conf["demo_passes_without"] = "FAILED" not in body and "test result: ok" in body
        else:
            m = re.match(r"\./check (C\d\d)", head)
            if m:
                runs.setdefault(m.group(1), []).append("VIOLATION property=" + m.group(1) in body)
    m = re.search(r"(?is)^#+\s*(?:trigger|what it needs[^\n]*|needs[^\n]*|manifest[^\n]*)\n(.*?)(?=^#+\s|\Z)", notes, flags=re.M)
    needs = (m.group(1).strip() if m else notes.strip())[:900]
    meta = {
        "id": sid,
        "breaks_property": re.search(r"C\d\d", sid).group(0),
        "needs_to_manifest": needs,
        "confirmed": conf,
        "checks_run": sorted(runs),
        "checks_that_caught_it": sorted(k for k, v in runs.items() if v[-1]),
        "missed_before_strengthening": sorted(k for k, v in runs.items() if len(v) > 1 and not v[0] and v[-1]),
        "what_was_run": "tools/validate_seed.sh: scratch worktree (git worktree add --detach), git apply patch.diff, "
                        "cargo test --offline, cargo test --offline --features csv, demo test with and without the change; "
                        "then git -C /repo apply, ./check <ID> (quick), git -C /repo checkout -- .",
    }
    json.dump(meta, open(os.path.join(d, "meta.json"), "w"), indent=1, ensure_ascii=False)
    print(sid, conf, meta["checks_that_caught_it"], meta["missed_before_strengthening"])
