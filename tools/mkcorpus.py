#!/usr/bin/env python3
"""rebuilds corpus/<prop>.txt from the validation logs of the seeded changes: the request heads that
exposed a change. Heads that are truncated in the log, that carry implementation output as an argument
(`display`), or that the harness cannot re-execute are left out."""
import collections, glob, os, re, subprocess
ROOT = os.path.dirname(os.path.dirname(os.path.abspath(__file__)))
HARNESS = os.path.join(ROOT, ".build", "harness-target", "release", "harness")
# the binary may have been built against a seeded change that has been reverted since: rebuild first
subprocess.run(["cargo", "build", "--release", "--offline"], cwd=os.path.join(ROOT, "harness"), check=True,
               stdout=subprocess.DEVNULL, stderr=subprocess.DEVNULL)
heads = collections.defaultdict(list)
for log in sorted(glob.glob(os.path.join(ROOT, "seeded", "*", "validation.log"))):
    sid = log.split("/")[-2]
    for line in open(log):
        line = line.rstrip("\n")
        m = re.match(r"^(C\d\d) (\S+) (.*?) => ", line)
        if not m:
            continue
        pid, op, rest = m.groups()
        if pid in ("C19", "C20") or op == "display" or len(line) >= 299:
            continue
        h = f"{pid} {op} {rest}".rstrip()
        if h.count("(") != h.count(")"):
            continue
        try:
            r = subprocess.run([HARNESS, "exec"], input=h + "\n", stdout=subprocess.PIPE, stderr=subprocess.PIPE, text=True, timeout=60)
        except subprocess.TimeoutExpired:
            print("too slow for the corpus (left out):", sid, h[:120])
            continue
        if r.returncode != 0 or " => " not in r.stdout:
            continue
        if h not in [x[1] for x in heads[pid]]:
            heads[pid].append((sid, h))
os.makedirs(os.path.join(ROOT, "corpus"), exist_ok=True)
for f in glob.glob(os.path.join(ROOT, "corpus", "C*.txt")):
    os.remove(f)
for pid, hs in sorted(heads.items()):
    with open(os.path.join(ROOT, "corpus", f"{pid}.txt"), "w") as f:
        f.write(f"# corpus for {pid}: request heads that exposed a seeded change (see seeded/<id>/); re-run first on every check\n")
        for sid, h in hs:
            f.write(f"# from {sid}\n{h}\n")
    print(pid, len(hs), end="; ")
print()
