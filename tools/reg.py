#!/usr/bin/env python3
"""usage: reg.py PID [--extra name,name] < json-with-rule-etc
Registers a property in obligations.json: the theorem list is every `theorem` of
lean/BoolFn/Props/<PID>.lean (namespace BoolFn.<PID>) plus --extra names."""
import json, re, sys, os
ROOT = os.path.dirname(os.path.dirname(os.path.abspath(__file__)))
pid = sys.argv[1]
extra = []
if "--extra" in sys.argv:
    extra = sys.argv[sys.argv.index("--extra") + 1].split(",")
src = open(os.path.join(ROOT, "lean", "BoolFn", "Props", pid + ".lean")).read()
names = [f"BoolFn.{pid}.{m}" for m in re.findall(r"^theorem\s+([^\s:({\[]+)", src, re.M)]
ob = json.load(open(os.path.join(ROOT, "obligations.json")))
entry = ob.get(pid, {})
body = sys.stdin.read().strip()
if body:
    entry.update(json.loads(body))
# names registered earlier from other modules (Proofs/*) are kept
kept = [t for t in entry.get("theorems", []) if not t.startswith(f"BoolFn.{pid}.") and t not in extra]
entry["theorems"] = names + kept + extra
ob[pid] = entry
json.dump(ob, open(os.path.join(ROOT, "obligations.json"), "w"), indent=1, ensure_ascii=False)
print(pid, len(entry["theorems"]), "theorems")
