#!/usr/bin/env python3
"""C19: executes wire requests through the Python extension module built from /repo's working tree
and renders the answers with the observable API only (the same renderings as `harness exec19`).
usage: pyharness.py <dir containing biodivine_boolean_functions.so> < requests > answers"""
import sys

sys.path.insert(0, sys.argv[1])
import biodivine_boolean_functions as bbf  # noqa: E402

E, T, B = bbf.Expression, bbf.Table, bbf.Bdd


def parse_sexps(s):
    toks, cur = [], ""
    for c in s:
        if c in "()":
            if cur:
                toks.append(cur)
                cur = ""
            toks.append(c)
        elif c.isspace():
            if cur:
                toks.append(cur)
                cur = ""
        else:
            cur += c
    if cur:
        toks.append(cur)
    pos = 0

    def seq():
        nonlocal pos
        out = []
        while pos < len(toks):
            t = toks[pos]
            pos += 1
            if t == ")":
                return out
            if t == "(":
                out.append(seq())
            else:
                out.append(t)
        return out

    return seq()


def unhex(h):
    return bytes.fromhex(h).decode("utf-8", "replace")


def name(a):
    return unhex(a[1:])


def dec_expr(x):
    tag = x[0]
    if tag == "l":
        return E.mk_literal(name(x[1]))
    if tag == "c":
        return E.mk_constant(x[1] == "1")
    if tag == "!":
        return E.mk_not(dec_expr(x[1]))
    if tag == "&":
        return E.mk_and_n_ary([dec_expr(y) for y in x[1:]])
    if tag == "|":
        return E.mk_or_n_ary([dec_expr(y) for y in x[1:]])
    raise ValueError("bad expression")


def expr_of_bits(names, bits):
    """And([Or(minterms)] ++ [Or(v, !v) for v]) — the same construction as the Rust harness"""
    n = len(names)

    def lit(i, pos):
        l = E.mk_literal(names[i])
        return l if pos else E.mk_not(l)

    minterms = [E.mk_and_n_ary([lit(k, (row >> (n - 1 - k)) & 1 == 1) for k in range(n)])
                for row, b in enumerate(bits) if b == "1"]
    parts = [E.mk_or_n_ary(minterms)] + [E.mk_or_n_ary([lit(i, True), lit(i, False)]) for i in range(n)]
    return E.mk_and_n_ary(parts)


def dec_val(x):
    if isinstance(x, list) and x and x[0] == "T":
        names = [name(a) for a in x[1]]
        return T.from_expression(expr_of_bits(names, x[2][1:]))
    if isinstance(x, list) and x and x[0] == "B":
        names = [name(a) for a in x[1]]
        return B.from_expression(expr_of_bits(names, x[2][1:]))
    return dec_expr(x)


def dec_arg(x):
    if isinstance(x, str):
        if x.startswith("x") and len(x) % 2 == 1 and all(c in "0123456789abcdef" for c in x[1:]):
            return ("X", unhex(x[1:]))
        if x in ("0", "1"):
            return ("O", x == "1")
        return ("A", x)
    tag = x[0] if x else ""
    if tag == "V":
        return ("V", {name(kv[0]): kv[1] == "1" for kv in x[1:]})
    if tag == "S":
        return ("S", {name(k) for k in x[1:]})
    if tag == "M":
        return ("M", {name(kv[0]): dec_val(kv[1]) for kv in x[1:]})
    return ("F", dec_val(x))


def obs(v):
    if isinstance(v, E):
        return "E|" + str(v)
    if isinstance(v, T):
        return "T|" + str(v)
    if isinstance(v, B):
        return "B|" + str(v)
    raise ValueError("unknown object")


def sset(s):
    return "{" + ",".join(sorted(s)) + "}"


def pt(p):
    return "".join("1" if b else "0" for b in p)


def low(b):
    return "true" if b else "false"


def enum_text(x):
    # two iterators over the same object must not share a cursor, and an exhausted one stays exhausted
    for make in (x.domain, x.image, x.relation, x.support):
        full = list(make())
        i1, i2 = iter(make()), iter(make())
        inter = []
        for _ in range(len(full)):
            a = next(i1)
            b = next(i2)
            if a != b:
                return "iterators-interfere"
            inter.append(a)
        if inter != full or next(i1, "END") != "END" or next(i1, "END") != "END":
            return "iterators-interfere"
    dom = ",".join(pt(p) for p in x.domain())
    img = "".join("1" if b else "0" for b in x.image())
    rel = ",".join(f"{pt(p)}:{int(b)}" for p, b in x.relation())
    sup = ",".join(sorted(pt(p) for p in x.support()))
    sp = x.sat_point()
    return f"dom={dom} img={img} rel={rel} sup={sup} w={x.weight()} sat={'None' if sp is None else pt(sp)}"


STYLE = {"Ascii": bbf.TableStyle.Ascii, "Modern": bbf.TableStyle.Modern, "Markdown": bbf.TableStyle.Markdown,
         "Empty": bbf.TableStyle.Empty}
FMT = {"Number": bbf.TableBooleanFormatting.Number, "Character": bbf.TableBooleanFormatting.Character,
       "Word": bbf.TableBooleanFormatting.Word, "CapitalizedWord": bbf.TableBooleanFormatting.CapitalizedWord}


def run(op, a):
    v = [x[1] for x in a]
    k = [x[0] for x in a]
    if op == "str":
        return obs(v[0])
    if op == "repr":
        return repr(v[0])
    if op in ("nnf", "cnf", "dnf"):
        return obs(getattr(v[0], "to_" + op)())
    if op in ("isnnf", "iscnf", "isdnf"):
        return low(getattr(v[0], "is_" + op[2:])())
    if op.startswith("is."):
        return low(getattr(v[0], "is_" + op[3:])())
    if op == "evalc":
        return low(v[0].evaluate_checked(v[1]))
    if op == "eval0":
        return low(v[0].evaluate_safe(v[1]))
    if op == "eval":
        return low(v[0].evaluate_with_default(v[1], v[2]))
    if op == "inputs":
        return sset(v[0].inputs())
    if op == "literals":
        if isinstance(v[0], B):
            return "SKIP"
        return sset(v[0].gather_literals())
    if op == "essential":
        return sset(v[0].essential_inputs())
    if op == "degree":
        return str(v[0].degree())
    if op == "essdegree":
        return str(v[0].essential_degree())
    if op == "enum":
        return enum_text(v[0])
    if op == "semeq":
        return low(v[0].semantic_eq(v[1]))
    if op == "equiv":
        return low(v[0].is_equivalent(v[1]))
    if op == "implied":
        return low(v[0].is_implied_by(v[1]))
    if op in ("and", "or", "xor"):
        x, y = v[0], v[1]
        if isinstance(x, E):
            if op == "and":
                r1, r2 = x & y, E.mk_and_binary(x, y)
            elif op == "or":
                r1, r2 = x | y, E.mk_or_binary(x, y)
            else:
                return "SKIP"
            if str(r1) != str(r2):
                return "operator-and-static-method-differ"
            return obs(r1)
        cls = T if isinstance(x, T) else B
        return obs(getattr(cls, "mk_" + op)(x, y))
    if op == "not":
        x = v[0]
        if isinstance(x, E):
            r1, r2 = ~x, E.mk_not(x)
            if str(r1) != str(r2):
                return "operator-and-static-method-differ"
            return obs(r1)
        return obs((T if isinstance(x, T) else B).mk_not(x))
    if op == "nary":
        es = v[1:]
        return obs(E.mk_and_n_ary(es) if v[0] == "and" else E.mk_or_n_ary(es))
    if op == "restrict":
        return obs(v[0].restrict(v[1]))
    if op == "exists":
        return obs(v[0].existential_quantification(v[1]))
    if op == "forall":
        return obs(v[0].universal_quantification(v[1]))
    if op == "deriv":
        return obs(v[0].derivative(v[1]))
    if op == "subst":
        return obs(v[0].substitute(v[1]))
    if op.startswith("after."):
        x = v[0]
        what = op[6:]
        if what == "restrict":
            r = x.restrict(v[1])
        elif what == "exists":
            r = x.existential_quantification(v[1])
        elif what == "forall":
            r = x.universal_quantification(v[1])
        elif what == "deriv":
            r = x.derivative(v[1])
        else:
            r = E.mk_not(x) if isinstance(x, E) else (T if isinstance(x, T) else B).mk_not(x)
        if isinstance(r, E):
            rb = r.to_table().to_expression()
        elif isinstance(r, T):
            rb = T.from_expression(r.to_expression())
        else:
            rb = B.from_expression(r.to_expression())

        def cmp(p, q):
            return f"{low(p.is_equivalent(q))},{low(p.is_implied_by(q))}"

        small = r.degree() <= 5
        return (f"inputs={sset(r.inputs())} ess={sset(r.essential_inputs())} enum={enum_text(r) if small else '-'} "
                f"rebuilt={cmp(r, rb)};{cmp(rb, r)} self={cmp(r, r)} orig={cmp(r, x)};{cmp(x, r)}")
    if op == "conv.ET":
        r1, r2 = v[0].to_table(), T.from_expression(v[0])
        return obs(r1) if str(r1) == str(r2) else "to_/from_ differ"
    if op == "conv.TE":
        r1, r2 = v[0].to_expression(), E.from_table(v[0])
        return obs(r1) if str(r1) == str(r2) else "to_/from_ differ"
    if op == "limit":
        n = int(v[0])
        e = E.mk_and_n_ary([E.mk_literal("v%d" % i) for i in range(n)])
        kinds = []
        for conv in (lambda: e.to_bdd(), lambda: B.from_expression(e)):
            try:
                kinds.append("ok%d" % len(conv().inputs()))
            except Exception as ex:
                kinds.append("EXC:" + type(ex).__name__)
        return kinds[0] if kinds[0] == kinds[1] else "to_/from_ differ: %s" % kinds
    if op == "conv.EB":
        r1, r2 = v[0].to_bdd(), B.from_expression(v[0])
        return obs(r1) if str(r1) == str(r2) else "to_/from_ differ"
    if op == "conv.TB":
        r1, r2 = v[0].to_bdd(), B.from_table(v[0])
        return obs(r1) if str(r1) == str(r2) else "to_/from_ differ"
    if op == "conv.BT":
        r1, r2 = v[0].to_table(), T.from_bdd(v[0])
        return obs(r1) if str(r1) == str(r2) else "to_/from_ differ"
    if op == "conv.BE":
        r1, r2 = v[0].to_expression(), E.from_bdd(v[0])
        return obs(r1) if str(r1) == str(r2) else "to_/from_ differ"
    if op == "parse":
        return obs(E(v[0]))
    if op == "ctor.bad":
        return obs(E(12345))
    if op == "csv.from":
        return obs(T.from_csv_string(v[0]))
    if op == "csv.filebytes":
        import os, tempfile
        d = tempfile.mkdtemp(prefix="c19py")
        path = os.path.join(d, "t.csv")
        if v[0] != "-":
            with open(path, "wb") as fh:
                fh.write(bytes.fromhex(v[0][1:]))
        try:
            return obs(T.from_csv_file(path))
        finally:
            try:
                os.remove(path)
            except OSError:
                pass
            os.rmdir(d)
    if op == "csv.to0":
        return v[0].to_csv()
    if op == "render":
        return v[0].to_string_formatted(STYLE[v[1]], FMT[v[2]])
    if op == "row":
        return pt(v[0].row(int(v[1])))
    if op == "nodecount":
        return str(v[0].node_count())
    if op == "mk.const":
        return obs(B.mk_const(v[0]))
    if op == "mk.literal":
        return obs(B.mk_literal(v[0], v[1]))
    if op == "var":
        r1, r2 = bbf.var(v[0]), bbf.vars([v[0]])[0]
        return obs(r1) if str(r1) == str(r2) else "var/vars differ"
    if op == "bool":
        return obs(bbf.bool(v[0]))
    return "SKIP"


def main():
    out = []
    for line in sys.stdin:
        line = line.rstrip("\n")
        head = line.split(" => ")[0]
        parts = head.split(" ", 2)
        if len(parts) < 2:
            continue
        op = parts[1]
        rest = parts[2] if len(parts) > 2 else ""
        try:
            args = [dec_arg(x) for x in parse_sexps(rest)]
            r = run(op, args)
        except BaseException as e:  # PanicException derives from BaseException
            r = "EXC:" + type(e).__name__
            if op == "parse":
                r += ":" + str(e)
        out.append(r.replace("\n", "\\n"))
    sys.stdout.write("\n".join(out) + ("\n" if out else ""))


if __name__ == "__main__":
    main()
