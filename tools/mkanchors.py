#!/usr/bin/env python3
"""records the hash of /repo's sources (src/**, Cargo.toml) in anchors.json; run after a `fix:` or hook
commit in /repo. `check` escalates the quick tier when the current tree differs from the recorded one."""
import hashlib, json, os
ROOT = os.path.dirname(os.path.dirname(os.path.abspath(__file__)))
h = hashlib.sha256()
paths = ["/repo/Cargo.toml"]
for dp, dn, files in os.walk("/repo/src"):
    dn.sort()
    for fn in sorted(files):
        paths.append(os.path.join(dp, fn))
for p in sorted(paths):
    if os.path.isfile(p):
        h.update(p.encode())
        h.update(open(p, "rb").read())
json.dump({"_src": h.hexdigest()}, open(os.path.join(ROOT, "anchors.json"), "w"), indent=1)
print(h.hexdigest())
