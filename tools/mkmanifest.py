#!/usr/bin/env python3
"""Regenerates /verif/MANIFEST.json from obligations.json (claimed properties) and
not_applicable.json (the rest, with reasons)."""
import json, os
ROOT = os.path.dirname(os.path.dirname(os.path.abspath(__file__)))
ob = json.load(open(os.path.join(ROOT, "obligations.json")))
props = [json.loads(l) for l in open(os.path.join(ROOT, "properties.jsonl"))]
na_reasons = json.load(open(os.path.join(ROOT, "not_applicable.json"))) if os.path.exists(os.path.join(ROOT, "not_applicable.json")) else {}
checks, na = [], []
for p in props:
    pid = p["id"]
    if pid in ob:
        s = ob[pid]
        checks.append({
            "property_id": pid,
            "quick_cmd": f"./check {pid} --tier quick",
            "thorough_cmd": f"./check {pid} --tier thorough",
            "evidence_file": f"/verif/evidence/{pid}.json",
            "replay_cmd_template": f"./check {pid} --replay {{path}}",
            "engine": "lean-proof+correspondence",
            "level_claimed": {
                "category": "proof",
                "text": s.get("level_text", "Lean 4 theorems about the executable model (all inputs, no bound), tied to the code by a differential correspondence check against the compiled model with a decidable specification predicate as oracle."),
                "design_ref": s.get("design_ref", "DESIGN.md section 7, " + pid),
            },
            "level_note": s.get("level_note", "Trusted: Lean kernel; hand-written model tied by correspondence (differential testing, coverage in the evidence); lib-bdd and other dependencies modelled, not verified (DESIGN.md section 8)."),
            "technique": s.get("technique", "machine-checked proof in Lean 4 over a hand-written model + model/implementation correspondence check"),
        })
    else:
        na.append({"property_id": pid, "reason": na_reasons.get(pid, "check under construction in this round (model and harness exist, theorems not yet registered); see DESIGN.md section 7")})
m = {
    "version": 1,
    "setup_cmd": "./setup.sh",
    "hooks": {
        "guard": "cargo feature `verif`",
        "enable": "the harness crate /verif/harness depends on /repo with `default-features = false, features = [\"csv\", \"verif\"]`; C19 additionally builds the extension with `--features python,csv`",
        "baseline_off_cmd": "cd /repo && cargo test --workspace --no-fail-fast --offline",
        "source_commits": ["895c6cf"],
        "add_only": True,
    },
    "engines": [{
        "name": "lean-proof+correspondence",
        "path": "/verif/check",
        "serves_properties": [c["property_id"] for c in checks],
        "kind_free_text": "Lean 4 project /verif/lean (model, specs, proofs, compiled driver), Rust harness /verif/harness linking the crate built from /repo with feature verif, Python orchestrator /verif/check",
    }],
    "checks": checks,
    "not_applicable": na,
    "notes": "Every check rebuilds the harness from /repo's working tree, regenerates the reflected Lean tables, re-checks the property's Lean module and its axioms, and runs the correspondence. Known findings: /verif/KNOWN_FINDINGS.txt.",
}
json.dump(m, open(os.path.join(ROOT, "MANIFEST.json"), "w"), indent=1)
print(len(checks), "checks,", len(na), "not applicable")
