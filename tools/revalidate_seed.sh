#!/bin/bash
# re-run the checks against a seeded change after strengthening; appends to its validation.log
ID=$1; shift; NOTE=$1; shift
LOG=/verif/seeded/$ID/validation.log
echo "== strengthening after the miss" >> $LOG
echo "$NOTE" >> $LOG
git -C /repo apply /verif/seeded/$ID/patch.diff
for P in "$@"; do
  rm -f /verif/replays/$P-*
  echo "== ./check $P with the change applied to /repo" >> $LOG
  (cd /verif && ./check $P 2>&1 | grep -E "VIOLATION|KNOWN-FINDING|PROBLEM|: ok" | cut -c1-300) >> $LOG
  ls /verif/replays/$P-*-violation.txt >/dev/null 2>&1 && head -6 /verif/replays/$P-*-violation.txt | cut -c1-300 >> $LOG
done
git -C /repo checkout -- .
