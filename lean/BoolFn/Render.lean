import BoolFn.Csv
/-! `to_string_formatted`: the cell grid is `cells` (Csv.lean); the `tabled` layout engine is not
    modelled. `readCells` recovers the grid from a real rendering by position. -/
namespace BoolFn

inductive Style where
  | ascii | modern | markdown | empty
deriving Repr, DecidableEq, Inhabited

def trimStr (l : List Char) : String := String.ofList (trimBoth l)

/-- cells of a framed line: split on the vertical bar, drop the outer pieces, trim -/
def framedCells (bar : Char) (line : List Char) : List String :=
  let parts := splitOnChar bar line
  ((parts.drop 1).dropLast).map trimStr

/-- split on runs of white space -/
def wordsOf (line : List Char) : List String :=
  ((splitOnChar ' ' (line.map fun c => if isWs c then ' ' else c)).filter fun w => !w.isEmpty).map String.ofList

def everySecond : List β → List β
  | _ :: x :: rest => x :: everySecond rest
  | _ => []

def readCells (style : Style) (text : String) : List (List String) :=
  let lines := splitOnChar '\n' text.toList
  match style with
  | .ascii => (everySecond lines).map (framedCells '|')
  | .modern => (everySecond lines).map (framedCells '│')
  | .markdown => match lines with
    | h :: _ :: rest => (h :: rest).map (framedCells '|')
    | l => l.map (framedCells '|')
  | .empty => lines.map wordsOf

end BoolFn
