import BoolFn.Table
import BoolFn.Parser
/-! Model of `src/table/csv` (import, export) and of the cell logic of
    `src/table/display_formatted.rs`, for the **simple CSV dialect** (no `"` in the text): the `csv` crate then splits records on `\n`, skips empty lines, splits fields on `,`
    and (with `flexible(false)`) rejects a record whose length differs from the first one.
    The spelling tables come from `Generated.Tables`. -/
namespace BoolFn

def strOf (l : List Nat) : String := String.ofList (l.map Char.ofNat)

/-- `string_to_bool` (reflected) -/
def stringToBool (s : String) : Option Bool :=
  match Generated.boolStrings.find? (fun x => strOf x.1 == s) with
  | some x => if x.2 == 0 then some false else if x.2 == 1 then some true else none
  | none => none

/-- `ALL_BOOL_STRINGS.contains` (reflected) -/
def isBoolString (s : String) : Bool := Generated.boolStrings.any fun x => strOf x.1 == s

inductive Fmt where
  | number | character | word | capitalizedWord
deriving Repr, DecidableEq, Inhabited

def Fmt.name : Fmt → String
  | .number => "Number" | .character => "Character" | .word => "Word" | .capitalizedWord => "CapitalizedWord"

/-- `format_bool` (reflected) -/
def formatBool (f : Fmt) (b : Bool) : String :=
  match Generated.formatBool.find? (fun x => x.1 == f.name && x.2.1 == b) with
  | some x => strOf x.2.2
  | none => "?"

def resultHeader : String := strOf Generated.resultHeader

inductive CsvErr where
  | duplicateVariableName | unexpectedEof | recordDifferentSize | nonBooleanCell | noOutputColumn
  | mismatchedCount | duplicateRow | tooManyVariables | unequalLengths
deriving Repr, DecidableEq

/-- split on a character -/
def splitOnChar (c : Char) : List Char → List (List Char)
  | [] => [[]]
  | x :: xs =>
    if x == c then [] :: splitOnChar c xs
    else match splitOnChar c xs with
      | [] => [[x]]
      | g :: gs => (x :: g) :: gs

/-- text is in the modelled dialect: no quoting -/
def simpleDialect (s : List Char) : Bool := s.all fun c => c != '"'

/-- the `csv` reader's default record terminator (`Terminator::CRLF`) ends a record at `\n`, at a bare
    `\r` and at `\r\n` (the empty record in between is skipped like every empty line) -/
def crToLf (c : Char) : Char := if c == '\r' then '\n' else c

/-- the records the `csv` reader yields in the simple dialect -/
def csvRecords (s : List Char) : List (List String) :=
  ((splitOnChar '\n' (s.map crToLf)).filter fun l => !l.isEmpty).map fun l => (splitOnChar ',' l).map String.ofList

/-! the quoted dialect (RFC 4180 as the `csv` reader implements it, for texts whose quotes are all
    well-formed quoted fields): a field that starts with `"` runs to the next lone `"`, `""` stands for
    one quote, delimiters and line breaks inside count as text; the closing quote must be followed by
    a delimiter, a line end or the end of the text. Anything else is outside the model (`none`). -/
inductive QState where
  | start | unquoted | quoted | quoteSeen
deriving DecidableEq

/-- `(state, field so far (reversed), record so far (reversed), records so far (reversed))` -/
def csvQStep (st : QState × List Char × List String × List (List String)) (c : Char) :
    Option (QState × List Char × List String × List (List String)) :=
  let (q, f, r, rs) := st
  let endField : List String := String.ofList f.reverse :: r
  let isNl := c == '\n' || c == '\r'
  match q with
  | .start =>
    if c == '"' then some (.quoted, [], r, rs)
    else if c == ',' then some (.start, [], "" :: r, rs)
    else if isNl then
      -- an empty line is skipped; a record that ends right after a delimiter gets an empty last field
      if r.isEmpty then some (.start, [], [], rs) else some (.start, [], [], ("" :: r).reverse :: rs)
    else some (.unquoted, [c], r, rs)
  | .unquoted =>
    if c == '"' then none
    else if c == ',' then some (.start, [], endField, rs)
    else if isNl then some (.start, [], [], endField.reverse :: rs)
    else some (.unquoted, c :: f, r, rs)
  | .quoted =>
    if c == '"' then some (.quoteSeen, f, r, rs) else some (.quoted, c :: f, r, rs)
  | .quoteSeen =>
    if c == '"' then some (.quoted, '"' :: f, r, rs)
    else if c == ',' then some (.start, [], endField, rs)
    else if isNl then some (.start, [], [], endField.reverse :: rs)
    else none

def csvQRun : List Char → QState × List Char × List String × List (List String) →
    Option (QState × List Char × List String × List (List String))
  | [], st => some st
  | c :: cs, st => match csvQStep st c with
    | some st' => csvQRun cs st'
    | none => none

/-- the records of a text in the quoted dialect -/
def csvRecordsQ (s : List Char) : Option (List (List String)) :=
  match csvQRun s (.start, [], [], []) with
  | none => none
  | some (q, f, r, rs) =>
    match q with
    | .quoted => none
    | .start => some (if r.isEmpty then rs.reverse else (("" :: r).reverse :: rs).reverse)
    | _ => some (((String.ofList f.reverse :: r).reverse :: rs).reverse)

/-- the records the reader yields, in either modelled dialect -/
def csvRecordsAny (s : List Char) : Option (List (List String)) :=
  if simpleDialect s then some (csvRecords s) else csvRecordsQ s

/-- Rust `str::trim` -/
def trimBoth (s : List Char) : List Char := (trimWs (trimWs s).reverse).reverse

/-- `input.trim().split('\n').count()` -/
def fileRowCount (s : List Char) : Nat := (splitOnChar '\n' (trimBoth s)).length

def hasDup [DecidableEq α] : List α → Bool
  | [] => false
  | x :: xs => xs.contains x || hasDup xs

/-- `BTreeMap<String, usize>` of variable name → column, sorted by name -/
def sortByName (m : List (String × Nat)) : List (String × Nat) :=
  (sortDedup (m.map (·.1))).filterMap fun k => (m.find? fun p => p.1 == k)

def mapMOpt {β γ : Type} (f : β → Except CsvErr γ) : List β → Except CsvErr (List γ)
  | [] => .ok []
  | x :: xs => match f x with
    | .error e => .error e
    | .ok y => match mapMOpt f xs with
      | .error e => .error e
      | .ok ys => .ok (y :: ys)

/-- one input cell of a record, by column index -/
def parseCell (r : List String) (kc : String × Nat) : Except CsvErr (String × Bool) :=
  match r[kc.2]? with
  | none => .error .recordDifferentSize
  | some cell => match stringToBool cell with
    | none => .error .nonBooleanCell
    | some b => .ok (kc.1, b)

/-- `parse_output_column` -/
def parseOutput (r : List String) : Except CsvErr Bool :=
  match r.getLast? with
  | none => .error .noOutputColumn
  | some o => match stringToBool o with
    | none => .error .nonBooleanCell
    | some b => .ok b

/-- one data record → (row index, output) -/
def parseRecord (firstLen : Nat) (cols : List (String × Nat)) (r : List String) : Except CsvErr (Nat × Bool) :=
  if r.length ≠ firstLen then .error .unequalLengths
  else match mapMOpt (parseCell r) cols with
    | .error e => .error e
    | .ok valuation =>
      match parseOutput r with
      | .error e => .error e
      | .ok b => .ok (valuesToRowIndex (cols.map (·.1)) valuation false, b)

/-- the loop writing the outputs, with the duplicate-row check -/
def fillRows : List (Nat × Bool) → List Bool → List Bool → Except CsvErr (List Bool)
  | [], outs, filled =>
    -- the line count also counts blank lines, which the reader skips
    if filled.all id then .ok outs else .error .mismatchedCount
  | (i, b) :: rest, outs, filled =>
    if filled.getD i false then .error .duplicateRow
    else fillRows rest (outs.set i b) (filled.set i true)

/-- `is_header`: the last cell of the first record is not a Boolean spelling -/
def isHeaderRec (first : List String) : Bool := !(isBoolString (first.getLast?.getD ""))
/-- the variable names: the header cells (`inputs_from_header`), or `x_i` (`inputs_from_first_record`) -/
def namesOf (first : List String) : List String :=
  if isHeaderRec first then first.dropLast else (List.range (first.length - 1)).map fun i => s!"x_{i}"
/-- `BTreeMap` name → column index -/
def colsOf (first : List String) : List (String × Nat) := sortByName (namesOf first).zipIdx
/-- the records that carry data (after the `fix:` the first record is one of them when there is no header) -/
def dataRecsOf (first : List String) (rest : List (List String)) : List (List String) :=
  if isHeaderRec first then rest else first :: rest

/-- the record count `ensure_record_count` compares with `2^n` -/
def actualCount (count : Nat) (isHeader : Bool) : Nat := if isHeader then count - 1 else count

/-- the part of `from_csv_common` after the variables are determined -/
def importWith (count : Nat) (isHeader : Bool) (cols : List (String × Nat)) (firstLen : Nat)
    (dataRecs : List (List String)) : Except CsvErr (Table String) :=
  if cols.length ≥ 64 then .error .tooManyVariables
  else if actualCount count isHeader ≠ 2 ^ cols.length then .error .mismatchedCount
  else match mapMOpt (parseRecord firstLen cols) dataRecs with
    | .error e => .error e
    | .ok rows =>
      match fillRows rows (List.replicate (2 ^ cols.length) false) (List.replicate (2 ^ cols.length) false) with
      | .error e => .error e
      | .ok outs => .ok ⟨cols.map (·.1), outs⟩

/-- `from_csv_common(file_row_count, reader)` -/
def fromCsvCommon (count : Nat) (recs : List (List String)) : Except CsvErr (Table String) :=
  match recs with
  | [] => .error .unexpectedEof
  | first :: rest =>
    if first.isEmpty then .error .noOutputColumn
    else if isHeaderRec first && hasDup (namesOf first) then .error .duplicateVariableName
    else importWith count (isHeaderRec first) (colsOf first) first.length (dataRecsOf first rest)

/-- `from_csv_string` (and, after the `fix:`, `from_csv_file` on a file with these contents) -/
def fromCsvString (s : String) : Except CsvErr (Table String) :=
  if s.isEmpty then .ok ⟨[], []⟩
  else fromCsvCommon (fileRowCount s.toList) (csvRecords s.toList)

/-- `from_csv_string` on a text of either modelled dialect -/
def fromCsvStringAny (s : String) : Option (Except CsvErr (Table String)) :=
  if s.isEmpty then some (.ok ⟨[], []⟩)
  else (csvRecordsAny s.toList).map fun recs => fromCsvCommon (fileRowCount s.toList) recs

/-! export -/
def headerRow (t : Table String) : List String := t.inputs ++ [resultHeader]

def recordRow (t : Table String) (fi fo : Fmt) (rowIndex : Nat) (out : Bool) : List String :=
  (rowIndexToPoint rowIndex t.inputs.length).map (formatBool fi) ++ [formatBool fo out]

/-- the cell grid that `to_string_formatted` pushes into the `tabled` builder and that
    `to_csv_formatted` writes -/
def cells (t : Table String) (fi fo : Fmt) : List (List String) :=
  headerRow t :: t.outputs.zipIdx.map fun x => recordRow t fi fo x.2 x.1

/-- `to_csv_formatted(',', fi, fo)` for names without `,` `"` `\n` `\r` -/
def toCsvFormatted (t : Table String) (fi fo : Fmt) : String :=
  if t.inputs.isEmpty && t.outputs.isEmpty then ""
  else "\n".intercalate ((cells t fi fo).map fun row => ",".intercalate row)

end BoolFn
