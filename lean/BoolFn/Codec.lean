import BoolFn.Basic
/-! Row index ↔ Boolean point codec, faithful to `src/utils/row_index_to_bool_point.rs`,
    `src/table/utils/bool_point_to_row_index.rs`, `src/table/utils/valuation_to_row_index.rs`,
    and the domain iterator (`src/iterators/domain.rs`). -/
namespace BoolFn
variable {α : Type}

/-- `while row_index > 0 { push (row_index % 2 != 0); row_index /= 2 }` with explicit fuel. -/
def digitsLsb : Nat → Nat → List Bool
  | 0, _ => []
  | fuel + 1, i => if i = 0 then [] else (i % 2 != 0) :: digitsLsb fuel (i / 2)

/-- faithful `row_index_to_bool_point` -/
def rowIndexToPoint (i n : Nat) : List Bool :=
  let ds := digitsLsb i i
  (ds ++ List.replicate (n - ds.length) false).reverse

/-- faithful `boolean_point_to_row_index`: sum over reversed, enumerated digits -/
def pointToRowIndex (p : List Bool) : Nat :=
  (p.reverse.zipIdx.map (fun x => if x.1 then 2 ^ x.2 else 0)).sum

/-- most-significant-first value of a point (clean specification of the row index) -/
def valMsb : List Bool → Nat
  | [] => 0
  | b :: bs => (if b then 2 ^ bs.length else 0) + valMsb bs

/-- `DomainIterator::from_count(n)`: the points of rows `0 .. 2^n - 1` -/
def allPoints (n : Nat) : List (List Bool) := (List.range (2 ^ n)).map (fun i => rowIndexToPoint i n)

section
variable [DecidableEq α]
/-- `values_to_row_index_common` with `Some(default)`: Σ 2^(len-i-1) over the inputs that are true -/
def valuesToRowIndex (order : List α) (v : PVal α) (d : Bool) : Nat :=
  valMsb (order.map fun x => (PVal.get? v x).getD d)

/-- `values_to_row_index_checked`: the missing inputs are collected in *reverse* input order -/
def valuesToRowIndexChecked (order : List α) (v : PVal α) : Except (List α) Nat :=
  let missing := (order.reverse.filter fun x => (PVal.get? v x).isNone)
  if missing.isEmpty then .ok (valuesToRowIndex order v false) else .error missing

/-- `boolean_point_to_valuation` (`zip(variables, point)`; `None` on a length mismatch) -/
def pointToValuation (vars : List α) (p : List Bool) : Option (PVal α) :=
  if p.length ≠ vars.length then none else some (vars.zip p)
end

end BoolFn
