import BoolFn.Expr
import BoolFn.Proofs.Basic
/-! `generate_power_set`: every assignment of the (duplicate-free) names is represented. -/
namespace BoolFn
variable {α : Type} [DecidableEq α]

/-- a valuation agrees with an assignment on a list of names -/
def Agrees (v : PVal α) (ρ : α → Bool) (xs : List α) : Prop :=
  ∀ x ∈ xs, PVal.get? v x = some (ρ x)

theorem powerSetRev_complete (ρ : α → Bool) :
    (xs : List α) → xs.Nodup → (cur : PVal α) → (done : List α) → Agrees cur ρ done →
      (∀ x ∈ xs, x ∉ done) → ∃ v ∈ powerSetRev xs cur, Agrees v ρ (xs ++ done)
  | [], _, cur, done, hcur, _ => ⟨cur, by simp [powerSetRev], by simpa using hcur⟩
  | x :: xs, hnd, cur, done, hcur, hfresh => by
    have hnd' := (List.nodup_cons.mp hnd)
    have hx : x ∉ done := hfresh x (by simp)
    have hcur' : Agrees ((x, ρ x) :: cur) ρ (x :: done) := by
      intro y hy
      rcases List.mem_cons.mp hy with rfl | hy
      · exact PVal.get?_cons_self _ _ _
      · have : x ≠ y := fun h => hx (h ▸ hy)
        rw [PVal.get?_cons_ne _ _ _ _ this]; exact hcur y hy
    have hfresh' : ∀ y ∈ xs, y ∉ x :: done := by
      intro y hy hmem
      rcases List.mem_cons.mp hmem with rfl | hmem
      · exact hnd'.1 hy
      · exact hfresh y (by simp [hy]) hmem
    obtain ⟨v, hv, hag⟩ := powerSetRev_complete ρ xs hnd'.2 ((x, ρ x) :: cur) (x :: done) hcur' hfresh'
    refine ⟨v, ?_, ?_⟩
    · simp only [powerSetRev, List.mem_append]
      cases hρ : ρ x
      · right; simpa [hρ] using hv
      · left; simpa [hρ] using hv
    · intro y hy
      apply hag
      simp only [List.mem_append, List.mem_cons] at hy ⊢
      rcases hy with (rfl | hy) | hy
      · right; left; rfl
      · left; exact hy
      · right; right; exact hy

/-- every total assignment is represented in the power set, on the given names -/
theorem powerSet_complete (ρ : α → Bool) (lits : List α) (h : lits.Nodup) :
    ∃ v ∈ powerSet lits, Agrees v ρ lits := by
  obtain ⟨v, hv, hag⟩ := powerSetRev_complete ρ lits.reverse
    (by simpa [List.Nodup, List.pairwise_reverse, ne_comm] using h) [] []
    (by intro x hx; simp at hx) (by intro x _ hx; simp at hx)
  exact ⟨v, hv, fun x hx => hag x (by simp [hx])⟩

/-- a valuation that agrees with `ρ` on the names completes to a function equal to `ρ` there -/
theorem complete_of_agrees (v : PVal α) (ρ : α → Bool) (xs : List α) (h : Agrees v ρ xs) (d : Bool) :
    ∀ x ∈ xs, complete v d x = ρ x := by
  intro x hx; simp [complete, h x hx]

end BoolFn
