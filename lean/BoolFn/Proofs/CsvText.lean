import BoolFn.Proofs.Csv
import BoolFn.Proofs.ParserTotal
/-! The text layer of the CSV round trip in the simple dialect: the records the reader splits out of
    the exported text are the exported cell grid, and the line count the importer computes from the
    trimmed text is the number of exported lines. -/
namespace BoolFn

/-- join with a one-character separator -/
def joinWith (c : Char) : List (List Char) → List Char
  | [] => []
  | [l] => l
  | l :: l' :: ls => l ++ c :: joinWith c (l' :: ls)

theorem intercalate_eq_joinWith (c : Char) (ls : List (List Char)) : [c].intercalate ls = joinWith c ls := by
  match ls with
  | [] => rfl
  | [l] => simp [List.intercalate, joinWith]
  | l :: l' :: ls =>
    have ih := intercalate_eq_joinWith c (l' :: ls)
    simp only [List.intercalate, List.intersperse_cons₂, List.flatten_cons, joinWith] at ih ⊢
    rw [ih]; simp

theorem splitOnChar_no_sep (c : Char) (l : List Char) (h : c ∉ l) : splitOnChar c l = [l] := by
  induction l with
  | nil => rfl
  | cons x xs ih =>
    have hx : (x == c) = false := by
      simp only [beq_eq_false_iff_ne]; intro e; exact h (by simp [e])
    simp only [splitOnChar, hx, ih (fun hm => h (by simp [hm]))]
    rfl

theorem splitOnChar_append_sep (c : Char) (l rest : List Char) (h : c ∉ l) :
    splitOnChar c (l ++ c :: rest) = l :: splitOnChar c rest := by
  induction l with
  | nil => simp [splitOnChar]
  | cons x xs ih =>
    have hx : (x == c) = false := by
      simp only [beq_eq_false_iff_ne]; intro e; exact h (by simp [e])
    simp only [List.cons_append, splitOnChar, hx, ih (fun hm => h (by simp [hm]))]
    rfl

/-- splitting a joined list of separator-free pieces gives the pieces back -/
theorem splitOnChar_joinWith (c : Char) (ls : List (List Char)) (hne : ls ≠ []) (h : ∀ l ∈ ls, c ∉ l) :
    splitOnChar c (joinWith c ls) = ls := by
  match ls with
  | [] => exact absurd rfl hne
  | [l] => simp [joinWith, splitOnChar_no_sep c l (h l (by simp))]
  | l :: l' :: ls =>
    simp only [joinWith]
    rw [splitOnChar_append_sep c l _ (h l (by simp)),
      splitOnChar_joinWith c (l' :: ls) (by simp) (fun x hx => h x (by simp [hx]))]

theorem splitOnChar_length (c : Char) (l : List Char) : (splitOnChar c l).length = l.count c + 1 := by
  induction l with
  | nil => rfl
  | cons x xs ih =>
    simp only [splitOnChar]
    by_cases hx : x = c
    · subst hx; simp [ih]
    · have hx' : (x == c) = false := by simp [hx]
      simp only [hx', Bool.false_eq_true, if_false]
      cases hs : splitOnChar c xs with
      | nil => rw [hs] at ih; simp at ih
      | cons g gs =>
        rw [hs] at ih
        simp only [List.length_cons] at ih ⊢
        rw [List.count_cons_of_ne (by simpa using hx)]
        exact ih

/-! trimming removes white space only, and stops at the first other character -/
theorem trimWs_append_of_nonws (a b : List Char) (h : ∃ c ∈ a, isWs c = false) :
    trimWs (a ++ b) = trimWs a ++ b := by
  induction a with
  | nil => obtain ⟨c, hc, _⟩ := h; cases hc
  | cons x xs ih =>
    simp only [List.cons_append, trimWs]
    by_cases hx : isWs x = true
    · simp only [hx, if_true]
      apply ih
      obtain ⟨c, hc, hcw⟩ := h
      rcases List.mem_cons.mp hc with rfl | hc'
      · rw [hx] at hcw; cases hcw
      · exact ⟨c, hc', hcw⟩
    · simp [hx]

theorem count_trimWs_le (c : Char) (l : List Char) : (trimWs l).count c ≤ l.count c := by
  induction l with
  | nil => simp [trimWs]
  | cons x xs ih =>
    simp only [trimWs]
    split
    · exact Nat.le_trans ih (List.count_le_count_cons ..)
    · exact Nat.le_refl _

/-- trimming on the left does not remove a `c` when the text before the first `c` has a non-blank -/
theorem count_trimWs_eq (c : Char) (a b : List Char) (ha : c ∉ a) (h : ∃ d ∈ a, isWs d = false) :
    (trimWs (a ++ b)).count c = (a ++ b).count c := by
  rw [trimWs_append_of_nonws a b h, List.count_append, List.count_append]
  have h1 : a.count c = 0 := List.count_eq_zero.mpr ha
  have h2 : (trimWs a).count c = 0 := by
    have := count_trimWs_le c a; omega
  rw [h1, h2]


theorem count_trimBoth (c : Char) (a m b : List Char) (ha : c ∉ a) (hb : c ∉ b)
    (hwa : ∃ d ∈ a, isWs d = false) (hwb : ∃ d ∈ b, isWs d = false) :
    (trimBoth (a ++ m ++ b)).count c = (a ++ m ++ b).count c := by
  have h1 : trimWs (a ++ m ++ b) = trimWs a ++ m ++ b := by
    rw [List.append_assoc, trimWs_append_of_nonws a (m ++ b) hwa, List.append_assoc]
  have h2 : (trimWs a ++ m ++ b).reverse = b.reverse ++ (m.reverse ++ (trimWs a).reverse) := by
    simp [List.reverse_append]
  have hbr : c ∉ b.reverse := by simpa using hb
  have hwbr : ∃ d ∈ b.reverse, isWs d = false := by
    obtain ⟨d, hd, hdw⟩ := hwb; exact ⟨d, by simpa using hd, hdw⟩
  simp only [trimBoth, h1, h2, List.count_reverse]
  rw [count_trimWs_eq c b.reverse _ hbr hwbr]
  simp only [List.count_append, List.count_reverse]
  have e1 : a.count c = 0 := List.count_eq_zero.mpr ha
  have e2 : (trimWs a).count c = 0 := by have := count_trimWs_le c a; omega
  omega

theorem mem_joinWith (c : Char) (ls : List (List Char)) (x : Char) (h : x ∈ joinWith c ls) :
    x = c ∨ ∃ l ∈ ls, x ∈ l := by
  match ls with
  | [] => cases h
  | [l] => exact Or.inr ⟨l, by simp, h⟩
  | l :: l' :: ls =>
    simp only [joinWith, List.mem_append, List.mem_cons] at h
    rcases h with h | h | h
    · exact Or.inr ⟨l, by simp, h⟩
    · exact Or.inl h
    · rcases mem_joinWith c (l' :: ls) x h with h | ⟨l'', hl, hx⟩
      · exact Or.inl h
      · exact Or.inr ⟨l'', by simp [List.mem_cons] at hl ⊢; rcases hl with rfl | hl <;> simp [*], hx⟩

theorem joinWith_cons (c : Char) (l : List Char) (rest : List (List Char)) (h : rest ≠ []) :
    joinWith c (l :: rest) = l ++ c :: joinWith c rest := by
  cases rest with
  | nil => exact absurd rfl h
  | cons _ _ => rfl

theorem joinWith_snoc (c : Char) (init : List (List Char)) (ll : List Char) (h : init ≠ []) :
    joinWith c (init ++ [ll]) = joinWith c init ++ c :: ll := by
  match init with
  | [] => exact absurd rfl h
  | [l] => rfl
  | l :: l' :: ls =>
    have ih := joinWith_snoc c (l' :: ls) ll (by simp)
    simp only [List.cons_append, joinWith] at ih ⊢
    rw [ih]; simp

/-! ### cells, rows, lines of the export -/

/-- a cell of the simple dialect: no field separator, no record separator -/
@[reducible] def CellOK (s : String) : Prop := ∀ c ∈ s.toList, c ≠ ',' ∧ c ≠ '\n' ∧ c ≠ '\r'
/-- a cell that is not blank at all -/
@[reducible] def EndOK (s : String) : Prop := s.toList ≠ [] ∧ ∀ c ∈ s.toList, isWs c = false

theorem formatBool_ok (f : Fmt) (b : Bool) : CellOK (formatBool f b) ∧ EndOK (formatBool f b) := by
  cases f <;> cases b <;> exact ⟨by decide, by decide, by decide⟩

theorem resultHeader_ok : CellOK resultHeader ∧ EndOK resultHeader := ⟨by decide, by decide, by decide⟩

/-- a row whose last cell is a non-blank word -/
def RowOK (row : List String) : Prop :=
  ∃ pre last, row = pre ++ [last] ∧ (∀ s ∈ pre, CellOK s) ∧ CellOK last ∧ EndOK last

def lineOf (row : List String) : List Char := joinWith ',' (row.map String.toList)

theorem lineOf_facts (row : List String) (h : RowOK row) :
    '\n' ∉ lineOf row ∧ (∃ d ∈ lineOf row, isWs d = false) ∧ lineOf row ≠ [] ∧
    (splitOnChar ',' (lineOf row)).map String.ofList = row ∧ '\r' ∉ lineOf row := by
  obtain ⟨pre, last, rfl, hpre, hlast, hend⟩ := h
  have hcells : ∀ s ∈ pre ++ [last], CellOK s := by
    intro s hs
    rcases List.mem_append.mp hs with hs | hs
    · exact hpre s hs
    · simp only [List.mem_singleton] at hs; subst hs; exact hlast
  have hnl : '\n' ∉ lineOf (pre ++ [last]) := by
    intro hm
    rcases mem_joinWith ',' _ _ hm with h | ⟨l, hl, hx⟩
    · revert h; decide
    · obtain ⟨s, hs, rfl⟩ := List.mem_map.mp hl
      exact (hcells s hs '\n' hx).2.1 rfl
  have hcr : '\r' ∉ lineOf (pre ++ [last]) := by
    intro hm
    rcases mem_joinWith ',' _ _ hm with h | ⟨l, hl, hx⟩
    · revert h; decide
    · obtain ⟨s, hs, rfl⟩ := List.mem_map.mp hl
      exact (hcells s hs '\r' hx).2.2 rfl
  obtain ⟨d, hd⟩ := List.exists_mem_of_ne_nil _ hend.1
  have hdl : d ∈ lineOf (pre ++ [last]) := by
    simp only [lineOf, List.map_append, List.map_cons, List.map_nil]
    cases hp : pre.map String.toList with
    | nil => simpa [joinWith] using hd
    | cons x xs =>
      rw [joinWith_snoc ',' (x :: xs) _ (by simp)]
      simp [hd]
  refine ⟨hnl, ⟨d, hdl, hend.2 d hd⟩, List.ne_nil_of_mem hdl, ?_, hcr⟩
  rw [lineOf, splitOnChar_joinWith ',' _ (by simp)]
  · simp [List.map_map, Function.comp_def]
  · intro l hl hm
    obtain ⟨s, hs, rfl⟩ := List.mem_map.mp hl
    exact (hcells s hs ',' hm).1 rfl

/-- the text of a grid: lines joined by `\n`, cells by `,` -/
def textOf (rows : List (List String)) : List Char := joinWith '\n' (rows.map lineOf)

theorem intercalate_toList (rows : List (List String)) :
    ("\n".intercalate (rows.map fun row => ",".intercalate row)).toList = textOf rows := by
  rw [String.toList_intercalate]
  have h1 : "\n".toList = ['\n'] := rfl
  have h2 : ",".toList = [','] := rfl
  rw [h1, intercalate_eq_joinWith, textOf, List.map_map]
  congr 1
  apply List.map_congr_left
  intro row _
  simp only [Function.comp, String.toList_intercalate, h2, intercalate_eq_joinWith, lineOf]

/-- **the reader's records of the exported text are the exported grid** -/
theorem csvRecords_textOf (rows : List (List String)) (hne : rows ≠ []) (h : ∀ r ∈ rows, RowOK r) :
    csvRecords (textOf rows) = rows := by
  have hsplit : splitOnChar '\n' (textOf rows) = rows.map lineOf := by
    apply splitOnChar_joinWith _ _ (by simpa using hne)
    intro l hl
    obtain ⟨r, hr, rfl⟩ := List.mem_map.mp hl
    exact (lineOf_facts r (h r hr)).1
  -- the exported text contains no carriage return, so the reader sees exactly the `\n`-separated lines
  have hnocr : (textOf rows).map crToLf = textOf rows := by
    conv => rhs; rw [← List.map_id (textOf rows)]
    apply List.map_congr_left
    intro c hc
    have hne' : c ≠ '\r' := by
      intro e; subst e
      rcases mem_joinWith '\n' _ _ hc with h' | ⟨l, hl, hx⟩
      · revert h'; decide
      · obtain ⟨r, hr, rfl⟩ := List.mem_map.mp hl
        exact (lineOf_facts r (h r hr)).2.2.2.2 hx
    simp [crToLf, hne']
  simp only [csvRecords, hnocr, hsplit]
  have hfil : (rows.map lineOf).filter (fun l => !l.isEmpty) = rows.map lineOf := by
    rw [List.filter_eq_self]
    intro l hl
    obtain ⟨r, hr, rfl⟩ := List.mem_map.mp hl
    have := (lineOf_facts r (h r hr)).2.2.1
    simpa using this
  rw [hfil, List.map_map]
  conv => rhs; rw [← List.map_id rows]
  apply List.map_congr_left
  intro r hr
  exact (lineOf_facts r (h r hr)).2.2.2.1

/-- **the line count the importer derives from the trimmed text is the number of exported lines** -/
theorem fileRowCount_textOf (first : List String) (mid : List (List String)) (last : List String)
    (h : ∀ r ∈ first :: (mid ++ [last]), RowOK r) :
    fileRowCount (textOf (first :: (mid ++ [last]))) = mid.length + 2 := by
  have hf := lineOf_facts first (h first (by simp))
  have hl := lineOf_facts last (h last (by simp))
  -- the text is  firstLine ++ m ++ lastLine
  obtain ⟨m, hm⟩ : ∃ m, textOf (first :: (mid ++ [last])) = lineOf first ++ m ++ lineOf last := by
    simp only [textOf, List.map_cons, List.map_append, List.map_nil]
    rw [joinWith_cons _ _ _ (by simp)]
    cases hmid : mid.map lineOf with
    | nil => exact ⟨['\n'], by simp [joinWith]⟩
    | cons x xs =>
      rw [joinWith_snoc _ (x :: xs) _ (by simp)]
      exact ⟨'\n' :: joinWith '\n' (x :: xs) ++ ['\n'], by simp⟩
  have hlines : splitOnChar '\n' (textOf (first :: (mid ++ [last]))) = (first :: (mid ++ [last])).map lineOf := by
    apply splitOnChar_joinWith _ _ (by simp)
    intro l hl'
    obtain ⟨r, hr, rfl⟩ := List.mem_map.mp hl'
    exact (lineOf_facts r (h r hr)).1
  have hcount := congrArg List.length hlines
  rw [splitOnChar_length] at hcount
  rw [fileRowCount, splitOnChar_length, hm, count_trimBoth '\n' _ m _ hf.1 hl.1 hf.2.1 hl.2.1, ← hm]
  simp only [List.length_map, List.length_cons, List.length_append, List.length_nil] at hcount
  omega

end BoolFn
