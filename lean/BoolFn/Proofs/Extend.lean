import BoolFn.Proofs.Relabel
import BoolFn.Proofs.IndexOf
import BoolFn.Proofs.Basic
/-! `extend_bdd_variables`: lifting a diagram to a sorted superset of its inputs keeps the function.
    This is where the preconditions of the unsafe `set_num_vars` / `rename_variables` calls are
    discharged from the sortedness of the two input lists. -/
namespace BoolFn
variable {α : Type} [DecidableEq α]
set_option linter.unusedSectionVars false

/-- `mapM` over `Option` when every element maps to `some` -/
theorem mapM_option_some {β γ : Type} (f : β → Option γ) (g : β → γ) (l : List β) (h : ∀ x ∈ l, f x = some (g x)) :
    l.mapM f = some (l.map g) := by
  induction l with
  | nil => rfl
  | cons a as ih =>
    simp [List.mapM_cons, h a (by simp), ih (fun x hx => h x (by simp [hx]))]

/-- position of `x` in `ys` (0 when absent) -/
def posIn (ys : List α) (x : α) : Nat := (indexOf? x ys).getD 0

theorem posIn_spec (ys : List α) (x : α) (h : x ∈ ys) :
    indexOf? x ys = some (posIn ys x) ∧ posIn ys x < ys.length ∧ ys[posIn ys x]? = some x := by
  obtain ⟨i, hi⟩ := indexOf?_of_mem x ys h
  have := indexOf?_some_iff x ys i hi
  refine ⟨by simp [posIn, hi], by simpa [posIn, hi] using this.1, by simpa [posIn, hi] using this.2⟩

/-- the permutation entries the code builds for positions `k, k+1, …` of `xs` -/
def permEntries (ys : List α) (xs : List α) (k : Nat) : List (Nat × Nat) :=
  ((xs.zipIdx k).map fun x => (x.2, posIn ys x.1)).filter fun p => p.1 != p.2

theorem extendPerm_eq (xs ys : List α) (h : ∀ x ∈ xs, x ∈ ys) :
    Bdd.extendPerm xs ys = some (permEntries ys xs 0) := by
  simp only [Bdd.extendPerm, permEntries]
  rw [mapM_option_some _ (fun x => (x.2, posIn ys x.1))]
  · rfl
  · intro x hx
    have hm : x.1 ∈ xs := by
      have := List.mem_zipIdx hx
      rw [this.2.2]; exact List.getElem_mem _
    simp [(posIn_spec ys x.1 (h x.1 hm)).1]

/-- looking a position up in the permutation gives its target (moved or not) -/
theorem permLookup_permEntries (ys xs : List α) (k i : Nat) (hi : i < xs.length) :
    Inner.permLookup (permEntries ys xs k) (k + i) = posIn ys xs[i] := by
  induction xs generalizing k i with
  | nil => simp at hi
  | cons a as ih =>
    simp only [permEntries, List.zipIdx_cons, List.map_cons, List.filter_cons]
    cases i with
    | zero =>
      simp only [Nat.add_zero, List.getElem_cons_zero]
      by_cases hmov : (k != posIn ys a) = true
      · simp only [hmov, if_true, Inner.permLookup, List.find?, beq_self_eq_true]
      · have heq : k = posIn ys a := by simpa using hmov
        simp only [hmov, Bool.false_eq_true, if_false]
        -- no later entry has key k
        have : ((((as.zipIdx (k + 1)).map fun x => (x.2, posIn ys x.1)).filter fun p => p.1 != p.2).find?
            fun p => p.1 == k) = none := by
          apply List.find?_eq_none.mpr
          intro p hp
          have hp' := (List.mem_filter.mp hp).1
          obtain ⟨x, hx, rfl⟩ := List.mem_map.mp hp'
          have := List.mem_zipIdx hx
          simp; omega
        simp only [Inner.permLookup, this]
        exact heq
    | succ j =>
      have hj : j < as.length := by simpa using hi
      have hrec := ih (k + 1) j hj
      simp only [permEntries] at hrec
      have hkey : (k == k + (j + 1)) = false := by simp
      simp only [List.getElem_cons_succ]
      by_cases hmov : (k != posIn ys a) = true
      · simp only [hmov, if_true, Inner.permLookup, List.find?, hkey]
        have : k + (j + 1) = k + 1 + j := by omega
        rw [this]
        exact hrec
      · simp only [hmov, Bool.false_eq_true, if_false]
        have : k + (j + 1) = k + 1 + j := by omega
        rw [this]
        exact hrec

section
variable [Ord α] [Std.TransOrd α] [Std.LawfulEqOrd α]

/-- in a strictly sorted list, positions are ordered like values -/
theorem pos_lt_of_lt (ys : List α) (h : StrictSorted ys) (a c : Nat) (ha : a < ys.length) (hc : c < ys.length)
    (hlt : compare ys[a] ys[c] = .lt) : a < c := by
  rcases Nat.lt_or_ge a c with h1 | h1
  · exact h1
  · exfalso
    rcases Nat.lt_or_eq_of_le h1 with h2 | h2
    · have := List.pairwise_iff_getElem.mp h c a hc ha h2
      have h3 := Std.TransCmp.lt_trans hlt this
      rw [Std.ReflOrd.compare_self] at h3; cases h3
    · subst h2
      rw [Std.ReflOrd.compare_self] at hlt; cases hlt

/-- the position map of a sorted list into a sorted superset is strictly monotone and in range -/
theorem posIn_mono (xs ys : List α) (hx : StrictSorted xs) (hy : StrictSorted ys) (hsub : ∀ x ∈ xs, x ∈ ys)
    (i j : Nat) (hij : i < j) (hj : j < xs.length) :
    posIn ys (xs[i]'(by omega)) < posIn ys xs[j] := by
  have hi : i < xs.length := by omega
  have s1 := posIn_spec ys xs[i] (hsub _ (List.getElem_mem _))
  have s2 := posIn_spec ys xs[j] (hsub _ (List.getElem_mem _))
  apply pos_lt_of_lt ys hy _ _ s1.2.1 s2.2.1
  have e1 : ys[posIn ys xs[i]] = xs[i] := by
    have := s1.2.2; rw [List.getElem?_eq_getElem s1.2.1] at this; exact Option.some.inj this
  have e2 : ys[posIn ys xs[j]] = xs[j] := by
    have := s2.2.2; rw [List.getElem?_eq_getElem s2.2.1] at this; exact Option.some.inj this
  rw [e1, e2]
  exact List.pairwise_iff_getElem.mp hx i j hi hj hij

theorem posIn_ge (xs ys : List α) (hx : StrictSorted xs) (hy : StrictSorted ys) (hsub : ∀ x ∈ xs, x ∈ ys) :
    ∀ i (hi : i < xs.length), i ≤ posIn ys xs[i] := by
  intro i
  induction i with
  | zero => intro _; omega
  | succ k ih =>
    intro hi
    have := ih (by omega)
    have hm := posIn_mono xs ys hx hy hsub k (k + 1) (by omega) hi
    omega

/-- a sorted list contained in another sorted list is no longer -/
theorem length_le_of_sorted_subset (xs ys : List α) (hx : StrictSorted xs) (hy : StrictSorted ys)
    (hsub : ∀ x ∈ xs, x ∈ ys) : xs.length ≤ ys.length := by
  cases hl : xs.length with
  | zero => omega
  | succ k =>
    have hk : k < xs.length := by omega
    have h1 := posIn_ge xs ys hx hy hsub k hk
    have h2 := (posIn_spec ys xs[k] (hsub _ (List.getElem_mem _))).2.1
    omega

/-- **`extend_bdd_variables` keeps the function**: for a well-formed diagram and a strictly sorted
    superset of its inputs, the call does not panic, the result is well-formed over the new inputs and
    denotes the same function -/
theorem extend_den (b : Bdd α) (new : List α) (hb : b.WF) (hnew : StrictSorted new)
    (hsub : ∀ x ∈ b.inputs, x ∈ new) :
    ∃ b', Bdd.extend b new = .ok b' ∧ b'.WF ∧ b'.inputs = new ∧ ∀ ρ, b'.den ρ = b.den ρ := by
  unfold Bdd.extend
  by_cases heq : b.inputs = new
  · rw [if_pos heq]
    exact ⟨b, rfl, hb, heq, fun _ => rfl⟩
  · rw [if_neg heq]
    have hall : b.inputs.all new.contains = true := by
      rw [List.all_eq_true]; intro x hx; simpa using hsub x hx
    simp only [hall, Bool.not_true, Bool.false_eq_true, if_false]
    rw [extendPerm_eq b.inputs new hsub]
    simp only
    have hn : b.inner.n = b.inputs.length := hb.2.1
    have hle : b.inputs.length ≤ new.length := length_le_of_sorted_subset _ _ hb.1 hnew hsub
    have hsupp : ∀ i ∈ b.inner.supportSet, i < new.length := fun i hi => by
      have := Inner.supportSet_lt _ i hi; omega
    rw [Inner.setNumVars_ok _ _ hsupp]
    simp only [Outcome.bind]
    -- name the lifted diagram
    obtain ⟨i1, hi1⟩ : ∃ i1, i1 = Inner.ofFn new.length fun q => b.inner.eval (Inner.truncTo b.inner.n q) := ⟨_, rfl⟩
    rw [← hi1]
    have hi1n : i1.n = new.length := by rw [hi1]; rfl
    have hi1wf : i1.WF := by rw [hi1]; exact Inner.wf_ofFn _ _
    have hi1eval : ∀ q, q.length = new.length → i1.eval q = b.inner.eval (Inner.truncTo b.inner.n q) := by
      intro q hq; rw [hi1]; exact Inner.eval_ofFn _ _ _ hq
    have hsame : ∀ j, j ∈ i1.supportSet ↔ j ∈ b.inner.supportSet := by
      intro j; rw [hi1]; exact Inner.supportSet_setNumVars_up b.inner new.length (by omega) j
    -- the permutation sends position i of the old inputs to the position of that name in `new`
    have hlook : ∀ i (hi : i < b.inputs.length), Inner.permLookup (permEntries new b.inputs 0) i = posIn new b.inputs[i] := by
      intro i hi
      have := permLookup_permEntries new b.inputs 0 i hi
      simpa using this
    have hpt : ∀ ρ : α → Bool, ∀ i (hi : i < b.inputs.length),
        (new.map ρ).getD (posIn new b.inputs[i]) false = ρ b.inputs[i] := by
      intro ρ i hi
      have s := posIn_spec new b.inputs[i] (hsub _ (List.getElem_mem _))
      rw [List.getD_eq_getElem?_getD, List.getElem?_map, s.2.2]; rfl
    by_cases hemp : (permEntries new b.inputs 0).isEmpty = true
    · -- nothing moves
      simp only [hemp, if_true, Outcome.bind]
      refine ⟨⟨new, i1⟩, rfl, ⟨hnew, hi1n, hi1wf⟩, rfl, ?_⟩
      intro ρ
      simp only [Bdd.den]
      rw [hi1eval _ (by simp)]
      congr 1
      apply Inner.ext_getD _ _ (by simp [hn])
      intro i hi
      simp only [Inner.truncTo_length] at hi
      have hi' : i < b.inputs.length := by omega
      rw [Inner.truncTo_getD, if_pos hi]
      -- with an empty permutation every position is its own target
      have hnil : permEntries new b.inputs 0 = [] := by simpa using hemp
      have hpos : posIn new b.inputs[i] = i := by
        have := hlook i hi'
        rw [hnil] at this
        simpa [Inner.permLookup] using this.symm
      have e1 : (new.map ρ).getD i false = ρ b.inputs[i] := by
        have := hpt ρ i hi'
        rwa [hpos] at this
      rw [e1]
      simp [List.getD_eq_getElem?_getD, List.getElem?_eq_getElem hi']
    · simp only [hemp, Bool.false_eq_true, if_false]
      have hren := Inner.renameVariables_ok i1 hi1wf (permEntries new b.inputs 0)
        (by
          intro i hi
          have hib := (hsame i).mp hi
          have hlt : i < b.inputs.length := by have := Inner.supportSet_lt _ i hib; omega
          rw [hlook i hlt, hi1n]
          exact (posIn_spec new _ (hsub _ (List.getElem_mem _))).2.1)
        (by
          intro i j hij hj hi_s hj_s
          have hjb := (hsame j).mp hj_s
          have hjl : j < b.inputs.length := by have := Inner.supportSet_lt _ j hjb; omega
          rw [hlook i (by omega), hlook j hjl]
          exact posIn_mono _ _ hb.1 hnew hsub i j hij hjl)
      obtain ⟨c', hc', hcn, hcwf, hceval⟩ := hren
      rw [hc']
      simp only [Outcome.bind]
      refine ⟨⟨new, c'⟩, rfl, ⟨hnew, by rw [hcn, hi1n], hcwf⟩, rfl, ?_⟩
      intro ρ
      simp only [Bdd.den]
      rw [hceval _ (by simp [hi1n]), hi1eval _ (by simp [hi1n])]
      apply Inner.eval_congr_support b.inner _ _ (by simp) (by simp [hn])
      intro i hi
      have hil : i < b.inputs.length := by have := Inner.supportSet_lt _ i hi; omega
      rw [Inner.truncTo_getD, if_pos (by omega), Inner.gather_getD _ _ _ _ (by omega),
        if_pos ((hsame i).mpr hi), hlook i hil, hpt ρ i hil]
      simp [List.getD_eq_getElem?_getD, List.getElem?_map, List.getElem?_eq_getElem hil]
end

end BoolFn
