import BoolFn.Proofs.Quant
import BoolFn.Proofs.TableOps
/-! The elimination step of expressions and tables satisfies the hypotheses of `foldl_eq_nested`. -/
namespace BoolFn
variable {α : Type} [DecidableEq α]
set_option linter.unusedSectionVars false

namespace Expr
theorem quantStep_spec (op : Expr α → Expr α → Expr α) (bop : Bool → Bool → Bool)
    (hop : ∀ ρ a b, den ρ (op a b) = bop (den ρ a) (den ρ b)) (f : Expr α) (x : α) :
    True → True ∧ ∀ ρ, den ρ (quantStep op f x) = bop (den (upd ρ x false) f) (den (upd ρ x true) f) := by
  intro _
  refine ⟨trivial, fun ρ => ?_⟩
  rw [den_quantStep op bop hop, upd_eq_override, upd_eq_override]

/-- variables after eliminating a list of variables -/
theorem mem_vars_foldl_quantStep (op : Expr α → Expr α → Expr α)
    (hop : ∀ y a b, y ∈ vars (op a b) ↔ y ∈ vars a ∨ y ∈ vars b)
    (vs : List α) (e : Expr α) (y : α) :
    y ∈ vars (vs.foldl (quantStep op) e) ↔ y ∈ vars e ∧ y ∉ vs := by
  induction vs generalizing e with
  | nil => simp
  | cons x xs ih =>
    rw [List.foldl, ih, mem_vars_quantStep op hop]
    simp only [List.mem_cons, not_or]
    constructor
    · rintro ⟨⟨h1, h2⟩, h3⟩; exact ⟨h1, h2, h3⟩
    · rintro ⟨h1, h2, h3⟩; exact ⟨⟨h1, h2⟩, h3⟩
end Expr

namespace Table
variable [Ord α] [Std.TransOrd α] [Std.LawfulEqOrd α]

theorem quantStep_spec (bop : Bool → Bool → Bool) (f : Table α) (x : α) (hf : f.WF) :
    (quantStep bop f x).WF ∧
      ∀ ρ, den ρ (quantStep bop f x) = bop (den (upd ρ x false) f) (den (upd ρ x true) f) := by
  have h0 := restrict_den [(x, false)] f hf
  have h1 := restrict_den [(x, true)] f hf
  have hb := bitCommon_den bop _ _ h0.1 h1.1
  refine ⟨hb.1, fun ρ => ?_⟩
  rw [quantStep, hb.2.2, h0.2.2, h1.2.2, upd_eq_override, upd_eq_override]

theorem quantStep_inputs (bop : Bool → Bool → Bool) (f : Table α) (x : α) (hf : f.WF) :
    (quantStep bop f x).inputs = f.inputs.filter (fun y => y != x) := by
  have h0 := restrict_den [(x, false)] f hf
  have h1 := restrict_den [(x, true)] f hf
  have hb := bitCommon_den bop _ _ h0.1 h1.1
  have hf0 : (restrict [(x, false)] f).inputs = f.inputs.filter (fun y => y != x) := by
    rw [h0.2.1]; apply List.filter_congr; intro y _
    simp only [PVal.get?_cons, PVal.get?_nil]
    by_cases h : x = y
    · subst h; simp
    · have : ¬ (y = x) := fun e => h e.symm
      simp [h, this]
  have hf1 : (restrict [(x, true)] f).inputs = f.inputs.filter (fun y => y != x) := by
    rw [h1.2.1]; apply List.filter_congr; intro y _
    simp only [PVal.get?_cons, PVal.get?_nil]
    by_cases h : x = y
    · subst h; simp
    · have : ¬ (y = x) := fun e => h e.symm
      simp [h, this]
  rw [quantStep, hb.2.1, hf0, hf1]
  exact unionSorted_self _ (strictSorted_filter _ _ hf.1)

theorem foldl_quantStep_inputs (bop : Bool → Bool → Bool) (vs : List α) (f : Table α) (hf : f.WF) :
    (vs.foldl (quantStep bop) f).WF ∧
    (vs.foldl (quantStep bop) f).inputs = f.inputs.filter (fun y => !(vs.contains y)) := by
  induction vs generalizing f with
  | nil => exact ⟨hf, by simpa using (List.filter_eq_self.mpr (by simp)).symm⟩
  | cons x xs ih =>
    have hs := quantStep_spec bop f x hf
    have := ih (quantStep bop f x) hs.1
    refine ⟨this.1, ?_⟩
    rw [List.foldl, this.2, quantStep_inputs bop f x hf, List.filter_filter]
    apply List.filter_congr
    intro y _
    by_cases h : y = x
    · subst h; simp
    · have : ¬ (x = y) := fun e => h e.symm
      simp [h, bne]
end Table
end BoolFn
