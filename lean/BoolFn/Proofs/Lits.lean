import BoolFn.Proofs.Expr
import BoolFn.Spec.Recipe
/-! Wide nodes of literals: helper lemmas for the "many eliminated inputs" laws (C06). -/
namespace BoolFn
variable {α : Type} [DecidableEq α]

omit [DecidableEq α] in
theorem den_litE (ρ : α → Bool) (p : α × Bool) : (litE p).den ρ = (ρ p.1 == p.2) := by
  obtain ⟨x, b⟩ := p
  cases b <;> simp [litE, Expr.den]

omit [DecidableEq α] in
theorem denAny_lits (ρ : α → Bool) : ∀ l : List (α × Bool),
    Expr.denAny ρ (l.map litE) = l.any (fun p => ρ p.1 == p.2)
  | [] => rfl
  | p :: l => by simp [Expr.denAny, den_litE, denAny_lits ρ l]

omit [DecidableEq α] in
theorem denAll_lits (ρ : α → Bool) : ∀ l : List (α × Bool),
    Expr.denAll ρ (l.map litE) = l.all (fun p => ρ p.1 == p.2)
  | [] => rfl
  | p :: l => by simp [Expr.denAll, den_litE, denAll_lits ρ l]

/-- the assignment under which every literal of `l` has the value `b`; other names keep `ρ` -/
def force (l : List (α × Bool)) (b : Bool) (ρ : α → Bool) : α → Bool :=
  fun y => match l.find? (fun p => p.1 == y) with
    | some p => (p.2 == b)
    | none => ρ y

theorem force_outside (l : List (α × Bool)) (b : Bool) (ρ : α → Bool) (y : α)
    (h : ∀ p ∈ l, p.1 ≠ y) : force l b ρ y = ρ y := by
  unfold force
  have : l.find? (fun p => p.1 == y) = none := by
    apply List.find?_eq_none.mpr
    intro p hp
    simp [h p hp]
  rw [this]

theorem find_of_nodup : ∀ (l : List (α × Bool)), (l.map (·.1)).Nodup → ∀ p ∈ l,
    l.find? (fun q => q.1 == p.1) = some p
  | [], _, p, hp => by cases hp
  | q :: l, hnd, p, hp => by
    have hnd' : (q.1 :: l.map (·.1)).Nodup := by simpa only [List.map_cons] using hnd
    obtain ⟨hq, hl⟩ := List.nodup_cons.mp hnd'
    rcases List.mem_cons.mp hp with rfl | hm
    · simp [List.find?]
    · have hne : q.1 ≠ p.1 := by
        intro he
        exact hq (he ▸ List.mem_map.mpr ⟨p, hm, rfl⟩)
      have hb : (q.1 == p.1) = false := by simp [hne]
      rw [List.find?_cons, hb]
      exact find_of_nodup l hl p hm

/-- under `force l b ρ` every literal of `l` (distinct names) has the value `b` -/
theorem force_inside (l : List (α × Bool)) (hnd : (l.map (·.1)).Nodup) (b : Bool) (ρ : α → Bool)
    (p : α × Bool) (hp : p ∈ l) : (force l b ρ p.1 == p.2) = b := by
  unfold force
  rw [find_of_nodup l hnd p hp]
  obtain ⟨x, c⟩ := p
  cases b <;> cases c <;> rfl

end BoolFn
