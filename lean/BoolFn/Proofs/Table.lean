import BoolFn.Table
import BoolFn.Proofs.Expr
/-! Lemmas about the table model. -/
namespace BoolFn
namespace Table
variable {α : Type}
set_option linter.unusedSectionVars false

section
variable [DecidableEq α]

/-- table evaluation with a default is the table's denotation under the completed valuation -/
theorem eval_eq_den (v : PVal α) (d : Bool) (t : Table α) : eval v d t = den (complete v d) t := rfl

theorem valuesToRowIndex_lt (order : List α) (v : PVal α) (d : Bool) :
    valuesToRowIndex order v d < 2 ^ order.length := by
  simpa [valuesToRowIndex] using valMsb_lt (order.map fun x => (PVal.get? v x).getD d)

variable [Ord α]

/-- `self.outputs[index]` never indexes out of bounds on a well-formed table -/
theorem eval_inbounds (v : PVal α) (d : Bool) (t : Table α) (h : WF t) :
    valuesToRowIndex t.inputs v d < t.outputs.length := by
  rw [h.2]; exact valuesToRowIndex_lt _ _ _

theorem den_inbounds (ρ : α → Bool) (t : Table α) (h : WF t) :
    valMsb (t.inputs.map ρ) < t.outputs.length := by
  rw [h.2]; simpa using valMsb_lt (t.inputs.map ρ)

/-- the denotation of a table only looks at its inputs -/
theorem den_congr (ρ σ : α → Bool) (t : Table α) (h : ∀ x ∈ t.inputs, ρ x = σ x) : den ρ t = den σ t := by
  simp only [den]
  congr 2
  exact List.map_congr_left h
end

section
variable [Ord α] [Std.TransOrd α] [Std.LawfulEqOrd α]

theorem isWF_iff (t : Table α) : isWF t = true ↔ WF t := by
  simp [isWF, WF, isStrictSorted_iff]

theorem gatherLiterals_of_WF [DecidableEq α] (t : Table α) (h : WF t) : gatherLiterals t = t.inputs :=
  sortDedup_of_strictSorted _ h.1
end

end Table
end BoolFn
