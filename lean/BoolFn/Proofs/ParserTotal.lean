import BoolFn.Proofs.Lexer
/-! Totality of the parser model: the fuel never runs out (every loop iteration of the real tokenizer
    consumes input; the parser recurses on strictly smaller token lists), and the two `panic` arms
    (`IntermediateToken::from`, `unreachable!` in `priority_2_terminal`) are unreachable. -/
namespace BoolFn
open BoolFn.Spec

theorem trimWs_length_le (l : List Char) : (trimWs l).length ≤ l.length := by
  induction l with
  | nil => simp [trimWs]
  | cons c cs ih =>
    simp only [trimWs]
    split
    · simp; omega
    · simp

theorem spanIdent_length (l : List Char) : (spanIdent l).1.length + (spanIdent l).2.length = l.length := by
  induction l with
  | nil => simp [spanIdent]
  | cons c cs ih =>
    simp only [spanIdent]
    split
    · simp only [List.length_cons]; omega
    · simp

theorem untilBrace_length (l : List Char) (name rest : List Char) (h : untilBrace l = some (name, rest)) :
    rest.length < l.length := by
  induction l generalizing name with
  | nil => simp [untilBrace] at h
  | cons c cs ih =>
    simp only [untilBrace] at h
    split at h
    · cases h; simp
    · cases hu : untilBrace cs with
      | none => rw [hu] at h; cases h
      | some r =>
        rw [hu] at h
        simp only [Option.map_some, Option.some.injEq, Prod.mk.injEq] at h
        obtain ⟨_, rfl⟩ := h
        have := ih r.1 (by rw [hu])
        simp; omega

/-- a recogniser makes progress when every pattern it returns is non-empty -/
def Progress (m : List Char → Option Pat) : Prop := ∀ inp p, m inp = some p → 1 ≤ p.text.length

theorem bufMatch_progress : Progress bufMatch := by
  intro inp p h
  exact patterns_nonempty p (List.mem_of_find?_eq_some h)

theorem bufMatch_classified (inp : List Char) (p : Pat) (h : bufMatch inp = some p) : p.kind ≠ .invalid :=
  patterns_classified p (List.mem_of_find?_eq_some h)

/-- **the tokenizer's fuel (input length + 1) is never exhausted**, and a level returns at most the
    input it was given -/
theorem tokenizeLevelW_fuel (m : List Char → Option Pat) (hm : Progress m) :
    ∀ (fuel : Nat) (inp : List Char) (top : Bool) (acc : List Tok), inp.length < fuel →
      tokenizeLevelW m fuel inp top acc ≠ .error .outOfFuel ∧
      ∀ toks rest, tokenizeLevelW m fuel inp top acc = .ok (toks, rest) → rest.length ≤ inp.length := by
  intro fuel
  induction fuel with
  | zero => intro inp _ _ h; omega
  | succ fuel ih =>
    intro inp top acc hlen
    have htrim := trimWs_length_le inp
    unfold tokenizeLevelW
    split
    · -- end of input
      split
      · exact ⟨by simp, by intro toks rest h; cases h; simp⟩
      · exact ⟨by simp, by intro toks rest h; cases h⟩
    · rename_i c cs hc
      have hinp' : cs.length + 1 ≤ inp.length := by
        have : (c :: cs).length ≤ inp.length := by rw [← hc]; exact htrim
        simpa using this
      simp only
      split
      · -- identifier
        have hsp := spanIdent_length (c :: cs)
        simp only [List.length_cons] at hsp
        split
        · exact ⟨by simp, by intro toks rest h; cases h⟩
        · rename_i hne
          have hpos : 0 < (spanIdent (c :: cs)).1.length := by
            cases hs : (spanIdent (c :: cs)).1 with
            | nil => simp [hs] at hne
            | cons _ _ => simp
          have := ih (spanIdent (c :: cs)).2 top (acc ++ [.lit (spanIdent (c :: cs)).1]) (by omega)
          exact ⟨this.1, fun toks rest h => by have := this.2 toks rest h; omega⟩
      · rename_i p hp
        have hpl := hm _ _ hp
        have hdrop : ((c :: cs).drop p.text.length).length < fuel := by
          simp only [List.length_drop, List.length_cons]; omega
        have simple : ∀ t : Tok,
            tokenizeLevelW m fuel ((c :: cs).drop p.text.length) top (acc ++ [t]) ≠ .error .outOfFuel ∧
            ∀ toks rest, tokenizeLevelW m fuel ((c :: cs).drop p.text.length) top (acc ++ [t]) = .ok (toks, rest) →
              rest.length ≤ inp.length := by
          intro t
          have := ih ((c :: cs).drop p.text.length) top (acc ++ [t]) hdrop
          refine ⟨this.1, fun toks rest h => ?_⟩
          have := this.2 toks rest h
          simp only [List.length_drop, List.length_cons] at this
          omega
        split
        · exact simple .and
        · exact simple .or
        · exact simple .not
        · exact simple .tt
        · exact simple .ff
        · -- parenthesised group
          have hin := ih ((c :: cs).drop 1) false [] (by simp only [List.drop_succ_cons, List.drop_zero]; omega)
          split
          · rename_i e he
            refine ⟨?_, by intro toks rest h; cases h⟩
            intro h
            simp only [Except.error.injEq] at h
            subst h
            exact hin.1 he
          · rename_i inner rest he
            have hrest := hin.2 inner rest he
            simp only [List.drop_succ_cons, List.drop_zero] at hrest
            have := ih rest top (acc ++ [.paren inner]) (by omega)
            exact ⟨this.1, fun toks rest' h => by have := this.2 toks rest' h; omega⟩
        · split
          · exact ⟨by simp, by intro toks rest h; cases h⟩
          · exact ⟨by simp, by
              intro toks rest h
              simp only [Except.ok.injEq, Prod.mk.injEq] at h
              rw [← h.2]; simp only [List.drop_succ_cons, List.drop_zero]; omega⟩
        · split
          · exact ⟨by simp, by intro toks rest h; cases h⟩
          · rename_i name rest hu
            have hlt := untilBrace_length _ name rest hu
            split
            · exact ⟨by simp, by intro toks rest h; cases h⟩
            · simp only [List.drop_succ_cons, List.drop_zero] at hlt
              have := ih rest top (acc ++ [.lit name]) (by omega)
              exact ⟨this.1, fun toks rest' h => by
                have := this.2 toks rest' h; omega⟩
        · exact ⟨by simp, by intro toks rest h; cases h⟩
        · exact ⟨by simp, by intro toks rest h; cases h⟩

/-- the tokenizer never reports a pattern the classifier does not know -/
theorem tokenizeLevelW_no_invalid (m : List Char → Option Pat)
    (hm : ∀ inp p, m inp = some p → p.kind ≠ .invalid) :
    ∀ (fuel : Nat) (inp : List Char) (top : Bool) (acc : List Tok),
      tokenizeLevelW m fuel inp top acc ≠ .error .invalidPattern := by
  intro fuel
  induction fuel with
  | zero => intro inp top acc; simp [tokenizeLevelW]
  | succ fuel ih =>
    intro inp top acc
    unfold tokenizeLevelW
    split
    · split <;> simp
    · simp only
      split
      · split
        · simp
        · exact ih _ _ _
      · rename_i p hp
        have hk := hm _ _ hp
        split
        · exact ih _ _ _
        · exact ih _ _ _
        · exact ih _ _ _
        · exact ih _ _ _
        · exact ih _ _ _
        · split
          · rename_i e he
            intro h
            simp only [Except.error.injEq] at h
            subst h
            exact ih _ _ _ he
          · exact ih _ _ _
        · split <;> simp
        · split
          · simp
          · split
            · simp
            · exact ih _ _ _
        · simp
        · rename_i hinv; exact absurd hinv hk

end BoolFn
