import BoolFn.Spec.Derives
import BoolFn.Proofs.ParseTokens
/-! `parse_tokens` accepts exactly the sentences of the stratified grammar and returns the
    derivation's tree: NOT binds tighter than AND, AND tighter than OR, groups are units. -/
namespace BoolFn
open BoolFn.Spec

/-! ### how `slice::split` cuts a token list -/

theorem splitOnTok_noSep (sep : Tok → Bool) (g : List Tok) (h : ∀ t ∈ g, sep t = false) :
    splitOnTok sep g = [g] := by
  induction g with
  | nil => rfl
  | cons t ts ih =>
    simp only [splitOnTok, h t (by simp), Bool.false_eq_true, if_false,
      ih (fun x hx => h x (by simp [hx]))]

theorem splitOnTok_append (sep : Tok → Bool) (g : List Tok) (s : Tok) (rest : List Tok)
    (h : ∀ t ∈ g, sep t = false) (hs : sep s = true) :
    splitOnTok sep (g ++ s :: rest) = g :: splitOnTok sep rest := by
  induction g with
  | nil => simp [splitOnTok, hs]
  | cons t ts ih =>
    simp only [List.cons_append, splitOnTok, h t (by simp), Bool.false_eq_true, if_false,
      ih (fun x hx => h x (by simp [hx]))]

/-- either no separator occurs, or the list splits at its first separator -/
theorem splitOnTok_cases (sep : Tok → Bool) (ts : List Tok) :
    (∀ t ∈ ts, sep t = false) ∨
    ∃ g s rest, ts = g ++ s :: rest ∧ sep s = true ∧ (∀ t ∈ g, sep t = false) := by
  induction ts with
  | nil => left; simp
  | cons t ts ih =>
    by_cases ht : sep t = true
    · right; exact ⟨[], t, ts, rfl, ht, by simp⟩
    · have ht' : sep t = false := by simpa using ht
      rcases ih with h | ⟨g, s, rest, rfl, hs, hg⟩
      · left; intro x hx; rcases List.mem_cons.mp hx with rfl | hx
        · exact ht'
        · exact h x hx
      · right
        refine ⟨t :: g, s, rest, rfl, hs, ?_⟩
        intro x hx; rcases List.mem_cons.mp hx with rfl | hx
        · exact ht'
        · exact hg x hx

theorem isAnd_iff (t : Tok) : Tok.isAnd t = true ↔ t = .and := by cases t <;> simp [Tok.isAnd]
theorem isOr_iff (t : Tok) : Tok.isOr t = true ↔ t = .or := by cases t <;> simp [Tok.isOr]

theorem mapMExcept_cons_ok {ε β γ : Type} (f : β → Except ε γ) (a : β) (as : List β) (res : List γ)
    (h : mapMExcept f (a :: as) = .ok res) :
    ∃ y ys, f a = .ok y ∧ mapMExcept f as = .ok ys ∧ res = y :: ys := by
  simp only [mapMExcept] at h
  split at h
  · cases h
  · rename_i y hy
    split at h
    · cases h
    · rename_i ys hys
      cases h
      exact ⟨y, ys, hy, hys, rfl⟩

/-! ### soundness: what the parser returns is derivable -/

/-- rebuilding an `and`-separated sentence from the parsed groups -/
theorem andL_of_groups (F : List Tok → Except ParseErr (Expr String))
    (hF : ∀ g e, F g = .ok e → DTerm g e) :
    (ts : List Tok) → (es : List (Expr String)) →
      mapMExcept F (splitOnTok Tok.isAnd ts) = .ok es → DAndL ts es
  | ts, es, h => by
    rcases splitOnTok_cases Tok.isAnd ts with hno | ⟨g, s, rest, rfl, hs, hg⟩
    · rw [splitOnTok_noSep _ _ hno] at h
      obtain ⟨y, ys, hy, hys, rfl⟩ := mapMExcept_cons_ok _ _ _ _ h
      simp only [mapMExcept] at hys; cases hys
      exact .one (hF _ _ hy)
    · rw [splitOnTok_append _ _ _ _ hg hs] at h
      obtain ⟨y, ys, hy, hys, rfl⟩ := mapMExcept_cons_ok _ _ _ _ h
      have hs' := (isAnd_iff s).mp hs
      subst hs'
      exact .cons (hF _ _ hy) (andL_of_groups F hF rest ys hys)
  termination_by ts _ _ => ts.length
  decreasing_by all_goals (subst_vars; simp only [List.length_append, List.length_cons]; omega)

theorem orL_of_groups (F : List Tok → Except ParseErr (Expr String))
    (hF : ∀ g e, F g = .ok e → ∃ es, DAndL g es ∧ e = collapse .and es) :
    (ts : List Tok) → (ds : List (Expr String)) →
      mapMExcept F (splitOnTok Tok.isOr ts) = .ok ds → DOrL ts ds
  | ts, ds, h => by
    rcases splitOnTok_cases Tok.isOr ts with hno | ⟨g, s, rest, rfl, hs, hg⟩
    · rw [splitOnTok_noSep _ _ hno] at h
      obtain ⟨y, ys, hy, hys, rfl⟩ := mapMExcept_cons_ok _ _ _ _ h
      simp only [mapMExcept] at hys; cases hys
      obtain ⟨es, hes, rfl⟩ := hF _ _ hy
      exact .one hes
    · rw [splitOnTok_append _ _ _ _ hg hs] at h
      obtain ⟨y, ys, hy, hys, rfl⟩ := mapMExcept_cons_ok _ _ _ _ h
      have hs' := (isOr_iff s).mp hs
      subst hs'
      obtain ⟨es, hes, rfl⟩ := hF _ _ hy
      exact .cons hes (orL_of_groups F hF rest ys hys)
  termination_by ts _ _ => ts.length
  decreasing_by all_goals (subst_vars; simp only [List.length_append, List.length_cons]; omega)

theorem parse_sound (fuel : Nat) :
    (∀ ts e, parseTokensF fuel ts = .ok e → DOr ts e) ∧
    (∀ ts e, parseAndF fuel ts = .ok e → ∃ es, DAndL ts es ∧ e = collapse .and es) ∧
    (∀ ts e, parseTermF fuel ts = .ok e → DTerm ts e) := by
  induction fuel with
  | zero => simp [parseTokensF, parseAndF, parseTermF]
  | succ fuel ih =>
    obtain ⟨ihO, ihA, ihT⟩ := ih
    refine ⟨?_, ?_, ?_⟩
    · intro ts e h
      simp only [parseTokensF] at h
      cases hm : mapMExcept (parseAndF fuel) (splitOnTok Tok.isOr ts) with
      | error er => rw [hm] at h; cases h
      | ok ds =>
        rw [hm] at h
        have hd := orL_of_groups _ ihA ts ds hm
        rcases ds with _ | ⟨x, _ | ⟨y, zs⟩⟩
        · simp at h
        · simp only [Except.ok.injEq] at h; subst h; exact DOr.mk hd
        · simp only [Except.ok.injEq] at h; subst h; exact DOr.mk hd
    · intro ts e h
      simp only [parseAndF] at h
      cases hm : mapMExcept (parseTermF fuel) (splitOnTok Tok.isAnd ts) with
      | error er => rw [hm] at h; cases h
      | ok es =>
        rw [hm] at h
        have hd := andL_of_groups _ ihT ts es hm
        rcases es with _ | ⟨x, _ | ⟨y, zs⟩⟩
        · simp at h
        · simp only [Except.ok.injEq] at h; subst h; exact ⟨_, hd, rfl⟩
        · simp only [Except.ok.injEq] at h; subst h; exact ⟨_, hd, rfl⟩
    · intro ts e h
      match ts with
      | [] => simp [parseTermF] at h
      | .not :: rest =>
        simp only [parseTermF] at h
        cases hr : parseTermF fuel rest with
        | error er => rw [hr] at h; cases h
        | ok e' => rw [hr] at h; cases h; exact .not (ihT rest e' hr)
      | [.tt] => simp only [parseTermF] at h; cases h; exact .tt
      | [.ff] => simp only [parseTermF] at h; cases h; exact .ff
      | [.lit n] => simp only [parseTermF] at h; cases h; exact .lit n
      | [.paren inner] => simp only [parseTermF] at h; exact .paren (ihO inner e h)
      | [.and] => simp [parseTermF] at h
      | [.or] => simp [parseTermF] at h
      | .and :: _ :: _ => simp [parseTermF] at h
      | .or :: _ :: _ => simp [parseTermF] at h
      | .tt :: _ :: _ => simp [parseTermF] at h
      | .ff :: _ :: _ => simp [parseTermF] at h
      | .lit _ :: _ :: _ => simp [parseTermF] at h
      | .paren _ :: _ :: _ => simp [parseTermF] at h

end BoolFn

namespace BoolFn
open BoolFn.Spec

/-! ### completeness: every sentence of the grammar is accepted with its tree -/

mutual
theorem dterm_noSep : {g : List Tok} → {e : Expr String} → DTerm g e →
    ∀ t ∈ g, Tok.isAnd t = false ∧ Tok.isOr t = false
  | _, _, .tt => by simp [Tok.isAnd, Tok.isOr]
  | _, _, .ff => by simp [Tok.isAnd, Tok.isOr]
  | _, _, .lit _ => by simp [Tok.isAnd, Tok.isOr]
  | _, _, .not h => by
    intro t ht
    rcases List.mem_cons.mp ht with rfl | ht
    · simp [Tok.isAnd, Tok.isOr]
    · exact dterm_noSep h t ht
  | _, _, .paren _ => by simp [Tok.isAnd, Tok.isOr]
end

theorem dandL_noOr : {g : List Tok} → {es : List (Expr String)} → DAndL g es → ∀ t ∈ g, Tok.isOr t = false
  | _, _, .one h => fun t ht => (dterm_noSep h t ht).2
  | _, _, .cons h hs => by
    intro t ht
    rcases List.mem_append.mp ht with ht | ht
    · exact (dterm_noSep h t ht).2
    · rcases List.mem_cons.mp ht with rfl | ht
      · rfl
      · exact dandL_noOr hs t ht

theorem dandL_ne_nil : {g : List Tok} → {es : List (Expr String)} → DAndL g es → es ≠ []
  | _, _, .one _ => by simp
  | _, _, .cons _ _ => by simp

theorem dorL_ne_nil : {g : List Tok} → {ds : List (Expr String)} → DOrL g ds → ds ≠ []
  | _, _, .one _ => by simp
  | _, _, .cons _ _ => by simp

theorem collapse_eq_match (mk : List (Expr String) → Expr String) (es : List (Expr String)) (h : es ≠ []) :
    (match es with
      | [] => (Except.error ParseErr.emptySideOfOperator : Except ParseErr (Expr String))
      | [x] => .ok x
      | xs => .ok (mk xs)) = .ok (collapse mk es) := by
  match es with
  | [] => exact absurd rfl h
  | [x] => rfl
  | x :: y :: zs => rfl

theorem parseAndF_of_groups (f : Nat) (g : List Tok) (es : List (Expr String))
    (h : mapMExcept (parseTermF f) (splitOnTok Tok.isAnd g) = .ok es) (hne : es ≠ []) :
    parseAndF (f + 1) g = .ok (collapse .and es) := by
  simp only [parseAndF]
  rw [h]
  rcases es with _ | ⟨x, _ | ⟨y, zs⟩⟩
  · exact absurd rfl hne
  · rfl
  · rfl

theorem parseTokensF_of_groups (f : Nat) (g : List Tok) (ds : List (Expr String))
    (h : mapMExcept (parseAndF f) (splitOnTok Tok.isOr g) = .ok ds) (hne : ds ≠ []) :
    parseTokensF (f + 1) g = .ok (collapse .or ds) := by
  simp only [parseTokensF]
  rw [h]
  rcases ds with _ | ⟨x, _ | ⟨y, zs⟩⟩
  · exact absurd rfl hne
  · rfl
  · rfl

mutual
theorem dterm_complete : {g : List Tok} → {e : Expr String} → DTerm g e →
    ∀ f, 3 * toksSize g + 1 ≤ f → parseTermF f g = .ok e
  | _, _, .tt => by intro f hf; cases f with | zero => omega | succ f => rfl
  | _, _, .ff => by intro f hf; cases f with | zero => omega | succ f => rfl
  | _, _, .lit _ => by intro f hf; cases f with | zero => omega | succ f => rfl
  | _, _, .not h => by
    intro f hf
    cases f with
    | zero => omega
    | succ f =>
      simp only [parseTermF]
      rw [dterm_complete h f (by simp only [toksSize, tokSize] at hf; omega)]
  | _, _, .paren h => by
    intro f hf
    cases f with
    | zero => omega
    | succ f =>
      simp only [parseTermF]
      exact dor_complete h f (by simp only [toksSize, tokSize] at hf; omega)
theorem dandL_complete : {g : List Tok} → {es : List (Expr String)} → DAndL g es →
    ∀ f, 3 * toksSize g + 1 ≤ f → mapMExcept (parseTermF f) (splitOnTok Tok.isAnd g) = .ok es
  | _, _, .one h => by
    intro f hf
    rw [splitOnTok_noSep _ _ (fun t ht => (dterm_noSep h t ht).1)]
    simp only [mapMExcept, dterm_complete h f hf]
  | _, _, .cons (g := g) (gs := gs) h hs => by
    intro f hf
    have hsz : toksSize (g ++ Tok.and :: gs) = toksSize g + 1 + toksSize gs := by
      rw [toksSize_append]; simp [toksSize, tokSize]; omega
    rw [splitOnTok_append _ _ _ _ (fun t ht => (dterm_noSep h t ht).1) rfl]
    simp only [mapMExcept, dterm_complete h f (by omega), dandL_complete hs f (by omega)]
theorem dorL_complete : {g : List Tok} → {ds : List (Expr String)} → DOrL g ds →
    ∀ f, 3 * toksSize g + 1 ≤ f → mapMExcept (parseAndF (f + 1)) (splitOnTok Tok.isOr g) = .ok ds
  | _, _, .one h => by
    intro f hf
    rw [splitOnTok_noSep _ _ (dandL_noOr h)]
    simp only [mapMExcept, parseAndF_of_groups f _ _ (dandL_complete h f hf) (dandL_ne_nil h)]
  | _, _, .cons (g := g) (gs := gs) h hs => by
    intro f hf
    have hsz : toksSize (g ++ Tok.or :: gs) = toksSize g + 1 + toksSize gs := by
      rw [toksSize_append]; simp [toksSize, tokSize]; omega
    rw [splitOnTok_append _ _ _ _ (dandL_noOr h) rfl]
    simp only [mapMExcept, parseAndF_of_groups f _ _ (dandL_complete h f (by omega)) (dandL_ne_nil h),
      dorL_complete hs f (by omega)]
theorem dor_complete : {g : List Tok} → {e : Expr String} → DOr g e →
    ∀ f, 3 * toksSize g + 3 ≤ f → parseTokensF f g = .ok e
  | _, _, .mk h => by
    intro f hf
    match f, hf with
    | f + 2, hf =>
      exact parseTokensF_of_groups (f + 1) _ _ (dorL_complete h f (by omega)) (dorL_ne_nil h)
end

/-- **the parser accepts exactly the grammar**, with the derivation's tree -/
theorem parseTokens_iff (ts : List Tok) (e : Expr String) : parseTokens ts = .ok e ↔ DOr ts e :=
  ⟨fun h => (parse_sound _).1 ts e h, fun h => dor_complete h _ (Nat.le_refl _)⟩

end BoolFn
