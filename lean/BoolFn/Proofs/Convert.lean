import BoolFn.Convert
import BoolFn.Proofs.PowerSet
import BoolFn.Proofs.Table
import BoolFn.Proofs.Inner
import BoolFn.Proofs.IndexOf
/-! Lemmas for C01: the conversions preserve the function. -/
namespace BoolFn
variable {α : Type} [DecidableEq α]
set_option linter.unusedSectionVars false

/-! ### expression → table -/

theorem foldl_set_length {β : Type} (f : β → Nat) (g : β → Bool) (opts : List β) (init : List Bool) :
    (opts.foldl (fun out opt => out.set (f opt) (g opt)) init).length = init.length := by
  induction opts generalizing init with
  | nil => rfl
  | cons o os ih => simp [List.foldl, ih]

/-- if every write to index `i` writes `b`, and some write happens there (or the initial value is
    already `b`), the final value is `b` -/
theorem foldl_set_get {β : Type} (f : β → Nat) (g : β → Bool) (i : Nat) (b : Bool) :
    (opts : List β) → (init : List Bool) → i < init.length →
    (∀ o ∈ opts, f o = i → g o = b) → ((∃ o ∈ opts, f o = i) ∨ init[i]? = some b) →
    (opts.foldl (fun out opt => out.set (f opt) (g opt)) init)[i]? = some b
  | [], init, _, _, h => by
    rcases h with ⟨o, ho, _⟩ | h
    · simp at ho
    · simpa using h
  | o :: os, init, hi, hall, h => by
    simp only [List.foldl]
    apply foldl_set_get f g i b os (init.set (f o) (g o)) (by simpa using hi)
      (fun o' ho' => hall o' (by simp [ho']))
    by_cases hfo : f o = i
    · right
      have := hall o (by simp) hfo
      simp [hfo, this, hi]
    · rcases h with ⟨o', ho', hf'⟩ | h
      · rcases List.mem_cons.mp ho' with rfl | ho'
        · exact absurd hf' hfo
        · left; exact ⟨o', ho', hf'⟩
      · right
        rw [List.getElem?_set_ne hfo]; exact h

theorem agrees_map (v : PVal α) (ρ : α → Bool) (xs : List α) (h : Agrees v ρ xs) (d : Bool) :
    (xs.map fun x => (PVal.get? v x).getD d) = xs.map ρ := by
  apply List.map_congr_left
  intro x hx
  simp [h x hx]

/-- **E→T**: the table built from an expression over a duplicate-free literal list covering its
    variables denotes the same function, has `2^n` outputs, and the row lookup is in bounds. -/
theorem exprToTableWith_den (lits : List α) (hnd : lits.Nodup) (e : Expr α)
    (hcov : ∀ x ∈ e.vars, x ∈ lits) (ρ : α → Bool) :
    (exprToTableWith lits e).den ρ = e.den ρ ∧
    (exprToTableWith lits e).outputs.length = 2 ^ lits.length := by
  have hlen : (exprToTableWith lits e).outputs.length = 2 ^ lits.length := by
    simp [exprToTableWith, foldl_set_length]
  refine ⟨?_, hlen⟩
  have hget : (exprToTableWith lits e).outputs[valMsb (lits.map ρ)]? = some (e.den ρ) := by
    simp only [exprToTableWith]
    obtain ⟨v, hv, hag⟩ := powerSet_complete ρ lits hnd
    apply foldl_set_get
    · simpa using (by simpa using valMsb_lt (lits.map ρ) : valMsb (lits.map ρ) < 2 ^ lits.length)
    · intro o _ hidx
      rw [Expr.eval_eq_den]
      apply Expr.den_congr
      intro x hx
      have hxl := hcov x hx
      simp only [valuesToRowIndex] at hidx
      have hpts := valMsb_inj _ _ (by simp) hidx
      have := List.map_inj_left.mp hpts x hxl
      simpa [complete] using this
    · left
      refine ⟨v, hv, ?_⟩
      simp only [valuesToRowIndex]
      rw [agrees_map v ρ lits hag]
  simp only [Table.den, exprToTableWith] at hget ⊢
  rw [List.getD_eq_getElem?_getD, hget]; rfl

/-! ### table → expression (minterm DNF) -/

/-- the minterm of row `r` is true exactly at the assignments whose point is row `r` -/
theorem denAll_minterm (ρ : α → Bool) (ins : List α) (p : List Bool) (hl : p.length = ins.length) :
    Expr.denAll ρ ((ins.zip p).map fun c => if c.2 then Expr.lit c.1 else Expr.not (Expr.lit c.1)) =
      decide (ins.map ρ = p) := by
  induction ins generalizing p with
  | nil =>
    cases p with
    | nil => simp [Expr.denAll]
    | cons _ _ => simp at hl
  | cons a as ih =>
    cases p with
    | nil => simp at hl
    | cons b bs =>
      simp only [List.zip_cons_cons, List.map_cons, Expr.denAll, List.cons.injEq]
      rw [ih bs (by simpa using hl)]
      cases b <;> cases hρ : ρ a <;> simp [Expr.den, hρ]

theorem denAny_minterms (ρ : α → Bool) (ins : List α) (rows : List Nat)
    (hrows : ∀ r ∈ rows, r < 2 ^ ins.length) :
    Expr.denAny ρ (rows.map fun r =>
      Expr.and ((ins.zip (rowIndexToPoint r ins.length)).map fun c =>
        if c.2 then Expr.lit c.1 else Expr.not (Expr.lit c.1))) =
      rows.contains (valMsb (ins.map ρ)) := by
  induction rows with
  | nil => simp [Expr.denAny]
  | cons r rs ih =>
    have hr := hrows r (by simp)
    simp only [List.map_cons, Expr.denAny, Expr.den, List.contains_cons]
    rw [ih (fun r' hr' => hrows r' (by simp [hr'])),
      denAll_minterm ρ ins _ (rowIndexToPoint_length r _ hr)]
    congr 1
    -- ins.map ρ = point of row r  ↔  valMsb (ins.map ρ) = r
    have : (ins.map ρ = rowIndexToPoint r ins.length) ↔ (valMsb (ins.map ρ) = r) := by
      constructor
      · intro h; rw [h, valMsb_rowIndexToPoint]
      · intro h
        apply valMsb_inj
        · simp [rowIndexToPoint_length r _ hr]
        · rw [h, valMsb_rowIndexToPoint]
    by_cases h : valMsb (ins.map ρ) = r
    · simp [this.mpr h, valMsb_rowIndexToPoint]
    · have h' : ¬ (ins.map ρ = rowIndexToPoint r ins.length) := fun hh => h (this.mp hh)
      simp [h', h]

end BoolFn

namespace BoolFn
variable {α : Type} [DecidableEq α]
set_option linter.unusedSectionVars false

/-- indices of the `true` outputs -/
theorem mem_trueRows (outs : List Bool) (k : Nat) :
    k ∈ (outs.zipIdx.filter (·.1)).map (·.2) ↔ outs[k]? = some true := by
  simp only [List.mem_map, List.mem_filter]
  constructor
  · rintro ⟨⟨b, i⟩, ⟨hm, hb⟩, rfl⟩
    have := List.mem_zipIdx_iff_getElem?.mp hm
    simp only at hb
    simpa [hb] using this
  · intro h
    exact ⟨(true, k), ⟨List.mem_zipIdx_iff_getElem?.mpr (by simpa using h), rfl⟩, rfl⟩

/-- **T→E**: the minterm expression of a well-formed table denotes the table's function -/
theorem tableToExpr_den [Ord α] (t : Table α) (h : t.WF) (ρ : α → Bool) :
    (Table.toExpressionTrivial t).den ρ = t.den ρ := by
  have hk : valMsb (t.inputs.map ρ) < t.outputs.length := Table.den_inbounds ρ t h
  have hden : t.den ρ = t.outputs[valMsb (t.inputs.map ρ)] := by
    simp only [Table.den]
    rw [List.getD_eq_getElem?_getD, List.getElem?_eq_getElem hk]; rfl
  unfold Table.toExpressionTrivial
  split
  · -- zero variables, one output
    rename_i v hv
    split at hv
    · rename_i h0
      have hin : t.inputs = [] := List.eq_nil_of_length_eq_zero h0
      cases hout : t.outputs with
      | nil => rw [hout] at hv; simp at hv
      | cons o os =>
        rw [hout] at hv
        simp only [List.head?_cons, Option.some.injEq] at hv
        simp [Expr.den, Table.den, hin, hout, valMsb, hv]
    · cases hv
  · simp only
    split
    · -- no true row
      rename_i hempty
      have : t.outputs[valMsb (t.inputs.map ρ)]? ≠ some true := by
        intro hc
        have := (mem_trueRows t.outputs _).mpr hc
        simp only [List.isEmpty_iff] at hempty
        rw [hempty] at this; cases this
      rw [hden]
      rw [List.getElem?_eq_getElem hk] at this
      simp only [Expr.den]
      cases hb : t.outputs[valMsb (t.inputs.map ρ)] <;> simp_all
    · split
      · -- every row true
        rename_i hall
        simp only [List.length_map] at hall
        have hfil : t.outputs.zipIdx.filter (·.1) = t.outputs.zipIdx := by
          apply List.filter_eq_self.mpr
          apply List.length_filter_eq_length_iff.mp
          simpa using hall
        have hm : (t.outputs[valMsb (t.inputs.map ρ)], valMsb (t.inputs.map ρ)) ∈ t.outputs.zipIdx :=
          List.mem_zipIdx_iff_getElem?.mpr (by simp [List.getElem?_eq_getElem hk])
        rw [← hfil] at hm
        have := (List.mem_filter.mp hm).2
        rw [hden]; simpa [Expr.den] using this.symm
      · -- proper minterm DNF
        simp only [Expr.den]
        rw [denAny_minterms ρ t.inputs _ (by
          intro r hr
          have := (mem_trueRows t.outputs r).mp hr
          have hlt : r < t.outputs.length := by
            rcases Nat.lt_or_ge r t.outputs.length with hlt | hge
            · exact hlt
            · rw [List.getElem?_eq_none hge] at this; cases this
          rw [← h.2]; exact hlt)]
        rw [hden]
        cases hb : t.outputs[valMsb (t.inputs.map ρ)]
        · have : ¬ (valMsb (t.inputs.map ρ) ∈ (t.outputs.zipIdx.filter (·.1)).map (·.2)) := by
            intro hc
            have := (mem_trueRows t.outputs _).mp hc
            rw [List.getElem?_eq_getElem hk, hb] at this; cases this
          simpa using this
        · have : valMsb (t.inputs.map ρ) ∈ (t.outputs.zipIdx.filter (·.1)).map (·.2) :=
            (mem_trueRows t.outputs _).mpr (by rw [List.getElem?_eq_getElem hk, hb])
          simpa using this

end BoolFn

namespace BoolFn
variable {α : Type} [DecidableEq α]
set_option linter.unusedSectionVars false

/-! ### expression → BDD -/

/-- what `try_from_rec` establishes for its result over `n = lits.length` variables -/
def InnerDenotes (lits : List α) (e : Expr α) (i : Inner) : Prop :=
  i.n = lits.length ∧ i.WF ∧ ∀ ρ : α → Bool, i.eval (lits.map ρ) = e.den ρ

theorem foldl_and_denotes (lits : List α) (cs : List Inner) (c : Inner)
    (hc : c.n = lits.length ∧ c.WF) (hcs : ∀ x ∈ cs, x.n = lits.length ∧ x.WF) :
    (cs.foldl Inner.and c).n = lits.length ∧ (cs.foldl Inner.and c).WF ∧
    ∀ ρ : α → Bool, (cs.foldl Inner.and c).eval (lits.map ρ) =
      (c.eval (lits.map ρ) && cs.all fun x => x.eval (lits.map ρ)) := by
  induction cs generalizing c with
  | nil => exact ⟨hc.1, hc.2, by simp⟩
  | cons x xs ih =>
    have hx := hcs x (by simp)
    have := ih (c.and x) ⟨by simp [hc.1], Inner.wf_and _ _⟩ (fun y hy => hcs y (by simp [hy]))
    refine ⟨this.1, this.2.1, ?_⟩
    intro ρ
    rw [List.foldl, this.2.2 ρ, Inner.eval_and _ _ _ (by simp [hc.1])]
    simp [Bool.and_assoc]

theorem foldl_or_denotes (lits : List α) (cs : List Inner) (c : Inner)
    (hc : c.n = lits.length ∧ c.WF) (hcs : ∀ x ∈ cs, x.n = lits.length ∧ x.WF) :
    (cs.foldl Inner.or c).n = lits.length ∧ (cs.foldl Inner.or c).WF ∧
    ∀ ρ : α → Bool, (cs.foldl Inner.or c).eval (lits.map ρ) =
      (c.eval (lits.map ρ) || cs.any fun x => x.eval (lits.map ρ)) := by
  induction cs generalizing c with
  | nil => exact ⟨hc.1, hc.2, by simp⟩
  | cons x xs ih =>
    have hx := hcs x (by simp)
    have := ih (c.or x) ⟨by simp [hc.1], Inner.wf_or _ _⟩ (fun y hy => hcs y (by simp [hy]))
    refine ⟨this.1, this.2.1, ?_⟩
    intro ρ
    rw [List.foldl, this.2.2 ρ, Inner.eval_or _ _ _ (by simp [hc.1])]
    simp [Bool.or_assoc]

/-- pointwise relation between two lists -/
def List.Forall₂' {β γ : Type} (R : β → γ → Prop) : List β → List γ → Prop
  | [], [] => True
  | a :: as, b :: bs => R a b ∧ List.Forall₂' R as bs
  | _, _ => False

theorem forall₂'_mem_right {β γ : Type} {R : β → γ → Prop} :
    {as : List β} → {bs : List γ} → List.Forall₂' R as bs → ∀ b ∈ bs, ∃ a, a ∈ as ∧ R a b
  | [], [], _, b, hb => by cases hb
  | [], _ :: _, h, _, _ => by simp [List.Forall₂'] at h
  | _ :: _, [], h, _, _ => by simp [List.Forall₂'] at h
  | a :: as, b' :: bs, h, b, hb => by
    simp only [List.Forall₂'] at h
    rcases List.mem_cons.mp hb with rfl | hb
    · exact ⟨a, by simp, h.1⟩
    · obtain ⟨a', ha', hr⟩ := forall₂'_mem_right h.2 b hb
      exact ⟨a', by simp [ha'], hr⟩

theorem forall₂'_all (ρ : α → Bool) {lits : List α} :
    {es : List (Expr α)} → {l : List Inner} → List.Forall₂' (InnerDenotes lits) es l →
      (l.all fun x => x.eval (lits.map ρ)) = Expr.denAll ρ es
  | [], [], _ => rfl
  | [], _ :: _, h => by simp [List.Forall₂'] at h
  | _ :: _, [], h => by simp [List.Forall₂'] at h
  | e :: es, i :: l, h => by
    simp only [List.Forall₂'] at h
    simp [Expr.denAll, h.1.2.2 ρ, forall₂'_all ρ h.2]

theorem forall₂'_any (ρ : α → Bool) {lits : List α} :
    {es : List (Expr α)} → {l : List Inner} → List.Forall₂' (InnerDenotes lits) es l →
      (l.any fun x => x.eval (lits.map ρ)) = Expr.denAny ρ es
  | [], [], _ => rfl
  | [], _ :: _, h => by simp [List.Forall₂'] at h
  | _ :: _, [], h => by simp [List.Forall₂'] at h
  | e :: es, i :: l, h => by
    simp only [List.Forall₂'] at h
    simp [Expr.denAny, h.1.2.2 ρ, forall₂'_any ρ h.2]

mutual
theorem exprToInner_denotes (lits : List α) :
    (e : Expr α) → (∀ x ∈ e.vars, x ∈ lits) →
      ∃ i, exprToInner lits lits.length e = some i ∧ InnerDenotes lits e i
  | .lit a, hcov => by
    obtain ⟨k, hk⟩ := indexOf?_of_mem a lits (hcov a (by simp [Expr.vars]))
    refine ⟨Inner.mkVar lits.length k, by simp [exprToInner, hk], rfl, Inner.wf_mkVar _ _, ?_⟩
    intro ρ
    rw [Inner.eval_mkVar _ _ _ (by simp), getD_map_indexOf ρ a lits k hk]; rfl
  | .const b, _ => ⟨Inner.mkConst lits.length b, rfl, rfl, Inner.wf_mkConst _ _,
      fun ρ => by rw [Inner.eval_mkConst _ _ _ (by simp)]; rfl⟩
  | .not e, hcov => by
    obtain ⟨i, hi, hn, hwf, hden⟩ := exprToInner_denotes lits e (by simpa [Expr.vars] using hcov)
    refine ⟨i.not, by simp [exprToInner, hi], by simpa using hn, Inner.wf_not _, ?_⟩
    intro ρ
    rw [Inner.eval_not _ _ (by simp [hn]), hden ρ]; rfl
  | .and es, hcov => by
    obtain ⟨l, hl, hall⟩ := exprToInnerL_denotes lits es (by simpa [Expr.vars] using hcov)
    cases l with
    | nil =>
      refine ⟨Inner.mkConst lits.length true, by simp [exprToInner, hl], rfl, Inner.wf_mkConst _ _, ?_⟩
      intro ρ
      rw [Inner.eval_mkConst _ _ _ (by simp)]
      cases es with
      | nil => rfl
      | cons _ _ => simp [List.Forall₂'] at hall
    | cons c cs =>
      cases es with
      | nil => simp [List.Forall₂'] at hall
      | cons e es' =>
        simp only [List.Forall₂'] at hall
        have hf := foldl_and_denotes lits cs c ⟨hall.1.1, hall.1.2.1⟩
          (fun x hx => by
            obtain ⟨e', _, hd⟩ := forall₂'_mem_right hall.2 x hx
            exact ⟨hd.1, hd.2.1⟩)
        refine ⟨cs.foldl Inner.and c, by simp [exprToInner, hl], hf.1, hf.2.1, ?_⟩
        intro ρ
        rw [hf.2.2 ρ, hall.1.2.2 ρ, forall₂'_all ρ hall.2]
        rfl
  | .or es, hcov => by
    obtain ⟨l, hl, hall⟩ := exprToInnerL_denotes lits es (by simpa [Expr.vars] using hcov)
    cases l with
    | nil =>
      refine ⟨Inner.mkConst lits.length false, by simp [exprToInner, hl], rfl, Inner.wf_mkConst _ _, ?_⟩
      intro ρ
      rw [Inner.eval_mkConst _ _ _ (by simp)]
      cases es with
      | nil => rfl
      | cons _ _ => simp [List.Forall₂'] at hall
    | cons c cs =>
      cases es with
      | nil => simp [List.Forall₂'] at hall
      | cons e es' =>
        simp only [List.Forall₂'] at hall
        have hf := foldl_or_denotes lits cs c ⟨hall.1.1, hall.1.2.1⟩
          (fun x hx => by
            obtain ⟨e', _, hd⟩ := forall₂'_mem_right hall.2 x hx
            exact ⟨hd.1, hd.2.1⟩)
        refine ⟨cs.foldl Inner.or c, by simp [exprToInner, hl], hf.1, hf.2.1, ?_⟩
        intro ρ
        rw [hf.2.2 ρ, hall.1.2.2 ρ, forall₂'_any ρ hall.2]
        rfl
theorem exprToInnerL_denotes (lits : List α) :
    (es : List (Expr α)) → (∀ x ∈ Expr.varsL es, x ∈ lits) →
      ∃ l, exprToInnerL lits lits.length es = some l ∧ List.Forall₂' (InnerDenotes lits) es l
  | [], _ => ⟨[], rfl, by simp [List.Forall₂']⟩
  | e :: es, hcov => by
    obtain ⟨i, hi, hd⟩ := exprToInner_denotes lits e (fun x hx => hcov x (by simp [Expr.varsL, hx]))
    obtain ⟨l, hl, hall⟩ := exprToInnerL_denotes lits es (fun x hx => hcov x (by simp [Expr.varsL, hx]))
    exact ⟨i :: l, by simp [exprToInnerL, hi, hl], by simp [List.Forall₂', hd, hall]⟩
end

end BoolFn

namespace BoolFn
variable {α : Type} [DecidableEq α]
set_option linter.unusedSectionVars false

/-! ### BDD → table -/

theorem foldl_set_get_untouched {β : Type} (f : β → Nat) (g : β → Bool) (i : Nat) :
    (opts : List β) → (init : List Bool) → (∀ o ∈ opts, f o ≠ i) →
    (opts.foldl (fun out opt => out.set (f opt) (g opt)) init)[i]? = init[i]?
  | [], _, _ => rfl
  | o :: os, init, h => by
    simp only [List.foldl]
    rw [foldl_set_get_untouched f g i os _ (fun o' ho' => h o' (by simp [ho']))]
    exact List.getElem?_set_ne (h o (by simp))

/-- **B→T** over the given input list (the BDD's own inputs) -/
theorem bddToTableWith_den [Ord α] (b : Bdd α) (h : b.WF) (ρ : α → Bool) :
    (bddToTableWith b.inputs b).den ρ = b.den ρ ∧
    (bddToTableWith b.inputs b).outputs.length = 2 ^ b.inputs.length := by
  have hlen : (bddToTableWith b.inputs b).outputs.length = 2 ^ b.inputs.length := by
    simp [bddToTableWith, foldl_set_length]
  refine ⟨?_, hlen⟩
  have hp0 : (b.inputs.map ρ).length = b.inner.n := by simp [h.2.1]
  have hk : valMsb (b.inputs.map ρ) < 2 ^ b.inputs.length := by simpa using valMsb_lt (b.inputs.map ρ)
  simp only [Table.den, bddToTableWith, Bdd.den]
  rw [List.getD_eq_getElem?_getD]
  cases hv : b.inner.eval (b.inputs.map ρ)
  · -- no satisfying valuation has this row index
    rw [foldl_set_get_untouched]
    · simp [hk]
    · intro p hp hidx
      simp only [Bdd.support, Inner.satValuations, List.mem_filter] at hp
      have hlenp : p.length = (b.inputs.map ρ).length := by rw [mem_allPoints.mp hp.1, hp0]
      rw [pointToRowIndex_eq_valMsb] at hidx
      have := valMsb_inj p _ hlenp hidx
      rw [this, hv] at hp
      cases hp.2
  · rw [foldl_set_get (b := true)]
    · rfl
    · simpa using hk
    · intro _ _ _; rfl
    · left
      refine ⟨b.inputs.map ρ, ?_, pointToRowIndex_eq_valMsb _⟩
      simp only [Bdd.support, Inner.satValuations, List.mem_filter]
      exact ⟨mem_allPoints.mpr hp0, hv⟩

/-! ### BDD → expression, for any clause list satisfying the `to_optimized_dnf` contract -/

/-- a clause list represents the function of the inner diagram and mentions only its variables -/
def DnfContract (i : Inner) (dnf : List (List (Nat × Bool))) : Prop :=
  (∀ c ∈ dnf, ∀ l ∈ c, l.1 < i.n) ∧
  ∀ p : List Bool, p.length = i.n → (dnf.any fun c => c.all fun l => p.getD l.1 false == l.2) = i.eval p

theorem clause_den (b : Bdd α) (ρ : α → Bool) (c : List (Nat × Bool)) (hc : ∀ l ∈ c, l.1 < b.inputs.length) :
    ∃ es, (c.mapM fun (l : Nat × Bool) => (b.innerToOuter l.1).map fun x =>
        if l.2 then Expr.lit x else Expr.not (Expr.lit x)) = some es ∧
      Expr.denAll ρ es = c.all fun l => (b.inputs.map ρ).getD l.1 false == l.2 := by
  induction c with
  | nil => exact ⟨[], rfl, rfl⟩
  | cons l ls ih =>
    obtain ⟨es, hes, hden⟩ := ih (fun l' hl' => hc l' (by simp [hl']))
    have hl := hc l (by simp)
    have hget : b.innerToOuter l.1 = some (b.inputs[l.1]) := by simp [Bdd.innerToOuter, hl]
    refine ⟨(if l.2 then Expr.lit b.inputs[l.1] else Expr.not (Expr.lit b.inputs[l.1])) :: es, ?_, ?_⟩
    · simp [List.mapM_cons, hget, hes]
    · have hval : (b.inputs.map ρ).getD l.1 false = ρ b.inputs[l.1] := by
        rw [List.getD_eq_getElem?_getD, List.getElem?_map, List.getElem?_eq_getElem hl]; rfl
      simp only [Expr.denAll, List.all_cons, hden, hval]
      cases h2 : l.2 <;> cases hρ : ρ b.inputs[l.1] <;> simp [Expr.den, hρ]

theorem clauses_den (b : Bdd α) (ρ : α → Bool) (dnf : List (List (Nat × Bool)))
    (hc : ∀ c ∈ dnf, ∀ l ∈ c, l.1 < b.inputs.length) :
    ∃ es, (dnf.mapM fun (c : List (Nat × Bool)) =>
        (c.mapM fun (l : Nat × Bool) => (b.innerToOuter l.1).map fun x =>
          if l.2 then Expr.lit x else Expr.not (Expr.lit x)).map Expr.and) = some es ∧
      Expr.denAny ρ es = dnf.any fun c => c.all fun l => (b.inputs.map ρ).getD l.1 false == l.2 := by
  induction dnf with
  | nil => exact ⟨[], rfl, rfl⟩
  | cons c cs ih =>
    obtain ⟨es, hes, hden⟩ := ih (fun c' hc' => hc c' (by simp [hc']))
    obtain ⟨ls, hls, hlden⟩ := clause_den b ρ c (hc c (by simp))
    refine ⟨Expr.and ls :: es, ?_, ?_⟩
    · simp [List.mapM_cons, hls, hes]
    · simp [Expr.denAny, Expr.den, hlden, hden]

/-- **B→E** for every clause list lib-bdd may return -/
theorem bddToExprWith_den [Ord α] (b : Bdd α) (h : b.WF) (dnf : List (List (Nat × Bool)))
    (hd : DnfContract b.inner dnf) (ρ : α → Bool) :
    ∃ e, bddToExprWith dnf b = some e ∧ e.den ρ = b.den ρ := by
  have hp0 : (b.inputs.map ρ).length = b.inner.n := by simp [h.2.1]
  unfold bddToExprWith
  split
  · rename_i ht
    exact ⟨.const true, rfl, by
      simp only [Expr.den, Bdd.den]
      exact ((Inner.isTrue_iff b.inner h.2.2).mp ht _ hp0).symm⟩
  · split
    · rename_i hf
      exact ⟨.const false, rfl, by
        simp only [Expr.den, Bdd.den]
        exact ((Inner.isFalse_iff b.inner h.2.2).mp hf _ hp0).symm⟩
    · obtain ⟨es, hes, hden⟩ := clauses_den b ρ dnf (by
        intro c hc l hl; rw [← h.2.1]; exact hd.1 c hc l hl)
      refine ⟨.or es, by simp [hes], ?_⟩
      simp only [Expr.den, hden, Bdd.den]
      exact hd.2 _ hp0

/-- the minterm clause list satisfies the contract (so the contract is satisfiable) -/
theorem mintermDnf_contract (i : Inner) : DnfContract i i.mintermDnf := by
  constructor
  · intro c hc l hl
    simp only [Inner.mintermDnf, Inner.satValuations, List.mem_map, List.mem_filter] at hc
    obtain ⟨p, ⟨hp, _⟩, rfl⟩ := hc
    simp only [List.mem_map] at hl
    obtain ⟨⟨v, k⟩, hk, rfl⟩ := hl
    have := List.mem_zipIdx hk
    simp only at this ⊢
    rw [← mem_allPoints.mp hp]; omega
  · intro p hp
    -- a minterm clause of q matches p iff p = q
    have hmatch : ∀ q : List Bool, q.length = i.n →
        ((q.zipIdx.map fun x => (x.2, x.1)).all fun l => p.getD l.1 false == l.2) = decide (p = q) := by
      intro q hq
      by_cases hpq : p = q
      · subst hpq
        simp only [decide_true, List.all_eq_true, List.mem_map]
        rintro l ⟨⟨v, k⟩, hk, rfl⟩
        have := List.mem_zipIdx_iff_getElem?.mp hk
        simp only at this ⊢
        simp [List.getD_eq_getElem?_getD, this]
      · simp only [hpq, decide_false]
        apply Bool.eq_false_iff.mpr
        intro hall
        apply hpq
        apply List.ext_getElem (by rw [hp, hq])
        intro k h1 h2
        simp only [List.all_eq_true, List.mem_map] at hall
        have := hall (k, q[k]) ⟨(q[k], k), List.mem_zipIdx_iff_getElem?.mpr (by simp [List.getElem?_eq_getElem h2]), rfl⟩
        simp only [List.getD_eq_getElem?_getD, List.getElem?_eq_getElem h1, Option.getD_some, beq_iff_eq] at this
        exact this
    simp only [Inner.mintermDnf, List.any_map, Inner.satValuations]
    cases hv : i.eval p
    · apply Bool.eq_false_iff.mpr
      intro hany
      simp only [List.any_eq_true, List.mem_filter, Function.comp] at hany
      obtain ⟨q, ⟨hq, hqe⟩, hm⟩ := hany
      rw [hmatch q (mem_allPoints.mp hq)] at hm
      have : p = q := by simpa using hm
      rw [this, hqe] at hv; cases hv
    · simp only [List.any_eq_true, List.mem_filter, Function.comp]
      exact ⟨p, ⟨mem_allPoints.mpr hp, hv⟩, by rw [hmatch p hp]; simp⟩

/-! ### table → BDD as the code has it (known finding D1) -/

theorem mkDnf_allPoints_eval (n : Nat) (p : List Bool) (hp : p.length = n) :
    (Inner.mkDnf n ((allPoints n).map fun q => q.zipIdx.map fun x => (x.2, x.1))).eval p = true := by
  rw [Inner.mkDnf, Inner.eval_ofFn _ _ _ hp]
  simp only [List.any_map, List.any_eq_true, Function.comp]
  refine ⟨p, mem_allPoints.mpr hp, ?_⟩
  simp only [List.all_eq_true, List.mem_map]
  rintro l ⟨⟨v, k⟩, hk, rfl⟩
  have := List.mem_zipIdx_iff_getElem?.mp hk
  simp only at this ⊢
  simp [List.getD_eq_getElem?_getD, this]

end BoolFn
