import BoolFn.NormalForm
import BoolFn.Proofs.Expr
import BoolFn.Spec.Check
/-! Lemmas for C11: semantics, variables and shape of NNF / CNF / DNF conversion. -/
namespace BoolFn
namespace Expr
variable {α : Type}
open BoolFn.Spec

/-! ### NNF -/
mutual
theorem den_toNnf (ρ : α → Bool) : (e : Expr α) → den ρ (toNnf e) = den ρ e
  | lit _ => rfl
  | const _ => rfl
  | not e => by simp [toNnf, den, den_toNnfNeg ρ e]
  | and es => by simp [toNnf, den, denAll_toNnfL ρ es]
  | or es => by simp [toNnf, den, denAny_toNnfL ρ es]
theorem den_toNnfNeg (ρ : α → Bool) : (e : Expr α) → den ρ (toNnfNeg e) = !(den ρ e)
  | lit _ => rfl
  | const _ => rfl
  | not e => by simp [toNnfNeg, den, den_toNnf ρ e]
  | and es => by simp [toNnfNeg, den, denAny_toNnfNegL ρ es]
  | or es => by simp [toNnfNeg, den, denAll_toNnfNegL ρ es]
theorem denAll_toNnfL (ρ : α → Bool) : (es : List (Expr α)) → denAll ρ (toNnfL es) = denAll ρ es
  | [] => rfl
  | e :: es => by simp [toNnfL, denAll, den_toNnf ρ e, denAll_toNnfL ρ es]
theorem denAny_toNnfL (ρ : α → Bool) : (es : List (Expr α)) → denAny ρ (toNnfL es) = denAny ρ es
  | [] => rfl
  | e :: es => by simp [toNnfL, denAny, den_toNnf ρ e, denAny_toNnfL ρ es]
theorem denAny_toNnfNegL (ρ : α → Bool) : (es : List (Expr α)) → denAny ρ (toNnfNegL es) = !(denAll ρ es)
  | [] => rfl
  | e :: es => by simp [toNnfNegL, denAny, denAll, den_toNnfNeg ρ e, denAny_toNnfNegL ρ es, Bool.not_and]
theorem denAll_toNnfNegL (ρ : α → Bool) : (es : List (Expr α)) → denAll ρ (toNnfNegL es) = !(denAny ρ es)
  | [] => rfl
  | e :: es => by simp [toNnfNegL, denAny, denAll, den_toNnfNeg ρ e, denAll_toNnfNegL ρ es, Bool.not_or]
end

mutual
theorem vars_toNnf : (e : Expr α) → vars (toNnf e) = vars e
  | lit _ => rfl
  | const _ => rfl
  | not e => by simp [toNnf, vars, vars_toNnfNeg e]
  | and es => by simp [toNnf, vars, varsL_toNnfL es]
  | or es => by simp [toNnf, vars, varsL_toNnfL es]
theorem vars_toNnfNeg : (e : Expr α) → vars (toNnfNeg e) = vars e
  | lit _ => rfl
  | const _ => rfl
  | not e => by simp [toNnfNeg, vars, vars_toNnf e]
  | and es => by simp [toNnfNeg, vars, varsL_toNnfNegL es]
  | or es => by simp [toNnfNeg, vars, varsL_toNnfNegL es]
theorem varsL_toNnfL : (es : List (Expr α)) → varsL (toNnfL es) = varsL es
  | [] => rfl
  | e :: es => by simp [toNnfL, varsL, vars_toNnf e, varsL_toNnfL es]
theorem varsL_toNnfNegL : (es : List (Expr α)) → varsL (toNnfNegL es) = varsL es
  | [] => rfl
  | e :: es => by simp [toNnfNegL, varsL, vars_toNnfNeg e, varsL_toNnfNegL es]
end

/-! "NNF range": negation only directly above a leaf (constants allowed) -/
mutual
def nnfRange : Expr α → Bool
  | lit _ => true
  | const _ => true
  | not (lit _) => true
  | not (const _) => true
  | not _ => false
  | and es => nnfRangeL es
  | or es => nnfRangeL es
def nnfRangeL : List (Expr α) → Bool
  | [] => true
  | e :: es => nnfRange e && nnfRangeL es
end

mutual
theorem nnfRange_toNnf : (e : Expr α) → nnfRange (toNnf e) = true
  | lit _ => rfl
  | const _ => rfl
  | not e => by simp [toNnf, nnfRange_toNnfNeg e]
  | and es => by simp [toNnf, nnfRange, nnfRangeL_toNnfL es]
  | or es => by simp [toNnf, nnfRange, nnfRangeL_toNnfL es]
theorem nnfRange_toNnfNeg : (e : Expr α) → nnfRange (toNnfNeg e) = true
  | lit _ => rfl
  | const _ => rfl
  | not e => by simp [toNnfNeg, nnfRange_toNnf e]
  | and es => by simp [toNnfNeg, nnfRange, nnfRangeL_toNnfNegL es]
  | or es => by simp [toNnfNeg, nnfRange, nnfRangeL_toNnfNegL es]
theorem nnfRangeL_toNnfL : (es : List (Expr α)) → nnfRangeL (toNnfL es) = true
  | [] => rfl
  | e :: es => by simp [toNnfL, nnfRangeL, nnfRange_toNnf e, nnfRangeL_toNnfL es]
theorem nnfRangeL_toNnfNegL : (es : List (Expr α)) → nnfRangeL (toNnfNegL es) = true
  | [] => rfl
  | e :: es => by simp [toNnfNegL, nnfRangeL, nnfRange_toNnfNeg e, nnfRangeL_toNnfNegL es]
end

/-! `to_nnf` is the identity on its range: re-normalising a child of an NNF (as `to_cnf` does) changes nothing -/
mutual
theorem toNnf_of_nnfRange : (e : Expr α) → nnfRange e = true → toNnf e = e
  | lit _, _ => rfl
  | const _, _ => rfl
  | not (lit _), _ => rfl
  | not (const _), _ => rfl
  | not (not _), h => by simp [nnfRange] at h
  | not (and _), h => by simp [nnfRange] at h
  | not (or _), h => by simp [nnfRange] at h
  | and es, h => by simp [toNnf, toNnfL_of_nnfRangeL es (by simpa [nnfRange] using h)]
  | or es, h => by simp [toNnf, toNnfL_of_nnfRangeL es (by simpa [nnfRange] using h)]
theorem toNnfL_of_nnfRangeL : (es : List (Expr α)) → nnfRangeL es = true → toNnfL es = es
  | [], _ => rfl
  | e :: es, h => by
    simp only [nnfRangeL, Bool.and_eq_true] at h
    simp [toNnfL, toNnf_of_nnfRange e h.1, toNnfL_of_nnfRangeL es h.2]
end

theorem toNnf_toNnf (e : Expr α) : toNnf (toNnf e) = toNnf e :=
  toNnf_of_nnfRange _ (nnfRange_toNnf e)

/-! ### CNF: distribution -/
mutual
theorem den_distrCnfRight (ρ : α → Bool) (f : Expr α) :
    (s : Expr α) → den ρ (distrCnfRight f s) = (den ρ f || den ρ s)
  | lit _ => by simp [distrCnfRight, binaryOr, den, denAny]
  | const _ => by simp [distrCnfRight, binaryOr, den, denAny]
  | not _ => by simp [distrCnfRight, binaryOr, den, denAny]
  | or _ => by simp [distrCnfRight, binaryOr, den, denAny]
  | and es => by simp [distrCnfRight, den, denAll_distrCnfRightL ρ f es]
theorem denAll_distrCnfRightL (ρ : α → Bool) (f : Expr α) :
    (es : List (Expr α)) → denAll ρ (distrCnfRightL f es) = (den ρ f || denAll ρ es)
  | [] => by simp [distrCnfRightL, denAll]
  | e :: es => by
    simp [distrCnfRightL, denAll, den_distrCnfRight ρ f e, denAll_distrCnfRightL ρ f es, Bool.or_and_distrib_left]
end

mutual
theorem den_distributeCnf (ρ : α → Bool) :
    (a b : Expr α) → den ρ (distributeCnf a b) = (den ρ a || den ρ b)
  | and es, b => by simp [distributeCnf, den, denAll_distributeCnfL ρ es b]
  | lit _, b => by simp [distributeCnf, den_distrCnfRight]
  | const _, b => by simp [distributeCnf, den_distrCnfRight]
  | not _, b => by simp [distributeCnf, den_distrCnfRight]
  | or _, b => by simp [distributeCnf, den_distrCnfRight]
theorem denAll_distributeCnfL (ρ : α → Bool) :
    (es : List (Expr α)) → (b : Expr α) → denAll ρ (distributeCnfL es b) = (denAll ρ es || den ρ b)
  | [], b => by simp [distributeCnfL, denAll]
  | e :: es, b => by
    simp [distributeCnfL, denAll, den_distributeCnf ρ e b, denAll_distributeCnfL ρ es b, Bool.or_and_distrib_right]
end

theorem den_foldl_distributeCnf (ρ : α → Bool) (cs : List (Expr α)) (c : Expr α) :
    den ρ (cs.foldl distributeCnf c) = (den ρ c || denAny ρ cs) := by
  induction cs generalizing c with
  | nil => simp [denAny]
  | cons x xs ih => simp [List.foldl, ih, den_distributeCnf, denAny, Bool.or_assoc]

mutual
theorem den_cnfN (ρ : α → Bool) : (e : Expr α) → den ρ (cnfN e) = den ρ e
  | lit _ => rfl
  | const _ => rfl
  | not _ => rfl
  | and es => by simp [cnfN, den, denAll_cnfNL ρ es]
  | or es => by
    have h := denAny_cnfNL ρ es
    simp only [cnfN]
    split
    · rename_i heq; rw [heq] at h; simp [den, ← h, denAny]
    · rename_i c cs heq
      rw [heq] at h
      rw [den_foldl_distributeCnf]
      simpa [den, denAny] using h
theorem denAll_cnfNL (ρ : α → Bool) : (es : List (Expr α)) → denAll ρ (cnfNL es) = denAll ρ es
  | [] => rfl
  | e :: es => by simp [cnfNL, denAll, den_cnfN ρ e, denAll_cnfNL ρ es]
theorem denAny_cnfNL (ρ : α → Bool) : (es : List (Expr α)) → denAny ρ (cnfNL es) = denAny ρ es
  | [] => rfl
  | e :: es => by simp [cnfNL, denAny, den_cnfN ρ e, denAny_cnfNL ρ es]
end

theorem den_toCnf (ρ : α → Bool) (e : Expr α) : den ρ (toCnf e) = den ρ e := by
  rw [toCnf, den_cnfN, den_toNnf]

/-! variables of the CNF -/
mutual
theorem mem_vars_distrCnfRight (x : α) (f : Expr α) :
    (s : Expr α) → x ∈ vars (distrCnfRight f s) → x ∈ vars f ∨ x ∈ vars s
  | lit _ => by simp [distrCnfRight, binaryOr, vars, varsL]
  | const _ => by simp [distrCnfRight, binaryOr, vars, varsL]
  | not _ => by simp [distrCnfRight, binaryOr, vars, varsL]
  | or _ => by simp [distrCnfRight, binaryOr, vars, varsL]
  | and es => by simpa [distrCnfRight, vars] using mem_varsL_distrCnfRightL x f es
theorem mem_varsL_distrCnfRightL (x : α) (f : Expr α) :
    (es : List (Expr α)) → x ∈ varsL (distrCnfRightL f es) → x ∈ vars f ∨ x ∈ varsL es
  | [] => by simp [distrCnfRightL, varsL]
  | e :: es => by
    simp only [distrCnfRightL, varsL, List.mem_append]
    rintro (h | h)
    · rcases mem_vars_distrCnfRight x f e h with h | h
      · exact Or.inl h
      · exact Or.inr (Or.inl h)
    · rcases mem_varsL_distrCnfRightL x f es h with h | h
      · exact Or.inl h
      · exact Or.inr (Or.inr h)
end

mutual
theorem mem_vars_distributeCnf (x : α) :
    (a b : Expr α) → x ∈ vars (distributeCnf a b) → x ∈ vars a ∨ x ∈ vars b
  | and es, b => by simpa [distributeCnf, vars] using mem_varsL_distributeCnfL x es b
  | lit _, b => by simpa [distributeCnf] using mem_vars_distrCnfRight x _ b
  | const _, b => by simpa [distributeCnf] using mem_vars_distrCnfRight x _ b
  | not _, b => by simpa [distributeCnf] using mem_vars_distrCnfRight x _ b
  | or _, b => by simpa [distributeCnf] using mem_vars_distrCnfRight x _ b
theorem mem_varsL_distributeCnfL (x : α) :
    (es : List (Expr α)) → (b : Expr α) → x ∈ varsL (distributeCnfL es b) → x ∈ varsL es ∨ x ∈ vars b
  | [], b => by simp [distributeCnfL, varsL]
  | e :: es, b => by
    simp only [distributeCnfL, varsL, List.mem_append]
    rintro (h | h)
    · rcases mem_vars_distributeCnf x e b h with h | h
      · exact Or.inl (Or.inl h)
      · exact Or.inr h
    · rcases mem_varsL_distributeCnfL x es b h with h | h
      · exact Or.inl (Or.inr h)
      · exact Or.inr h
end

theorem mem_vars_foldl_distributeCnf (x : α) (cs : List (Expr α)) (c : Expr α) :
    x ∈ vars (cs.foldl distributeCnf c) → x ∈ vars c ∨ x ∈ varsL cs := by
  induction cs generalizing c with
  | nil => intro h; exact Or.inl h
  | cons y ys ih =>
    intro h
    rcases ih _ h with h | h
    · rcases mem_vars_distributeCnf x c y h with h | h
      · exact Or.inl h
      · exact Or.inr (by simp [varsL, h])
    · exact Or.inr (by simp [varsL, h])

mutual
theorem mem_vars_cnfN (x : α) : (e : Expr α) → x ∈ vars (cnfN e) → x ∈ vars e
  | lit _ => id
  | const _ => id
  | not _ => id
  | and es => by simpa [cnfN, vars] using mem_varsL_cnfNL x es
  | or es => by
    have h := mem_varsL_cnfNL x es
    simp only [cnfN]
    split
    · simp [vars, varsL]
    · rename_i c cs heq
      rw [heq] at h
      intro hx
      apply h
      rcases mem_vars_foldl_distributeCnf x cs c hx with hx | hx <;> simp [varsL, hx]
theorem mem_varsL_cnfNL (x : α) : (es : List (Expr α)) → x ∈ varsL (cnfNL es) → x ∈ varsL es
  | [] => id
  | e :: es => by
    simp only [cnfNL, varsL, List.mem_append]
    rintro (h | h)
    · exact Or.inl (mem_vars_cnfN x e h)
    · exact Or.inr (mem_varsL_cnfNL x es h)
end

/-! ### DNF: distribution (dual) -/
mutual
theorem den_distrDnfRight (ρ : α → Bool) (f : Expr α) :
    (s : Expr α) → den ρ (distrDnfRight f s) = (den ρ f && den ρ s)
  | lit _ => by simp [distrDnfRight, binaryAnd, den, denAll]
  | const _ => by simp [distrDnfRight, binaryAnd, den, denAll]
  | not _ => by simp [distrDnfRight, binaryAnd, den, denAll]
  | and _ => by simp [distrDnfRight, binaryAnd, den, denAll]
  | or es => by simp [distrDnfRight, den, denAll_distrDnfRightL ρ f es]
theorem denAll_distrDnfRightL (ρ : α → Bool) (f : Expr α) :
    (es : List (Expr α)) → denAny ρ (distrDnfRightL f es) = (den ρ f && denAny ρ es)
  | [] => by simp [distrDnfRightL, denAny]
  | e :: es => by
    simp [distrDnfRightL, denAny, den_distrDnfRight ρ f e, denAll_distrDnfRightL ρ f es, Bool.and_or_distrib_left]
end

mutual
theorem den_distributeDnf (ρ : α → Bool) :
    (a b : Expr α) → den ρ (distributeDnf a b) = (den ρ a && den ρ b)
  | or es, b => by simp [distributeDnf, den, denAll_distributeDnfL ρ es b]
  | lit _, b => by simp [distributeDnf, den_distrDnfRight]
  | const _, b => by simp [distributeDnf, den_distrDnfRight]
  | not _, b => by simp [distributeDnf, den_distrDnfRight]
  | and _, b => by simp [distributeDnf, den_distrDnfRight]
theorem denAll_distributeDnfL (ρ : α → Bool) :
    (es : List (Expr α)) → (b : Expr α) → denAny ρ (distributeDnfL es b) = (denAny ρ es && den ρ b)
  | [], b => by simp [distributeDnfL, denAny]
  | e :: es, b => by
    simp [distributeDnfL, denAny, den_distributeDnf ρ e b, denAll_distributeDnfL ρ es b, Bool.and_or_distrib_right]
end

theorem den_foldl_distributeDnf (ρ : α → Bool) (cs : List (Expr α)) (c : Expr α) :
    den ρ (cs.foldl distributeDnf c) = (den ρ c && denAll ρ cs) := by
  induction cs generalizing c with
  | nil => simp [denAll]
  | cons x xs ih => simp [List.foldl, ih, den_distributeDnf, denAll, Bool.and_assoc]

mutual
theorem den_dnfN (ρ : α → Bool) : (e : Expr α) → den ρ (dnfN e) = den ρ e
  | lit _ => rfl
  | const _ => rfl
  | not _ => rfl
  | or es => by simp [dnfN, den, denAll_dnfNL ρ es]
  | and es => by
    have h := denAny_dnfNL ρ es
    simp only [dnfN]
    split
    · rename_i heq; rw [heq] at h; simp [den, ← h, denAll]
    · rename_i c cs heq
      rw [heq] at h
      rw [den_foldl_distributeDnf]
      simpa [den, denAll] using h
theorem denAll_dnfNL (ρ : α → Bool) : (es : List (Expr α)) → denAny ρ (dnfNL es) = denAny ρ es
  | [] => rfl
  | e :: es => by simp [dnfNL, denAny, den_dnfN ρ e, denAll_dnfNL ρ es]
theorem denAny_dnfNL (ρ : α → Bool) : (es : List (Expr α)) → denAll ρ (dnfNL es) = denAll ρ es
  | [] => rfl
  | e :: es => by simp [dnfNL, denAll, den_dnfN ρ e, denAny_dnfNL ρ es]
end

theorem den_toDnf (ρ : α → Bool) (e : Expr α) : den ρ (toDnf e) = den ρ e := by
  rw [toDnf, den_dnfN, den_toNnf]

/-! variables of the DNF -/
mutual
theorem mem_vars_distrDnfRight (x : α) (f : Expr α) :
    (s : Expr α) → x ∈ vars (distrDnfRight f s) → x ∈ vars f ∨ x ∈ vars s
  | lit _ => by simp [distrDnfRight, binaryAnd, vars, varsL]
  | const _ => by simp [distrDnfRight, binaryAnd, vars, varsL]
  | not _ => by simp [distrDnfRight, binaryAnd, vars, varsL]
  | and _ => by simp [distrDnfRight, binaryAnd, vars, varsL]
  | or es => by simpa [distrDnfRight, vars] using mem_varsL_distrDnfRightL x f es
theorem mem_varsL_distrDnfRightL (x : α) (f : Expr α) :
    (es : List (Expr α)) → x ∈ varsL (distrDnfRightL f es) → x ∈ vars f ∨ x ∈ varsL es
  | [] => by simp [distrDnfRightL, varsL]
  | e :: es => by
    simp only [distrDnfRightL, varsL, List.mem_append]
    rintro (h | h)
    · rcases mem_vars_distrDnfRight x f e h with h | h
      · exact Or.inl h
      · exact Or.inr (Or.inl h)
    · rcases mem_varsL_distrDnfRightL x f es h with h | h
      · exact Or.inl h
      · exact Or.inr (Or.inr h)
end

mutual
theorem mem_vars_distributeDnf (x : α) :
    (a b : Expr α) → x ∈ vars (distributeDnf a b) → x ∈ vars a ∨ x ∈ vars b
  | or es, b => by simpa [distributeDnf, vars] using mem_varsL_distributeDnfL x es b
  | lit _, b => by simpa [distributeDnf] using mem_vars_distrDnfRight x _ b
  | const _, b => by simpa [distributeDnf] using mem_vars_distrDnfRight x _ b
  | not _, b => by simpa [distributeDnf] using mem_vars_distrDnfRight x _ b
  | and _, b => by simpa [distributeDnf] using mem_vars_distrDnfRight x _ b
theorem mem_varsL_distributeDnfL (x : α) :
    (es : List (Expr α)) → (b : Expr α) → x ∈ varsL (distributeDnfL es b) → x ∈ varsL es ∨ x ∈ vars b
  | [], b => by simp [distributeDnfL, varsL]
  | e :: es, b => by
    simp only [distributeDnfL, varsL, List.mem_append]
    rintro (h | h)
    · rcases mem_vars_distributeDnf x e b h with h | h
      · exact Or.inl (Or.inl h)
      · exact Or.inr h
    · rcases mem_varsL_distributeDnfL x es b h with h | h
      · exact Or.inl (Or.inr h)
      · exact Or.inr h
end

theorem mem_vars_foldl_distributeDnf (x : α) (cs : List (Expr α)) (c : Expr α) :
    x ∈ vars (cs.foldl distributeDnf c) → x ∈ vars c ∨ x ∈ varsL cs := by
  induction cs generalizing c with
  | nil => intro h; exact Or.inl h
  | cons y ys ih =>
    intro h
    rcases ih _ h with h | h
    · rcases mem_vars_distributeDnf x c y h with h | h
      · exact Or.inl h
      · exact Or.inr (by simp [varsL, h])
    · exact Or.inr (by simp [varsL, h])

mutual
theorem mem_vars_dnfN (x : α) : (e : Expr α) → x ∈ vars (dnfN e) → x ∈ vars e
  | lit _ => id
  | const _ => id
  | not _ => id
  | or es => by simpa [dnfN, vars] using mem_varsL_dnfNL x es
  | and es => by
    have h := mem_varsL_dnfNL x es
    simp only [dnfN]
    split
    · simp [vars, varsL]
    · rename_i c cs heq
      rw [heq] at h
      intro hx
      apply h
      rcases mem_vars_foldl_distributeDnf x cs c hx with hx | hx <;> simp [varsL, hx]
theorem mem_varsL_dnfNL (x : α) : (es : List (Expr α)) → x ∈ varsL (dnfNL es) → x ∈ varsL es
  | [] => id
  | e :: es => by
    simp only [dnfNL, varsL, List.mem_append]
    rintro (h | h)
    · exact Or.inl (mem_vars_dnfN x e h)
    · exact Or.inr (mem_varsL_dnfNL x es h)
end

end Expr
end BoolFn
