import BoolFn.Proofs.Extend
/-! `prune_bdd_variables`: dropping inputs the function does not depend on keeps the function.
    The `debug_assert!` (essential inputs ⊆ new inputs) and lib-bdd's assertions are shown not to fire. -/
namespace BoolFn
variable {α : Type} [DecidableEq α]
set_option linter.unusedSectionVars false

/-- the permutation entries `(old_i, new_i)` the code builds for the names `L` at offset `k` -/
def pruneEntries (old : List α) (L : List α) (k : Nat) : List (Nat × Nat) :=
  ((L.zipIdx k).map fun x => (posIn old x.1, x.2)).filter fun p => p.1 != p.2

theorem prunePerm_eq (old new : List α) (h : ∀ x ∈ new, x ∈ old) :
    Bdd.prunePerm old new = some (pruneEntries old new 0) := by
  simp only [Bdd.prunePerm, pruneEntries]
  rw [mapM_option_some _ (fun x => (posIn old x.1, x.2))]
  · rfl
  · intro x hx
    have hm : x.1 ∈ new := by
      have := List.mem_zipIdx hx
      rw [this.2.2]; exact List.getElem_mem _
    simp [(posIn_spec old x.1 (h x.1 hm)).1]

section
variable [Ord α] [Std.TransOrd α] [Std.LawfulEqOrd α]

theorem getElem_posIn (ys : List α) (x : α) (h : x ∈ ys) :
    ys[posIn ys x]'((posIn_spec ys x h).2.1) = x := by
  have s := posIn_spec ys x h
  have := s.2.2
  rw [List.getElem?_eq_getElem s.2.1] at this
  exact Option.some.inj this

/-- positions in a sorted list are ordered like the names -/
theorem posIn_lt_of_lt (old : List α) (hold : StrictSorted old) (a x : α) (ha : a ∈ old) (hx : x ∈ old)
    (hlt : compare a x = .lt) : posIn old a < posIn old x := by
  apply pos_lt_of_lt old hold _ _ (posIn_spec old a ha).2.1 (posIn_spec old x hx).2.1
  rw [getElem_posIn old a ha, getElem_posIn old x hx]; exact hlt

theorem permLookup_pruneEntries (old : List α) (hold : StrictSorted old) :
    (L : List α) → (k : Nat) → StrictSorted L → (∀ x ∈ L, x ∈ old) → (j : Nat) → (hj : j < L.length) →
      Inner.permLookup (pruneEntries old L k) (posIn old L[j]) = k + j
  | [], _, _, _, j, hj => by simp at hj
  | a :: as, k, hL, hsub, j, hj => by
    have hp := List.pairwise_cons.mp hL
    have hlater : ∀ x ∈ as, posIn old a < posIn old x := fun x hx =>
      posIn_lt_of_lt old hold a x (hsub a (by simp)) (hsub x (by simp [hx])) (hp.1 x hx)
    simp only [pruneEntries, List.zipIdx_cons, List.map_cons, List.filter_cons]
    cases j with
    | zero =>
      simp only [List.getElem_cons_zero, Nat.add_zero]
      by_cases hmov : (posIn old a != k) = true
      · simp only [hmov, if_true, Inner.permLookup, List.find?, beq_self_eq_true]
      · have heq : posIn old a = k := by simpa using hmov
        simp only [hmov, Bool.false_eq_true, if_false]
        have : ((((as.zipIdx (k + 1)).map fun x => (posIn old x.1, x.2)).filter fun p => p.1 != p.2).find?
            fun p => p.1 == posIn old a) = none := by
          apply List.find?_eq_none.mpr
          intro p hp'
          have hp'' := (List.mem_filter.mp hp').1
          obtain ⟨x, hx, rfl⟩ := List.mem_map.mp hp''
          have hxm : x.1 ∈ as := by
            have := List.mem_zipIdx hx
            rw [this.2.2]; exact List.getElem_mem _
          have := hlater x.1 hxm
          simp; omega
        simp only [Inner.permLookup, this]
        exact heq
    | succ i =>
      have hi : i < as.length := by simpa using hj
      have hrec := permLookup_pruneEntries old hold as (k + 1) hp.2 (fun x hx => hsub x (by simp [hx])) i hi
      simp only [pruneEntries] at hrec
      simp only [List.getElem_cons_succ]
      have hne : (posIn old a == posIn old as[i]) = false := by
        have := hlater as[i] (List.getElem_mem _)
        simp; omega
      have hk : k + (i + 1) = k + 1 + i := by omega
      by_cases hmov : (posIn old a != k) = true
      · simp only [hmov, if_true, Inner.permLookup, List.find?, hne]
        rw [hk]; exact hrec
      · simp only [hmov, Bool.false_eq_true, if_false]
        rw [hk]; exact hrec

/-- where the renaming sends old position `i`: the position of that name among the new inputs -/
def prunePi (old new : List α) (i : Nat) : Nat :=
  match old[i]? with
  | some x => posIn new x
  | none => 0

theorem prunePi_eq (old new : List α) (i : Nat) (hi : i < old.length) : prunePi old new i = posIn new old[i] := by
  simp [prunePi, List.getElem?_eq_getElem hi]

theorem mapM_getElem? (l : List α) (s : List Nat) (h : ∀ i ∈ s, i < l.length) :
    ∃ r, s.mapM (fun i => l[i]?) = some r ∧ ∀ x ∈ r, ∃ i ∈ s, l[i]? = some x := by
  induction s with
  | nil => exact ⟨[], rfl, by simp⟩
  | cons a as ih =>
    obtain ⟨r, hr, hmem⟩ := ih (fun i hi => h i (by simp [hi]))
    have ha := h a (by simp)
    refine ⟨l[a] :: r, by simp [List.mapM_cons, List.getElem?_eq_getElem ha, hr], ?_⟩
    intro x hx
    rcases List.mem_cons.mp hx with rfl | hx
    · exact ⟨a, by simp, List.getElem?_eq_getElem ha⟩
    · obtain ⟨i, hi, hx'⟩ := hmem x hx
      exact ⟨i, by simp [hi], hx'⟩

/-- **`prune_bdd_variables` keeps the function**: for a well-formed diagram and a strictly sorted
    subset of its inputs containing every essential input, the call does not panic, the result is
    well-formed over the new inputs and denotes the same function -/
theorem prune_den (b : Bdd α) (new : List α) (hb : b.WF) (hnew : StrictSorted new)
    (hsub : ∀ x ∈ new, x ∈ b.inputs)
    (hess : ∀ i ∈ b.inner.supportSet, ∀ (hi : i < b.inputs.length), b.inputs[i] ∈ new) :
    ∃ b', Bdd.prune b new = .ok b' ∧ b'.WF ∧ b'.inputs = new ∧ ∀ ρ, b'.den ρ = b.den ρ := by
  unfold Bdd.prune
  by_cases heq : b.inputs = new
  · rw [if_pos heq]
    exact ⟨b, rfl, hb, heq, fun _ => rfl⟩
  · rw [if_neg heq]
    have hn : b.inner.n = b.inputs.length := hb.2.1
    have hsl : ∀ i ∈ b.inner.supportSet, i < b.inputs.length := fun i hi => by
      have := Inner.supportSet_lt _ i hi; omega
    -- essential_inputs(): the unwrap never fails, and the debug assertion holds
    obtain ⟨ess, hraw, hessm⟩ := mapM_getElem? b.inputs b.inner.supportSet hsl
    have hraw' : Bdd.essentialInputsRaw b = some ess := hraw
    rw [hraw']
    simp only
    have hassert : ess.all new.contains = true := by
      rw [List.all_eq_true]
      intro x hx
      obtain ⟨i, hi, hxi⟩ := hessm x hx
      have := hess i hi (hsl i hi)
      rw [List.getElem?_eq_getElem (hsl i hi)] at hxi
      rw [← Option.some.inj hxi]
      simpa using this
    rw [hassert]
    simp only [Bool.not_true, Bool.false_eq_true, if_false]
    rw [prunePerm_eq b.inputs new hsub]
    simp only
    have hle : new.length ≤ b.inputs.length := length_le_of_sorted_subset _ _ hnew hb.1 hsub
    -- the renaming sends the old position of a kept name to its position in `new`
    have hlook : ∀ i ∈ b.inner.supportSet, ∀ (hi : i < b.inputs.length),
        Inner.permLookup (pruneEntries b.inputs new 0) i = posIn new b.inputs[i] := by
      intro i his hi
      have hmem := hess i his hi
      have s := posIn_spec new b.inputs[i] hmem
      have := permLookup_pruneEntries b.inputs hb.1 new 0 hnew hsub (posIn new b.inputs[i]) s.2.1
      rw [getElem_posIn new _ hmem] at this
      -- posIn old (old[i]) = i
      have hpi : posIn b.inputs b.inputs[i] = i := by
        simp [posIn, indexOf?_getElem b.inputs hb.1.nodup i hi]
      rw [hpi] at this
      simpa using this
    have hren : ∃ c', (if (pruneEntries b.inputs new 0).isEmpty = true then Outcome.ok b.inner
          else b.inner.renameVariables (pruneEntries b.inputs new 0)) = .ok c' ∧ c'.n = b.inner.n ∧ c'.WF ∧
        ∀ q, q.length = b.inner.n → c'.eval q =
          b.inner.eval (Inner.gather b.inner (prunePi b.inputs new) q) := by
      -- both branches read support coordinate i from position posIn new old[i]
      have hgather : ∀ (π : Nat → Nat), (∀ i ∈ b.inner.supportSet, ∀ (hi : i < b.inputs.length), π i = posIn new b.inputs[i]) →
          ∀ q, Inner.gather b.inner π q = Inner.gather b.inner (prunePi b.inputs new) q := by
        intro π hπ q
        apply Inner.ext_getD _ _ (by simp)
        intro i hi
        simp only [Inner.gather_length] at hi
        rw [Inner.gather_getD _ _ _ _ hi, Inner.gather_getD _ _ _ _ hi]
        by_cases his : i ∈ b.inner.supportSet
        · simp only [his, if_true]
          rw [hπ i his (hsl i his), prunePi_eq _ _ _ (hsl i his)]
        · simp [his]
      by_cases hemp : (pruneEntries b.inputs new 0).isEmpty = true
      · rw [if_pos hemp]
        refine ⟨b.inner, rfl, rfl, hb.2.2, ?_⟩
        intro q hq
        have hnil : pruneEntries b.inputs new 0 = [] := by simpa using hemp
        rw [← hgather (fun i => i) (by
          intro i his hi
          have := hlook i his hi
          rw [hnil] at this
          simpa [Inner.permLookup] using this)]
        apply Inner.eval_congr_support b.inner q _ hq (by simp)
        intro i hi
        rw [Inner.gather_getD _ _ _ _ (Inner.supportSet_lt _ i hi), if_pos hi]
      · rw [if_neg hemp]
        obtain ⟨c', hc', hcn, hcwf, hceval⟩ := Inner.renameVariables_ok b.inner hb.2.2 (pruneEntries b.inputs new 0)
          (by
            intro i hi
            rw [hlook i hi (hsl i hi), hn]
            have := (posIn_spec new _ (hess i hi (hsl i hi))).2.1
            omega)
          (by
            intro i j hij hj his hjs
            rw [hlook i his (hsl i his), hlook j hjs (hsl j hjs)]
            apply posIn_lt_of_lt new hnew _ _ (hess i his (hsl i his)) (hess j hjs (hsl j hjs))
            exact List.pairwise_iff_getElem.mp hb.1 i j (hsl i his) (hsl j hjs) hij)
        refine ⟨c', hc', hcn, hcwf, ?_⟩
        intro q hq
        rw [hceval q hq, hgather _ (fun i his hi => hlook i his hi)]
    obtain ⟨c', hc', hcn, hcwf, hceval⟩ := hren
    rw [hc']
    simp only [Outcome.bind]
    -- the renamed diagram depends only on positions below `new.length`
    have hsupp' : ∀ j ∈ c'.supportSet, j < new.length := by
      intro j hj
      -- if no support position of b is sent to j, c' does not depend on j
      apply Classical.byContradiction
      intro hnot
      have hjn := Inner.supportSet_lt c' j hj
      have hdep := ((Inner.mem_supportSet c' j).mp hj).2
      have hnd : ¬ (c'.dependsOn j = false) := by simp [hdep]
      apply hnd
      rw [Inner.not_dependsOn_iff]
      intro p hp
      rw [hceval _ (by simp [hp, hcn]), hceval _ (by simp [hp, hcn])]
      congr 1
      apply Inner.ext_getD _ _ (by simp)
      intro i hi
      simp only [Inner.gather_length] at hi
      rw [Inner.gather_getD _ _ _ _ hi, Inner.gather_getD _ _ _ _ hi]
      by_cases his : i ∈ b.inner.supportSet
      · simp only [his, if_true]
        have hpos : prunePi b.inputs new i < new.length := by
          rw [prunePi_eq _ _ _ (hsl i his)]
          exact (posIn_spec new _ (hess i his (hsl i his))).2.1
        rw [Inner.getD_set, Inner.getD_set]
        have hne : ¬ (j = prunePi b.inputs new i ∧ prunePi b.inputs new i < p.length) := by
          intro hc; apply hnot; rw [hc.1]; exact hpos
        simp [hne]
      · simp [his]
    rw [Inner.setNumVars_ok c' new.length hsupp']
    simp only
    refine ⟨⟨new, _⟩, rfl, ⟨hnew, rfl, Inner.wf_ofFn _ _⟩, rfl, ?_⟩
    intro ρ
    simp only [Bdd.den]
    rw [Inner.eval_ofFn _ _ _ (by simp), hceval _ (by simp [hcn])]
    apply Inner.eval_congr_support b.inner _ _ (by simp) (by simp [hn])
    intro i hi
    have hil := hsl i hi
    rw [Inner.gather_getD _ _ _ _ (by omega), if_pos hi, Inner.truncTo_getD]
    have hmem := hess i hi hil
    have hpos := (posIn_spec new b.inputs[i] hmem)
    rw [prunePi_eq _ _ _ hil, if_pos (by rw [hcn, hn]; omega)]
    rw [List.getD_eq_getElem?_getD, List.getElem?_map, hpos.2.2]
    simp [List.getD_eq_getElem?_getD, List.getElem?_eq_getElem hil]
end

end BoolFn
