import BoolFn.Proofs.Inner
/-! The support of an inner diagram: the function does not depend on variables outside it. -/
namespace BoolFn
namespace Inner

theorem not_dependsOn_iff (b : Inner) (i : Nat) :
    b.dependsOn i = false ↔ ∀ p : List Bool, p.length = b.n → b.eval (p.set i false) = b.eval (p.set i true) := by
  simp only [dependsOn]
  rw [Bool.eq_false_iff, ne_eq, List.any_eq_true]
  constructor
  · intro h p hp
    cases h1 : b.eval (p.set i false) <;> cases h2 : b.eval (p.set i true) <;> try rfl
    all_goals exact absurd ⟨p, mem_allPoints.mpr hp, by simp [h1, h2]⟩ h
  · rintro h ⟨p, hp, hne⟩
    have := h p (mem_allPoints.mp hp)
    simp [this] at hne

theorem mem_supportSet (b : Inner) (i : Nat) : i ∈ b.supportSet ↔ i < b.n ∧ b.dependsOn i = true := by
  simp [supportSet]

/-- setting a coordinate outside the support to either value gives the same result -/
theorem eval_set_of_not_mem (b : Inner) (i : Nat) (hi : i ∉ b.supportSet) (p : List Bool) (hp : p.length = b.n)
    (u v : Bool) : b.eval (p.set i u) = b.eval (p.set i v) := by
  by_cases hlt : i < b.n
  · have hnd : b.dependsOn i = false := by
      cases hd : b.dependsOn i
      · rfl
      · exact absurd ((mem_supportSet b i).mpr ⟨hlt, hd⟩) hi
    have := (not_dependsOn_iff b i).mp hnd p hp
    cases u <;> cases v <;> simp [this]
  · have : p.length ≤ i := by omega
    simp [List.set_eq_of_length_le this]

theorem hybrid_getElem? (p q : List Bool) (k j : Nat) (hk : k ≤ q.length) :
    (q.take k ++ p.drop k)[j]? = if j < k then q[j]? else p[j]? := by
  by_cases hjk : j < k
  · rw [List.getElem?_append_left (by simp; omega), List.getElem?_take, if_pos hjk]; simp [hjk]
  · rw [List.getElem?_append_right (by simp; omega), List.getElem?_drop, if_neg hjk]
    congr 1
    simp only [List.length_take]; omega

/-- **the function of a diagram depends only on its support variables** -/
theorem eval_congr_support (b : Inner) (p q : List Bool) (hp : p.length = b.n) (hq : q.length = b.n)
    (h : ∀ i ∈ b.supportSet, p.getD i false = q.getD i false) : b.eval p = b.eval q := by
  -- hybrids: first k coordinates from q, the rest from p
  have step : ∀ k, k ≤ b.n → b.eval p = b.eval (q.take k ++ p.drop k) := by
    intro k
    induction k with
    | zero => intro _; simp
    | succ k ih =>
      intro hk
      rw [ih (by omega)]
      have hkp : k < p.length := by omega
      have hkq : k < q.length := by omega
      obtain ⟨X, hXdef⟩ : ∃ X, X = q.take k ++ p.drop k := ⟨_, rfl⟩
      have hX : X.length = b.n := by rw [hXdef]; simp; omega
      have e1 : q.take k ++ p.drop k = X.set k p[k] := by
        apply List.ext_getElem?
        intro j
        rw [List.getElem?_set]
        by_cases hjk : k = j
        · subst hjk
          rw [if_pos rfl, if_pos (by omega), hybrid_getElem? p q k k (by omega)]
          simp [List.getElem?_eq_getElem hkp]
        · rw [if_neg hjk, hXdef]
      have e2 : q.take (k + 1) ++ p.drop (k + 1) = X.set k q[k] := by
        apply List.ext_getElem?
        intro j
        rw [List.getElem?_set, hybrid_getElem? p q (k + 1) j (by omega)]
        by_cases hjk : k = j
        · subst hjk
          rw [if_pos rfl, if_pos (by omega), if_pos (by omega), List.getElem?_eq_getElem hkq]
        · rw [if_neg hjk, hXdef, hybrid_getElem? p q k j (by omega)]
          by_cases hlt : j < k
          · rw [if_pos hlt, if_pos (by omega)]
          · rw [if_neg hlt, if_neg (by omega)]
      rw [e1, e2]
      by_cases hmem : k ∈ b.supportSet
      · have := h k hmem
        simp only [List.getD_eq_getElem?_getD, List.getElem?_eq_getElem hkp, List.getElem?_eq_getElem hkq,
          Option.getD_some] at this
        rw [this]
      · exact eval_set_of_not_mem b k hmem X hX _ _
  have := step b.n (Nat.le_refl _)
  rw [this]
  congr 1
  rw [← hq, List.take_length, hq.trans hp.symm, List.drop_length]
  simp

/-- a variable on which the value changes belongs to the support -/
theorem mem_supportSet_of_differs (b : Inner) (i : Nat) (hi : i < b.n) (p : List Bool) (hp : p.length = b.n)
    (hd : b.eval (p.set i false) ≠ b.eval (p.set i true)) : i ∈ b.supportSet := by
  rw [mem_supportSet]
  refine ⟨hi, ?_⟩
  cases hdep : b.dependsOn i
  · exact absurd ((not_dependsOn_iff b i).mp hdep p hp) hd
  · rfl

theorem supportSet_lt (b : Inner) : ∀ i ∈ b.supportSet, i < b.n := fun i hi => ((mem_supportSet b i).mp hi).1

end Inner
end BoolFn
