import BoolFn.Table
import BoolFn.Proofs.Codec
/-! The (repaired) bit-mask row filter of `TruthTable::restrict` selects exactly the cofactor's
    rows, in order. -/
namespace BoolFn
namespace Table

/-- `row_index & (1 << j) == (1 << j)` is the `j`-th bit -/
theorem and_shift_eq_iff (r j : Nat) : ((r &&& (1 <<< j)) == (1 <<< j)) = r.testBit j := by
  rw [Nat.one_shiftLeft]
  by_cases h : r.testBit j
  · have : r &&& 2 ^ j = 2 ^ j := by
      apply Nat.eq_of_testBit_eq
      intro i
      rw [Nat.testBit_and, Nat.testBit_two_pow]
      by_cases hji : j = i
      · subst hji; simp [h]
      · simp [hji]
    simp [this, h]
  · have : r &&& 2 ^ j = 0 := by
      apply Nat.eq_of_testBit_eq
      intro i
      rw [Nat.testBit_and, Nat.testBit_two_pow]
      by_cases hji : j = i
      · subst hji; simp [h]
      · simp [hji]
    have hpos : 0 < 2 ^ j := Nat.pow_pos (by omega)
    simp only [this, h]
    simp; omega

/-- clean-room cofactor selection, most significant input first -/
def sel : List (Option Bool) → List Bool → List Bool
  | [], outs => outs
  | none :: fs, outs =>
      sel fs (outs.take (2 ^ fs.length)) ++ sel fs (outs.drop (2 ^ fs.length))
  | some false :: fs, outs => sel fs (outs.take (2 ^ fs.length))
  | some true :: fs, outs => sel fs (outs.drop (2 ^ fs.length))

theorem keepRow_eq (fixed : List (Nat × Bool)) (row : Nat) :
    keepRow fixed row = fixed.all fun p => row.testBit p.1 == p.2 := by
  simp only [keepRow, and_shift_eq_iff]

theorem fixedBits_cons (f : Option Bool) (fs : List (Option Bool)) :
    fixedBits (f :: fs) = fixedBits fs ++ (match f with | none => [] | some b => [(fs.length, b)]) := by
  simp only [fixedBits, List.reverse_cons, List.zipIdx_append, List.filterMap_append]
  cases f <;> simp

theorem fixedBits_lt (fs : List (Option Bool)) : ∀ p ∈ fixedBits fs, p.1 < fs.length := by
  intro p hp
  simp only [fixedBits, List.mem_filterMap] at hp
  obtain ⟨⟨f, j⟩, hmem, hf⟩ := hp
  have := List.mem_zipIdx hmem
  cases f with
  | none => simp at hf
  | some b => simp at hf; subst hf; simp at this; omega

theorem all_congr_mem {β : Type} (l : List β) (p q : β → Bool) (h : ∀ a ∈ l, p a = q a) :
    l.all p = l.all q := by
  induction l with
  | nil => rfl
  | cons a l ih =>
    simp only [List.all_cons]
    rw [h a (by simp), ih (fun b hb => h b (by simp [hb]))]

/-- rows of the upper half see the same low bits -/
theorem keepRow_add (fs : List (Option Bool)) (r : Nat) :
    keepRow (fixedBits fs) (2 ^ fs.length + r) = keepRow (fixedBits fs) r := by
  rw [keepRow_eq, keepRow_eq]
  apply all_congr_mem
  intro p hp
  have hlt := fixedBits_lt fs p hp
  rw [Nat.testBit_two_pow_add_gt hlt]

theorem filter_zipIdx_shift (p : Nat → Bool) (l : List Bool) (k : Nat) :
    ((l.zipIdx k).filter fun x => p x.2).map (·.1)
      = ((l.zipIdx 0).filter fun x => p (k + x.2)).map (·.1) := by
  rw [List.zipIdx_eq_map_add (i := k), List.filter_map, List.map_map]
  rfl

theorem keepRow_append (a b : List (Nat × Bool)) (r : Nat) :
    keepRow (a ++ b) r = (keepRow a r && keepRow b r) := by
  simp [keepRow, List.all_append]

theorem testBit_top_lo (m r : Nat) (h : r < 2 ^ m) : r.testBit m = false :=
  Nat.testBit_lt_two_pow h

theorem testBit_top_hi (m r : Nat) (h : r < 2 ^ m) : (2 ^ m + r).testBit m = true := by
  rw [Nat.testBit_two_pow_add_eq, Nat.testBit_lt_two_pow h]; rfl

/-- the faithful filter is the clean-room selection -/
theorem restrictOutputs_eq_sel : (spec : List (Option Bool)) → (outs : List Bool) →
    outs.length = 2 ^ spec.length → restrictOutputs spec outs = sel spec outs
  | [], outs, _ => by
    have : (outs.zipIdx.filter fun _ => true) = outs.zipIdx := List.filter_eq_self.mpr (by simp)
    simp [restrictOutputs, fixedBits, keepRow, sel, this]
  | f :: fs, outs, hlen => by
    have hlen' : outs.length = 2 ^ fs.length + 2 ^ fs.length := by
      simpa [Nat.pow_succ, Nat.mul_two] using hlen
    have hlo : (outs.take (2 ^ fs.length)).length = 2 ^ fs.length := by simp; omega
    have hhi : (outs.drop (2 ^ fs.length)).length = 2 ^ fs.length := by simp; omega
    have ihlo := restrictOutputs_eq_sel fs _ hlo
    have ihhi := restrictOutputs_eq_sel fs _ hhi
    -- split the outputs into the two halves
    have hsplit : restrictOutputs (f :: fs) outs =
        ((outs.take (2 ^ fs.length)).zipIdx.filter
            (fun x => keepRow (fixedBits (f :: fs)) x.2)).map (·.1) ++
        ((outs.drop (2 ^ fs.length)).zipIdx.filter
            (fun x => keepRow (fixedBits (f :: fs)) (2 ^ fs.length + x.2))).map (·.1) := by
      conv => lhs; rw [restrictOutputs, ← List.take_append_drop (2 ^ fs.length) outs]
      rw [List.zipIdx_append, List.filter_append, List.map_append, hlo]
      congr 1
      rw [filter_zipIdx_shift]
      simp
    rw [hsplit, fixedBits_cons]
    -- membership facts: row numbers inside a half are below 2^m
    have hmemlo : ∀ x ∈ (outs.take (2 ^ fs.length)).zipIdx, x.2 < 2 ^ fs.length := by
      intro x hx; have := List.snd_lt_of_mem_zipIdx hx; omega
    have hmemhi : ∀ x ∈ (outs.drop (2 ^ fs.length)).zipIdx, x.2 < 2 ^ fs.length := by
      intro x hx; have := List.snd_lt_of_mem_zipIdx hx; omega
    cases f with
    | none =>
      simp only [List.append_nil, sel]
      rw [← ihlo, ← ihhi]
      simp only [restrictOutputs, keepRow_add]
    | some b =>
      cases b with
      | false =>
        simp only [sel, ← ihlo, restrictOutputs]
        have h1 : (outs.take (2 ^ fs.length)).zipIdx.filter
              (fun x => keepRow (fixedBits fs ++ [(fs.length, false)]) x.2)
            = (outs.take (2 ^ fs.length)).zipIdx.filter (fun x => keepRow (fixedBits fs) x.2) := by
          apply List.filter_congr
          intro x hx
          simp [keepRow_append, keepRow_eq [(fs.length, false)], testBit_top_lo _ _ (hmemlo x hx)]
        have h2 : (outs.drop (2 ^ fs.length)).zipIdx.filter
              (fun x => keepRow (fixedBits fs ++ [(fs.length, false)]) (2 ^ fs.length + x.2)) = [] := by
          apply List.filter_eq_nil_iff.mpr
          intro x hx
          simp [keepRow_append, keepRow_eq [(fs.length, false)], testBit_top_hi _ _ (hmemhi x hx)]
        simp [h1, h2]
      | true =>
        simp only [sel, ← ihhi, restrictOutputs]
        have h1 : (outs.take (2 ^ fs.length)).zipIdx.filter
              (fun x => keepRow (fixedBits fs ++ [(fs.length, true)]) x.2) = [] := by
          apply List.filter_eq_nil_iff.mpr
          intro x hx
          simp [keepRow_append, keepRow_eq [(fs.length, true)], testBit_top_lo _ _ (hmemlo x hx)]
        have h2 : (outs.drop (2 ^ fs.length)).zipIdx.filter
              (fun x => keepRow (fixedBits fs ++ [(fs.length, true)]) (2 ^ fs.length + x.2))
            = (outs.drop (2 ^ fs.length)).zipIdx.filter (fun x => keepRow (fixedBits fs) x.2) := by
          apply List.filter_congr
          intro x hx
          simp [keepRow_append, keepRow_eq [(fs.length, true)], testBit_top_hi _ _ (hmemhi x hx),
            keepRow_add]
        simp [h1, h2]



end Table
end BoolFn
