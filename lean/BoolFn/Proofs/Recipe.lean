import BoolFn.Proofs.Lits
/-! The driver's direct evaluation of a recipe is the model's meaning of the expression the harness
    builds from it; the facts about recipes the law judges use (`law.cmp`). -/
namespace BoolFn

theorem den_clauseExpr (ρ : String → Bool) (c : Clause) :
    (clauseExpr c).den ρ = c.all (fun p => ρ p.1 == p.2) := by
  unfold clauseExpr
  have h := denAll_lits ρ c
  match hc : c.map litE with
  | [] => simp only [hc] at h ⊢; simpa [Expr.den] using h
  | [l] =>
    simp only [hc] at h ⊢
    rw [← h]; simp [Expr.denAll]
  | l1 :: l2 :: ls => simp only [hc] at h ⊢; simpa [Expr.den] using h

theorem denAny_clauses (ρ : String → Bool) : ∀ cs : List Clause,
    Expr.denAny ρ (cs.map clauseExpr) = cs.any (fun c => c.all (fun p => ρ p.1 == p.2))
  | [] => rfl
  | c :: cs => by simp [Expr.denAny, den_clauseExpr, denAny_clauses ρ cs]

/-- **the recipe the driver evaluates is the expression the harness builds** -/
theorem den_recipeExpr (ρ : String → Bool) (cs : List Clause) (d : Bool) :
    (recipeExpr cs).den ρ = evalRecipe cs (fun v => some (ρ v)) d := by
  unfold recipeExpr evalRecipe
  have h := denAny_clauses ρ cs
  simp only [Option.getD_some]
  match hc : cs.map clauseExpr with
  | [] => simp only [hc] at h ⊢; simpa [Expr.den] using h
  | [c] =>
    simp only [hc] at h ⊢
    rw [← h]; simp [Expr.denAny]
  | c1 :: c2 :: rest => simp only [hc] at h ⊢; simpa [Expr.den] using h

/-- a clause of the recipe implies the recipe (`law:clause-implies-dnf`) -/
theorem clause_implies (cs : List Clause) (c : Clause) (hc : c ∈ cs) (look : String → Option Bool) (d : Bool)
    (h : evalRecipe [c] look d = true) : evalRecipe cs look d = true := by
  simp only [evalRecipe, List.any_cons, List.any_nil, Bool.or_false] at h
  simp only [evalRecipe, List.any_eq_true]
  exact ⟨c, hc, h⟩

theorem clause_value_congr (c d : Clause) (hcd : ∀ x ∈ c, d.contains x = true) (hdc : ∀ x ∈ d, c.contains x = true)
    (f : String × Bool → Bool) : c.all f = d.all f := by
  rw [Bool.eq_iff_iff]
  simp only [List.all_eq_true]
  exact ⟨fun h p hp => h p (List.contains_iff_mem.mp (hdc p hp)),
         fun h p hp => h p (List.contains_iff_mem.mp (hcd p hp))⟩

/-- recipes with the same clauses (in any order) denote the same function
    (`law:equivalent-to-reordered-clauses`) -/
theorem sameClauseSet_sound (a b : List Clause) (h : sameClauseSet a b = true)
    (look : String → Option Bool) (d : Bool) : evalRecipe a look d = evalRecipe b look d := by
  simp only [sameClauseSet, Bool.and_eq_true, List.all_eq_true, List.any_eq_true] at h
  rw [Bool.eq_iff_iff]
  simp only [evalRecipe, List.any_eq_true]
  constructor
  · rintro ⟨c, hc, hv⟩
    obtain ⟨e, he, h1, h2⟩ := h.1 c hc
    exact ⟨e, he, by rw [← clause_value_congr c e h1 h2]; exact hv⟩
  · rintro ⟨c, hc, hv⟩
    obtain ⟨e, he, h1, h2⟩ := h.2 c hc
    exact ⟨e, he, by rw [← clause_value_congr c e h1 h2]; exact hv⟩

end BoolFn
