import BoolFn.Proofs.NormalFormShape
/-! Fixed points and hierarchy of the normal-form predicates (C11): an expression the library
    accepts as NNF is returned unchanged by `to_nnf`; everything accepted as CNF or DNF is
    accepted as NNF; everything accepted as NNF is constant-free. -/
namespace BoolFn
namespace Expr
variable {α : Type}
open BoolFn.Spec

mutual
theorem toNnf_of_isNnf : (e : Expr α) → isNnf e = true → toNnf e = e
  | lit _, _ => rfl
  | const _, h => by simp [isNnf] at h
  | not (lit _), _ => rfl
  | not (const _), h => by simp [isNnf] at h
  | not (not _), h => by simp [isNnf] at h
  | not (and _), h => by simp [isNnf] at h
  | not (or _), h => by simp [isNnf] at h
  | and es, h => by
    simp only [toNnf]; rw [toNnfL_of_isNnfL es (by simpa [isNnf] using h)]
  | or es, h => by
    simp only [toNnf]; rw [toNnfL_of_isNnfL es (by simpa [isNnf] using h)]
theorem toNnfL_of_isNnfL : (es : List (Expr α)) → isNnfL es = true → toNnfL es = es
  | [], _ => rfl
  | e :: es, h => by
    simp only [isNnfL, Bool.and_eq_true] at h
    simp [toNnfL, toNnf_of_isNnf e h.1, toNnfL_of_isNnfL es h.2]
end

theorem isNnf_of_isCnf (e : Expr α) (h : isCnf e = true) : isNnf e = true := by
  rw [isCnf_eq_shape, Bool.and_eq_true] at h
  rw [isNnf_eq_shape]; exact h.1

theorem isNnf_of_isDnf (e : Expr α) (h : isDnf e = true) : isNnf e = true := by
  rw [isDnf_eq_shape, Bool.and_eq_true] at h
  rw [isNnf_eq_shape]; exact h.1

theorem constFree_of_isNnf (e : Expr α) (h : isNnf e = true) : constFree e = true := by
  rw [isNnf_eq_shape, shapeNnf, Bool.and_eq_true] at h; exact h.1

end Expr
end BoolFn
