import BoolFn.Inner
import BoolFn.Proofs.Codec
import BoolFn.Proofs.Basic
/-! Lemmas about the semantic lib-bdd model `Inner`. -/
namespace BoolFn
namespace Inner

@[simp] theorem n_ofFn (n : Nat) (f : List Bool → Bool) : (ofFn n f).n = n := rfl

theorem wf_ofFn (n : Nat) (f : List Bool → Bool) : (ofFn n f).WF := by
  simp [WF, ofFn, allPoints_length]

theorem eval_ofFn (n : Nat) (f : List Bool → Bool) (p : List Bool) (hp : p.length = n) :
    (ofFn n f).eval p = f p := by
  simp only [eval, ofFn, pointToRowIndex_eq_valMsb]
  exact getD_map_allPoints n f p hp

/-- two well-formed inner diagrams over the same variables with the same values are equal
    (canonicity of the semantic model) -/
theorem ext_of_eval (a b : Inner) (ha : a.WF) (hb : b.WF) (hn : a.n = b.n)
    (h : ∀ p, p.length = a.n → a.eval p = b.eval p) : a = b := by
  cases a with | mk an att =>
  cases b with | mk bn btt =>
  simp only at hn; subst hn
  simp only [WF] at ha hb
  congr 1
  apply List.ext_getElem (by rw [ha, hb])
  intro k h1 h2
  have hk : k < 2 ^ an := by rw [← ha]; exact h1
  have := h (rowIndexToPoint k an) (rowIndexToPoint_length k an hk)
  simp only [eval, pointToRowIndex_rowIndexToPoint] at this
  rw [List.getD_eq_getElem?_getD, List.getD_eq_getElem?_getD, List.getElem?_eq_getElem h1,
    List.getElem?_eq_getElem h2] at this
  simpa using this

theorem eval_mkConst (n : Nat) (c : Bool) (p : List Bool) (hp : p.length = n) : (mkConst n c).eval p = c :=
  eval_ofFn n _ p hp
theorem eval_mkVar (n i : Nat) (p : List Bool) (hp : p.length = n) : (mkVar n i).eval p = p.getD i false :=
  eval_ofFn n _ p hp
theorem eval_mkLiteral (n i : Nat) (v : Bool) (p : List Bool) (hp : p.length = n) :
    (mkLiteral n i v).eval p = (p.getD i false == v) := eval_ofFn n _ p hp
theorem eval_not (b : Inner) (p : List Bool) (hp : p.length = b.n) : b.not.eval p = !(b.eval p) :=
  eval_ofFn b.n _ p hp
theorem eval_binop (op : Bool → Bool → Bool) (a b : Inner) (p : List Bool) (hp : p.length = a.n) :
    (binop op a b).eval p = op (a.eval p) (b.eval p) := eval_ofFn a.n _ p hp
theorem eval_and (a b : Inner) (p : List Bool) (hp : p.length = a.n) : (a.and b).eval p = (a.eval p && b.eval p) :=
  eval_binop _ a b p hp
theorem eval_or (a b : Inner) (p : List Bool) (hp : p.length = a.n) : (a.or b).eval p = (a.eval p || b.eval p) :=
  eval_binop _ a b p hp
theorem eval_xor (a b : Inner) (p : List Bool) (hp : p.length = a.n) : (a.xor b).eval p = (a.eval p != b.eval p) :=
  eval_binop _ a b p hp
theorem eval_imp (a b : Inner) (p : List Bool) (hp : p.length = a.n) : (a.imp b).eval p = (!(a.eval p) || b.eval p) :=
  eval_binop _ a b p hp
theorem eval_iff (a b : Inner) (p : List Bool) (hp : p.length = a.n) : (a.iff b).eval p = (a.eval p == b.eval p) :=
  eval_binop _ a b p hp

@[simp] theorem n_mkConst (n : Nat) (c : Bool) : (mkConst n c).n = n := rfl
@[simp] theorem n_mkVar (n i : Nat) : (mkVar n i).n = n := rfl
@[simp] theorem n_not (b : Inner) : b.not.n = b.n := rfl
@[simp] theorem n_binop (op : Bool → Bool → Bool) (a b : Inner) : (binop op a b).n = a.n := rfl
@[simp] theorem n_and (a b : Inner) : (a.and b).n = a.n := rfl
@[simp] theorem n_or (a b : Inner) : (a.or b).n = a.n := rfl
@[simp] theorem n_xor (a b : Inner) : (a.xor b).n = a.n := rfl
@[simp] theorem n_restrict (b : Inner) (fix : List (Nat × Bool)) : (b.restrict fix).n = b.n := rfl

theorem wf_mkConst (n : Nat) (c : Bool) : (mkConst n c).WF := wf_ofFn _ _
theorem wf_mkVar (n i : Nat) : (mkVar n i).WF := wf_ofFn _ _
theorem wf_not (b : Inner) : b.not.WF := wf_ofFn _ _
theorem wf_binop (op : Bool → Bool → Bool) (a b : Inner) : (binop op a b).WF := wf_ofFn _ _
theorem wf_and (a b : Inner) : (a.and b).WF := wf_ofFn _ _
theorem wf_or (a b : Inner) : (a.or b).WF := wf_ofFn _ _
theorem wf_xor (a b : Inner) : (a.xor b).WF := wf_ofFn _ _

theorem isWF_iff (b : Inner) : b.isWF = true ↔ b.WF := by simp [isWF, WF]

/-- `is_true()`: the function is true at every point -/
theorem isTrue_iff (b : Inner) (h : b.WF) : b.isTrue = true ↔ ∀ p, p.length = b.n → b.eval p = true := by
  simp only [isTrue, List.all_eq_true, id]
  constructor
  · intro hall p hp
    simp only [eval]
    have hlt : pointToRowIndex p < b.tt.length := by rw [h, ← hp]; exact pointToRowIndex_lt p
    rw [List.getD_eq_getElem?_getD, List.getElem?_eq_getElem hlt]
    exact hall _ (List.getElem_mem _)
  · intro hall x hx
    obtain ⟨k, hk, rfl⟩ := List.mem_iff_getElem.mp hx
    have hk2 : k < 2 ^ b.n := by rw [← h]; exact hk
    have := hall (rowIndexToPoint k b.n) (rowIndexToPoint_length k b.n hk2)
    simp only [eval, pointToRowIndex_rowIndexToPoint] at this
    rw [List.getD_eq_getElem?_getD, List.getElem?_eq_getElem hk] at this
    simpa using this

theorem isFalse_iff (b : Inner) (h : b.WF) : b.isFalse = true ↔ ∀ p, p.length = b.n → b.eval p = false := by
  simp only [isFalse, List.all_eq_true, Bool.not_eq_true']
  constructor
  · intro hall p hp
    simp only [eval]
    have hlt : pointToRowIndex p < b.tt.length := by rw [h, ← hp]; exact pointToRowIndex_lt p
    rw [List.getD_eq_getElem?_getD, List.getElem?_eq_getElem hlt]
    exact hall _ (List.getElem_mem _)
  · intro hall x hx
    obtain ⟨k, hk, rfl⟩ := List.mem_iff_getElem.mp hx
    have hk2 : k < 2 ^ b.n := by rw [← h]; exact hk
    have := hall (rowIndexToPoint k b.n) (rowIndexToPoint_length k b.n hk2)
    simp only [eval, pointToRowIndex_rowIndexToPoint] at this
    rw [List.getD_eq_getElem?_getD, List.getElem?_eq_getElem hk] at this
    simpa using this

end Inner
end BoolFn
