import BoolFn.Proofs.CsvQuoted
/-! The quoted-dialect reader inverts quoting: a line of fields written with every field in quotes
    (embedded quotes doubled) — whatever characters the fields contain, delimiters and line breaks
    included — is read back as exactly those fields. -/
namespace BoolFn

/-- a field as a quoting writer emits it -/
def quoteBody : List Char → List Char
  | [] => []
  | c :: cs => if c == '"' then '"' :: '"' :: quoteBody cs else c :: quoteBody cs

def quoteField (s : List Char) : List Char := '"' :: (quoteBody s ++ ['"'])

/-- fields joined by commas -/
def quoteLine : List (List Char) → List Char
  | [] => []
  | [f] => quoteField f
  | f :: g :: fs => quoteField f ++ ',' :: quoteLine (g :: fs)

abbrev QSt := QState × List Char × List String × List (List String)

/-- inside quotes: the body of a field is taken over character by character, doubled quotes as one -/
theorem run_quoteBody : ∀ (s : List Char) (rest : List Char) (f : List Char) (r : List String) (rs : List (List String)),
    csvQRun (quoteBody s ++ rest) (.quoted, f, r, rs) = csvQRun rest (.quoted, s.reverse ++ f, r, rs)
  | [], rest, f, r, rs => by simp [quoteBody]
  | c :: cs, rest, f, r, rs => by
    by_cases hc : c = '"'
    · subst hc
      simp only [quoteBody, beq_self_eq_true, if_true, List.cons_append, csvQRun, csvQStep]
      have := run_quoteBody cs rest ('"' :: f) r rs
      simpa using this
    · have hb : (c == '"') = false := by simpa using hc
      simp only [quoteBody, hb, Bool.false_eq_true, if_false, List.cons_append, csvQRun, csvQStep]
      have := run_quoteBody cs rest (c :: f) r rs
      simpa using this

/-- a whole quoted field from the start of a field: the automaton stands behind the closing quote -/
theorem run_quoteField (s rest : List Char) (r : List String) (rs : List (List String)) :
    csvQRun (quoteField s ++ rest) (.start, [], r, rs) = csvQRun rest (.quoteSeen, s.reverse, r, rs) := by
  unfold quoteField
  simp only [List.cons_append, List.append_assoc, csvQRun, csvQStep, beq_self_eq_true, if_true]
  have h := run_quoteBody s ('"' :: ([] ++ rest)) [] r rs
  rw [h]
  simp [csvQRun, csvQStep]

/-- a line of quoted fields, read from the start of a record with `r` fields already read -/
theorem run_quoteLine : ∀ (fs : List (List Char)) (r : List String) (rs : List (List String)), fs ≠ [] →
    (csvQRun (quoteLine fs) (.start, [], r, rs)).bind finishQ =
      some ((((fs.map String.ofList).reverse ++ r).reverse :: rs).reverse)
  | [], _, _, h => absurd rfl h
  | [f], r, rs, _ => by
    have := run_quoteField f [] r rs
    simp only [List.append_nil] at this
    simp [quoteLine, this, csvQRun, finishQ]
  | f :: g :: fs, r, rs, _ => by
    simp only [quoteLine]
    rw [run_quoteField f (',' :: quoteLine (g :: fs)) r rs]
    simp only [csvQRun, csvQStep]
    have hq : (',' == '"') = false := by decide
    simp only [hq, Bool.false_eq_true, if_false, beq_self_eq_true, if_true, List.reverse_reverse]
    rw [run_quoteLine (g :: fs) (String.ofList f :: r) rs (by simp)]
    simp

/-- the same with more text behind the line: the automaton stands behind the closing quote of the last
    field, holding the earlier fields -/
theorem run_quoteLine_rest : ∀ (fs : List (List Char)) (lastF : List Char) (rest : List Char) (r : List String)
    (rs : List (List String)),
    csvQRun (quoteLine (fs ++ [lastF]) ++ rest) (.start, [], r, rs) =
      csvQRun rest (.quoteSeen, lastF.reverse, (fs.map String.ofList).reverse ++ r, rs)
  | [], lastF, rest, r, rs => by
    simp only [List.nil_append, quoteLine, List.map_nil, List.reverse_nil]
    exact run_quoteField lastF rest r rs
  | f :: fs, lastF, rest, r, rs => by
    have hne : fs ++ [lastF] ≠ [] := by simp
    obtain ⟨g, gs, hg⟩ : ∃ g gs, fs ++ [lastF] = g :: gs := by
      cases h : fs ++ [lastF] with
      | nil => exact absurd h hne
      | cons g gs => exact ⟨g, gs, rfl⟩
    have hline : quoteLine (f :: fs ++ [lastF]) = quoteField f ++ ',' :: quoteLine (fs ++ [lastF]) := by
      simp only [List.cons_append, hg, quoteLine]
    rw [hline, List.append_assoc, run_quoteField f _ r rs]
    simp only [List.cons_append, csvQRun, csvQStep]
    have hq : (',' == '"') = false := by decide
    simp only [hq, Bool.false_eq_true, if_false, beq_self_eq_true, if_true, List.reverse_reverse]
    rw [run_quoteLine_rest fs lastF rest (String.ofList f :: r) rs]
    simp

/-- several lines of quoted fields separated by line feeds -/
def quoteText : List (List (List Char)) → List Char
  | [] => []
  | [l] => quoteLine l
  | l :: m :: ls => quoteLine l ++ '\n' :: quoteText (m :: ls)

theorem run_quoteText : ∀ (rows : List (List (List Char))) (rs : List (List String)), rows ≠ [] →
    (∀ row ∈ rows, row ≠ []) →
    (csvQRun (quoteText rows) (.start, [], [], rs)).bind finishQ =
      some (rs.reverse ++ rows.map fun row => row.map String.ofList)
  | [], _, h, _ => absurd rfl h
  | [row], rs, _, hall => by
    have hrow : row ≠ [] := hall row (by simp)
    simp only [quoteText]
    rw [run_quoteLine row [] rs hrow]
    simp
  | row :: m :: ls, rs, _, hall => by
    have hrow : row ≠ [] := hall row (by simp)
    obtain ⟨init, lastF, rfl⟩ : ∃ init lastF, row = init ++ [lastF] :=
      ⟨row.dropLast, row.getLast hrow, (List.dropLast_concat_getLast hrow).symm⟩
    simp only [quoteText]
    rw [run_quoteLine_rest init lastF _ [] rs]
    simp only [csvQRun, csvQStep]
    have h1 : ('\n' == '"') = false := by decide
    have h2 : ('\n' == ',') = false := by decide
    simp only [h1, h2, Bool.false_eq_true, if_false, beq_self_eq_true, Bool.true_or, if_true, List.append_nil,
      List.reverse_reverse]
    rw [run_quoteText (m :: ls) _ (by simp) (fun x hx => hall x (by simp [hx]))]
    simp

/-- **a whole quoted text is read back record by record, field by field** -/
theorem csvRecordsQ_quoteText (rows : List (List (List Char))) (h : rows ≠ []) (hall : ∀ row ∈ rows, row ≠ []) :
    csvRecordsQ (quoteText rows) = some (rows.map fun row => row.map String.ofList) := by
  rw [csvRecordsQ_eq, run_quoteText rows [] h hall]
  simp

/-- **reading inverts quoting**: a non-empty line of quoted fields is one record with exactly those
    fields, whatever they contain -/
theorem csvRecordsQ_quoteLine (fs : List (List Char)) (h : fs ≠ []) :
    csvRecordsQ (quoteLine fs) = some [fs.map String.ofList] := by
  rw [csvRecordsQ_eq, run_quoteLine fs [] [] h]
  simp

/-- non-vacuity: a field with a comma, a line break and a quote in it -/
example : csvRecordsQ (quoteLine ["a,b\n\"c\"".toList, "out".toList]) = some [["a,b\n\"c\"", "out"]] := by
  rw [csvRecordsQ_quoteLine _ (by simp)]
  rfl

end BoolFn
