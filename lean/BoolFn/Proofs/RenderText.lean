import BoolFn.RenderText
import BoolFn.Proofs.CsvText
import BoolFn.Proofs.Codec
/-! Reading the cells back from the modelled rendering gives the grid (all four styles). -/
namespace BoolFn

theorem joinSep_eq_joinWith (c : Char) (ls : List (List Char)) : joinSep c ls = joinWith c ls := by
  match ls with
  | [] => rfl
  | [l] => rfl
  | l :: l' :: ls => simp only [joinSep, joinWith, joinSep_eq_joinWith c (l' :: ls)]

/-! ### selecting the row lines -/
theorem everySecond_ruled (rule : List Char) (rows : List (List Char)) :
    everySecond (rule :: rows.flatMap fun r => [r, rule]) = rows := by
  induction rows with
  | nil => rfl
  | cons r rs ih =>
    simp only [List.flatMap_cons, List.cons_append, List.nil_append, everySecond]
    rw [ih]

theorem everySecond_interleaved (top mid bottom : List Char) (rows : List (List Char)) (h : rows ≠ []) :
    everySecond ([top] ++ interleave mid rows ++ [bottom]) = rows := by
  match rows with
  | [] => exact absurd rfl h
  | [r] => rfl
  | r :: r' :: rs =>
    have ih := everySecond_interleaved mid mid bottom (r' :: rs) (by simp)
    simp only [interleave, List.cons_append, List.nil_append, everySecond] at ih ⊢
    rw [ih]

/-! ### a framed line and its cells -/

/-- a cell a framed style can show and read back: no bar, no line break, not starting or ending blank -/
def FramedCell (bar : Char) (s : String) : Prop :=
  (∀ c ∈ s.toList, c ≠ bar ∧ c ≠ '\n') ∧
  (∀ c, s.toList.head? = some c → isWs c = false) ∧ (∀ c, s.toList.getLast? = some c → isWs c = false)

theorem trimWs_of_head (l : List Char) (h : ∀ c, l.head? = some c → isWs c = false) : trimWs l = l := by
  cases l with
  | nil => rfl
  | cons x xs => simp [trimWs, h x rfl]

theorem trimWs_replicate_space_append (n : Nat) (l : List Char) :
    trimWs (List.replicate n ' ' ++ l) = trimWs l := by
  induction n with
  | zero => rfl
  | succ n ih =>
    have : isWs ' ' = true := by decide
    simp only [List.replicate_succ, List.cons_append, trimWs, this, if_true, ih]

/-- trimming a padded cell gives the cell -/
theorem trimBoth_padded (s : String) (w : Nat)
    (hh : ∀ c, s.toList.head? = some c → isWs c = false) (hl : ∀ c, s.toList.getLast? = some c → isWs c = false) :
    trimBoth (' ' :: padCell w s ++ [' ']) = s.toList := by
  have hsp : isWs ' ' = true := by decide
  simp only [trimBoth, padCell]
  have h1 : trimWs (' ' :: (s.toList ++ List.replicate (w - s.toList.length) ' ') ++ [' ']) =
      trimWs (s.toList ++ (List.replicate (w - s.toList.length) ' ' ++ [' '])) := by
    simp only [List.cons_append, trimWs, hsp, if_true, List.append_assoc]
  rw [h1]
  cases hs : s.toList with
  | nil =>
    -- an empty cell: everything is blank
    have : trimWs (List.replicate (w - 0) ' ' ++ [' ']) = [] := by
      rw [trimWs_replicate_space_append]; simp [trimWs, hsp]
    simp only [List.nil_append, List.length_nil, this, List.reverse_nil, trimWs]
  | cons x xs =>
    rw [← hs, trimWs_append_of_nonws _ _ ⟨x, by rw [hs]; simp, hh x (by rw [hs]; rfl)⟩, trimWs_of_head _ hh]
    have hrev : (s.toList ++ (List.replicate (w - s.toList.length) ' ' ++ [' '])).reverse =
        List.replicate (w - s.toList.length + 1) ' ' ++ s.toList.reverse := by
      simp only [List.reverse_append, List.reverse_replicate, List.reverse_cons, List.reverse_nil, List.nil_append,
        List.singleton_append, List.replicate_succ, List.cons_append, List.append_assoc]
    rw [hrev, trimWs_replicate_space_append]
    rw [trimWs_of_head]
    · simp
    · intro c hc
      apply hl c
      rw [List.head?_reverse] at hc
      exact hc


theorem splitOnChar_cons_sep (c : Char) (l : List Char) : splitOnChar c (c :: l) = [] :: splitOnChar c l := by
  simp [splitOnChar]

theorem splitOnChar_pieces (bar : Char) (ps : List (List Char)) (h : ∀ p ∈ ps, bar ∉ p) :
    splitOnChar bar (ps.flatMap fun p => p ++ [bar]) = ps ++ [[]] := by
  induction ps with
  | nil => rfl
  | cons p ps ih =>
    simp only [List.flatMap_cons, List.append_assoc, List.cons_append, List.nil_append]
    rw [splitOnChar_append_sep bar p _ (h p (by simp)), ih (fun q hq => h q (by simp [hq]))]

theorem zipWith_map_back {β γ : Type} (f : Nat → β → γ) (g : γ → β) (ws : List Nat) (row : List β)
    (hlen : ws.length = row.length) (h : ∀ w, ∀ s ∈ row, g (f w s) = s) :
    (List.zipWith f ws row).map g = row := by
  induction ws generalizing row with
  | nil =>
    cases row with
    | nil => rfl
    | cons _ _ => simp at hlen
  | cons w ws ih =>
    cases row with
    | nil => simp at hlen
    | cons s ss =>
      simp only [List.zipWith_cons_cons, List.map_cons, h w s (by simp)]
      rw [ih ss (by simpa using hlen) (fun w' s' hs' => h w' s' (by simp [hs']))]

/-- **a framed line reads back as its cells** -/
theorem framedCells_framedLine (bar : Char) (hbar : bar ≠ ' ') (ws : List Nat) (row : List String)
    (hlen : ws.length = row.length) (hcells : ∀ s ∈ row, FramedCell bar s) :
    framedCells bar (framedLine bar ws row) = row := by
  have hflat : (paddedRow ws row).flatMap (fun c => ' ' :: c ++ [' ', bar]) =
      ((paddedRow ws row).map fun c => ' ' :: c ++ [' ']).flatMap fun p => p ++ [bar] := by
    rw [List.flatMap_map]
    congr 1
    funext c
    simp
  have hfree : ∀ p ∈ (paddedRow ws row).map (fun c => ' ' :: c ++ [' ']), bar ∉ p := by
    intro p hp hm
    obtain ⟨c, hc, rfl⟩ := List.mem_map.mp hp
    simp only [paddedRow] at hc
    obtain ⟨i, hi, rfl⟩ := List.mem_iff_getElem.mp hc
    simp only [List.length_zipWith] at hi
    simp only [List.getElem_zipWith, padCell, List.mem_cons, List.mem_append, List.mem_replicate,
      List.mem_singleton, List.not_mem_nil, or_false] at hm
    have hc1 : bar ∉ row[i].toList := fun hin => ((hcells row[i] (List.getElem_mem _)).1 bar hin).1 rfl
    grind
  simp only [framedCells, framedLine]
  rw [splitOnChar_cons_sep, hflat, splitOnChar_pieces bar _ hfree]
  simp only [List.drop_succ_cons, List.drop_zero, List.dropLast_concat, List.map_map]
  simp only [paddedRow]
  have := zipWith_map_back (fun w s => padCell w s) (fun c => trimStr (' ' :: c ++ [' '])) ws row hlen (by
    intro w s hs
    have hc := hcells s hs
    simp only [trimStr]
    rw [trimBoth_padded s w hc.2.1 hc.2.2]
    exact String.ofList_toList)
  simpa [Function.comp_def] using this


/-! ### the frameless style: words separated by blanks -/

/-- a cell the frameless style can show and read back: a non-empty word without white space -/
def WordCell (s : String) : Prop := s.toList ≠ [] ∧ ∀ c ∈ s.toList, isWs c = false

theorem splitOnChar_spaces (k : Nat) (rest : List Char) :
    splitOnChar ' ' (List.replicate k ' ' ++ rest) = List.replicate k [] ++ splitOnChar ' ' rest := by
  induction k with
  | zero => rfl
  | succ k ih => simp only [List.replicate_succ, List.cons_append, splitOnChar_cons_sep, ih]

theorem words_step (w : List Char) (k : Nat) (rest : List Char) (hw : ' ' ∉ w) (hne : w ≠ []) :
    (splitOnChar ' ' (w ++ List.replicate (k + 1) ' ' ++ rest)).filter (fun x => !x.isEmpty) =
      w :: (splitOnChar ' ' rest).filter (fun x => !x.isEmpty) := by
  rw [List.replicate_succ, List.append_assoc, List.cons_append, splitOnChar_append_sep ' ' w _ hw,
    splitOnChar_spaces]
  have hwne : (!w.isEmpty) = true := by cases w with | nil => exact absurd rfl hne | cons _ _ => rfl
  simp only [List.filter_cons, hwne, if_true, List.filter_append]
  congr 1
  have : (List.replicate k ([] : List Char)).filter (fun x => !x.isEmpty) = [] := by
    rw [List.filter_eq_nil_iff]; intro a ha; rw [(List.mem_replicate.mp ha).2]; simp
  rw [this, List.nil_append]

theorem map_ws_id (l : List Char) (h : ∀ c ∈ l, isWs c = false ∨ c = ' ') :
    l.map (fun c => if isWs c then ' ' else c) = l := by
  conv => rhs; rw [← List.map_id l]
  apply List.map_congr_left
  intro c hc
  rcases h c hc with h | h
  · simp [h]
  · subst h; simp

/-- **a frameless line reads back as its cells** -/
theorem wordsOf_emptyLine (ws : List Nat) (row : List String) (hlen : ws.length = row.length)
    (hcells : ∀ s ∈ row, WordCell s) : wordsOf (emptyLine ws row) = row := by
  have hmap : (emptyLine ws row).map (fun c => if isWs c then ' ' else c) = emptyLine ws row := by
    apply map_ws_id
    intro c hc
    simp only [emptyLine, paddedRow, List.mem_flatMap] at hc
    obtain ⟨p, hp, hcp⟩ := hc
    obtain ⟨i, hi, rfl⟩ := List.mem_iff_getElem.mp hp
    simp only [List.length_zipWith] at hi
    simp only [List.getElem_zipWith, padCell, List.mem_append, List.mem_replicate, List.mem_singleton] at hcp
    have := (hcells row[i] (List.getElem_mem _)).2 c
    grind
  simp only [wordsOf, hmap]
  -- peel the cells off one by one
  have key : ∀ (ws : List Nat) (row : List String), ws.length = row.length → (∀ s ∈ row, WordCell s) →
      ((splitOnChar ' ' (emptyLine ws row)).filter fun w => !w.isEmpty) = row.map String.toList := by
    intro ws
    induction ws with
    | nil =>
      intro row hl _
      cases row with
      | nil => simp [emptyLine, paddedRow, splitOnChar]
      | cons _ _ => simp at hl
    | cons w ws ih =>
      intro row hl hc
      cases row with
      | nil => simp at hl
      | cons s ss =>
        have hs := hc s (by simp)
        have hsp : ' ' ∉ s.toList := by
          intro hm; have := hs.2 ' ' hm; revert this; decide
        simp only [emptyLine, paddedRow, List.zipWith_cons_cons, List.flatMap_cons, padCell, List.map_cons]
        have e : s.toList ++ List.replicate (w - s.toList.length) ' ' ++ [' '] ++
            (List.zipWith padCell ws ss).flatMap (fun c => c ++ [' ']) =
            s.toList ++ List.replicate (w - s.toList.length + 1) ' ' ++
            (List.zipWith padCell ws ss).flatMap (fun c => c ++ [' ']) := by
          simp [List.replicate_succ', List.append_assoc]
        rw [e, words_step _ _ _ hsp hs.1]
        have := ih ss (by simpa using hl) (fun s' hs' => hc s' (by simp [hs']))
        simp only [emptyLine, paddedRow] at this
        rw [this]
  rw [key ws row hlen hcells, List.map_map]
  conv => rhs; rw [← List.map_id row]
  apply List.map_congr_left
  intro s _
  simp [String.ofList_toList]


/-! ### lines of the text -/
theorem lines_back (lines : List (List Char)) (hne : lines ≠ []) (h : ∀ l ∈ lines, '\n' ∉ l) :
    splitOnChar '\n' (String.ofList (joinSep '\n' lines)).toList = lines := by
  rw [String.toList_ofList, joinSep_eq_joinWith]
  exact splitOnChar_joinWith '\n' lines hne h

theorem mem_padCell (w : Nat) (s : String) (c : Char) (h : c ∈ padCell w s) : c ∈ s.toList ∨ c = ' ' := by
  simp only [padCell, List.mem_append, List.mem_replicate] at h
  rcases h with h | h
  · exact Or.inl h
  · exact Or.inr h.2

theorem nl_not_mem_framedLine (bar : Char) (hbar : bar ≠ '\n') (ws : List Nat) (row : List String)
    (hcells : ∀ s ∈ row, ∀ c ∈ s.toList, c ≠ '\n') : '\n' ∉ framedLine bar ws row := by
  intro hm
  have hsp : ('\n' : Char) ≠ ' ' := by decide
  rcases List.mem_cons.mp hm with h | hm
  · exact hbar h.symm
  · obtain ⟨p, hp, hc⟩ := List.mem_flatMap.mp hm
    obtain ⟨i, hi, rfl⟩ := List.mem_iff_getElem.mp hp
    simp only [paddedRow, List.length_zipWith] at hi
    simp only [paddedRow, List.getElem_zipWith] at hc
    rcases List.mem_cons.mp hc with h | hc
    · exact hsp h
    · rcases List.mem_append.mp hc with h | h
      · rcases mem_padCell _ _ _ h with h | h
        · exact hcells row[i] (List.getElem_mem _) _ h rfl
        · exact hsp h
      · rcases List.mem_cons.mp h with h | h
        · exact hsp h
        · exact hbar (List.mem_singleton.mp h).symm

theorem nl_not_mem_emptyLine (ws : List Nat) (row : List String)
    (hcells : ∀ s ∈ row, ∀ c ∈ s.toList, c ≠ '\n') : '\n' ∉ emptyLine ws row := by
  intro hm
  simp only [emptyLine, paddedRow, List.mem_flatMap] at hm
  obtain ⟨p, hp, hc⟩ := hm
  obtain ⟨i, hi, rfl⟩ := List.mem_iff_getElem.mp hp
  simp only [List.length_zipWith] at hi
  simp only [List.getElem_zipWith, List.mem_append, List.mem_singleton] at hc
  have hsp : ('\n' : Char) ≠ ' ' := by decide
  rcases hc with h | h
  · rcases mem_padCell _ _ _ h with h | h
    · exact hcells row[i] (List.getElem_mem _) _ h rfl
    · exact hsp h
  · exact hsp h

theorem nl_not_mem_ruleLine (l m r h : Char) (hl : l ≠ '\n') (hm : m ≠ '\n') (hr : r ≠ '\n') (hh : h ≠ '\n')
    (ws : List Nat) : '\n' ∉ ruleLine l m r h ws := by
  intro hmem
  rcases List.mem_cons.mp hmem with e | hmem
  · exact hl e.symm
  · rcases List.mem_append.mp hmem with e | e
    · rw [joinSep_eq_joinWith] at e
      rcases mem_joinWith m _ _ e with e | ⟨seg, hseg, hc⟩
      · exact hm e.symm
      · obtain ⟨w, _, rfl⟩ := List.mem_map.mp hseg
        exact hh (List.mem_replicate.mp hc).2.symm
    · exact hr (List.mem_singleton.mp e).symm

/-- the grid is rectangular with `k` columns -/
def Rect (grid : List (List String)) : Prop :=
  ∀ r ∈ grid, r.length = (colWidths grid).length

theorem framedCell_no_nl {bar : Char} {s : String} (h : FramedCell bar s) : ∀ c ∈ s.toList, c ≠ '\n' :=
  fun c hc => (h.1 c hc).2

theorem wordCell_no_nl {s : String} (h : WordCell s) : ∀ c ∈ s.toList, c ≠ '\n' := by
  intro c hc e
  have := h.2 c hc
  rw [e] at this
  revert this; decide

/-- **reading the cells back from the rendering gives the grid** — framed styles -/
theorem readCells_render_ascii (grid : List (List String)) (hrect : Rect grid)
    (hcells : ∀ r ∈ grid, ∀ s ∈ r, FramedCell '|' s) : readCells .ascii (render .ascii grid) = grid := by
  have hrule := nl_not_mem_ruleLine '+' '+' '+' '-' (by decide) (by decide) (by decide) (by decide) (colWidths grid)
  simp only [readCells, render, renderLines]
  rw [lines_back _ (by simp)]
  · rw [List.flatMap_def, ← List.flatMap_def, ← List.flatMap_map (f := framedLine '|' (colWidths grid))
        (g := fun l => [l, ruleLine '+' '+' '+' '-' (colWidths grid)])]
    rw [everySecond_ruled, List.map_map]
    conv => rhs; rw [← List.map_id grid]
    apply List.map_congr_left
    intro r hr
    exact framedCells_framedLine '|' (by decide) _ r (hrect r hr).symm (hcells r hr)
  · intro l hl
    simp only [List.mem_cons, List.mem_flatMap, List.not_mem_nil, or_false] at hl
    rcases hl with rfl | ⟨r, hr, rfl | rfl⟩
    · exact hrule
    · exact nl_not_mem_framedLine '|' (by decide) _ r (fun s hs => framedCell_no_nl (hcells r hr s hs))
    · exact hrule

theorem readCells_render_modern (grid : List (List String)) (hne : grid ≠ []) (hrect : Rect grid)
    (hcells : ∀ r ∈ grid, ∀ s ∈ r, FramedCell '│' s) : readCells .modern (render .modern grid) = grid := by
  simp only [readCells, render, renderLines]
  rw [lines_back _ (by simp)]
  · rw [everySecond_interleaved _ _ _ _ (by simpa using hne), List.map_map]
    conv => rhs; rw [← List.map_id grid]
    apply List.map_congr_left
    intro r hr
    exact framedCells_framedLine '│' (by decide) _ r (hrect r hr).symm (hcells r hr)
  · intro l hl
    simp only [List.mem_append, List.mem_singleton] at hl
    rcases hl with (rfl | hl) | rfl
    · exact nl_not_mem_ruleLine _ _ _ _ (by decide) (by decide) (by decide) (by decide) _
    · -- a row line or the separating rule
      have key : ∀ (rows : List (List Char)) (mid : List Char), l ∈ interleave mid rows → l ∈ rows ∨ l = mid := by
        intro rows mid
        induction rows with
        | nil => intro h; cases h
        | cons x xs ih =>
          cases xs with
          | nil => intro h; simp only [interleave, List.mem_singleton] at h; exact Or.inl (by simp [h])
          | cons y ys =>
            intro h
            simp only [interleave, List.mem_cons] at h
            rcases h with h | h | h
            · exact Or.inl (by simp [h])
            · exact Or.inr h
            · rcases ih (by simpa [List.mem_cons] using h) with h' | h'
              · exact Or.inl (by simp only [List.mem_cons] at h' ⊢; exact Or.inr h')
              · exact Or.inr h'
      rcases key _ _ hl with h | rfl
      · obtain ⟨r, hr, rfl⟩ := List.mem_map.mp h
        exact nl_not_mem_framedLine '│' (by decide) _ r (fun s hs => framedCell_no_nl (hcells r hr s hs))
      · exact nl_not_mem_ruleLine _ _ _ _ (by decide) (by decide) (by decide) (by decide) _
    · exact nl_not_mem_ruleLine _ _ _ _ (by decide) (by decide) (by decide) (by decide) _

theorem readCells_render_markdown (grid : List (List String)) (hne : grid ≠ []) (hrect : Rect grid)
    (hcells : ∀ r ∈ grid, ∀ s ∈ r, FramedCell '|' s) : readCells .markdown (render .markdown grid) = grid := by
  cases grid with
  | nil => exact absurd rfl hne
  | cons h rest =>
    simp only [readCells, render, renderLines]
    rw [lines_back _ (by simp)]
    · simp only [List.map_cons, List.map_map]
      rw [framedCells_framedLine '|' (by decide) _ h (hrect h (by simp)).symm (hcells h (by simp))]
      congr 1
      conv => rhs; rw [← List.map_id rest]
      apply List.map_congr_left
      intro r hr
      exact framedCells_framedLine '|' (by decide) _ r (hrect r (by simp [hr])).symm (hcells r (by simp [hr]))
    · intro l hl
      simp only [List.mem_cons, List.mem_map] at hl
      rcases hl with rfl | rfl | ⟨r, hr, rfl⟩
      · exact nl_not_mem_framedLine '|' (by decide) _ h (fun s hs => framedCell_no_nl (hcells h (by simp) s hs))
      · exact nl_not_mem_ruleLine _ _ _ _ (by decide) (by decide) (by decide) (by decide) _
      · exact nl_not_mem_framedLine '|' (by decide) _ r
          (fun s hs => framedCell_no_nl (hcells r (by simp [hr]) s hs))

/-- … and the frameless style -/
theorem readCells_render_empty (grid : List (List String)) (hne : grid ≠ []) (hrect : Rect grid)
    (hcells : ∀ r ∈ grid, ∀ s ∈ r, WordCell s) : readCells .empty (render .empty grid) = grid := by
  simp only [readCells, render, renderLines]
  rw [lines_back _ (by simpa using hne)]
  · rw [List.map_map]
    conv => rhs; rw [← List.map_id grid]
    apply List.map_congr_left
    intro r hr
    exact wordsOf_emptyLine _ r (hrect r hr).symm (hcells r hr)
  · intro l hl
    obtain ⟨r, hr, rfl⟩ := List.mem_map.mp hl
    exact nl_not_mem_emptyLine _ r (fun s hs => wordCell_no_nl (hcells r hr s hs))


/-! ### the grid of a truth table -/

/-- a name every style can show and read back: a non-empty word without white space, bars or line breaks -/
@[reducible] def TidyCell (s : String) : Prop :=
  s.toList ≠ [] ∧ ∀ c ∈ s.toList, isWs c = false ∧ c ≠ '|' ∧ c ≠ '│'

theorem TidyCell.word {s : String} (h : TidyCell s) : WordCell s := ⟨h.1, fun c hc => (h.2 c hc).1⟩

theorem TidyCell.framed {s : String} (h : TidyCell s) (bar : Char) (hb : bar = '|' ∨ bar = '│') :
    FramedCell bar s := by
  refine ⟨fun c hc => ⟨?_, ?_⟩, ?_, ?_⟩
  · rcases hb with rfl | rfl
    · exact (h.2 c hc).2.1
    · exact (h.2 c hc).2.2
  · intro e
    have := (h.2 c hc).1
    rw [e] at this; revert this; decide
  · intro c hc; exact (h.2 c (List.mem_of_mem_head? hc)).1
  · intro c hc; exact (h.2 c (List.mem_of_mem_getLast? hc)).1

theorem formatBool_tidy (f : Fmt) (b : Bool) : TidyCell (formatBool f b) := by
  cases f <;> cases b <;> exact ⟨by decide, by decide⟩

theorem resultHeader_tidy : TidyCell resultHeader := ⟨by decide, by decide⟩

theorem cells_tidy (t : Table String) (hn : ∀ n ∈ t.inputs, TidyCell n) (fi fo : Fmt) :
    ∀ r ∈ cells t fi fo, ∀ s ∈ r, TidyCell s := by
  intro r hr s hs
  simp only [cells, List.mem_cons, List.mem_map] at hr
  rcases hr with rfl | ⟨x, _, rfl⟩
  · simp only [headerRow, List.mem_append, List.mem_singleton] at hs
    rcases hs with hs | rfl
    · exact hn s hs
    · exact resultHeader_tidy
  · simp only [recordRow, List.mem_append, List.mem_map, List.mem_singleton] at hs
    rcases hs with ⟨b, _, rfl⟩ | rfl
    · exact formatBool_tidy fi b
    · exact formatBool_tidy fo x.1

theorem cells_rect (t : Table String) (h : t.outputs.length = 2 ^ t.inputs.length) (fi fo : Fmt) :
    Rect (cells t fi fo) := by
  intro r hr
  have hw : (colWidths (cells t fi fo)).length = t.inputs.length + 1 := by
    simp [colWidths, cells, headerRow]
  rw [hw]
  simp only [cells, List.mem_cons, List.mem_map] at hr
  rcases hr with rfl | ⟨x, hx, rfl⟩
  · simp [headerRow]
  · have hk := List.mem_zipIdx hx
    simp only [Nat.zero_add, Nat.zero_le, true_and] at hk
    simp only [recordRow, List.length_append, List.length_map, List.length_cons, List.length_nil]
    rw [rowIndexToPoint_length x.2 _ (by rw [← h]; exact hk.1)]

end BoolFn
