import BoolFn.Basic
/-! Lemmas about partial valuations, association lists and sorted sets. -/
namespace BoolFn
variable {α : Type}

section
variable [DecidableEq α]

@[simp] theorem PVal.get?_nil (x : α) : PVal.get? ([] : PVal α) x = none := rfl

theorem PVal.get?_cons (k : α) (b : Bool) (v : PVal α) (x : α) :
    PVal.get? ((k, b) :: v) x = if k = x then some b else PVal.get? v x := by
  by_cases h : k = x
  · simp [PVal.get?, List.find?, h]
  · have hb : (k == x) = false := by simp [h]
    simp [PVal.get?, List.find?, hb, h]

theorem PVal.get?_cons_self (x : α) (b : Bool) (v : PVal α) : PVal.get? ((x, b) :: v) x = some b := by
  simp [PVal.get?_cons]

theorem PVal.get?_cons_ne (x y : α) (b : Bool) (v : PVal α) (h : x ≠ y) :
    PVal.get? ((x, b) :: v) y = PVal.get? v y := by
  simp [PVal.get?_cons, h]

theorem PVal.get?_isSome_iff (v : PVal α) (x : α) : (PVal.get? v x).isSome ↔ x ∈ v.keys := by
  induction v with
  | nil => simp [PVal.keys]
  | cons p ps ih =>
    obtain ⟨k, b⟩ := p
    rw [PVal.get?_cons]
    by_cases h : k = x
    · simp [h, PVal.keys]
    · simp only [h, if_false, ih, PVal.keys, List.map_cons, List.mem_cons]
      constructor
      · intro hx; exact Or.inr hx
      · intro hx; rcases hx with hx | hx
        · exact absurd hx.symm h
        · exact hx

theorem PVal.get?_eq_none_iff (v : PVal α) (x : α) : PVal.get? v x = none ↔ x ∉ v.keys := by
  rw [← PVal.get?_isSome_iff]; cases PVal.get? v x <;> simp

theorem lookup_cons {β : Type} (k : α) (b : β) (m : List (α × β)) (x : α) :
    lookup ((k, b) :: m) x = if k = x then some b else lookup m x := by
  by_cases h : k = x
  · simp [lookup, List.find?, h]
  · have hb : (k == x) = false := by simp [h]
    simp [lookup, List.find?, hb, h]

theorem lookup_map {β γ : Type} (f : β → γ) (m : List (α × β)) (x : α) :
    lookup (m.map fun p => (p.1, f p.2)) x = (lookup m x).map f := by
  induction m with
  | nil => rfl
  | cons p ps ih =>
    obtain ⟨k, b⟩ := p
    simp only [List.map_cons, lookup_cons, ih]
    split <;> simp

theorem lookup_eq_get? (v : PVal α) (x : α) : lookup v x = PVal.get? v x := rfl

theorem override_nil (ρ : α → Bool) : override ρ [] = ρ := by funext x; simp [override]

theorem override_cons (ρ : α → Bool) (k : α) (b : Bool) (v : PVal α) (x : α) :
    override ρ ((k, b) :: v) x = if k = x then b else override ρ v x := by
  simp only [override, PVal.get?_cons]; split <;> simp

/-- overriding one variable -/
theorem override_single (ρ : α → Bool) (k : α) (b : Bool) (x : α) :
    override ρ [(k, b)] x = if k = x then b else ρ x := by
  simp [override_cons, override_nil]

theorem complete_eq_override (v : PVal α) (d : Bool) : complete v d = override (fun _ => d) v := rfl

/-- a point zipped onto names reads back the point's coordinates -/
theorem get?_zip_of_nodup (ns : List α) (p : List Bool) (hl : p.length = ns.length) (hn : ns.Nodup)
    (i : Nat) (hi : i < ns.length) :
    PVal.get? (ns.zip p) ns[i] = some (p[i]'(by omega)) := by
  induction ns generalizing p i with
  | nil => simp at hi
  | cons a as ih =>
    cases p with
    | nil => simp at hl
    | cons b bs =>
      simp only [List.zip_cons_cons]
      cases i with
      | zero => simp [PVal.get?_cons]
      | succ j =>
        have hne : a ≠ as[j]'(by simpa using hi) := by
          intro h
          have := (List.nodup_cons.mp hn).1
          exact this (h ▸ List.getElem_mem _)
        simp only [List.getElem_cons_succ]
        rw [PVal.get?_cons_ne _ _ _ _ hne]
        exact ih bs (by simpa using hl) (List.nodup_cons.mp hn).2 j (by simpa using hi)

theorem get?_zip_none (ns : List α) (p : List Bool) (x : α) (hx : x ∉ ns) :
    PVal.get? (ns.zip p) x = none := by
  rw [PVal.get?_eq_none_iff]
  intro h
  apply hx
  simp only [PVal.keys, List.mem_map] at h
  obtain ⟨⟨a, b⟩, hab, rfl⟩ := h
  exact (List.of_mem_zip hab).1

/-- mapping `complete (ns.zip p)` over `ns` gives back `p` -/
theorem map_complete_zip (ns : List α) (p : List Bool) (hl : p.length = ns.length) (hn : ns.Nodup) (d : Bool) :
    ns.map (complete (ns.zip p) d) = p := by
  apply List.ext_getElem (by simp [hl])
  intro i h1 h2
  simp only [List.getElem_map, complete]
  rw [get?_zip_of_nodup ns p hl hn i (by simpa using h1)]
  rfl
end

/-! ### duplicate-freeness helpers (core has no `Nodup.map_on` / `Nodup.filter`) -/
theorem nodup_map_on {β γ : Type} (f : β → γ) (l : List β) (hl : l.Nodup)
    (hinj : ∀ x ∈ l, ∀ y ∈ l, f x = f y → x = y) : (l.map f).Nodup := by
  rw [List.Nodup, List.pairwise_map]
  refine List.Pairwise.imp_of_mem ?_ hl
  intro a b ha hb hab heq
  exact hab (hinj a ha b hb heq)

theorem nodup_filter {β : Type} (p : β → Bool) (l : List β) (hl : l.Nodup) : (l.filter p).Nodup :=
  List.Pairwise.sublist List.filter_sublist hl

theorem nodup_zipIdx {β : Type} (l : List β) (k : Nat) : (l.zipIdx k).Nodup := by
  induction l generalizing k with
  | nil => simp
  | cons a as ih =>
    simp only [List.zipIdx_cons, List.nodup_cons]
    refine ⟨?_, ih (k + 1)⟩
    intro hm
    have := List.mem_zipIdx hm
    omega

/-! ### sorted sets -/
section
set_option linter.unusedSectionVars false
variable [Ord α] [Std.TransOrd α] [Std.LawfulEqOrd α]

theorem mem_insertSorted (a x : α) (l : List α) : x ∈ insertSorted a l ↔ x = a ∨ x ∈ l := by
  induction l with
  | nil => simp [insertSorted]
  | cons b bs ih =>
    simp only [insertSorted]
    split
    · simp
    · rename_i h
      have : a = b := Std.LawfulEqOrd.eq_of_compare h
      subst this
      simp
    · simp only [List.mem_cons, ih]
      constructor
      · rintro (h | h | h)
        · exact Or.inr (Or.inl h)
        · exact Or.inl h
        · exact Or.inr (Or.inr h)
      · rintro (h | h | h)
        · exact Or.inr (Or.inl h)
        · exact Or.inl h
        · exact Or.inr (Or.inr h)

theorem mem_sortDedup (x : α) (l : List α) : x ∈ sortDedup l ↔ x ∈ l := by
  induction l with
  | nil => simp [sortDedup]
  | cons a as ih =>
    have : sortDedup (a :: as) = insertSorted a (sortDedup as) := rfl
    rw [this, mem_insertSorted, ih]; simp

theorem strictSorted_insertSorted (a : α) (l : List α) (h : StrictSorted l) :
    StrictSorted (insertSorted a l) := by
  induction l with
  | nil => simp [insertSorted, StrictSorted]
  | cons b bs ih =>
    simp only [insertSorted]
    have hb := List.pairwise_cons.mp h
    split
    · rename_i hab
      refine List.pairwise_cons.mpr ⟨?_, h⟩
      intro y hy
      rcases List.mem_cons.mp hy with rfl | hy
      · exact hab
      · exact Std.TransCmp.lt_trans hab (hb.1 y hy)
    · exact h
    · rename_i hab
      refine List.pairwise_cons.mpr ⟨?_, ih hb.2⟩
      intro y hy
      rcases (mem_insertSorted a y bs).mp hy with rfl | hy
      · exact Std.OrientedCmp.lt_of_gt hab
      · exact hb.1 y hy

theorem strictSorted_sortDedup (l : List α) : StrictSorted (sortDedup l) := by
  induction l with
  | nil => simp [sortDedup, StrictSorted]
  | cons a as ih => exact strictSorted_insertSorted a _ ih

theorem StrictSorted.nodup {l : List α} (h : StrictSorted l) : l.Nodup := by
  unfold StrictSorted at h
  refine List.Pairwise.imp ?_ h
  intro a b hab heq
  subst heq
  rw [Std.ReflOrd.compare_self] at hab
  cases hab

theorem nodup_sortDedup (l : List α) : (sortDedup l).Nodup := (strictSorted_sortDedup l).nodup

/-- inserting into a sorted list an element that is already its head / below its head -/
theorem insertSorted_of_lt_all (a : α) (l : List α) (h : ∀ y ∈ l, compare a y = .lt) :
    insertSorted a l = a :: l := by
  cases l with
  | nil => rfl
  | cons b bs => simp [insertSorted, h b (by simp)]

/-- a strictly sorted list is a fixed point of `sortDedup` -/
theorem sortDedup_of_strictSorted (l : List α) (h : StrictSorted l) : sortDedup l = l := by
  induction l with
  | nil => rfl
  | cons a as ih =>
    have hb := List.pairwise_cons.mp h
    have : sortDedup (a :: as) = insertSorted a (sortDedup as) := rfl
    rw [this, ih hb.2, insertSorted_of_lt_all a as hb.1]

/-- two strictly sorted lists with the same members are equal -/
theorem strictSorted_ext (l₁ l₂ : List α) (h₁ : StrictSorted l₁) (h₂ : StrictSorted l₂)
    (hm : ∀ x, x ∈ l₁ ↔ x ∈ l₂) : l₁ = l₂ := by
  induction l₁ generalizing l₂ with
  | nil =>
    cases l₂ with
    | nil => rfl
    | cons b bs => exact absurd ((hm b).mpr (by simp)) (by simp)
  | cons a as ih =>
    cases l₂ with
    | nil => exact absurd ((hm a).mp (by simp)) (by simp)
    | cons b bs =>
      have ha := List.pairwise_cons.mp h₁
      have hb := List.pairwise_cons.mp h₂
      have hab : a = b := by
        rcases List.mem_cons.mp ((hm a).mp (by simp)) with h | h
        · exact h
        · rcases List.mem_cons.mp ((hm b).mpr (by simp)) with h' | h'
          · exact h'.symm
          · have h1 := hb.1 a h
            have h2 := ha.1 b h'
            have := Std.TransCmp.lt_trans h1 h2
            rw [Std.ReflOrd.compare_self] at this
            cases this
      subst hab
      congr 1
      apply ih bs ha.2 hb.2
      intro x
      constructor
      · intro hx
        rcases List.mem_cons.mp ((hm x).mp (List.mem_cons_of_mem _ hx)) with h | h
        · subst h
          have := ha.1 x hx
          rw [Std.ReflOrd.compare_self] at this
          cases this
        · exact h
      · intro hx
        rcases List.mem_cons.mp ((hm x).mpr (List.mem_cons_of_mem _ hx)) with h | h
        · subst h
          have := hb.1 x hx
          rw [Std.ReflOrd.compare_self] at this
          cases this
        · exact h

theorem mem_unionSorted (x : α) (a b : List α) : x ∈ unionSorted a b ↔ x ∈ a ∨ x ∈ b := by
  simp [unionSorted, mem_sortDedup]

theorem isStrictSorted_iff (l : List α) : isStrictSorted l = true ↔ StrictSorted l := by
  induction l with
  | nil => simp [isStrictSorted, StrictSorted]
  | cons a as ih =>
    cases as with
    | nil => simp [isStrictSorted, StrictSorted]
    | cons b bs =>
      simp only [isStrictSorted, Bool.and_eq_true, ih, ltb, beq_iff_eq]
      constructor
      · rintro ⟨hab, hs⟩
        refine List.pairwise_cons.mpr ⟨?_, hs⟩
        intro y hy
        rcases List.mem_cons.mp hy with rfl | hy
        · exact hab
        · exact Std.TransCmp.lt_trans hab ((List.pairwise_cons.mp hs).1 y hy)
      · intro h
        have := List.pairwise_cons.mp h
        exact ⟨this.1 b (by simp), this.2⟩
end

end BoolFn
