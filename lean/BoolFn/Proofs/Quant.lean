import BoolFn.Proofs.Basic
/-! Generic semantics of "eliminate the variables one at a time":
    `F := F[v=0] ∘ F[v=1]` folded over a duplicate-free list of variables equals the nested
    expansion over all assignments of the variables, and does not depend on the order. -/
namespace BoolFn
variable {α : Type} [DecidableEq α]

/-- `ρ` with `x` set to `b` -/
def upd (ρ : α → Bool) (x : α) (b : Bool) : α → Bool := fun y => if x = y then b else ρ y

theorem upd_eq_override (ρ : α → Bool) (x : α) (b : Bool) : upd ρ x b = override ρ [(x, b)] := by
  funext y; simp [upd, override_single]

theorem upd_comm (ρ : α → Bool) (x y : α) (a b : Bool) (h : x ≠ y) :
    upd (upd ρ x a) y b = upd (upd ρ y b) x a := by
  funext z
  simp only [upd]
  by_cases h1 : y = z <;> by_cases h2 : x = z <;> simp [h1, h2]
  exact absurd (h2.trans h1.symm) h

/-- the operation combined over all assignments of the listed variables, innermost variable last:
    for `∘ = or` this is the OR over all assignments of `vs` of `f (ρ overridden by the assignment)` -/
def nested {F : Type} (bop : Bool → Bool → Bool) (den : (α → Bool) → F → Bool) :
    List α → F → (α → Bool) → Bool
  | [], f, ρ => den ρ f
  | x :: xs, f, ρ => bop (nested bop den xs f (upd ρ x false)) (nested bop den xs f (upd ρ x true))

/-- eliminating variables the function does not depend on changes nothing, for an idempotent operator -/
theorem nested_foreign {F : Type} (bop : Bool → Bool → Bool) (hid : ∀ a, bop a a = a)
    (den : (α → Bool) → F → Bool) (f : F) (vs : List α)
    (hind : ∀ x ∈ vs, ∀ ρ b, den (upd ρ x b) f = den ρ f) : ∀ ρ, nested bop den vs f ρ = den ρ f := by
  induction vs with
  | nil => intro ρ; rfl
  | cons x xs ih =>
    intro ρ
    have ih' := ih (fun y hy => hind y (by simp [hy]))
    simp only [nested, ih', hind x (by simp), hid]

/-- the medial law, satisfied by `||`, `&&` and `!=` -/
def Medial (bop : Bool → Bool → Bool) : Prop :=
  ∀ a b c d, bop (bop a b) (bop c d) = bop (bop a c) (bop b d)

theorem medial_or : Medial (· || ·) := by intro a b c d; cases a <;> cases b <;> cases c <;> cases d <;> rfl
theorem medial_and : Medial (· && ·) := by intro a b c d; cases a <;> cases b <;> cases c <;> cases d <;> rfl
theorem medial_xor : Medial (· != ·) := by intro a b c d; cases a <;> cases b <;> cases c <;> cases d <;> rfl

section
variable {F : Type} (bop : Bool → Bool → Bool) (den : (α → Bool) → F → Bool)
  (step : F → α → F) (Inv : F → Prop)

/-- pushing one elimination step through the nested expansion of other variables -/
theorem nested_step (hmed : Medial bop)
    (hstep : ∀ f x, Inv f → Inv (step f x) ∧
      ∀ ρ, den ρ (step f x) = bop (den (upd ρ x false) f) (den (upd ρ x true) f))
    (xs : List α) (x : α) (hx : x ∉ xs) (f : F) (hf : Inv f) (ρ : α → Bool) :
    nested bop den xs (step f x) ρ =
      bop (nested bop den xs f (upd ρ x false)) (nested bop den xs f (upd ρ x true)) := by
  induction xs generalizing ρ with
  | nil => exact (hstep f x hf).2 ρ
  | cons y ys ih =>
    have hxy : x ≠ y := fun h => hx (by simp [h])
    have hx' : x ∉ ys := fun h => hx (by simp [h])
    simp only [nested]
    rw [ih hx' (upd ρ y false), ih hx' (upd ρ y true), hmed]
    rw [upd_comm ρ y x false false hxy.symm, upd_comm ρ y x true false hxy.symm,
      upd_comm ρ y x false true hxy.symm, upd_comm ρ y x true true hxy.symm]

/-- **the fold over a duplicate-free variable list is the nested expansion** -/
theorem foldl_eq_nested (hmed : Medial bop)
    (hstep : ∀ f x, Inv f → Inv (step f x) ∧
      ∀ ρ, den ρ (step f x) = bop (den (upd ρ x false) f) (den (upd ρ x true) f))
    (vs : List α) (hnd : vs.Nodup) (f : F) (hf : Inv f) (ρ : α → Bool) :
    Inv (vs.foldl step f) ∧ den ρ (vs.foldl step f) = nested bop den vs f ρ := by
  induction vs generalizing f ρ with
  | nil => exact ⟨hf, rfl⟩
  | cons x xs ih =>
    have hnd' := List.nodup_cons.mp hnd
    have := ih hnd'.2 (step f x) (hstep f x hf).1 ρ
    refine ⟨this.1, ?_⟩
    rw [List.foldl, this.2, nested_step bop den step Inv hmed hstep xs x hnd'.1 f hf ρ]
    rfl
end

/-- **order independence**: the nested expansion is invariant under permutations of a
    duplicate-free variable list -/
theorem nested_perm {F : Type} (bop : Bool → Bool → Bool) (den : (α → Bool) → F → Bool) (hmed : Medial bop)
    {vs vs' : List α} (hp : vs.Perm vs') (hnd : vs.Nodup) (f : F) (ρ : α → Bool) :
    nested bop den vs f ρ = nested bop den vs' f ρ := by
  induction hp generalizing ρ with
  | nil => rfl
  | cons x _ ih =>
    have hnd' := List.nodup_cons.mp hnd
    simp only [nested, ih hnd'.2]
  | swap x y l =>
    have h1 := List.nodup_cons.mp hnd
    have hxy : y ≠ x := fun h => h1.1 (by simp [h])
    simp only [nested]
    rw [hmed, upd_comm ρ y x false false hxy, upd_comm ρ y x true false hxy,
      upd_comm ρ y x false true hxy, upd_comm ρ y x true true hxy]
  | trans h1 _ ih1 ih2 =>
    rw [ih1 hnd, ih2 (h1.nodup hnd)]

/-! ### reading the nested expansion for `or` / `and` as "for some / for every choice of the values" -/

theorem nested_or_iff {F : Type} (den : (α → Bool) → F → Bool) (vs : List α) (f : F) (ρ : α → Bool) :
    nested (· || ·) den vs f ρ = true ↔ ∃ σ : α → Bool, (∀ y, y ∉ vs → σ y = ρ y) ∧ den σ f = true := by
  induction vs generalizing ρ with
  | nil =>
    simp only [nested, List.not_mem_nil, not_false_eq_true, forall_const]
    constructor
    · intro h; exact ⟨ρ, fun _ => rfl, h⟩
    · rintro ⟨σ, hσ, h⟩
      have : σ = ρ := funext hσ
      rw [← this]; exact h
  | cons x xs ih =>
    simp only [nested, Bool.or_eq_true, ih]
    constructor
    · rintro (⟨σ, hσ, h⟩ | ⟨σ, hσ, h⟩)
      all_goals
        refine ⟨σ, ?_, h⟩
        intro y hy
        have hyx : x ≠ y := fun e => hy (by simp [e])
        rw [hσ y (fun e => hy (by simp [e]))]
        simp [upd, hyx]
    · rintro ⟨σ, hσ, h⟩
      by_cases hx : x ∈ xs
      · -- x is eliminated again further in: either branch works
        left
        refine ⟨σ, ?_, h⟩
        intro y hy
        have hyx : x ≠ y := fun e => hy (e ▸ hx)
        rw [hσ y (by simp [hy, hyx.symm])]
        simp [upd, hyx]
      · cases hb : σ x
        · left
          refine ⟨σ, ?_, h⟩
          intro y hy
          by_cases hyx : x = y
          · subst hyx; simp [upd, hb]
          · rw [hσ y (by simp [hy, Ne.symm hyx])]; simp [upd, hyx]
        · right
          refine ⟨σ, ?_, h⟩
          intro y hy
          by_cases hyx : x = y
          · subst hyx; simp [upd, hb]
          · rw [hσ y (by simp [hy, Ne.symm hyx])]; simp [upd, hyx]

theorem nested_and_iff {F : Type} (den : (α → Bool) → F → Bool) (vs : List α) (f : F) (ρ : α → Bool) :
    nested (· && ·) den vs f ρ = true ↔ ∀ σ : α → Bool, (∀ y, y ∉ vs → σ y = ρ y) → den σ f = true := by
  induction vs generalizing ρ with
  | nil =>
    simp only [nested, List.not_mem_nil, not_false_eq_true, forall_const]
    constructor
    · intro h σ hσ
      have : σ = ρ := funext hσ
      rw [this]; exact h
    · intro h; exact h ρ (fun _ => rfl)
  | cons x xs ih =>
    simp only [nested, Bool.and_eq_true, ih]
    constructor
    · rintro ⟨h0, h1⟩ σ hσ
      cases hb : σ x
      · apply h0 σ
        intro y hy
        by_cases hyx : x = y
        · subst hyx; simp [upd, hb]
        · rw [hσ y (by simp [hy, Ne.symm hyx])]; simp [upd, hyx]
      · apply h1 σ
        intro y hy
        by_cases hyx : x = y
        · subst hyx; simp [upd, hb]
        · rw [hσ y (by simp [hy, Ne.symm hyx])]; simp [upd, hyx]
    · intro h
      constructor <;>
      · intro σ hσ
        apply h σ
        intro y hy
        have hyx : x ≠ y := fun e => hy (by simp [e])
        rw [hσ y (fun e => hy (by simp [e]))]
        simp [upd, hyx]

end BoolFn
