import BoolFn.Proofs.Support
/-! Semantics of lib-bdd's `set_num_vars` and `rename_variables` in the semantic model, as used by
    `extend_bdd_variables` and `prune_bdd_variables`. -/
namespace BoolFn
namespace Inner

/-- the first `n` coordinates of `q`, padded with `false` -/
def truncTo (n : Nat) (q : List Bool) : List Bool := (List.range n).map fun i => q.getD i false

@[simp] theorem truncTo_length (n : Nat) (q : List Bool) : (truncTo n q).length = n := by simp [truncTo]

theorem truncTo_getD (n : Nat) (q : List Bool) (i : Nat) :
    (truncTo n q).getD i false = if i < n then q.getD i false else false := by
  simp only [truncTo, List.getD_eq_getElem?_getD, List.getElem?_map]
  by_cases h : i < n
  · simp [List.getElem?_range h, h]
  · simp [List.getElem?_eq_none (by simpa using Nat.le_of_not_lt h : (List.range n).length ≤ i), h]

theorem getD_set (p : List Bool) (i j : Nat) (v : Bool) :
    (p.set i v).getD j false = if i = j ∧ j < p.length then v else p.getD j false := by
  simp only [List.getD_eq_getElem?_getD, List.getElem?_set]
  by_cases h : i = j
  · subst h
    by_cases hl : i < p.length
    · simp [hl]
    · simp [hl, List.getElem?_eq_none (Nat.le_of_not_lt hl)]
  · simp [h]

/-- lists of equal length with equal `getD` are equal -/
theorem ext_getD (p q : List Bool) (hl : p.length = q.length) (h : ∀ i, i < p.length → p.getD i false = q.getD i false) :
    p = q := by
  apply List.ext_getElem hl
  intro i h1 h2
  have := h i h1
  simpa [List.getD_eq_getElem?_getD, List.getElem?_eq_getElem h1, List.getElem?_eq_getElem h2] using this

theorem truncTo_set_lt (n : Nat) (q : List Bool) (j : Nat) (v : Bool) (hj : j < n) (hq : j < q.length) :
    truncTo n (q.set j v) = (truncTo n q).set j v := by
  apply ext_getD _ _ (by simp)
  intro i hi
  rw [truncTo_getD, getD_set, getD_set, truncTo_getD]
  simp only [truncTo_length] at hi ⊢
  by_cases hji : j = i
  · subst hji; simp [hj, hq]
  · simp [hji, hi]

theorem truncTo_set_ge (n : Nat) (q : List Bool) (j : Nat) (v : Bool) (hj : n ≤ j) :
    truncTo n (q.set j v) = truncTo n q := by
  apply ext_getD _ _ (by simp)
  intro i hi
  simp only [truncTo_length] at hi
  rw [truncTo_getD, truncTo_getD, getD_set]
  have : ¬ (j = i ∧ i < q.length) := by omega
  simp [this]

/-- `set_num_vars(m)` succeeds when every support variable is below `m` -/
theorem setNumVars_ok (b : Inner) (m : Nat) (h : ∀ i ∈ b.supportSet, i < m) :
    b.setNumVars m = .ok (ofFn m fun q => b.eval (truncTo b.n q)) := by
  have : (b.supportSet.any fun i => decide (m ≤ i)) = false := by
    rw [List.any_eq_false]
    intro i hi
    have := h i hi
    simp; omega
  simp [setNumVars, this, truncTo]

/-- the diagram after `set_num_vars(m)` depends on exactly the same variables (growing case) -/
theorem supportSet_setNumVars_up (b : Inner) (m : Nat) (hnm : b.n ≤ m) (j : Nat) :
    j ∈ (ofFn m fun q => b.eval (truncTo b.n q)).supportSet ↔ j ∈ b.supportSet := by
  constructor
  · intro hj
    rw [mem_supportSet] at hj
    have hlt : j < m := by simpa using hj.1
    have hdep := hj.2
    have hnot : ¬ ((ofFn m fun q => b.eval (truncTo b.n q)).dependsOn j = false) := by simp [hdep]
    rw [not_dependsOn_iff] at hnot
    simp only [Classical.not_forall] at hnot
    obtain ⟨q, hq, hne⟩ := hnot
    simp only [n_ofFn] at hq
    rw [eval_ofFn _ _ _ (by simp [hq]), eval_ofFn _ _ _ (by simp [hq])] at hne
    by_cases hjn : j < b.n
    · rw [truncTo_set_lt _ _ _ _ hjn (by omega), truncTo_set_lt _ _ _ _ hjn (by omega)] at hne
      exact mem_supportSet_of_differs b j hjn _ (by simp) hne
    · rw [truncTo_set_ge _ _ _ _ (Nat.le_of_not_lt hjn), truncTo_set_ge _ _ _ _ (Nat.le_of_not_lt hjn)] at hne
      exact absurd rfl hne
  · intro hj
    have hjn := supportSet_lt b j hj
    have hdep := ((mem_supportSet b j).mp hj).2
    have hnot : ¬ (b.dependsOn j = false) := by simp [hdep]
    rw [not_dependsOn_iff] at hnot
    simp only [Classical.not_forall] at hnot
    obtain ⟨p, hp, hne⟩ := hnot
    apply mem_supportSet_of_differs _ j (by simp; omega) (p ++ List.replicate (m - b.n) false) (by simp [hp]; omega)
    rw [eval_ofFn _ _ _ (by simp [hp]; omega), eval_ofFn _ _ _ (by simp [hp]; omega)]
    have htr : ∀ v, truncTo b.n ((p ++ List.replicate (m - b.n) false).set j v) = p.set j v := by
      intro v
      apply ext_getD _ _ (by simp [hp])
      intro i hi
      simp only [truncTo_length] at hi
      rw [truncTo_getD, getD_set, getD_set]
      simp only [hi, if_true, List.length_append, List.length_replicate, hp]
      by_cases hji : j = i
      · subst hji; simp [hi]; omega
      · simp only [hji, false_and, if_false]
        simp [List.getD_eq_getElem?_getD, List.getElem?_append_left (by omega : i < p.length)]
    rw [htr, htr]
    exact hne

/-! ### `rename_variables` -/

theorem strictlyIncreasing_map (π : Nat → Nat) (n : Nat)
    (hmono : ∀ i j, i < j → j < n → π i < π j) :
    (s : List Nat) → s.Pairwise (· < ·) → (∀ i ∈ s, i < n) → strictlyIncreasing (s.map π) = true
  | [], _, _ => rfl
  | [_], _, _ => rfl
  | a :: b :: rest, hp, hlt => by
    have hp' := List.pairwise_cons.mp hp
    simp only [List.map_cons, strictlyIncreasing, Bool.and_eq_true, decide_eq_true_eq]
    refine ⟨hmono a b (hp'.1 b (by simp)) (hlt b (by simp)), ?_⟩
    have := strictlyIncreasing_map π n hmono (b :: rest) hp'.2 (fun i hi => hlt i (by simp [hi]))
    simpa using this

theorem supportSet_pairwise (b : Inner) : b.supportSet.Pairwise (· < ·) :=
  List.Pairwise.sublist List.filter_sublist List.pairwise_lt_range

/-- the point `rename_variables` reads: support coordinates come from their renamed positions -/
def gather (c : Inner) (π : Nat → Nat) (q : List Bool) : List Bool :=
  (List.range c.n).map fun i => if c.supportSet.contains i then q.getD (π i) false else false

@[simp] theorem gather_length (c : Inner) (π : Nat → Nat) (q : List Bool) : (gather c π q).length = c.n := by
  simp [gather]

theorem gather_getD (c : Inner) (π : Nat → Nat) (q : List Bool) (i : Nat) (hi : i < c.n) :
    (gather c π q).getD i false = if i ∈ c.supportSet then q.getD (π i) false else false := by
  simp only [gather, List.getD_eq_getElem?_getD, List.getElem?_map, List.getElem?_range hi, Option.map_some,
    Option.getD_some, List.contains_eq_mem, decide_eq_true_eq]

/-- `rename_variables(perm)` succeeds when the renamed support stays in range and increasing; the
    result reads the support coordinates from their new positions -/
theorem renameVariables_ok (c : Inner) (hc : c.WF) (perm : List (Nat × Nat))
    (hrange : ∀ i ∈ c.supportSet, permLookup perm i < c.n)
    (hmono : ∀ i j, i < j → j < c.n → i ∈ c.supportSet → j ∈ c.supportSet → permLookup perm i < permLookup perm j) :
    ∃ c', c.renameVariables perm = .ok c' ∧ c'.n = c.n ∧ c'.WF ∧
      ∀ q, q.length = c.n → c'.eval q = c.eval (gather c (permLookup perm) q) := by
  unfold renameVariables
  by_cases hs : c.supportSet.isEmpty = true
  · simp only [hs, if_true]
    refine ⟨c, rfl, rfl, hc, ?_⟩
    intro q hq
    apply eval_congr_support c q _ hq (by simp)
    intro i hi
    have : c.supportSet = [] := by simpa using hs
    rw [this] at hi; cases hi
  · simp only [hs, Bool.false_eq_true, if_false]
    have h1 : (c.supportSet.map (permLookup perm)).all (fun i => decide (i < c.n)) = true := by
      rw [List.all_eq_true]
      intro x hx
      obtain ⟨i, hi, rfl⟩ := List.mem_map.mp hx
      simpa using hrange i hi
    have h2 : strictlyIncreasing (c.supportSet.map (permLookup perm)) = true := by
      -- monotone on the support is enough: restate with membership
      have : ∀ (s : List Nat), s.Pairwise (· < ·) → (∀ i ∈ s, i ∈ c.supportSet) →
          strictlyIncreasing (s.map (permLookup perm)) = true := by
        intro s
        induction s with
        | nil => intros; rfl
        | cons a rest ih =>
          intro hp hmem
          cases rest with
          | nil => rfl
          | cons b rest' =>
            have hp' := List.pairwise_cons.mp hp
            simp only [List.map_cons, strictlyIncreasing, Bool.and_eq_true, decide_eq_true_eq]
            refine ⟨hmono a b (hp'.1 b (by simp)) (supportSet_lt c b (hmem b (by simp))) (hmem a (by simp))
              (hmem b (by simp)), ?_⟩
            have := ih hp'.2 (fun i hi => hmem i (by simp [hi]))
            simpa using this
      exact this _ (supportSet_pairwise c) (fun i hi => hi)
    simp only [h1, h2, Bool.not_true, Bool.or_self, Bool.false_eq_true, if_false]
    refine ⟨_, rfl, rfl, wf_ofFn _ _, ?_⟩
    intro q hq
    rw [eval_ofFn _ _ _ hq]
    rfl

end Inner
end BoolFn
