import BoolFn.Proofs.Oracle2
/-! Oracle theorem for the enumerations (C10): the decidable predicate `enumOk` that judges the
    implementation's domain / image / relation / support / weight / satisfying point says exactly
    what the property says, with quantifiers over *all* points. -/
namespace BoolFn.Spec
open BoolFn

theorem ones_eq_filter {α : Type} (f : α → Bool) : ∀ l : List α,
    ((l.zip (l.map f)).filter (·.2)).map (·.1) = l.filter f
  | [] => rfl
  | a :: l => by
    simp only [List.map_cons, List.zip_cons_cons, List.filter_cons]
    cases h : f a <;> simp [ones_eq_filter f l]

theorem nodupPts_iff : ∀ l : List (List Bool), nodupPts l = true ↔ l.Nodup
  | [] => by simp [nodupPts]
  | a :: l => by
    simp only [nodupPts, Bool.and_eq_true, Bool.not_eq_true', List.nodup_cons, nodupPts_iff l]
    constructor
    · rintro ⟨h1, h2⟩
      refine ⟨fun hm => ?_, h2⟩
      have : l.contains a = true := List.contains_iff_mem.mpr hm
      rw [h1] at this; cases this
    · rintro ⟨h1, h2⟩
      refine ⟨?_, h2⟩
      cases hc : l.contains a
      · rfl
      · exact absurd (List.contains_iff_mem.mp hc) h1

/-- the value of `x` at the point `p` (positions = the sorted inputs) -/
def valAt (x : Fn) (p : List Bool) : Bool := x.den (envOf ((sortedInputs x).zip p))

/-- C10: the oracle is the statement. The domain is the lexicographic enumeration of all points,
    image and relation are the values along it, the support has no repetition and holds exactly the
    points of the right length where the function is true (for expressions and tables also in domain
    order), the weight is their number, and the satisfying point is a true point — absent exactly
    when there is none. -/
theorem enumOk_iff (x : Fn) (r : Enum) :
    enumOk x r = true ↔
      r.domain = lexPoints (sortedInputs x).length ∧
      r.image = r.domain.map (valAt x) ∧
      r.relation = r.domain.zip r.image ∧
      r.support.Nodup ∧
      (∀ p, p ∈ r.support ↔ p.length = (sortedInputs x).length ∧ valAt x p = true) ∧
      (x.kind ≠ 2 → r.support = (lexPoints (sortedInputs x).length).filter (valAt x)) ∧
      r.weight = ((lexPoints (sortedInputs x).length).filter (valAt x)).length ∧
      (match r.satPoint with
       | some p => p.length = (sortedInputs x).length ∧ valAt x p = true
       | none => ∀ p, p.length = (sortedInputs x).length → valAt x p = false) := by
  have hones := ones_eq_filter (valAt x) (lexPoints (sortedInputs x).length)
  unfold valAt at hones
  unfold enumOk
  simp only [hones]
  simp only [Bool.and_eq_true, beq_iff_eq, Bool.or_eq_true, nodupPts_iff, List.all_eq_true,
    List.contains_iff_mem, List.mem_filter, mem_lexPoints]
  constructor
  · rintro ⟨⟨⟨⟨⟨⟨⟨⟨hd, hi⟩, hr⟩, hn⟩, hs1⟩, hs2⟩, hk⟩, hw⟩, hsat⟩
    refine ⟨hd, ?_, ?_, hn, ?_, ?_, hw, ?_⟩
    · rw [hi, hd]; rfl
    · rw [hr, hd, hi]
    · intro p; exact ⟨fun hp => hs1 p hp, fun hp => hs2 p hp⟩
    · intro hne
      rcases hk with hk | hk
      · exact absurd hk hne
      · exact hk
    · cases hsp : r.satPoint with
      | some p =>
        rw [hsp] at hsat
        simp only [List.contains_iff_mem, List.mem_filter, mem_lexPoints] at hsat
        exact hsat
      | none =>
        rw [hsp] at hsat
        intro p hp
        have hemp := List.isEmpty_iff.mp hsat
        cases hv : valAt x p
        · rfl
        · have : p ∈ (lexPoints (sortedInputs x).length).filter fun p => x.den (envOf ((sortedInputs x).zip p)) :=
            List.mem_filter.mpr ⟨(mem_lexPoints _ _).mpr hp, hv⟩
          rw [hemp] at this; cases this
  · rintro ⟨hd, hi, hr, hn, hs, hk, hw, hsat⟩
    refine ⟨⟨⟨⟨⟨⟨⟨⟨hd, ?_⟩, ?_⟩, hn⟩, fun p hp => (hs p).mp hp⟩, fun p hp => (hs p).mpr hp⟩, ?_⟩, hw⟩, ?_⟩
    · rw [hi, hd]; rfl
    · rw [hr, hi, hd]; rfl
    · by_cases h2 : x.kind = 2
      · exact Or.inl h2
      · exact Or.inr (hk h2)
    · cases hsp : r.satPoint with
      | some p =>
        rw [hsp] at hsat
        simp only [List.contains_iff_mem, List.mem_filter, mem_lexPoints]
        exact hsat
      | none =>
        rw [hsp] at hsat
        apply List.isEmpty_iff.mpr
        apply List.eq_nil_iff_forall_not_mem.mpr
        intro p hp
        have := List.mem_filter.mp hp
        have hf := hsat p ((mem_lexPoints _ _).mp this.1)
        unfold valAt at hf
        rw [hf] at this; exact absurd this.2 (by simp)

end BoolFn.Spec
