import BoolFn.Proofs.Restrict
import BoolFn.Proofs.Table
import BoolFn.Proofs.PowerSet
/-! Semantics of the table operations: restrict, bit_common, quantifier steps. -/
namespace BoolFn
namespace Table
variable {α : Type}
set_option linter.unusedSectionVars false

/-- number of free (unfixed) coordinates -/
def freeCount : List (Option Bool) → Nat
  | [] => 0
  | none :: fs => freeCount fs + 1
  | some _ :: fs => freeCount fs

/-- the full point obtained from a point over the free coordinates -/
def merge : List (Option Bool) → List Bool → List Bool
  | [], _ => []
  | none :: fs, b :: q => b :: merge fs q
  | none :: fs, [] => false :: merge fs []
  | some b :: fs, q => b :: merge fs q

theorem merge_length (spec : List (Option Bool)) (q : List Bool) : (merge spec q).length = spec.length := by
  induction spec generalizing q with
  | nil => rfl
  | cons f fs ih =>
    cases f with
    | none => cases q <;> simp [merge, ih]
    | some b => simp [merge, ih]

theorem sel_length : (spec : List (Option Bool)) → (outs : List Bool) →
    outs.length = 2 ^ spec.length → (sel spec outs).length = 2 ^ freeCount spec
  | [], outs, h => by simpa [sel, freeCount] using h
  | none :: fs, outs, h => by
    have h' : outs.length = 2 ^ fs.length + 2 ^ fs.length := by simpa [Nat.pow_succ, Nat.mul_two] using h
    simp only [sel, freeCount, List.length_append]
    rw [sel_length fs _ (by simp; omega), sel_length fs _ (by simp; omega), Nat.pow_succ]; omega
  | some false :: fs, outs, h => by
    have h' : outs.length = 2 ^ fs.length + 2 ^ fs.length := by simpa [Nat.pow_succ, Nat.mul_two] using h
    simp only [sel, freeCount]
    exact sel_length fs _ (by simp; omega)
  | some true :: fs, outs, h => by
    have h' : outs.length = 2 ^ fs.length + 2 ^ fs.length := by simpa [Nat.pow_succ, Nat.mul_two] using h
    simp only [sel, freeCount]
    exact sel_length fs _ (by simp; omega)

theorem getD_take {β : Type} (l : List β) (k i : Nat) (d : β) (h : i < k) : (l.take k).getD i d = l.getD i d := by
  simp [List.getD_eq_getElem?_getD, h]

theorem getD_append_left' {β : Type} (l₁ l₂ : List β) (i : Nat) (d : β) (h : i < l₁.length) :
    (l₁ ++ l₂).getD i d = l₁.getD i d := by
  simp [List.getD_eq_getElem?_getD, List.getElem?_append_left h]

theorem getD_append_right' {β : Type} (l₁ l₂ : List β) (i : Nat) (d : β) (h : l₁.length ≤ i) :
    (l₁ ++ l₂).getD i d = l₂.getD (i - l₁.length) d := by
  simp [List.getD_eq_getElem?_getD, List.getElem?_append_right h]

theorem getD_drop {β : Type} (l : List β) (k i : Nat) (d : β) : (l.drop k).getD i d = l.getD (k + i) d := by
  simp [List.getD_eq_getElem?_getD, List.getElem?_drop]

/-- the cofactor selection read at a point over the free coordinates is the table read at the merged point -/
theorem sel_getD : (spec : List (Option Bool)) → (outs : List Bool) → (q : List Bool) →
    outs.length = 2 ^ spec.length → q.length = freeCount spec →
    (sel spec outs).getD (valMsb q) false = outs.getD (valMsb (merge spec q)) false
  | [], outs, q, _, hq => by
    have : q = [] := List.eq_nil_of_length_eq_zero (by simpa [freeCount] using hq)
    subst this; rfl
  | none :: fs, outs, q, h, hq => by
    have h' : outs.length = 2 ^ fs.length + 2 ^ fs.length := by simpa [Nat.pow_succ, Nat.mul_two] using h
    cases q with
    | nil => simp [freeCount] at hq
    | cons b q' =>
      have hq' : q'.length = freeCount fs := by simpa [freeCount] using hq
      have hlo : (outs.take (2 ^ fs.length)).length = 2 ^ fs.length := by simp; omega
      have hhi : (outs.drop (2 ^ fs.length)).length = 2 ^ fs.length := by simp; omega
      have hlen1 := sel_length fs _ hlo
      have hv := valMsb_lt q'
      have hm : valMsb (merge fs q') < 2 ^ fs.length := by
        simpa [merge_length] using valMsb_lt (merge fs q')
      simp only [sel, merge, valMsb, merge_length]
      cases b
      · simp only [Bool.false_eq_true, if_false, Nat.zero_add]
        rw [getD_append_left' _ _ _ _ (by rw [hlen1, ← hq']; exact hv)]
        rw [sel_getD fs _ q' hlo hq', getD_take _ _ _ _ hm]
      · simp only [if_true]
        rw [getD_append_right' _ _ _ _ (by rw [hlen1, hq']; omega)]
        rw [hlen1, hq', Nat.add_sub_cancel_left, sel_getD fs _ q' hhi hq', getD_drop]
  | some false :: fs, outs, q, h, hq => by
    have h' : outs.length = 2 ^ fs.length + 2 ^ fs.length := by simpa [Nat.pow_succ, Nat.mul_two] using h
    have hlo : (outs.take (2 ^ fs.length)).length = 2 ^ fs.length := by simp; omega
    have hm : valMsb (merge fs q) < 2 ^ fs.length := by
      simpa [merge_length] using valMsb_lt (merge fs q)
    simp only [sel, merge, valMsb, Bool.false_eq_true, if_false, Nat.zero_add]
    rw [sel_getD fs _ q hlo (by simpa [freeCount] using hq), getD_take _ _ _ _ hm]
  | some true :: fs, outs, q, h, hq => by
    have h' : outs.length = 2 ^ fs.length + 2 ^ fs.length := by simpa [Nat.pow_succ, Nat.mul_two] using h
    have hhi : (outs.drop (2 ^ fs.length)).length = 2 ^ fs.length := by simp; omega
    simp only [sel, merge, valMsb, if_true, merge_length]
    rw [sel_getD fs _ q hhi (by simpa [freeCount] using hq), getD_drop]

section
variable [DecidableEq α]

theorem freeCount_spec (ins : List α) (v : PVal α) :
    freeCount (ins.map (PVal.get? v)) = (ins.filter fun x => (PVal.get? v x).isNone).length := by
  induction ins with
  | nil => rfl
  | cons a as ih =>
    simp only [List.map_cons, List.filter_cons]
    cases h : PVal.get? v a <;> simp [freeCount, ih]

theorem merge_spec (ins : List α) (v : PVal α) (ρ : α → Bool) :
    merge (ins.map (PVal.get? v)) ((ins.filter fun x => (PVal.get? v x).isNone).map ρ) =
      ins.map (override ρ v) := by
  induction ins with
  | nil => rfl
  | cons a as ih =>
    simp only [List.map_cons, List.filter_cons]
    cases h : PVal.get? v a with
    | none => simp [merge, ih, override, h]
    | some b => simp [merge, ih, override, h]

variable [Ord α]

theorem strictSorted_filter (l : List α) (p : α → Bool) (h : StrictSorted l) : StrictSorted (l.filter p) :=
  List.Pairwise.sublist List.filter_sublist h

/-- **restriction of a table**: well-formed result, fixed inputs removed, value = original at the
    overridden assignment -/
theorem restrict_den (v : PVal α) (t : Table α) (h : t.WF) :
    (restrict v t).WF ∧
    (restrict v t).inputs = t.inputs.filter (fun x => (PVal.get? v x).isNone) ∧
    ∀ ρ, (restrict v t).den ρ = t.den (override ρ v) := by
  have hlen : t.outputs.length = 2 ^ (t.inputs.map (PVal.get? v)).length := by simpa using h.2
  have hsel := restrictOutputs_eq_sel (t.inputs.map (PVal.get? v)) t.outputs hlen
  have hins : (restrict v t).inputs = t.inputs.filter (fun x => (PVal.get? v x).isNone) := rfl
  refine ⟨⟨strictSorted_filter _ _ h.1, ?_⟩, rfl, ?_⟩
  · rw [hins]
    show (restrictOutputs (t.inputs.map (PVal.get? v)) t.outputs).length = _
    rw [hsel, sel_length _ _ hlen, freeCount_spec]
  · intro ρ
    show (restrictOutputs (t.inputs.map (PVal.get? v)) t.outputs).getD _ false = _
    rw [hins, hsel, sel_getD _ _ _ hlen (by simp [freeCount_spec]), merge_spec]
    rfl

/-! ### bit_common -/

theorem complete_zip_map (ins : List α) (hn : ins.Nodup) (ρ : α → Bool) (d : Bool) :
    ∀ x ∈ ins, complete (ins.zip (ins.map ρ)) d x = ρ x := by
  intro x hx
  obtain ⟨i, hi, rfl⟩ := List.mem_iff_getElem.mp hx
  simp only [complete]
  rw [get?_zip_of_nodup ins (ins.map ρ) (by simp) hn i hi]
  simp
end

section
variable [DecidableEq α] [Ord α] [Std.TransOrd α] [Std.LawfulEqOrd α]

theorem unionSorted_self (l : List α) (h : StrictSorted l) : unionSorted l l = l := by
  apply strictSorted_ext _ _ (strictSorted_sortDedup _) h
  intro x; rw [mem_sortDedup, List.mem_append]; exact or_self_iff

/-- **connectives on tables**: well-formed, inputs = union, pointwise -/
theorem bitCommon_den (op : Bool → Bool → Bool) (a b : Table α) (ha : a.WF) (hb : b.WF) :
    (bitCommon op a b).WF ∧
    (bitCommon op a b).inputs = unionSorted a.inputs b.inputs ∧
    ∀ ρ, (bitCommon op a b).den ρ = op (a.den ρ) (b.den ρ) := by
  have hga := gatherLiterals_of_WF a ha
  have hgb := gatherLiterals_of_WF b hb
  unfold bitCommon
  simp only [hga, hgb]
  split
  · rename_i heq
    refine ⟨⟨ha.1, ?_⟩, ?_, ?_⟩
    · simp [ha.2, hb.2, heq]
    · rw [← heq, unionSorted_self _ ha.1]
    · intro ρ
      have hka := den_inbounds ρ a ha
      have hkb : valMsb (a.inputs.map ρ) < b.outputs.length := by rw [heq]; exact den_inbounds ρ b hb
      simp only [den, ← heq]
      have hz : (a.outputs.zip b.outputs)[valMsb (a.inputs.map ρ)]? =
          some (a.outputs[valMsb (a.inputs.map ρ)], b.outputs[valMsb (a.inputs.map ρ)]) :=
        List.getElem?_zip_eq_some.mpr ⟨List.getElem?_eq_getElem hka, List.getElem?_eq_getElem hkb⟩
      rw [List.getD_eq_getElem?_getD, List.getD_eq_getElem?_getD, List.getD_eq_getElem?_getD,
        List.getElem?_map, hz, List.getElem?_eq_getElem hka, List.getElem?_eq_getElem hkb]
      rfl
  · have hss := strictSorted_sortDedup (a.inputs ++ b.inputs)
    refine ⟨⟨hss, by simp [allPoints_length, unionSorted]⟩, rfl, ?_⟩
    intro ρ
    simp only [den]
    rw [getD_map_allPoints _ _ _ (by simp)]
    have hag := complete_zip_map (unionSorted a.inputs b.inputs) hss.nodup ρ false
    congr 1
    · rw [eval_eq_den]
      apply den_congr
      intro x hx
      exact hag x ((mem_unionSorted x _ _).mpr (Or.inl hx))
    · rw [eval_eq_den]
      apply den_congr
      intro x hx
      exact hag x ((mem_unionSorted x _ _).mpr (Or.inr hx))

theorem not_den (t : Table α) (h : t.WF) : (Table.not t).WF ∧ (Table.not t).inputs = t.inputs ∧
    ∀ ρ, (Table.not t).den ρ = !(t.den ρ) := by
  refine ⟨⟨h.1, by simp [Table.not, h.2]⟩, rfl, ?_⟩
  intro ρ
  have hk := den_inbounds ρ t h
  simp only [den, Table.not]
  rw [List.getD_eq_getElem?_getD, List.getD_eq_getElem?_getD, List.getElem?_map, List.getElem?_eq_getElem hk]
  rfl
end

end Table
end BoolFn
