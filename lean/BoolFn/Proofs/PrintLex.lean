import BoolFn.Proofs.LexStep
import BoolFn.Spec.Printed
/-! The printed form of an expression lexes to the tokens it stands for (character level of C14):
    facts about character classes, about what the token recogniser answers on the beginnings that
    `Display` can produce, and about identifier names that are not reserved words. -/
namespace BoolFn
open BoolFn.Spec

/-! ### character classes by code point -/

theorem isIdentChar_iff (c : Char) : isIdentChar c = true ↔
    (c.toNat = 45 ∨ c.toNat = 95 ∨ (65 ≤ c.toNat ∧ c.toNat ≤ 90) ∨ (97 ≤ c.toNat ∧ c.toNat ≤ 122) ∨
      (48 ≤ c.toNat ∧ c.toNat ≤ 57)) := by
  simp only [isIdentChar, Char.isAlphanum, Char.isAlpha, Char.isUpper, Char.isLower, Char.isDigit,
    Bool.or_eq_true, Bool.and_eq_true, decide_eq_true_eq, beq_iff_eq, ge_iff_le, UInt32.le_iff_toNat_le, Char.toNat]
  have e1 : c = '-' ↔ c.val.toNat = 45 := by
    constructor
    · intro h; subst h; rfl
    · intro h; apply Char.ext; apply UInt32.toNat_inj.mp; rw [h]; rfl
  have e2 : c = '_' ↔ c.val.toNat = 95 := by
    constructor
    · intro h; subst h; rfl
    · intro h; apply Char.ext; apply UInt32.toNat_inj.mp; rw [h]; rfl
  rw [e1, e2]
  have : 'A'.val.toNat = 65 := rfl
  have : 'Z'.val.toNat = 90 := rfl
  have : 'a'.val.toNat = 97 := rfl
  have : 'z'.val.toNat = 122 := rfl
  have : '0'.val.toNat = 48 := rfl
  have : '9'.val.toNat = 57 := rfl
  omega

theorem isWs_of_ident (c : Char) (h : isIdentChar c = true) : isWs c = false := by
  rw [isIdentChar_iff] at h
  simp only [isWs, Bool.or_eq_false_iff, Bool.and_eq_false_iff, decide_eq_false_iff_not, beq_eq_false_iff_ne]
  omega

theorem toLower_toNat (c : Char) :
    c.toLower.toNat = if 65 ≤ c.toNat ∧ c.toNat ≤ 90 then c.toNat + 32 else c.toNat := by
  simp only [Char.toLower, Char.toNat, ge_iff_le, UInt32.le_iff_toNat_le]
  have : 'A'.val.toNat = 65 := rfl
  have : 'Z'.val.toNat = 90 := rfl
  split
  · rename_i h
    rw [if_pos (by omega)]
    simp only [UInt32.toNat_add]
    have : ('a'.val - 'A'.val).toNat = 32 := rfl
    omega
  · rename_i h
    rw [if_neg (by omega)]

theorem isIdentChar_toLower (c : Char) (h : isIdentChar c = true) : isIdentChar c.toLower = true := by
  rw [isIdentChar_iff] at h ⊢
  rw [toLower_toNat]
  split <;> omega

/-- a pattern character whose lower-case form is neither an identifier character nor `s`/`k` never
    matches an identifier character -/
theorem foldEq_symbol_ident (p0 c : Char) (hp : isIdentChar p0.toLower = false) (hc : isIdentChar c = true) :
    foldEq p0 c = false := by
  have hl := isIdentChar_toLower c hc
  simp only [foldEq, Bool.or_eq_false_iff, Bool.and_eq_false_iff, beq_eq_false_iff_ne]
  refine ⟨⟨?_, ?_⟩, ?_⟩
  · intro e; rw [e] at hl; rw [hl] at hp; cases hp
  · left; intro e; rw [e] at hp; revert hp; decide
  · left; intro e; rw [e] at hp; revert hp; decide

/-! ### the recogniser on the whole remaining input -/

theorem bufMatch_eq_find (inp : List Char) : bufMatch inp = patterns.find? (patMatches inp) := by
  rw [bufMatch, firstMatch]
  apply find?_congr'
  intro p hp
  exact matchPat_take inp p (patterns_fit p hp) (patterns_boundary p hp)

/-- does the pattern's first character match `c`? -/
def startsFold (c : Char) (p : Pat) : Bool :=
  match p.text with
  | p0 :: _ => foldEq p0 c
  | [] => true

theorem patMatches_starts (c : Char) (cs : List Char) (p : Pat) (h : patMatches (c :: cs) p = true) :
    startsFold c p = true := by
  simp only [patMatches, Bool.and_eq_true] at h
  simp only [startsFold]
  cases ht : p.text with
  | nil => rfl
  | cons p0 ps =>
    rw [ht] at h
    simp only [prefixFold, Bool.and_eq_true] at h
    exact h.1.1

/-- only the patterns whose first character matches need to be tried -/
theorem bufMatch_filter (c : Char) (cs : List Char) :
    bufMatch (c :: cs) = (patterns.filter (startsFold c)).find? (patMatches (c :: cs)) := by
  rw [bufMatch_eq_find, List.find?_filter]
  apply find?_congr'
  intro p _
  cases h : patMatches (c :: cs) p with
  | false => simp
  | true => simp [patMatches_starts c cs p h]

/-! what follows a printed operand: the end of the text, a closing parenthesis, or a space -/
def Delim (rest : List Char) : Prop := rest = [] ∨ (∃ t, rest = ')' :: t) ∨ (∃ t, rest = ' ' :: t)

theorem boundaryOk_of_delim (rest : List Char) (h : Delim rest) : boundaryOk rest = true := by
  rcases h with rfl | ⟨t, rfl⟩ | ⟨t, rfl⟩
  · rfl
  · simp only [boundaryOk]; decide
  · simp only [boundaryOk]; decide

/-! ### the beginnings `Display` produces -/

theorem bufMatch_lparen (t : List Char) : bufMatch ('(' :: t) = some ⟨['('], .parenStart, false⟩ := by
  rw [bufMatch_filter]
  have : patterns.filter (startsFold '(') = [⟨['('], .parenStart, false⟩] := by decide
  rw [this]
  simp only [List.find?, patMatches, prefixFold, isWord]
  have h1 : foldEq '(' '(' = true := by decide
  have h2 : isIdentChar '(' = false := by decide
  simp [h1, h2]

theorem bufMatch_rparen (t : List Char) : bufMatch (')' :: t) = some ⟨[')'], .parenEnd, false⟩ := by
  rw [bufMatch_filter]
  have : patterns.filter (startsFold ')') = [⟨[')'], .parenEnd, false⟩] := by decide
  rw [this]
  simp only [List.find?, patMatches, prefixFold, isWord]
  have h1 : foldEq ')' ')' = true := by decide
  have h2 : isIdentChar ')' = false := by decide
  simp [h1, h2]

theorem bufMatch_bang (t : List Char) : bufMatch ('!' :: t) = some ⟨['!'], .not, false⟩ := by
  rw [bufMatch_filter]
  have : patterns.filter (startsFold '!') = [⟨['!'], .not, false⟩] := by decide
  rw [this]
  simp only [List.find?, patMatches, prefixFold, isWord]
  have h1 : foldEq '!' '!' = true := by decide
  have h2 : isIdentChar '!' = false := by decide
  simp [h1, h2]

theorem bufMatch_amp (t : List Char) : bufMatch ('&' :: ' ' :: t) = some ⟨['&'], .and, false⟩ := by
  rw [bufMatch_filter]
  have : patterns.filter (startsFold '&') = [⟨['&', '&'], .and, false⟩, ⟨['&'], .and, false⟩] := by decide
  rw [this]
  simp only [List.find?, patMatches, prefixFold, isWord]
  have h1 : foldEq '&' '&' = true := by decide
  have h2 : isIdentChar '&' = false := by decide
  have h3 : foldEq '&' ' ' = false := by decide
  simp [h1, h2, h3]

theorem bufMatch_bar (t : List Char) : bufMatch ('|' :: ' ' :: t) = some ⟨['|'], .or, false⟩ := by
  rw [bufMatch_filter]
  have : patterns.filter (startsFold '|') = [⟨['|', '|'], .or, false⟩, ⟨['|'], .or, false⟩] := by decide
  rw [this]
  simp only [List.find?, patMatches, prefixFold, isWord]
  have h1 : foldEq '|' '|' = true := by decide
  have h2 : isIdentChar '|' = false := by decide
  have h3 : foldEq '|' ' ' = false := by decide
  simp [h1, h2, h3]

theorem bufMatch_true (rest : List Char) (h : Delim rest) :
    bufMatch ('t' :: 'r' :: 'u' :: 'e' :: rest) = some ⟨['t', 'r', 'u', 'e'], .tt, true⟩ := by
  rw [bufMatch_filter]
  have : patterns.filter (startsFold 't') = [⟨['t', 'r', 'u', 'e'], .tt, true⟩, ⟨['t'], .tt, true⟩] := by decide
  rw [this]
  simp only [List.find?, patMatches, prefixFold, isWord]
  have h1 : foldEq 't' 't' = true := by decide
  have h2 : foldEq 'r' 'r' = true := by decide
  have h3 : foldEq 'u' 'u' = true := by decide
  have h4 : foldEq 'e' 'e' = true := by decide
  simp [h1, h2, h3, h4, boundaryOk_of_delim rest h]

theorem bufMatch_false (rest : List Char) (h : Delim rest) :
    bufMatch ('f' :: 'a' :: 'l' :: 's' :: 'e' :: rest) = some ⟨['f', 'a', 'l', 's', 'e'], .ff, true⟩ := by
  rw [bufMatch_filter]
  have : patterns.filter (startsFold 'f') = [⟨['f', 'a', 'l', 's', 'e'], .ff, true⟩, ⟨['f'], .ff, true⟩] := by decide
  rw [this]
  simp only [List.find?, patMatches, prefixFold, isWord]
  have h1 : foldEq 'f' 'f' = true := by decide
  have h2 : foldEq 'a' 'a' = true := by decide
  have h3 : foldEq 'l' 'l' = true := by decide
  have h4 : foldEq 's' 's' = true := by decide
  have h5 : foldEq 'e' 'e' = true := by decide
  simp [h1, h2, h3, h4, h5, boundaryOk_of_delim rest h]

/-! ### identifier names that are not reserved words -/

/-- the name is one of the word tokens, up to the case folding the tokenizer applies -/
def reserved (name : List Char) : Bool :=
  patterns.any fun p => isWord p && p.text.length == name.length && prefixFold p.text name

/-- "plain identifier other than the reserved words" -/
def plainName (name : List Char) : Bool :=
  !name.isEmpty && name.all isIdentChar && !reserved name

theorem prefixFold_append_same (a x b y : List Char) (h : a.length = x.length) :
    prefixFold (a ++ b) (x ++ y) = (prefixFold a x && prefixFold b y) := by
  induction a generalizing x with
  | nil =>
    cases x with
    | nil => simp [prefixFold]
    | cons _ _ => simp at h
  | cons a0 as ih =>
    cases x with
    | nil => simp at h
    | cons x0 xs =>
      simp only [List.cons_append, prefixFold, ih xs (by simpa using h), Bool.and_assoc]

theorem prefixFold_nil_right (a : List Char) (h : a ≠ []) : prefixFold a [] = false := by
  cases a with
  | nil => exact absurd rfl h
  | cons _ _ => rfl

theorem prefixFold_same_length (a x y : List Char) (h : a.length = x.length) :
    prefixFold a (x ++ y) = prefixFold a x := by
  have := prefixFold_append_same a x [] y h
  simp only [List.append_nil] at this
  rw [this]
  have h2 : prefixFold [] y = true := by cases y <;> rfl
  rw [h2, Bool.and_true]

/-- facts about the regenerated table used below -/
theorem word_chars_vs_delims : ∀ p ∈ patterns, isWord p = true →
    ∀ ch ∈ p.text, foldEq ch ')' = false ∧ foldEq ch ' ' = false := by decide

def symStartOk (p : Pat) : Bool :=
  match p.text with
  | p0 :: _ => !isIdentChar p0.toLower
  | [] => false

theorem symbol_patterns_start : ∀ p ∈ patterns, isWord p = false → symStartOk p = true := by decide

/-- a plain name followed by a delimiter is not the beginning of any token pattern -/
theorem bufMatch_name (name rest : List Char) (hn : plainName name = true) (hd : Delim rest) :
    bufMatch (name ++ rest) = none := by
  simp only [plainName, Bool.and_eq_true, Bool.not_eq_true', List.isEmpty_eq_false_iff, List.all_eq_true] at hn
  obtain ⟨⟨hne, hall⟩, hres⟩ := hn
  rw [bufMatch_eq_find, List.find?_eq_none]
  intro p hp
  simp only [Bool.not_eq_true]
  cases hw : isWord p with
  | false =>
    -- a symbol pattern starts with a non-identifier character
    have := symbol_patterns_start p hp hw
    simp only [symStartOk] at this
    cases ht : p.text with
    | nil => rw [ht] at this; cases this
    | cons p0 ps =>
      rw [ht] at this
      simp only [Bool.not_eq_true'] at this
      cases name with
      | nil => exact absurd rfl hne
      | cons c cs =>
        simp only [patMatches, ht, List.cons_append, prefixFold,
          foldEq_symbol_ident p0 c this (hall c (by simp)), Bool.false_and]
  | true =>
    simp only [patMatches, hw, Bool.not_true, Bool.false_or]
    rcases Nat.lt_trichotomy p.text.length name.length with hlt | heq | hgt
    · -- the pattern ends inside the name: no boundary
      have : boundaryOk ((name ++ rest).drop p.text.length) = false := by
        rw [List.drop_append_of_le_length (by omega)]
        cases hdn : name.drop p.text.length with
        | nil =>
          have := congrArg List.length hdn
          simp at this; omega
        | cons d ds =>
          have hmem : d ∈ name := List.mem_of_mem_drop (by rw [hdn]; simp)
          simp [boundaryOk, hall d hmem]
      rw [this, Bool.and_false]
    · -- same length: that would make the name reserved
      rw [prefixFold_same_length _ _ _ heq]
      have hnr : ¬ (isWord p && p.text.length == name.length && prefixFold p.text name) = true := by
        intro h
        have : reserved name = true := by
          simp only [reserved, List.any_eq_true]
          exact ⟨p, hp, h⟩
        rw [hres] at this; cases this
      simp only [hw, heq, beq_self_eq_true, Bool.true_and, Bool.not_eq_true] at hnr
      rw [hnr, Bool.false_and]
    · -- the pattern is longer than the name: its next character would have to match the delimiter
      have hsplit : p.text = p.text.take name.length ++ p.text.drop name.length := (List.take_append_drop _ _).symm
      have hlen : (p.text.take name.length).length = name.length := by simp; omega
      rw [hsplit, prefixFold_append_same _ _ _ _ hlen]
      cases hdp : p.text.drop name.length with
      | nil =>
        have := congrArg List.length hdp
        simp at this; omega
      | cons ch chs =>
        have hmem : ch ∈ p.text := List.mem_of_mem_drop (by rw [hdp]; simp)
        have hfacts := word_chars_vs_delims p hp hw ch hmem
        have : prefixFold (ch :: chs) rest = false := by
          rcases hd with rfl | ⟨t, rfl⟩ | ⟨t, rfl⟩
          · rfl
          · simp [prefixFold, hfacts.1]
          · simp [prefixFold, hfacts.2]
        rw [this, Bool.and_false, Bool.false_and]

theorem spanIdent_name (name rest : List Char) (hall : ∀ c ∈ name, isIdentChar c = true) (hd : Delim rest) :
    spanIdent (name ++ rest) = (name, rest) := by
  induction name with
  | nil =>
    rcases hd with rfl | ⟨t, rfl⟩ | ⟨t, rfl⟩
    · rfl
    · have : isIdentChar ')' = false := by decide
      simp [spanIdent, this]
    · have : isIdentChar ' ' = false := by decide
      simp [spanIdent, this]
  | cons c cs ih =>
    simp only [List.cons_append, spanIdent, hall c (by simp), if_true,
      ih (fun d hd' => hall d (by simp [hd']))]


/-! ### the printed text, as characters -/
namespace C14

mutual
def chars : Expr String → List Char
  | .const b => if b then ['t', 'r', 'u', 'e'] else ['f', 'a', 'l', 's', 'e']
  | .lit n => n.toList
  | .not e => '!' :: '(' :: (chars e ++ [')'])
  | .and es => '(' :: (charsL [' ', '&', ' '] es ++ [')'])
  | .or es => '(' :: (charsL [' ', '|', ' '] es ++ [')'])
def charsL (sep : List Char) : List (Expr String) → List Char
  | [] => []
  | [e] => chars e
  | e :: e' :: es => chars e ++ sep ++ charsL sep (e' :: es)
end

mutual
theorem printE_toList : (e : Expr String) → (printE e).toList = chars e
  | .const true => by simp [printE, chars]
  | .const false => by simp [printE, chars]
  | .lit n => by simp [printE, chars]
  | .not e => by simp [printE, chars, String.toList_append, printE_toList e]
  | .and es => by simp [printE, chars, String.toList_append, printL_toList " & " es]
  | .or es => by simp [printE, chars, String.toList_append, printL_toList " | " es]
theorem printL_toList (sep : String) : (es : List (Expr String)) → (printL sep es).toList = charsL sep.toList es
  | [] => by simp [printL, charsL]
  | [e] => by simp [printL, charsL, printE_toList e]
  | e :: e' :: es => by
    simp [printL, charsL, String.toList_append, printE_toList e, printL_toList sep (e' :: es)]
end

/-- every variable name is a plain identifier other than the reserved words -/
def plainNames (e : Expr String) : Bool := e.vars.all fun n => plainName n.toList


/-! ### the separators -/
theorem lex_sep_and {t : List Char} {top : Bool} {acc : List Tok} {r : LexRes}
    (h : LexTo bufMatch t top (acc ++ [.and]) r) : LexTo bufMatch (' ' :: '&' :: ' ' :: t) top acc r := by
  apply LexTo.skip_ws (by decide)
  apply LexTo.simple (by decide) _ (bufMatch_amp t) .and (Or.inl ⟨rfl, rfl⟩)
  simp only [List.length_cons, List.length_nil, List.drop_succ_cons, List.drop_zero]
  exact LexTo.skip_ws (by decide) h

theorem lex_sep_or {t : List Char} {top : Bool} {acc : List Tok} {r : LexRes}
    (h : LexTo bufMatch t top (acc ++ [.or]) r) : LexTo bufMatch (' ' :: '|' :: ' ' :: t) top acc r := by
  apply LexTo.skip_ws (by decide)
  apply LexTo.simple (by decide) _ (bufMatch_bar t) .or (Or.inr (Or.inl ⟨rfl, rfl⟩))
  simp only [List.length_cons, List.length_nil, List.drop_succ_cons, List.drop_zero]
  exact LexTo.skip_ws (by decide) h

/-- the shape of a separator: a space, the operator character, a space — and how it is lexed -/
structure Sep where
  ch : Char
  tok : Tok
  lex : ∀ {t : List Char} {top : Bool} {acc : List Tok} {r : LexRes},
    LexTo bufMatch t top (acc ++ [tok]) r → LexTo bufMatch (' ' :: ch :: ' ' :: t) top acc r

def sepAnd : Sep := ⟨'&', .and, lex_sep_and⟩
def sepOr : Sep := ⟨'|', .or, lex_sep_or⟩

mutual
/-- **the printed form of an operand, followed by a delimiter, lexes to its tokens** and the run goes on
    with the rest of the text -/
theorem lexE : (e : Expr String) → (∀ n ∈ e.vars, plainName n.toList = true) → nonEmptyNary e = true →
    ∀ (rest : List Char) (top : Bool) (acc : List Tok) (r : LexRes), Delim rest →
    LexTo bufMatch rest top (acc ++ toks e) r → LexTo bufMatch (chars e ++ rest) top acc r
  | .const true, _, _, rest, top, acc, r, hd, h => by
    simp only [chars, if_true, List.cons_append, List.nil_append]
    apply LexTo.simple (by decide) _ (bufMatch_true rest hd) .tt (Or.inr (Or.inr (Or.inr (Or.inl ⟨rfl, rfl⟩))))
    simpa [toks] using h
  | .const false, _, _, rest, top, acc, r, hd, h => by
    simp only [chars, Bool.false_eq_true, if_false, List.cons_append, List.nil_append]
    apply LexTo.simple (by decide) _ (bufMatch_false rest hd) .ff (Or.inr (Or.inr (Or.inr (Or.inr ⟨rfl, rfl⟩))))
    simpa [toks] using h
  | .lit n, hp, _, rest, top, acc, r, hd, h => by
    have hpn := hp n (by simp [Expr.vars])
    have hpn' := hpn
    simp only [plainName, Bool.and_eq_true, Bool.not_eq_true', List.isEmpty_eq_false_iff, List.all_eq_true] at hpn'
    obtain ⟨⟨hne, hall⟩, _⟩ := hpn'
    simp only [chars]
    cases hn : n.toList with
    | nil => exact absurd hn hne
    | cons c cs =>
      rw [hn] at hpn hall
      have hm := bufMatch_name (c :: cs) rest hpn hd
      have hs := spanIdent_name (c :: cs) rest hall hd
      simp only [List.cons_append] at hm hs ⊢
      apply LexTo.ident (isWs_of_ident c (hall c (by simp))) hm (c :: cs) rest hs (by simp)
      simpa [toks, hn] using h
  | .not e, hp, hne, rest, top, acc, r, hd, h => by
    simp only [chars, List.cons_append, List.append_assoc, List.nil_append]
    apply LexTo.simple (by decide) _ (bufMatch_bang _) .not (Or.inr (Or.inr (Or.inl ⟨rfl, rfl⟩)))
    simp only [List.length_cons, List.length_nil, List.drop_succ_cons, List.drop_zero]
    apply LexTo.group (by decide) _ (bufMatch_lparen _) rfl (toks e) rest
    · have := lexE e (by simpa [Expr.vars] using hp) (by simpa [nonEmptyNary] using hne)
        (')' :: rest) false [] (.ok (toks e, rest)) (Or.inr (Or.inl ⟨rest, rfl⟩))
      apply this
      simp only [List.nil_append]
      exact LexTo.close (by decide) _ (bufMatch_rparen rest) rfl
    · simpa [toks] using h
  | .and es, hp, hne, rest, top, acc, r, hd, h => by
    simp only [nonEmptyNary, Bool.and_eq_true, Bool.not_eq_true', List.isEmpty_eq_false_iff] at hne
    simp only [chars, List.cons_append, List.append_assoc, List.nil_append]
    apply LexTo.group (by decide) _ (bufMatch_lparen _) rfl (joinToks .and (toksL es)) rest
    · have := lexL sepAnd es hne.1 (by simpa [Expr.vars] using hp) hne.2 rest []
      simpa [sepAnd] using this
    · simpa [toks] using h
  | .or es, hp, hne, rest, top, acc, r, hd, h => by
    simp only [nonEmptyNary, Bool.and_eq_true, Bool.not_eq_true', List.isEmpty_eq_false_iff] at hne
    simp only [chars, List.cons_append, List.append_assoc, List.nil_append]
    apply LexTo.group (by decide) _ (bufMatch_lparen _) rfl (joinToks .or (toksL es)) rest
    · have := lexL sepOr es hne.1 (by simpa [Expr.vars] using hp) hne.2 rest []
      simpa [sepOr] using this
    · simpa [toks] using h
/-- the operands of a printed group up to and including its closing parenthesis -/
theorem lexL (sep : Sep) : (es : List (Expr String)) → es ≠ [] → (∀ n ∈ Expr.varsL es, plainName n.toList = true) →
    nonEmptyNaryL es = true → ∀ (rest : List Char) (acc : List Tok),
    LexTo bufMatch (charsL [' ', sep.ch, ' '] es ++ ')' :: rest) false acc
      (.ok (acc ++ joinToks sep.tok (toksL es), rest))
  | [], h, _, _, _, _ => absurd rfl h
  | [e], _, hp, hne, rest, acc => by
    simp only [nonEmptyNaryL, Bool.and_true] at hne
    simp only [charsL, toksL, joinToks]
    apply lexE e (by simpa [Expr.varsL] using hp) hne (')' :: rest) false acc _ (Or.inr (Or.inl ⟨rest, rfl⟩))
    exact LexTo.close (by decide) _ (bufMatch_rparen rest) rfl
  | e :: e' :: es, _, hp, hne, rest, acc => by
    simp only [nonEmptyNaryL, Bool.and_eq_true] at hne
    have hp1 : ∀ n ∈ e.vars, plainName n.toList = true := fun n hn => hp n (by simp [Expr.varsL, hn])
    have hp2 : ∀ n ∈ Expr.varsL (e' :: es), plainName n.toList = true := fun n hn => by
      apply hp n
      simp only [Expr.varsL, List.mem_append] at hn ⊢
      exact Or.inr hn
    simp only [charsL, toksL, joinToks, List.append_assoc, List.cons_append, List.nil_append]
    apply lexE e hp1 hne.1 _ false acc _ (Or.inr (Or.inr ⟨_, rfl⟩))
    apply sep.lex
    have := lexL sep (e' :: es) (by simp) hp2 (by simp [nonEmptyNaryL, hne.2.1, hne.2.2]) rest
      (acc ++ toks e ++ [sep.tok])
    simpa [toksL, List.append_assoc] using this
end

/-- **character level of C14**: the text `Display` writes for an expression over plain identifier names
    with non-empty conjunctions and disjunctions is tokenized to `toks e` -/
theorem tokenize_printed (e : Expr String) (hp : plainNames e = true) (hne : nonEmptyNary e = true) :
    tokenize (printE e).toList = .ok (toks e) := by
  have hp' : ∀ n ∈ e.vars, plainName n.toList = true := by
    simpa [plainNames, List.all_eq_true] using hp
  have h := lexE e hp' hne [] true [] (.ok (toks e, [])) (Or.inl rfl) (by simpa using LexTo.eof)
  rw [List.append_nil, ← printE_toList] at h
  have := h.at_own_fuel bufMatch_progress
  simp only [tokenize, tokenizeLevel, this]

end C14
end BoolFn
