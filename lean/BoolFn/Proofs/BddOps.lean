import BoolFn.Proofs.Extend
/-! Semantics of the BDD wrapper operations built on `extend_bdd_variables`. -/
namespace BoolFn
namespace Bdd
variable {α : Type} [DecidableEq α] [Ord α] [Std.TransOrd α] [Std.LawfulEqOrd α]
set_option linter.unusedSectionVars false

/-- `union_and_extend`: both operands lifted to the sorted union of their inputs -/
theorem unionAndExtend_den (a b : Bdd α) (ha : a.WF) (hb : b.WF) :
    ∃ a' b' common, unionAndExtend a b = .ok (a', b', common) ∧
      a'.WF ∧ b'.WF ∧ a'.inputs = common ∧ b'.inputs = common ∧ StrictSorted common ∧
      (∀ x, x ∈ common ↔ x ∈ a.inputs ∨ x ∈ b.inputs) ∧
      (∀ ρ, a'.den ρ = a.den ρ) ∧ (∀ ρ, b'.den ρ = b.den ρ) := by
  obtain ⟨common, hcdef⟩ : ∃ c, c = sortDedup (a.inputs ++ b.inputs.filter fun x => !(a.inputs.contains x)) := ⟨_, rfl⟩
  have hss : StrictSorted common := by rw [hcdef]; exact strictSorted_sortDedup _
  have hmem : ∀ x, x ∈ common ↔ x ∈ a.inputs ∨ x ∈ b.inputs := by
    intro x
    rw [hcdef, mem_sortDedup, List.mem_append, List.mem_filter]
    constructor
    · rintro (h | ⟨h, _⟩)
      · exact Or.inl h
      · exact Or.inr h
    · rintro (h | h)
      · exact Or.inl h
      · by_cases hxa : x ∈ a.inputs
        · exact Or.inl hxa
        · exact Or.inr ⟨h, by simpa using hxa⟩
  obtain ⟨a', ha', hawf, hain, haden⟩ := extend_den a common ha hss (fun x hx => (hmem x).mpr (Or.inl hx))
  obtain ⟨b', hb', hbwf, hbin, hbden⟩ := extend_den b common hb hss (fun x hx => (hmem x).mpr (Or.inr hx))
  refine ⟨a', b', common, ?_, hawf, hbwf, hain, hbin, hss, hmem, haden, hbden⟩
  simp only [unionAndExtend, ← hcdef, ha', hb', Outcome.bind]

/-- **connectives on diagrams**: no panic, well-formed, inputs = union, pointwise -/
theorem bitCommon_den (op : Bool → Bool → Bool) (a b : Bdd α) (ha : a.WF) (hb : b.WF) :
    ∃ c, bitCommon (Inner.binop op) a b = .ok c ∧ c.WF ∧
      (∀ x, x ∈ c.inputs ↔ x ∈ a.inputs ∨ x ∈ b.inputs) ∧
      ∀ ρ, c.den ρ = op (a.den ρ) (b.den ρ) := by
  unfold bitCommon
  by_cases heq : a.inputs = b.inputs
  · rw [if_pos heq]
    refine ⟨⟨a.inputs, Inner.binop op a.inner b.inner⟩, rfl, ⟨ha.1, ha.2.1, Inner.wf_binop _ _ _⟩, ?_, ?_⟩
    · intro x; simp [heq]
    · intro ρ
      simp only [den]
      rw [Inner.eval_binop _ _ _ _ (by simp [ha.2.1]), heq]
  · rw [if_neg heq]
    obtain ⟨a', b', common, hu, hawf, hbwf, hain, hbin, hss, hmem, haden, hbden⟩ := unionAndExtend_den a b ha hb
    rw [hu]
    simp only [Outcome.bind]
    refine ⟨⟨common, Inner.binop op a'.inner b'.inner⟩, rfl, ⟨hss, by simp [hawf.2.1, hain], Inner.wf_binop _ _ _⟩, hmem, ?_⟩
    intro ρ
    simp only [den]
    rw [Inner.eval_binop _ _ _ _ (by simp [hawf.2.1, hain])]
    have e1 := haden ρ
    have e2 := hbden ρ
    simp only [den, hain, hbin] at e1 e2
    rw [e1, e2]

/-- every point over a duplicate-free name list is the point of some assignment -/
theorem point_of_assignment (ins : List α) (hnd : ins.Nodup) (p : List Bool) (hp : p.length = ins.length) :
    ∃ ρ : α → Bool, ins.map ρ = p :=
  ⟨complete (ins.zip p) false, map_complete_zip ins p hp hnd false⟩

/-- **equivalence on diagrams** (repaired: `iff(..).is_true()`) -/
theorem isEquivalent_iff (a b : Bdd α) (ha : a.WF) (hb : b.WF) :
    ∃ r, isEquivalent a b = .ok r ∧ (r = true ↔ ∀ ρ, a.den ρ = b.den ρ) := by
  obtain ⟨a', b', common, hu, hawf, hbwf, hain, hbin, hss, _, haden, hbden⟩ := unionAndExtend_den a b ha hb
  refine ⟨(a'.inner.iff b'.inner).isTrue, by simp [isEquivalent, hu, Outcome.bind], ?_⟩
  rw [Inner.isTrue_iff (a'.inner.iff b'.inner) (Inner.wf_binop _ _ _)]
  have hn : a'.inner.n = common.length := by rw [hawf.2.1, hain]
  constructor
  · intro h ρ
    have := h (common.map ρ) (by simp [Inner.iff, hn])
    rw [Inner.eval_iff _ _ _ (by simp [hn])] at this
    rw [← haden ρ, ← hbden ρ]
    simp only [den, hain, hbin]
    simpa using this
  · intro h p hp
    simp only [Inner.iff, Inner.n_binop, hn] at hp
    obtain ⟨ρ, rfl⟩ := point_of_assignment common hss.nodup p hp
    rw [Inner.eval_iff _ _ _ (by simp [hn])]
    have := h ρ
    rw [← haden ρ, ← hbden ρ] at this
    simp only [den, hain, hbin] at this
    simp [this]

/-- **implication on diagrams** -/
theorem isImpliedBy_iff (self other : Bdd α) (hs : self.WF) (ho : other.WF) :
    ∃ r, isImpliedBy self other = .ok r ∧ (r = true ↔ ∀ ρ, other.den ρ = true → self.den ρ = true) := by
  obtain ⟨a', b', common, hu, hawf, hbwf, hain, hbin, hss, _, haden, hbden⟩ := unionAndExtend_den self other hs ho
  refine ⟨(b'.inner.imp a'.inner).isTrue, by simp [isImpliedBy, hu, Outcome.bind], ?_⟩
  rw [Inner.isTrue_iff (b'.inner.imp a'.inner) (Inner.wf_binop _ _ _)]
  have hn : b'.inner.n = common.length := by rw [hbwf.2.1, hbin]
  constructor
  · intro h ρ hoth
    have := h (common.map ρ) (by simp [Inner.imp, hn])
    rw [Inner.eval_imp _ _ _ (by simp [hn])] at this
    rw [← haden ρ]
    rw [← hbden ρ] at hoth
    simp only [den, hain, hbin] at hoth ⊢
    simpa [hoth] using this
  · intro h p hp
    simp only [Inner.imp, Inner.n_binop, hn] at hp
    obtain ⟨ρ, rfl⟩ := point_of_assignment common hss.nodup p hp
    rw [Inner.eval_imp _ _ _ (by simp [hn])]
    have := h ρ
    rw [← haden ρ, ← hbden ρ] at this
    simp only [den, hain, hbin] at this
    cases hb' : b'.inner.eval (common.map ρ)
    · simp
    · simp [this hb']

/-- the denotation of a diagram only looks at its inputs -/
theorem den_congr (b : Bdd α) (ρ σ : α → Bool) (h : ∀ x ∈ b.inputs, ρ x = σ x) : b.den ρ = b.den σ := by
  simp only [den]; congr 1; exact List.map_congr_left h

/-- a well-formed diagram is determined by its inputs and its function (canonicity, in the semantic
    model of lib-bdd) -/
theorem eq_of_den (x y : Bdd α) (hx : x.WF) (hy : y.WF) (hin : x.inputs = y.inputs)
    (hden : ∀ ρ, x.den ρ = y.den ρ) : x = y := by
  have hnd := hx.1.nodup
  have hn : x.inner.n = y.inner.n := by rw [hx.2.1, hy.2.1, hin]
  have : x.inner = y.inner := by
    apply Inner.ext_of_eval _ _ hx.2.2 hy.2.2 hn
    intro p hp
    have hpl : p.length = x.inputs.length := by rw [hp, hx.2.1]
    have := hden (complete (x.inputs.zip p) false)
    simp only [Bdd.den] at this
    rw [← hin, map_complete_zip x.inputs p hpl hnd] at this
    exact this
  cases x; cases y
  simp only at hin this
  subst hin; subst this
  rfl

end Bdd
end BoolFn
