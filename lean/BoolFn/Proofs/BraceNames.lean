import BoolFn.Proofs.PrintLex
/-! Brace-quoted names: whatever stands between `{` and the next `}` — any character of any kind,
    blanks, operators, brackets, non-ASCII — is the variable's name, verbatim (C12: "variable names
    are preserved exactly"). The character sweep of C13 observes this on the implementation for every
    scalar value; here it is a theorem about the model, for names of any length. -/
namespace BoolFn
open BoolFn.Spec
namespace C14

theorem untilBrace_name : ∀ (name rest : List Char), '}' ∉ name →
    untilBrace (name ++ '}' :: rest) = some (name, rest)
  | [], rest, _ => by simp [untilBrace]
  | c :: cs, rest, h => by
    have hc : (c == '}') = false := by
      have : c ≠ '}' := fun he => h (by simp [he])
      simpa using this
    have hcs : '}' ∉ cs := fun hm => h (by simp [hm])
    simp [untilBrace, hc, untilBrace_name cs rest hcs]

theorem bufMatch_lbrace (t : List Char) : bufMatch ('{' :: t) = some ⟨['{'], .braceStart, false⟩ := by
  rw [bufMatch_filter]
  have : patterns.filter (startsFold '{') = [⟨['{'], .braceStart, false⟩] := by decide
  rw [this]
  simp only [List.find?, patMatches, prefixFold, isWord]
  have h1 : foldEq '{' '{' = true := by decide
  have h2 : isIdentChar '{' = false := by decide
  simp [h1, h2]

/-- a brace-quoted name is one literal token carrying the name verbatim, then lexing goes on behind `}` -/
theorem LexTo.braced {top : Bool} {acc : List Tok} {r : LexRes} (name rest : List Char) (hne : name ≠ [])
    (hb : '}' ∉ name) (h : LexTo bufMatch rest top (acc ++ [.lit name]) r) :
    LexTo bufMatch ('{' :: (name ++ '}' :: rest)) top acc r := by
  obtain ⟨f, hf, hnf⟩ := h
  refine ⟨f + 1, ?_, hnf⟩
  rw [tokenizeLevelW_succ]
  unfold stepLex
  rw [trimWs_cons_of_not_ws '{' _ (by decide)]
  simp only [bufMatch_lbrace, List.drop_succ_cons, List.drop_zero, untilBrace_name name rest hb]
  rw [if_neg (by simpa using hne)]
  exact hf

/-- **the name between braces is preserved exactly**, whatever characters it is made of -/
theorem tokenize_braced (name : List Char) (hne : name ≠ []) (hb : '}' ∉ name) :
    tokenize ('{' :: (name ++ ['}'])) = .ok [.lit name] := by
  have h : LexTo bufMatch ('{' :: (name ++ '}' :: [])) true [] (.ok ([.lit name], [])) :=
    LexTo.braced name [] hne hb (by simpa using LexTo.eof (m := bufMatch) (acc := [.lit name]))
  have := h.at_own_fuel bufMatch_progress
  simp only [tokenize, tokenizeLevel, this]

/-- an empty pair of braces is rejected -/
theorem tokenize_empty_braces : tokenize ['{', '}'] = .error .emptyLiteralName := by
  have h : LexTo bufMatch ['{', '}'] true [] (.error .emptyLiteralName) := by
    refine ⟨1, ?_, by simp⟩
    rw [tokenizeLevelW_succ]
    unfold stepLex
    rw [trimWs_cons_of_not_ws '{' _ (by decide)]
    simp [bufMatch_lbrace, untilBrace]
  have := h.at_own_fuel bufMatch_progress
  simp only [tokenize, tokenizeLevel, this]

/-- non-vacuity: a name made of a blank, an operator, a bracket and a non-ASCII letter -/
example : tokenize "{ &(é}".toList = .ok [.lit " &(é".toList] :=
  tokenize_braced " &(é".toList (by decide) (by decide)

end C14
end BoolFn
