import BoolFn.Proofs.Oracle
import BoolFn.Proofs.Quant
/-! More oracle theorems: essential inputs (C09) and the derivative (C07). -/
namespace BoolFn.Spec
open BoolFn

theorem any_envs_iff (u : List String) (P : (String → Bool) → Bool) (hP : DependsOnly u P) :
    ((envs u).any fun v => P (envOf v)) = true ↔ ∃ ρ, P ρ = true := by
  have h := all_envs_iff u (fun ρ => !P ρ) (by intro ρ σ hh; simp only [hP ρ σ hh])
  constructor
  · intro hany
    rw [List.any_eq_true] at hany
    obtain ⟨v, _, hv⟩ := hany
    exact ⟨envOf v, hv⟩
  · rintro ⟨ρ, hρ⟩
    cases hany : ((envs u).any fun v => P (envOf v)) with
    | true => rfl
    | false =>
      exfalso
      have hall : ((envs u).all fun v => !P (envOf v)) = true := by
        rw [List.all_eq_true]
        intro v hv
        have := List.any_eq_false.mp hany v hv
        simpa using this
      have := h.mp hall ρ
      simp [hρ] at this

theorem override_single_eq_upd (ρ : String → Bool) (u : String) (b : Bool) : override ρ [(u, b)] = upd ρ u b := by
  rw [upd_eq_override]

/-- C09: the reference set is "inputs whose flip changes the value somewhere" -/
theorem mem_essentialRef (x : Fn) (u : String) :
    u ∈ essentialRef x ↔ u ∈ x.inputs ∧ ∃ ρ : String → Bool, x.den (upd ρ u false) ≠ x.den (upd ρ u true) := by
  simp only [essentialRef, List.mem_filter]
  have hdep : DependsOnly x.inputs
      (fun ρ => x.den (override ρ [(u, false)]) != x.den (override ρ [(u, true)])) := by
    intro ρ σ h
    have h1 := den_dependsOnly x x.inputs (fun n hn => hn) _ _ (override_congr ρ σ [(u, false)] x.inputs h)
    have h2 := den_dependsOnly x x.inputs (fun n hn => hn) _ _ (override_congr ρ σ [(u, true)] x.inputs h)
    simp only [h1, h2]
  rw [any_envs_iff x.inputs _ hdep]
  simp only [override_single_eq_upd, bne_iff_ne, ne_eq]

theorem nodup_iff : ∀ l : List String, nodup l = true ↔ l.Nodup
  | [] => by simp [nodup]
  | x :: xs => by simp [nodup, nodup_iff xs, List.nodup_cons]

theorem essentialOk_iff (x : Fn) (ans : List String) :
    essentialOk x ans = true ↔ ans.Nodup ∧ ∀ u, u ∈ ans ↔
      (u ∈ x.inputs ∧ ∃ ρ : String → Bool, x.den (upd ρ u false) ≠ x.den (upd ρ u true)) := by
  simp only [essentialOk, Bool.and_eq_true, nodup_iff, sameSet_iff, mem_essentialRef]


/-! ### the derivative oracle is the nested expansion -/

theorem foldl_xor_init (l : List Bool) (b : Bool) : l.foldl (· != ·) b = (b != l.foldl (· != ·) false) := by
  induction l generalizing b with
  | nil => simp
  | cons a as ih =>
    simp only [List.foldl_cons]
    rw [ih (b != a), ih (false != a)]
    cases a <;> cases b <;> cases as.foldl (· != ·) false <;> rfl

theorem foldl_xor_append (l1 l2 : List Bool) :
    (l1 ++ l2).foldl (· != ·) false = (l1.foldl (· != ·) false != l2.foldl (· != ·) false) := by
  rw [List.foldl_append, foldl_xor_init l2]

theorem foldl_map_xor {β : Type} (l : List β) (f : β → Bool) :
    l.foldl (fun acc a => acc != f a) false = (l.map f).foldl (· != ·) false := by
  rw [List.foldl_map]

theorem override_cons_upd (ρ : String → Bool) (v : String) (b : Bool) (a : PVal String) (hv : v ∉ a.keys) :
    override ρ ((v, b) :: a) = override (upd ρ v b) a := by
  funext n
  simp only [override, PVal.get?_cons, upd]
  by_cases hvn : v = n
  · subst hvn
    simp [(PVal.get?_eq_none_iff a v).mpr hv]
  · simp [hvn]

theorem deriv_fold_eq_nested (x : Fn) : ∀ (vs : List String), vs.Nodup → ∀ ρ : String → Bool,
    (assignments vs).foldl (fun acc a => acc != x.den (override ρ a)) false = nested (· != ·) Fn.den vs x ρ
  | [], _, ρ => by
    simp only [assignments, envs, lexPoints, List.length_nil, List.map_cons, List.map_nil, List.zip_nil_left,
      List.foldl_cons, List.foldl_nil, nested]
    have : override ρ [] = ρ := by funext n; simp [override]
    rw [this]; simp
  | v :: vs, hnd, ρ => by
    have hnd' := List.nodup_cons.mp hnd
    have ih0 := deriv_fold_eq_nested x vs hnd'.2 (upd ρ v false)
    have ih1 := deriv_fold_eq_nested x vs hnd'.2 (upd ρ v true)
    rw [foldl_map_xor] at ih0 ih1 ⊢
    simp only [nested]
    rw [← ih0, ← ih1]
    simp only [assignments, envs, lexPoints, List.length_cons, List.map_append, List.map_map]
    rw [foldl_xor_append]
    have hkeys : ∀ p : List Bool, v ∉ PVal.keys (vs.zip p) := by
      intro p hk
      simp only [PVal.keys, List.mem_map] at hk
      obtain ⟨⟨a, b⟩, hab, rfl⟩ := hk
      exact hnd'.1 (List.of_mem_zip hab).1
    congr 1
    · congr 1
      apply List.map_congr_left
      intro p _
      simp only [Function.comp, List.zip_cons_cons]
      rw [override_cons_upd ρ v false _ (hkeys p)]
    · congr 1
      apply List.map_congr_left
      intro p _
      simp only [Function.comp, List.zip_cons_cons]
      rw [override_cons_upd ρ v true _ (hkeys p)]

/-- C07: the derivative oracle says "the nested exclusive-or expansion over the variables, at every assignment" -/
theorem derivativeOk_iff (x : Fn) (vs : List String) (hnd : vs.Nodup) (y : Fn) :
    derivativeOk x vs y = true ↔ y.wf = true ∧ (∀ n, n ∈ y.inputs ↔ n ∈ x.inputs ∧ n ∉ vs) ∧
      ∀ ρ, y.den ρ = nested (· != ·) Fn.den vs x ρ := by
  have hdep : DependsOnly (union (union x.inputs vs) y.inputs)
      (fun ρ => (assignments vs).foldl (fun acc a => acc != x.den (override ρ a)) false) := by
    have := quant_dependsOnly x vs (union (union x.inputs vs) y.inputs)
      (fun n hn => (mem_union _ _ n).mpr (Or.inl ((mem_union _ _ n).mpr (Or.inl hn)))) (fun l => l.foldl (· != ·) false)
    intro ρ σ h
    have := this ρ σ h
    simpa [foldl_map_xor] using this
  have hag := agreeOn_iff _ _ y.den hdep (den_dependsOnly y _ (fun n hn => (mem_union _ _ n).mpr (Or.inr hn)))
  simp only [derivativeOk, Bool.and_eq_true, hag, sameSet_iff, mem_diff]
  constructor
  · rintro ⟨⟨h1, h2⟩, h3⟩
    exact ⟨h1, h2, fun ρ => by rw [← h3 ρ, deriv_fold_eq_nested x vs hnd ρ]⟩
  · rintro ⟨h1, h2, h3⟩
    exact ⟨⟨h1, h2⟩, fun ρ => by rw [h3 ρ, deriv_fold_eq_nested x vs hnd ρ]⟩

end BoolFn.Spec
