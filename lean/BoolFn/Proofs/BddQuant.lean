import BoolFn.Proofs.Prune
import BoolFn.Proofs.Quant
/-! BDD wrapper: restrict, quantifiers and derivative = lib-bdd operation on positions + prune. -/
namespace BoolFn
namespace Bdd
variable {α : Type} [DecidableEq α]
set_option linter.unusedSectionVars false

theorem map_upd_set (ins : List α) (hnd : ins.Nodup) (ρ : α → Bool) (i : Nat) (hi : i < ins.length) (v : Bool) :
    ins.map (upd ρ ins[i] v) = (ins.map ρ).set i v := by
  apply List.ext_getElem (by simp)
  intro k h1 h2
  simp only [List.getElem_map, List.getElem_set, upd]
  by_cases hk : i = k
  · subst hk; simp
  · have : ins[i] ≠ ins[k]'(by simpa using h1) := fun heq => hk ((List.getElem_inj hnd).mp heq)
    simp [hk, this]

theorem map_upd_foreign (ins : List α) (ρ : α → Bool) (x : α) (hx : x ∉ ins) (v : Bool) :
    ins.map (upd ρ x v) = ins.map ρ := by
  apply List.map_congr_left
  intro y hy
  have : x ≠ y := fun e => hx (e ▸ hy)
  simp [upd, this]

/-- value of an inner diagram over the input list `ins` -/
def denI (ins : List α) (ρ : α → Bool) (c : Inner) : Bool := c.eval (ins.map ρ)

/-- invariant of the inner folds: well-formed over `ins.length` variables -/
def InvI (ins : List α) (c : Inner) : Prop := c.WF ∧ c.n = ins.length

/-- one elimination step by *name*: a name that is no input leaves the diagram alone -/
def nameStep (ins : List α) (step : Inner → Nat → Inner) (acc : Inner) (x : α) : Inner :=
  match indexOf? x ins with
  | some i => step acc i
  | none => acc

theorem foldl_nameStep (ins : List α) (step : Inner → Nat → Inner) (vs : List α) (c : Inner) :
    vs.foldl (nameStep ins step) c = (vs.filterMap fun x => indexOf? x ins).foldl step c := by
  induction vs generalizing c with
  | nil => rfl
  | cons x xs ih =>
    simp only [List.foldl, List.filterMap_cons, nameStep]
    cases h : indexOf? x ins with
    | none => simpa [nameStep] using ih c
    | some i => simpa [nameStep, List.foldl] using ih (step c i)

theorem index_facts (ins : List α) (x : α) (i : Nat) (h : indexOf? x ins = some i) :
    ∃ hi : i < ins.length, ins[i] = x := by
  have := indexOf?_some_iff x ins i h
  refine ⟨this.1, ?_⟩
  have h2 := this.2
  rw [List.getElem?_eq_getElem this.1] at h2
  exact Option.some.inj h2

/-- the three inner steps satisfy the elimination-step equation, by name -/
theorem nameStep_spec (ins : List α) (hnd : ins.Nodup) (bop : Bool → Bool → Bool) (hidem : ∀ a, bop a a = a)
    (step : Inner → Nat → Inner)
    (hstep : ∀ (acc : Inner) (i : Nat) (p : List Bool), p.length = acc.n →
      (step acc i).n = acc.n ∧ (step acc i).WF ∧
      (step acc i).eval p = bop (acc.eval (p.set i false)) (acc.eval (p.set i true)))
    (acc : Inner) (x : α) (hacc : InvI ins acc) :
    InvI ins (nameStep ins step acc x) ∧
      ∀ ρ, denI ins ρ (nameStep ins step acc x) = bop (denI ins (upd ρ x false) acc) (denI ins (upd ρ x true) acc) := by
  simp only [nameStep]
  cases h : indexOf? x ins with
  | none =>
    have hx : x ∉ ins := (indexOf?_none_iff x ins).mp h
    refine ⟨hacc, fun ρ => ?_⟩
    simp only [denI, map_upd_foreign ins ρ x hx, hidem]
  | some i =>
    obtain ⟨hi, hxi⟩ := index_facts ins x i h
    have hs := hstep acc i
    refine ⟨⟨(hs (ins.map (fun _ => false)) (by simp [hacc.2])).2.1, by
      rw [(hs (ins.map (fun _ => false)) (by simp [hacc.2])).1, hacc.2]⟩, fun ρ => ?_⟩
    simp only [denI]
    rw [(hs (ins.map ρ) (by simp [hacc.2])).2.2, ← hxi, map_upd_set ins hnd ρ i hi, map_upd_set ins hnd ρ i hi]

theorem existsStep_facts (acc : Inner) (i : Nat) (p : List Bool) (hp : p.length = acc.n) :
    (Inner.existsStep acc i).n = acc.n ∧ (Inner.existsStep acc i).WF ∧
    (Inner.existsStep acc i).eval p = (acc.eval (p.set i false) || acc.eval (p.set i true)) :=
  ⟨rfl, Inner.wf_ofFn _ _, Inner.eval_ofFn _ _ _ hp⟩

theorem forAllStep_facts (acc : Inner) (i : Nat) (p : List Bool) (hp : p.length = acc.n) :
    (Inner.forAllStep acc i).n = acc.n ∧ (Inner.forAllStep acc i).WF ∧
    (Inner.forAllStep acc i).eval p = (acc.eval (p.set i false) && acc.eval (p.set i true)) :=
  ⟨rfl, Inner.wf_ofFn _ _, Inner.eval_ofFn _ _ _ hp⟩

/-- the nested expansion does not depend on the eliminated variables -/
theorem nested_indep {F : Type} (bop : Bool → Bool → Bool) (den : (α → Bool) → F → Bool)
    (vs : List α) (f : F) (x : α) (hx : x ∈ vs) (ρ : α → Bool) (v : Bool) :
    nested bop den vs f (upd ρ x v) = nested bop den vs f ρ := by
  induction vs generalizing ρ with
  | nil => cases hx
  | cons y ys ih =>
    simp only [nested]
    by_cases hyx : y = x
    · subst hyx
      have e : ∀ b, upd (upd ρ y v) y b = upd ρ y b := by
        intro b; funext z; simp only [upd]; split <;> rfl
      rw [e, e]
    · have hx' : x ∈ ys := by
        rcases List.mem_cons.mp hx with h | h
        · exact absurd h.symm hyx
        · exact h
      rw [upd_comm ρ x y v false (fun e => hyx e.symm), upd_comm ρ x y v true (fun e => hyx e.symm),
        ih hx', ih hx']

theorem nested_congr {F G : Type} (bop : Bool → Bool → Bool) (d1 : (α → Bool) → F → Bool) (d2 : (α → Bool) → G → Bool)
    (f : F) (g : G) (h : ∀ ρ, d1 ρ f = d2 ρ g) : ∀ (vs : List α) (ρ : α → Bool),
    nested bop d1 vs f ρ = nested bop d2 vs g ρ := by
  intro vs
  induction vs with
  | nil => intro ρ; exact h ρ
  | cons x xs ih => intro ρ; simp only [nested, ih]

section
variable [Ord α] [Std.TransOrd α] [Std.LawfulEqOrd α]

/-- generic second half: prune after an inner fold whose value is a nested expansion over `vs` -/
theorem prune_after_elimination (b : Bdd α) (hb : b.WF) (vs : List α) (c : Inner) (hc : InvI b.inputs c)
    (bop : Bool → Bool → Bool)
    (hval : ∀ ρ, denI b.inputs ρ c = nested bop Bdd.den vs b ρ) :
    ∃ b', restrictAndPrune b vs.contains ⟨b.inputs, c⟩ = .ok b' ∧ b'.WF ∧
      b'.inputs = b.inputs.filter (fun x => !(vs.contains x)) ∧
      ∀ ρ, b'.den ρ = nested bop Bdd.den vs b ρ := by
  have hnd := hb.1.nodup
  have hwf : (⟨b.inputs, c⟩ : Bdd α).WF := ⟨hb.1, hc.2, hc.1⟩
  obtain ⟨b', hb', hwf', hin', hden'⟩ := prune_den ⟨b.inputs, c⟩ (b.inputs.filter fun x => !(vs.contains x)) hwf
    (List.Pairwise.sublist List.filter_sublist hb.1)
    (fun x hx => (List.mem_filter.mp hx).1)
    (by
      intro i hi hil
      simp only at hil hi ⊢
      apply List.mem_filter.mpr
      refine ⟨List.getElem_mem _, ?_⟩
      -- an eliminated input is not in the support of the result
      apply Classical.byContradiction
      intro hcon
      have hmem : b.inputs[i] ∈ vs := by simpa using hcon
      have hdep := ((Inner.mem_supportSet c i).mp hi).2
      have hnd' : ¬ (c.dependsOn i = false) := by simp [hdep]
      apply hnd'
      rw [Inner.not_dependsOn_iff]
      intro p hp
      obtain ⟨ρ, rfl⟩ := point_of_assignment' b.inputs hnd p (by rw [hp, hc.2])
      rw [← map_upd_set b.inputs hnd ρ i hil, ← map_upd_set b.inputs hnd ρ i hil]
      have h0 := hval (upd ρ b.inputs[i] false)
      have h1 := hval (upd ρ b.inputs[i] true)
      simp only [denI] at h0 h1
      rw [h0, h1, nested_indep _ _ _ _ _ hmem, nested_indep _ _ _ _ _ hmem])
  refine ⟨b', hb', hwf', hin', ?_⟩
  intro ρ
  rw [hden' ρ]
  exact hval ρ
where
  point_of_assignment' (ins : List α) (hnd : ins.Nodup) (p : List Bool) (hp : p.length = ins.length) :
      ∃ ρ : α → Bool, ins.map ρ = p :=
    ⟨complete (ins.zip p) false, map_complete_zip ins p hp hnd false⟩

/-- **existential quantification on diagrams** -/
theorem existsQ_den (vs : List α) (hvs : vs.Nodup) (b : Bdd α) (hb : b.WF) :
    ∃ b', existsQ vs b = .ok b' ∧ b'.WF ∧ b'.inputs = b.inputs.filter (fun x => !(vs.contains x)) ∧
      ∀ ρ, b'.den ρ = nested (· || ·) Bdd.den vs b ρ := by
  have hnd := hb.1.nodup
  have hfold := foldl_eq_nested (· || ·) (denI b.inputs) (nameStep b.inputs Inner.existsStep) (InvI b.inputs) medial_or
    (fun f x hf => nameStep_spec b.inputs hnd (· || ·) (by intro a; cases a <;> rfl) Inner.existsStep existsStep_facts f x hf)
    vs hvs b.inner ⟨hb.2.2, hb.2.1⟩
  have hinner : b.inner.existsV (vs.filterMap b.outerToInner) = vs.foldl (nameStep b.inputs Inner.existsStep) b.inner := by
    rw [foldl_nameStep]; rfl
  simp only [existsQ, hinner]
  apply prune_after_elimination b hb vs _ (hfold (fun _ => false)).1 (· || ·)
  intro ρ
  rw [(hfold ρ).2]
  -- the nested expansions over `denI` of the inner diagram and over `den` of the wrapper coincide
  exact nested_congr (· || ·) (denI b.inputs) Bdd.den b.inner b (fun _ => rfl) vs ρ

/-- **universal quantification on diagrams** -/
theorem forallQ_den (vs : List α) (hvs : vs.Nodup) (b : Bdd α) (hb : b.WF) :
    ∃ b', forallQ vs b = .ok b' ∧ b'.WF ∧ b'.inputs = b.inputs.filter (fun x => !(vs.contains x)) ∧
      ∀ ρ, b'.den ρ = nested (· && ·) Bdd.den vs b ρ := by
  have hnd := hb.1.nodup
  have hfold := foldl_eq_nested (· && ·) (denI b.inputs) (nameStep b.inputs Inner.forAllStep) (InvI b.inputs) medial_and
    (fun f x hf => nameStep_spec b.inputs hnd (· && ·) (by intro a; cases a <;> rfl) Inner.forAllStep forAllStep_facts f x hf)
    vs hvs b.inner ⟨hb.2.2, hb.2.1⟩
  have hinner : b.inner.forAllV (vs.filterMap b.outerToInner) = vs.foldl (nameStep b.inputs Inner.forAllStep) b.inner := by
    rw [foldl_nameStep]; rfl
  simp only [forallQ, hinner]
  apply prune_after_elimination b hb vs _ (hfold (fun _ => false)).1 (· && ·)
  intro ρ
  rw [(hfold ρ).2]
  exact nested_congr (· && ·) (denI b.inputs) Bdd.den b.inner b (fun _ => rfl) vs ρ

theorem applyFix_single (p : List Bool) (i : Nat) (v : Bool) : Inner.applyFix p [(i, v)] = p.set i v := rfl

/-- the repaired derivative step, by name -/
theorem derivStep_spec (b : Bdd α) (hnd : b.inputs.Nodup) (acc : Inner) (x : α) (hacc : InvI b.inputs acc) :
    InvI b.inputs (derivStep b acc x) ∧
      ∀ ρ, denI b.inputs ρ (derivStep b acc x) =
        (denI b.inputs (upd ρ x false) acc != denI b.inputs (upd ρ x true) acc) := by
  simp only [derivStep, outerToInner]
  cases h : indexOf? x b.inputs with
  | none =>
    have hx : x ∉ b.inputs := (indexOf?_none_iff x b.inputs).mp h
    refine ⟨⟨Inner.wf_xor _ _, by simp [hacc.2]⟩, fun ρ => ?_⟩
    simp only [denI, map_upd_foreign b.inputs ρ x hx]
    rw [Inner.eval_xor _ _ _ (by simp [hacc.2])]
  | some i =>
    obtain ⟨hi, hxi⟩ := index_facts b.inputs x i h
    refine ⟨⟨Inner.wf_xor _ _, by simp [Inner.varRestrict, hacc.2]⟩, fun ρ => ?_⟩
    simp only [denI]
    rw [Inner.eval_xor _ _ _ (by simp [Inner.varRestrict, hacc.2])]
    simp only [Inner.varRestrict, Inner.restrict]
    rw [Inner.eval_ofFn _ _ _ (by simp [hacc.2]), Inner.eval_ofFn _ _ _ (by simp [hacc.2]),
      applyFix_single, applyFix_single, ← hxi, map_upd_set b.inputs hnd ρ i hi, map_upd_set b.inputs hnd ρ i hi]

/-- **derivative on diagrams** (repaired) -/
theorem derivative_den (vs : List α) (hvs : vs.Nodup) (b : Bdd α) (hb : b.WF) :
    ∃ b', derivative vs b = .ok b' ∧ b'.WF ∧ b'.inputs = b.inputs.filter (fun x => !(vs.contains x)) ∧
      ∀ ρ, b'.den ρ = nested (· != ·) Bdd.den vs b ρ := by
  have hnd := hb.1.nodup
  have hfold := foldl_eq_nested (· != ·) (denI b.inputs) (derivStep b) (InvI b.inputs) medial_xor
    (fun f x hf => derivStep_spec b hnd f x hf) vs hvs b.inner ⟨hb.2.2, hb.2.1⟩
  simp only [derivative]
  apply prune_after_elimination b hb vs _ (hfold (fun _ => false)).1 (· != ·)
  intro ρ
  rw [(hfold ρ).2]
  exact nested_congr (· != ·) (denI b.inputs) Bdd.den b.inner b (fun _ => rfl) vs ρ

/-! ### restriction -/

theorem applyFix_set_mem (fix : List (Nat × Bool)) (i : Nat) (hi : i ∈ fix.map (·.1)) (p : List Bool) (u : Bool) :
    Inner.applyFix (p.set i u) fix = Inner.applyFix p fix := by
  induction fix generalizing p with
  | nil => cases hi
  | cons f fs ih =>
    obtain ⟨j, c⟩ := f
    simp only [Inner.applyFix, List.foldl]
    by_cases hji : j = i
    · subst hji
      rw [List.set_set]
    · have hi' : i ∈ fs.map (·.1) := by
        have hi0 : i ∈ j :: fs.map (·.1) := by simpa only [List.map_cons] using hi
        rcases List.mem_cons.mp hi0 with h | h
        · exact absurd h.symm hji
        · exact h
      rw [List.set_comm _ _ (fun e => hji e.symm)]
      exact ih hi' (p.set j c)

/-- fixing the positions of the assigned inputs reads the function at the overridden assignment -/
theorem applyFix_map (ins : List α) (hnd : ins.Nodup) :
    (v : PVal α) → (v.map (·.1)).Nodup → (ρ : α → Bool) →
      Inner.applyFix (ins.map ρ) (v.filterMap fun p => (indexOf? p.1 ins).map fun i => (i, p.2)) =
        ins.map (override ρ v)
  | [], _, ρ => by simp [Inner.applyFix, override_nil]
  | (k, bv) :: v', hk, ρ => by
    have hk0 : (k :: v'.map (·.1)).Nodup := by simpa only [List.map_cons] using hk
    have hk' := List.nodup_cons.mp hk0
    simp only [List.filterMap_cons]
    cases h : indexOf? k ins with
    | none =>
      have hx : k ∉ ins := (indexOf?_none_iff k ins).mp h
      simp only [Option.map_none]
      rw [applyFix_map ins hnd v' hk'.2 ρ]
      apply List.map_congr_left
      intro y hy
      have : k ≠ y := fun e => hx (e ▸ hy)
      simp [override_cons, this]
    | some i =>
      obtain ⟨hi, hxi⟩ := index_facts ins k i h
      simp only [Option.map_some, Inner.applyFix, List.foldl]
      have e1 : (ins.map ρ).set i bv = ins.map (upd ρ k bv) := by rw [← hxi, map_upd_set ins hnd ρ i hi]
      rw [e1]
      have := applyFix_map ins hnd v' hk'.2 (upd ρ k bv)
      simp only [Inner.applyFix] at this
      rw [this]
      apply List.map_congr_left
      intro y _
      simp only [override, PVal.get?_cons]
      by_cases hky : k = y
      · subst hky
        have : PVal.get? v' k = none := by
          rw [PVal.get?_eq_none_iff]; simpa [PVal.keys] using hk'.1
        simp [this, upd]
      · simp [hky, upd]

/-- **restriction on diagrams** -/
theorem restrict_den (v : PVal α) (hv : (v.map (·.1)).Nodup) (b : Bdd α) (hb : b.WF) :
    ∃ b', restrict v b = .ok b' ∧ b'.WF ∧
      b'.inputs = b.inputs.filter (fun x => !((PVal.get? v x).isSome)) ∧
      ∀ ρ, b'.den ρ = b.den (override ρ v) := by
  have hnd := hb.1.nodup
  obtain ⟨fix, hfix⟩ : ∃ fix, fix = v.filterMap fun p => (b.outerToInner p.1).map fun i => (i, p.2) := ⟨_, rfl⟩
  have hval : ∀ ρ, (b.inner.restrict fix).eval (b.inputs.map ρ) = b.inner.eval (b.inputs.map (override ρ v)) := by
    intro ρ
    rw [Inner.restrict, Inner.eval_ofFn _ _ _ (by simp [hb.2.1]), hfix]
    congr 1
    exact applyFix_map b.inputs hnd v hv ρ
  have hwf : (⟨b.inputs, b.inner.restrict fix⟩ : Bdd α).WF := ⟨hb.1, hb.2.1, Inner.wf_ofFn _ _⟩
  obtain ⟨b', hb', hwf', hin', hden'⟩ := prune_den ⟨b.inputs, b.inner.restrict fix⟩
    (b.inputs.filter fun x => !((PVal.get? v x).isSome)) hwf
    (List.Pairwise.sublist List.filter_sublist hb.1)
    (fun x hx => (List.mem_filter.mp hx).1)
    (by
      intro i hi hil
      simp only at hil hi ⊢
      apply List.mem_filter.mpr
      refine ⟨List.getElem_mem _, ?_⟩
      apply Classical.byContradiction
      intro hcon
      have hsome : (PVal.get? v b.inputs[i]).isSome = true := by
        cases hg : PVal.get? v b.inputs[i] with
        | none => simp [hg] at hcon
        | some _ => rfl
      -- position i is fixed, so the restricted diagram does not depend on it
      have hmem : i ∈ fix.map (·.1) := by
        rw [hfix]
        have hk := (PVal.get?_isSome_iff v b.inputs[i]).mp hsome
        obtain ⟨⟨k, bv⟩, hkv, hkeq⟩ := List.mem_map.mp hk
        simp only at hkeq
        apply List.mem_map.mpr
        refine ⟨(i, bv), ?_, rfl⟩
        apply List.mem_filterMap.mpr
        refine ⟨(k, bv), hkv, ?_⟩
        simp [outerToInner, hkeq, indexOf?_getElem b.inputs hnd i hil]
      have hdep := ((Inner.mem_supportSet _ i).mp hi).2
      have hnd' : ¬ ((b.inner.restrict fix).dependsOn i = false) := by simp [hdep]
      apply hnd'
      rw [Inner.not_dependsOn_iff]
      intro p hp
      simp only [Inner.restrict, Inner.n_ofFn] at hp ⊢
      rw [Inner.eval_ofFn _ _ _ (by simp [hp]), Inner.eval_ofFn _ _ _ (by simp [hp]),
        applyFix_set_mem fix i hmem, applyFix_set_mem fix i hmem])
  refine ⟨b', ?_, hwf', hin', ?_⟩
  · simp only [restrict, restrictAndPrune, ← hfix]
    exact hb'
  · intro ρ
    rw [hden' ρ]
    exact hval ρ

end
end Bdd
end BoolFn
