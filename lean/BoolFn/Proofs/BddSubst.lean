import BoolFn.Proofs.BddQuant
import BoolFn.Proofs.BddOps
/-! The repaired `Bdd::substitute` (proxy variables) is simultaneous functional composition. -/
namespace BoolFn
namespace Bdd
variable {α : Type} [DecidableEq α]
set_option linter.unusedSectionVars false

/-! ### phase 1: every substituted input is moved to a fresh proxy variable -/

/-- the entries of the two loops: ((position of the key, lifted substitute), index of its proxy) -/
abbrev Entry (α : Type) := (Nat × Bdd α) × Nat

def step5 (N total : Nat) (acc : Inner) (x : Entry α) : Inner :=
  acc.substitute x.1.1 (Inner.mkVar total (N + x.2))

/-- the point read after the first loop -/
def apply5 (N : Nat) : List (Entry α) → List Bool → List Bool
  | [], q => q
  | x :: xs, q => (apply5 N xs q).set x.1.1 (q.getD (N + x.2) false)

@[simp] theorem apply5_length (N : Nat) (L : List (Entry α)) (q : List Bool) : (apply5 N L q).length = q.length := by
  induction L with
  | nil => rfl
  | cons x xs ih => simp [apply5, ih]

theorem apply5_getD_ge (N : Nat) (L : List (Entry α)) (hL : ∀ x ∈ L, x.1.1 < N) (q : List Bool) (j : Nat) (hj : N ≤ j) :
    (apply5 N L q).getD j false = q.getD j false := by
  induction L with
  | nil => rfl
  | cons x xs ih =>
    have hx := hL x (by simp)
    simp only [apply5]
    rw [Inner.getD_set]
    have : ¬ (x.1.1 = j ∧ j < (apply5 N xs q).length) := by omega
    rw [if_neg this]
    exact ih (fun y hy => hL y (by simp [hy]))

theorem foldl_step5 (N total : Nat) :
    (L : List (Entry α)) → (hL : ∀ x ∈ L, x.1.1 < N) → (acc : Inner) → acc.n = total → acc.WF →
    (L.foldl (step5 N total) acc).n = total ∧ (L.foldl (step5 N total) acc).WF ∧
      ∀ q, q.length = total → (L.foldl (step5 N total) acc).eval q = acc.eval (apply5 N L q)
  | [], _, acc, hn, hwf => ⟨hn, hwf, fun _ _ => rfl⟩
  | x :: xs, hL, acc, hn, hwf => by
    have hacc1n : (step5 N total acc x).n = total := by simp [step5, Inner.substitute, hn]
    have hacc1wf : (step5 N total acc x).WF := Inner.wf_ofFn _ _
    have ih := foldl_step5 N total xs (fun y hy => hL y (by simp [hy])) (step5 N total acc x) hacc1n hacc1wf
    refine ⟨ih.1, ih.2.1, ?_⟩
    intro q hq
    simp only [List.foldl]
    rw [ih.2.2 q hq]
    simp only [step5, Inner.substitute]
    rw [Inner.eval_ofFn _ _ _ (by simp [hn, hq]), Inner.eval_mkVar _ _ _ (by simp [hq])]
    rw [apply5_getD_ge N xs (fun y hy => hL y (by simp [hy])) q _ (by omega)]
    rfl

/-! ### phase 2: every proxy is replaced by its substitute, lifted to the wider variable set -/

/-- value of the lifted substitute of an entry: it reads only the first `N` coordinates -/
def entryVal (N : Nat) (x : Entry α) (q : List Bool) : Bool := x.1.2.inner.eval (Inner.truncTo N q)

def apply6 (N : Nat) : List (Entry α) → List Bool → List Bool
  | [], q => q
  | x :: xs, q => (apply6 N xs q).set (N + x.2) (entryVal N x q)

@[simp] theorem apply6_length (N : Nat) (L : List (Entry α)) (q : List Bool) : (apply6 N L q).length = q.length := by
  induction L with
  | nil => rfl
  | cons x xs ih => simp [apply6, ih]

theorem apply6_getD_lt (N : Nat) (L : List (Entry α)) (q : List Bool) (i : Nat) (hi : i < N) :
    (apply6 N L q).getD i false = q.getD i false := by
  induction L with
  | nil => rfl
  | cons x xs ih =>
    simp only [apply6]
    rw [Inner.getD_set]
    have : ¬ (N + x.2 = i ∧ i < (apply6 N xs q).length) := by omega
    rw [if_neg this]
    exact ih

theorem truncTo_apply6 (N : Nat) (L : List (Entry α)) (q : List Bool) :
    Inner.truncTo N (apply6 N L q) = Inner.truncTo N q := by
  apply Inner.ext_getD _ _ (by simp)
  intro i hi
  simp only [Inner.truncTo_length] at hi
  rw [Inner.truncTo_getD, Inner.truncTo_getD, if_pos hi, if_pos hi, apply6_getD_lt N L q i hi]

def step6 (N total : Nat) (acc : Outcome Inner) (x : Entry α) : Outcome Inner :=
  acc.bind fun a => (x.1.2.inner.setNumVars total).bind fun vb => .ok (a.substitute (N + x.2) vb)

theorem foldl_step6 (N total : Nat) (hNt : N ≤ total) :
    (L : List (Entry α)) → (hL : ∀ x ∈ L, x.1.2.inner.n = N ∧ x.1.2.inner.WF) → (acc : Inner) → acc.n = total → acc.WF →
    ∃ r, L.foldl (step6 N total) (.ok acc) = .ok r ∧ r.n = total ∧ r.WF ∧
      ∀ q, q.length = total → r.eval q = acc.eval (apply6 N L q)
  | [], _, acc, hn, hwf => ⟨acc, rfl, hn, hwf, fun _ _ => rfl⟩
  | x :: xs, hL, acc, hn, hwf => by
    have hx := hL x (by simp)
    have hsupp : ∀ i ∈ x.1.2.inner.supportSet, i < total := fun i hi => by
      have := Inner.supportSet_lt _ i hi; omega
    have hset := Inner.setNumVars_ok x.1.2.inner total hsupp
    obtain ⟨acc1, hacc1⟩ : ∃ acc1, acc1 = acc.substitute (N + x.2)
        (Inner.ofFn total fun q => x.1.2.inner.eval (Inner.truncTo x.1.2.inner.n q)) := ⟨_, rfl⟩
    have hstep : step6 N total (.ok acc) x = .ok acc1 := by
      simp only [step6, Outcome.bind, hset, hacc1]
    have hacc1n : acc1.n = total := by rw [hacc1]; simp [Inner.substitute, hn]
    have hacc1wf : acc1.WF := by rw [hacc1]; exact Inner.wf_ofFn _ _
    obtain ⟨r, hr, hrn, hrwf, hreval⟩ := foldl_step6 N total hNt xs (fun y hy => hL y (by simp [hy])) acc1 hacc1n hacc1wf
    refine ⟨r, by simp only [List.foldl, hstep, hr], hrn, hrwf, ?_⟩
    intro q hq
    rw [hreval q hq, hacc1]
    simp only [Inner.substitute]
    rw [Inner.eval_ofFn _ _ _ (by simp [hn, hq]), Inner.eval_ofFn _ _ _ (by simp [hq])]
    simp only [apply6, entryVal, hx.1, truncTo_apply6]

/-! ### reading the combined point -/

theorem apply5_getD_lt (N : Nat) (L : List (Entry α)) (p : List Bool) (i : Nat) (hi : i < p.length) :
    (apply5 N L p).getD i false =
      match L.find? (fun x => x.1.1 == i) with
      | some x => p.getD (N + x.2) false
      | none => p.getD i false := by
  induction L with
  | nil => rfl
  | cons x xs ih =>
    simp only [apply5, List.find?]
    rw [Inner.getD_set]
    by_cases hxi : x.1.1 = i
    · simp [hxi, hi]
    · have : (x.1.1 == i) = false := by simp [hxi]
      rw [this, if_neg (by intro h; exact hxi h.1)]
      exact ih

theorem apply6_getD_proxy (N : Nat) (L : List (Entry α)) (q : List Bool) (j : Nat) (hj : N + j < q.length) :
    (apply6 N L q).getD (N + j) false =
      match L.find? (fun x => x.2 == j) with
      | some x => entryVal N x q
      | none => q.getD (N + j) false := by
  induction L with
  | nil => rfl
  | cons x xs ih =>
    simp only [apply6, List.find?]
    rw [Inner.getD_set]
    by_cases hxj : x.2 = j
    · simp [hxj, hj]
    · have : (x.2 == j) = false := by simp [hxj]
      have h2 : ¬ (N + x.2 = N + j ∧ N + j < (apply6 N xs q).length) := by omega
      rw [this, if_neg h2]
      exact ih

end Bdd
end BoolFn

namespace BoolFn
namespace Bdd
variable {α : Type} [DecidableEq α]
set_option linter.unusedSectionVars false

/-- finding an entry of an enumerated list by a property of its payload also finds it by its index -/
theorem find_zipIdx (i : Nat) :
    (L : List (Nat × Bdd α)) → (k : Nat) →
    match (L.zipIdx k).find? (fun x => x.1.1 == i) with
    | none => L.find? (fun e => e.1 == i) = none
    | some x => L.find? (fun e => e.1 == i) = some x.1 ∧ k ≤ x.2 ∧
        (L.zipIdx k).find? (fun z => z.2 == x.2) = some x
  | [], _ => by simp
  | e :: es, k => by
    simp only [List.zipIdx_cons, List.find?]
    by_cases he : e.1 = i
    · simp [he]
    · have hb : (e.1 == i) = false := by simp [he]
      simp only [hb]
      have ih := find_zipIdx i es (k + 1)
      cases hf : (es.zipIdx (k + 1)).find? (fun x => x.1.1 == i) with
      | none => rw [hf] at ih; simpa using ih
      | some x =>
        rw [hf] at ih
        simp only at ih ⊢
        refine ⟨ih.1, by omega, ?_⟩
        have : (k == x.2) = false := by simp; omega
        rw [this]
        exact ih.2.2

/-- **the combined read**: coordinate `i < N` after both loops is the value of the substitute of the
    first entry for position `i`, or the original coordinate when there is none -/
theorem combined_read (N : Nat) (L : List (Nat × Bdd α)) (q : List Bool) (hq : N + L.length ≤ q.length)
    (i : Nat) (hi : i < N) :
    (apply5 N (L.zipIdx 0) (apply6 N (L.zipIdx 0) q)).getD i false =
      match L.find? (fun e => e.1 == i) with
      | some e => e.2.inner.eval (Inner.truncTo N q)
      | none => q.getD i false := by
  rw [apply5_getD_lt N _ _ i (by simp; omega)]
  have hz := find_zipIdx i L 0
  cases hf : (L.zipIdx 0).find? (fun x => x.1.1 == i) with
  | none =>
    rw [hf] at hz
    simp only at hz
    rw [hz]
    exact apply6_getD_lt N _ q i hi
  | some x =>
    rw [hf] at hz
    simp only at hz
    rw [hz.1]
    simp only
    have hxm := List.mem_of_find?_eq_some hf
    have hxl := List.mem_zipIdx hxm
    rw [apply6_getD_proxy N _ q x.2 (by simp at hxl; omega), hz.2.2]
    rfl

theorem mem_foldl_union (others : List (α × Bdd α)) (init : List α) (x : α) :
    x ∈ others.foldl (fun acc o => acc ++ o.2.inputs.filter fun y => !(acc.contains y)) init ↔
      x ∈ init ∨ ∃ o ∈ others, x ∈ o.2.inputs := by
  induction others generalizing init with
  | nil => simp
  | cons o os ih =>
    rw [List.foldl, ih]
    simp only [List.mem_append, List.mem_filter, List.mem_cons]
    constructor
    · rintro ((h | ⟨h, _⟩) | ⟨o', ho', hx⟩)
      · exact Or.inl h
      · exact Or.inr ⟨o, Or.inl rfl, h⟩
      · exact Or.inr ⟨o', Or.inr ho', hx⟩
    · rintro (h | ⟨o', rfl | ho', hx⟩)
      · exact Or.inl (Or.inl h)
      · by_cases hxi : x ∈ init
        · exact Or.inl (Or.inl hxi)
        · exact Or.inl (Or.inr ⟨hx, by simpa using hxi⟩)
      · exact Or.inr ⟨o', ho', hx⟩

section
variable [Ord α] [Std.TransOrd α] [Std.LawfulEqOrd α]

/-- pointwise relation between two lists -/
def Pointwise {β γ : Type} (R : β → γ → Prop) : List β → List γ → Prop
  | [], [] => True
  | a :: as, b :: bs => R a b ∧ Pointwise R as bs
  | _, _ => False

/-- relation between a substitution entry and its lifted form -/
def Lifted (common : List α) (kv kv' : α × Bdd α) : Prop :=
  kv'.1 = kv.1 ∧ kv'.2.WF ∧ kv'.2.inputs = common ∧ ∀ ρ, kv'.2.den ρ = kv.2.den ρ

/-- `union_and_extend_n_ary`: the function and every substitute lifted to the sorted union of all inputs -/
theorem unionAndExtendNAry_den (self : Bdd α) (m : List (α × Bdd α)) (hs : self.WF) (hm : ∀ kv ∈ m, kv.2.WF) :
    ∃ s' os' common, unionAndExtendNAry self m = .ok (s', os', common) ∧ StrictSorted common ∧
      (∀ x, x ∈ common ↔ x ∈ self.inputs ∨ ∃ kv ∈ m, x ∈ kv.2.inputs) ∧
      s'.WF ∧ s'.inputs = common ∧ (∀ ρ, s'.den ρ = self.den ρ) ∧
      Pointwise (Lifted common) m os' := by
  obtain ⟨common, hcdef⟩ : ∃ c, c = sortDedup (m.foldl
      (fun acc o => acc ++ o.2.inputs.filter fun x => !(acc.contains x)) self.inputs) := ⟨_, rfl⟩
  have hss : StrictSorted common := by rw [hcdef]; exact strictSorted_sortDedup _
  have hmem : ∀ x, x ∈ common ↔ x ∈ self.inputs ∨ ∃ kv ∈ m, x ∈ kv.2.inputs := by
    intro x; rw [hcdef, mem_sortDedup, mem_foldl_union]
  obtain ⟨s', hs', hswf, hsin, hsden⟩ := extend_den self common hs hss (fun x hx => (hmem x).mpr (Or.inl hx))
  -- the substitutes, one by one
  have hothers : ∀ (l : List (α × Bdd α)), (∀ kv ∈ l, kv ∈ m) →
      ∃ os', (l.foldr (fun o (acc : Outcome (List (α × Bdd α))) =>
          acc.bind fun r => (extend o.2 common).bind fun o' => Outcome.ok ((o.1, o') :: r)) (Outcome.ok [])) = .ok os' ∧
        Pointwise (Lifted common) l os' := by
    intro l
    induction l with
    | nil => intro _; exact ⟨[], rfl, by simp [Pointwise]⟩
    | cons o os ih =>
      intro hsub
      obtain ⟨os', hos', hrel⟩ := ih (fun kv hkv => hsub kv (by simp [hkv]))
      have hom := hsub o (by simp)
      obtain ⟨o', ho', howf, hoin, hoden⟩ := extend_den o.2 common (hm o hom) hss
        (fun x hx => (hmem x).mpr (Or.inr ⟨o, hom, hx⟩))
      refine ⟨(o.1, o') :: os', ?_, ?_⟩
      · simp only [List.foldr]
        rw [hos']
        simp only [Outcome.bind, ho']
      · simp only [Pointwise]
        exact ⟨⟨rfl, howf, hoin, hoden⟩, hrel⟩
  obtain ⟨os', hos', hrel⟩ := hothers m (fun kv hkv => hkv)
  refine ⟨s', os', common, ?_, hss, hmem, hswf, hsin, hsden, hrel⟩
  simp only [unionAndExtendNAry, ← hcdef]
  rw [hs', hos']
  rfl

end
end Bdd
end BoolFn

namespace BoolFn
namespace Bdd
variable {α : Type} [DecidableEq α]
set_option linter.unusedSectionVars false

theorem truncTo_truncTo (N total : Nat) (h : N ≤ total) (x : List Bool) (hx : x.length = N) :
    Inner.truncTo N (Inner.truncTo total x) = x := by
  apply Inner.ext_getD _ _ (by simp [hx])
  intro i hi
  simp only [Inner.truncTo_length] at hi
  rw [Inner.truncTo_getD, if_pos hi, Inner.truncTo_getD, if_pos (by omega)]

theorem pointwise_mem_right {β γ : Type} {R : β → γ → Prop} :
    {as : List β} → {bs : List γ} → Pointwise R as bs → ∀ b ∈ bs, ∃ a, a ∈ as ∧ R a b
  | [], [], _, b, hb => by cases hb
  | [], _ :: _, h, _, _ => by simp [Pointwise] at h
  | _ :: _, [], h, _, _ => by simp [Pointwise] at h
  | a :: as, b' :: bs, h, b, hb => by
    simp only [Pointwise] at h
    rcases List.mem_cons.mp hb with rfl | hb
    · exact ⟨a, by simp, h.1⟩
    · obtain ⟨a', ha', hr⟩ := pointwise_mem_right h.2 b hb
      exact ⟨a', by simp [ha'], hr⟩

/-- finding the first entry for a position is finding the first lifted substitute for that name -/
theorem find_filterMap_pos (common : List α) (hnd : common.Nodup) (i : Nat) (hi : i < common.length)
    (os' : List (α × Bdd α)) :
    (os'.filterMap fun kv => (indexOf? kv.1 common).map fun j => (j, kv.2)).find? (fun e => e.1 == i) =
      (os'.find? fun kv => kv.1 == common[i]).map fun kv => (i, kv.2) := by
  induction os' with
  | nil => rfl
  | cons kv rest ih =>
    simp only [List.filterMap_cons, List.find?]
    by_cases hk : kv.1 = common[i]
    · have hidx : indexOf? kv.1 common = some i := by rw [hk]; exact indexOf?_getElem common hnd i hi
      rw [hidx]; simp [hk]
    · have hb : (kv.1 == common[i]) = false := by simp [hk]
      rw [hb]
      cases hidx : indexOf? kv.1 common with
      | none => simpa using ih
      | some j =>
        have hj := index_facts common kv.1 j hidx
        obtain ⟨hjl, hje⟩ := hj
        have hne : j ≠ i := by
          intro e; subst e; exact hk hje.symm
        simp only [Option.map_some, List.find?]
        have : (j == i) = false := by simp [hne]
        rw [this]
        exact ih


section
variable [Ord α] [Std.TransOrd α] [Std.LawfulEqOrd α]

theorem pointwise_lookup (common : List α) (y : α) :
    {m os' : List (α × Bdd α)} → Pointwise (Lifted common) m os' →
    match lookup m y, os'.find? (fun kv => kv.1 == y) with
    | some g, some kv' => (∀ ρ, kv'.2.den ρ = g.den ρ)
    | none, none => True
    | _, _ => False
  | [], [], _ => by simp [lookup]
  | [], _ :: _, h => by simp [Pointwise] at h
  | _ :: _, [], h => by simp [Pointwise] at h
  | kv :: m, kv' :: os', h => by
    simp only [Pointwise] at h
    obtain ⟨⟨hk, _, _, hden⟩, hrest⟩ := h
    obtain ⟨k, g⟩ := kv
    simp only at hk hden
    rw [lookup_cons]
    simp only [List.find?, hk]
    by_cases hky : k = y
    · simp [hky]; exact hden
    · have : (k == y) = false := by simp [hky]
      simp only [hky, if_false, this]
      exact pointwise_lookup common y hrest

theorem lookup_mem {β : Type} (m : List (α × β)) (x : α) (g : β) (h : lookup m x = some g) : (x, g) ∈ m := by
  induction m with
  | nil => simp [lookup] at h
  | cons kv rest ih =>
    obtain ⟨k, v⟩ := kv
    rw [lookup_cons] at h
    by_cases hk : k = x
    · simp only [hk, if_true, Option.some.injEq] at h
      simp [hk, h]
    · simp only [hk, if_false] at h
      exact List.mem_cons_of_mem _ (ih h)

/-- **substitution on diagrams is simultaneous composition** (repaired, proxy variables): without a
    self-referencing replacement the call does not panic, the result is well-formed, a substituted
    variable stays an input only if some replacement mentions it, and the value is the original's at the
    assignment in which every key reads its replacement at the same `ρ` -/
theorem substitute_den (m : List (α × Bdd α)) (hkeys : (m.map (·.1)).Nodup) (hm : ∀ kv ∈ m, kv.2.WF)
    (self : Bdd α) (hs : self.WF) (hno : ∀ kv ∈ m, kv.1 ∉ kv.2.inputs) :
    ∃ b', substitute m self = .ok b' ∧ b'.WF ∧
      (∀ x, x ∈ b'.inputs ↔ (x ∈ self.inputs ∨ ∃ kv ∈ m, x ∈ kv.2.inputs) ∧
        ((lookup m x).isNone = true ∨ ∃ kv ∈ m, x ∈ kv.2.inputs)) ∧
      ∀ ρ, b'.den ρ = self.den (fun x => match lookup m x with | some g => g.den ρ | none => ρ x) := by
  have hany : (m.any fun kv => kv.2.inputs.contains kv.1) = false := by
    rw [List.any_eq_false]; intro kv hkv; simpa using hno kv hkv
  obtain ⟨s', os', common, hu, hss, hmem, hswf, hsin, hsden, hrel⟩ := unionAndExtendNAry_den self m hs hm
  have hnd := hss.nodup
  -- the entries and the sizes
  obtain ⟨L, hL⟩ : ∃ L, L = os'.filterMap fun kv => (s'.outerToInner kv.1).map fun i => (i, kv.2) := ⟨_, rfl⟩
  obtain ⟨N, hN⟩ : ∃ N, N = common.length := ⟨_, rfl⟩
  obtain ⟨total, htot⟩ : ∃ t, t = N + L.length := ⟨_, rfl⟩
  have hsn : s'.inner.n = N := by rw [hswf.2.1, hsin, hN]
  have hLfacts : ∀ e ∈ L, e.1 < N ∧ e.2.inner.n = N ∧ e.2.inner.WF ∧ e.2.inputs = common := by
    intro e he
    rw [hL] at he
    obtain ⟨kv', hkv', hmap⟩ := List.mem_filterMap.mp he
    obtain ⟨kv, _, hlift⟩ := pointwise_mem_right hrel kv' hkv'
    cases hidx : s'.outerToInner kv'.1 with
    | none => rw [hidx] at hmap; cases hmap
    | some i =>
      rw [hidx] at hmap
      simp only [Option.map_some, Option.some.injEq] at hmap
      subst hmap
      have := index_facts s'.inputs kv'.1 i hidx
      obtain ⟨hil, _⟩ := this
      exact ⟨by rw [hN, ← hsin]; exact hil, by rw [hlift.2.1.2.1, hlift.2.2.1, hN], hlift.2.1.2.2, hlift.2.2.1⟩
  have hLz5 : ∀ x ∈ L.zipIdx 0, x.1.1 < N := by
    intro x hx
    have := List.mem_zipIdx hx
    rw [this.2.2]; exact (hLfacts _ (List.getElem_mem _)).1
  have hLz6 : ∀ x ∈ L.zipIdx 0, x.1.2.inner.n = N ∧ x.1.2.inner.WF := by
    intro x hx
    have := List.mem_zipIdx hx
    rw [this.2.2]; exact ⟨(hLfacts _ (List.getElem_mem _)).2.1, (hLfacts _ (List.getElem_mem _)).2.2.1⟩
  -- r0
  have hsupp0 : ∀ i ∈ s'.inner.supportSet, i < total := fun i hi => by
    have := Inner.supportSet_lt _ i hi; omega
  have hr0 := Inner.setNumVars_ok s'.inner total hsupp0
  obtain ⟨r0, hr0def⟩ : ∃ r0, r0 = Inner.ofFn total fun q => s'.inner.eval (Inner.truncTo s'.inner.n q) := ⟨_, rfl⟩
  have hr0n : r0.n = total := by rw [hr0def]; rfl
  have hr0wf : r0.WF := by rw [hr0def]; exact Inner.wf_ofFn _ _
  -- r1, r2
  have h5 := foldl_step5 N total (L.zipIdx 0) hLz5 r0 hr0n hr0wf
  obtain ⟨r2, hr2, hr2n, hr2wf, hr2eval⟩ := foldl_step6 N total (by omega) (L.zipIdx 0) hLz6
    ((L.zipIdx 0).foldl (step5 N total) r0) h5.1 h5.2.1
  -- what r2 computes
  have hr2val : ∀ q, q.length = total → r2.eval q =
      s'.inner.eval (Inner.truncTo N (apply5 N (L.zipIdx 0) (apply6 N (L.zipIdx 0) q))) := by
    intro q hq
    rw [hr2eval q hq, h5.2.2 _ (by simp [hq]), hr0def, Inner.eval_ofFn _ _ _ (by simp [hq]), hsn]
  have hread : ∀ q, q.length = total → ∀ i, i < N →
      (Inner.truncTo N (apply5 N (L.zipIdx 0) (apply6 N (L.zipIdx 0) q))).getD i false =
        match L.find? (fun e => e.1 == i) with
        | some e => e.2.inner.eval (Inner.truncTo N q)
        | none => q.getD i false := by
    intro q hq i hi
    rw [Inner.truncTo_getD, if_pos hi]
    exact combined_read N L q (by omega) i hi
  -- r2 depends only on the first N coordinates
  have hsupp2 : ∀ j ∈ r2.supportSet, j < N := by
    intro j hj
    apply Classical.byContradiction
    intro hnot
    have hdep := ((Inner.mem_supportSet r2 j).mp hj).2
    have hnd' : ¬ (r2.dependsOn j = false) := by simp [hdep]
    apply hnd'
    rw [Inner.not_dependsOn_iff]
    intro p hp
    rw [hr2n] at hp
    rw [hr2val _ (by simp [hp]), hr2val _ (by simp [hp])]
    congr 1
    apply Inner.ext_getD _ _ (by simp)
    intro i hi
    simp only [Inner.truncTo_length] at hi
    rw [hread _ (by simp [hp]) i hi, hread _ (by simp [hp]) i hi,
      Inner.truncTo_set_ge _ _ _ _ (Nat.le_of_not_lt hnot), Inner.truncTo_set_ge _ _ _ _ (Nat.le_of_not_lt hnot),
      Inner.getD_set, Inner.getD_set]
    have h1 : ¬ (j = i ∧ i < p.length) := by omega
    simp [h1]
  have hr3 := Inner.setNumVars_ok r2 N hsupp2
  obtain ⟨r3, hr3def⟩ : ∃ r3, r3 = Inner.ofFn N fun q => r2.eval (Inner.truncTo r2.n q) := ⟨_, rfl⟩
  have hr3wf : r3.WF := by rw [hr3def]; exact Inner.wf_ofFn _ _
  -- the value of r3 at the point of an assignment
  have hval : ∀ ρ : α → Bool, r3.eval (common.map ρ) =
      self.den (fun x => match lookup m x with | some g => g.den ρ | none => ρ x) := by
    intro ρ
    rw [hr3def, Inner.eval_ofFn _ _ _ (by simp [hN]), hr2n, hr2val _ (by simp)]
    rw [← hsden]
    simp only [den, hsin]
    congr 1
    apply Inner.ext_getD _ _ (by simp [hN])
    intro i hi
    simp only [Inner.truncTo_length] at hi
    have hic : i < common.length := by omega
    rw [hread _ (by simp) i hi, truncTo_truncTo N total (by omega) _ (by simp [hN])]
    have hfl := find_filterMap_pos common hnd i hic os'
    have hL' : L = os'.filterMap fun kv => (indexOf? kv.1 common).map fun j => (j, kv.2) := by
      rw [hL]; simp only [outerToInner, hsin]
    rw [hL', hfl]
    have hpl := pointwise_lookup common common[i] hrel
    simp only [List.getD_eq_getElem?_getD, List.getElem?_map, List.getElem?_eq_getElem hic, Option.map_some,
      Option.getD_some]
    cases hlk : lookup m common[i] with
    | none =>
      rw [hlk] at hpl
      cases hf : os'.find? (fun kv => kv.1 == common[i]) with
      | none =>
        rw [← List.getD_eq_getElem?_getD, Inner.truncTo_getD, if_pos (by omega)]
        simp [List.getD_eq_getElem?_getD, List.getElem?_eq_getElem hic]
      | some kv' => rw [hf] at hpl; exact absurd hpl (by simp)
    | some g =>
      rw [hlk] at hpl
      cases hf : os'.find? (fun kv => kv.1 == common[i]) with
      | none => rw [hf] at hpl; exact absurd hpl (by simp)
      | some kv' =>
        rw [hf] at hpl
        simp only [Option.map_some]
        have hkvm := List.mem_of_find?_eq_some hf
        obtain ⟨kv, _, hlift⟩ := pointwise_mem_right hrel kv' hkvm
        have := hpl ρ
        simp only [den, hlift.2.2.1] at this
        exact this
  -- prune away the substituted variables no replacement mentions
  obtain ⟨retained, hret⟩ : ∃ r, r = common.filter fun x =>
      (lookup m x).isNone || m.any fun kv => kv.2.inputs.contains x := ⟨_, rfl⟩
  have hb3wf : (⟨s'.inputs, r3⟩ : Bdd α).WF := by
    refine ⟨by rw [hsin]; exact hss, ?_, hr3wf⟩
    rw [hr3def, hsin, hN]; rfl
  have hb3den : ∀ ρ, (⟨s'.inputs, r3⟩ : Bdd α).den ρ =
      self.den (fun x => match lookup m x with | some g => g.den ρ | none => ρ x) := by
    intro ρ; simp only [den, hsin]; exact hval ρ
  have hretmem : ∀ x, x ∈ retained ↔ x ∈ common ∧
      ((lookup m x).isNone = true ∨ ∃ kv ∈ m, x ∈ kv.2.inputs) := by
    intro x; rw [hret]; simp [List.mem_filter]
  have hp := prune_den (⟨s'.inputs, r3⟩ : Bdd α) retained hb3wf
    (by rw [hret]; exact hss.filter _)
    (by intro x hx; rw [hsin]; exact ((hretmem x).mp hx).1)
    (by
      intro i hi hil
      simp only [hsin] at hil ⊢
      apply Classical.byContradiction
      intro hnot
      rw [hretmem] at hnot
      have hyc : common[i] ∈ common := List.getElem_mem _
      have hn1 : ¬ ((lookup m common[i]).isNone = true) := fun h => hnot ⟨hyc, Or.inl h⟩
      have hn2 : ∀ kv ∈ m, common[i] ∉ kv.2.inputs := fun kv hkv hin => hnot ⟨hyc, Or.inr ⟨kv, hkv, hin⟩⟩
      have hdep := ((Inner.mem_supportSet r3 i).mp hi).2
      have hnd' : ¬ (r3.dependsOn i = false) := by simp [hdep]
      apply hnd'
      rw [Inner.not_dependsOn_iff]
      intro p hpn
      have hpl : p.length = common.length := by rw [hpn, hr3def, hN]; rfl
      obtain ⟨ρ, hρ⟩ := point_of_assignment common hnd p hpl
      rw [← hρ, ← map_upd_set common hnd ρ i hil, ← map_upd_set common hnd ρ i hil, hval, hval]
      apply den_congr
      intro z _
      cases hlk : lookup m z with
      | none =>
        have hne : common[i] ≠ z := by
          intro e; rw [e, hlk] at hn1; exact hn1 rfl
        simp [upd, hne]
      | some g =>
        have hgm := lookup_mem m z g hlk
        have hni := hn2 _ hgm
        simp only
        rw [den_congr g (upd ρ common[i] false) (upd ρ common[i] true)]
        intro w hw
        have hne : common[i] ≠ w := fun e => hni (e ▸ hw)
        simp [upd, hne])
  obtain ⟨b', hb', hb'wf, hb'in, hb'den⟩ := hp
  refine ⟨b', ?_, hb'wf, ?_, ?_⟩
  · have hform : substitute m self =
        ((s'.inner.setNumVars total).bind fun r0 =>
          (((L.zipIdx 0).foldl (step6 N total) (.ok ((L.zipIdx 0).foldl (step5 N total) r0))).bind fun r2 =>
            (r2.setNumVars N).bind fun r3 => prune ⟨s'.inputs, r3⟩ retained)) := by
      unfold substitute
      rw [if_neg (by rw [hany]; exact Bool.false_ne_true), hu]
      subst hL hN htot hret
      rfl
    rw [hform, hr0]
    show (((L.zipIdx 0).foldl (step6 N total) (.ok ((L.zipIdx 0).foldl (step5 N total)
      (Inner.ofFn total fun q => s'.inner.eval (Inner.truncTo s'.inner.n q))))).bind fun r2 =>
        (r2.setNumVars N).bind fun r3 => prune ⟨s'.inputs, r3⟩ retained) = _
    rw [← hr0def, hr2]
    show ((r2.setNumVars N).bind fun r3 => prune ⟨s'.inputs, r3⟩ retained) = _
    rw [hr3]
    show prune ⟨s'.inputs, Inner.ofFn N fun q => r2.eval (Inner.truncTo r2.n q)⟩ retained = _
    rw [← hr3def]
    exact hb'
  · intro x; rw [hb'in, hretmem, hmem]
  · intro ρ; rw [hb'den, hb3den]
end
end Bdd
end BoolFn
