import BoolFn.Codec
/-! Lemmas about the row-index ↔ point codec. -/
namespace BoolFn

/-- clean specification: little-endian value -/
def valLsb : List Bool → Nat
  | [] => 0
  | b :: bs => (if b then 1 else 0) + 2 * valLsb bs

theorem digitsLsb_val (fuel i : Nat) (h : i ≤ fuel) : valLsb (digitsLsb fuel i) = i := by
  induction fuel generalizing i with
  | zero => simp [digitsLsb, valLsb]; omega
  | succ f ih =>
    unfold digitsLsb
    split
    · simp [valLsb]; omega
    · rename_i hi
      have : i / 2 ≤ f := by omega
      simp only [valLsb, ih _ this]
      rcases Nat.mod_two_eq_zero_or_one i with h0 | h1
      · simp [h0]; omega
      · simp [h1]; omega

theorem valLsb_append (a b : List Bool) : valLsb (a ++ b) = valLsb a + 2 ^ a.length * valLsb b := by
  induction a with
  | nil => simp [valLsb]
  | cons x xs ih => simp only [List.cons_append, valLsb, ih, List.length_cons, Nat.pow_succ]; grind

theorem valLsb_replicate_false (k : Nat) : valLsb (List.replicate k false) = 0 := by
  induction k with
  | zero => rfl
  | succ k ih => simp [List.replicate, valLsb, ih]

theorem valLsb_lt (p : List Bool) : valLsb p < 2 ^ p.length := by
  induction p with
  | nil => simp [valLsb]
  | cons b bs ih => simp only [valLsb, List.length_cons, Nat.pow_succ]; split <;> omega

theorem sum_zipIdx_eq_valLsb (q : List Bool) (k : Nat) :
    ((q.zipIdx k).map (fun x => if x.1 then 2 ^ x.2 else 0)).sum = 2 ^ k * valLsb q := by
  induction q generalizing k with
  | nil => simp [valLsb]
  | cons b bs ih =>
    simp only [List.zipIdx_cons, List.map_cons, List.sum_cons, ih, valLsb, Nat.pow_succ]
    split <;> grind

theorem pointToRowIndex_eq (p : List Bool) : pointToRowIndex p = valLsb p.reverse := by
  simp [pointToRowIndex, sum_zipIdx_eq_valLsb]

theorem valLsb_reverse_eq_valMsb (p : List Bool) : valLsb p.reverse = valMsb p := by
  induction p with
  | nil => rfl
  | cons b bs ih =>
    simp only [List.reverse_cons, valLsb_append, ih, valMsb, List.length_reverse, valLsb]
    split <;> simp <;> omega

/-- the faithful sum-of-powers row index is the most-significant-first value -/
theorem pointToRowIndex_eq_valMsb (p : List Bool) : pointToRowIndex p = valMsb p := by
  rw [pointToRowIndex_eq, valLsb_reverse_eq_valMsb]

theorem valMsb_lt (p : List Bool) : valMsb p < 2 ^ p.length := by
  rw [← valLsb_reverse_eq_valMsb]; simpa using valLsb_lt p.reverse

theorem pointToRowIndex_lt (p : List Bool) : pointToRowIndex p < 2 ^ p.length := by
  rw [pointToRowIndex_eq_valMsb]; exact valMsb_lt p

/-- round trip index → point → index (any width) -/
theorem pointToRowIndex_rowIndexToPoint (i n : Nat) :
    pointToRowIndex (rowIndexToPoint i n) = i := by
  simp [pointToRowIndex_eq, rowIndexToPoint, valLsb_append, valLsb_replicate_false,
    digitsLsb_val i i (Nat.le_refl i)]

theorem valMsb_rowIndexToPoint (i n : Nat) : valMsb (rowIndexToPoint i n) = i := by
  rw [← pointToRowIndex_eq_valMsb]; exact pointToRowIndex_rowIndexToPoint i n

theorem digitsLsb_length_le (fuel i n : Nat) (h : i < 2 ^ n) : (digitsLsb fuel i).length ≤ n := by
  induction fuel generalizing i n with
  | zero => simp [digitsLsb]
  | succ f ih =>
    unfold digitsLsb
    split
    · simp
    · rename_i hi
      cases n with
      | zero => simp at h; omega
      | succ m =>
        have : i / 2 < 2 ^ m := by rw [Nat.pow_succ] at h; omega
        simp only [List.length_cons]; have := ih (i / 2) m this; omega

theorem rowIndexToPoint_length (i n : Nat) (h : i < 2 ^ n) : (rowIndexToPoint i n).length = n := by
  have := digitsLsb_length_le i i n h
  simp [rowIndexToPoint]; omega

theorem valLsb_inj : (a b : List Bool) → a.length = b.length → valLsb a = valLsb b → a = b
  | [], [], _, _ => rfl
  | [], _ :: _, h, _ => by simp at h
  | _ :: _, [], h, _ => by simp at h
  | x :: xs, y :: ys, hl, hv => by
    simp only [valLsb] at hv
    simp only [List.length_cons, Nat.add_right_cancel_iff] at hl
    have hxy : x = y := by cases x <;> cases y <;> simp_all <;> omega
    subst hxy
    have : valLsb xs = valLsb ys := by omega
    rw [valLsb_inj xs ys hl this]

theorem valMsb_inj (a b : List Bool) (hl : a.length = b.length) (hv : valMsb a = valMsb b) : a = b := by
  rw [← valLsb_reverse_eq_valMsb, ← valLsb_reverse_eq_valMsb] at hv
  have := valLsb_inj a.reverse b.reverse (by simp [hl]) hv
  simpa using congrArg List.reverse this

theorem pointToRowIndex_inj (a b : List Bool) (hl : a.length = b.length)
    (hv : pointToRowIndex a = pointToRowIndex b) : a = b := by
  rw [pointToRowIndex_eq_valMsb, pointToRowIndex_eq_valMsb] at hv
  exact valMsb_inj a b hl hv

/-- round trip point → index → point -/
theorem rowIndexToPoint_pointToRowIndex (p : List Bool) :
    rowIndexToPoint (pointToRowIndex p) p.length = p :=
  pointToRowIndex_inj _ _ (rowIndexToPoint_length _ _ (pointToRowIndex_lt p))
    (pointToRowIndex_rowIndexToPoint _ _)

theorem rowIndexToPoint_valMsb (p : List Bool) : rowIndexToPoint (valMsb p) p.length = p := by
  rw [← pointToRowIndex_eq_valMsb]; exact rowIndexToPoint_pointToRowIndex p

/-! ### `allPoints` (the domain iterator) -/

theorem allPoints_length (n : Nat) : (allPoints n).length = 2 ^ n := by simp [allPoints]

theorem allPoints_getElem (n i : Nat) (h : i < (allPoints n).length) :
    (allPoints n)[i] = rowIndexToPoint i n := by simp [allPoints]

theorem mem_allPoints {n : Nat} {p : List Bool} : p ∈ allPoints n ↔ p.length = n := by
  constructor
  · intro h
    simp only [allPoints, List.mem_map, List.mem_range] at h
    obtain ⟨i, hi, rfl⟩ := h
    exact rowIndexToPoint_length i n hi
  · intro h
    simp only [allPoints, List.mem_map, List.mem_range]
    exact ⟨valMsb p, by simpa [h] using valMsb_lt p, by rw [← h]; exact rowIndexToPoint_valMsb p⟩

/-- looking up the row of a point in a list built over all points -/
theorem getD_map_allPoints (n : Nat) (f : List Bool → Bool) (p : List Bool) (hp : p.length = n) :
    ((allPoints n).map f).getD (valMsb p) false = f p := by
  have hlt : valMsb p < 2 ^ n := by simpa [hp] using valMsb_lt p
  have : valMsb p < ((allPoints n).map f).length := by simpa [allPoints_length] using hlt
  rw [List.getD_eq_getElem?_getD, List.getElem?_eq_getElem this]
  simp only [List.getElem_map, allPoints_getElem, Option.getD_some]
  rw [← hp, rowIndexToPoint_valMsb]

end BoolFn
