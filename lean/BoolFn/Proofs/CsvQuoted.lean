import BoolFn.Csv
import BoolFn.Proofs.CsvText
/-! The quoted-dialect reader is a conservative extension of the simple-dialect reader: on text
    without a quote character `csvRecordsQ` yields exactly `csvRecords` (so everything proved about
    the simple dialect — `C17.roundtrip_text` in particular — holds for the reader the oracle uses on
    both dialects). -/
namespace BoolFn

def isNlC (c : Char) : Bool := c == '\n' || c == '\r'

theorem crToLf_nl (c : Char) (h : isNlC c = true) : crToLf c = '\n' := by
  unfold isNlC at h; unfold crToLf
  by_cases hr : c = '\r'
  · simp [hr]
  · have : c = '\n' := by simpa [hr] using h
    simp [this]

theorem crToLf_not_nl (c : Char) (h : isNlC c = false) : crToLf c = c ∧ (crToLf c == '\n') = false := by
  unfold isNlC at h; unfold crToLf
  have h1 : (c == '\n') = false := by
    cases hc : (c == '\n') <;> simp_all
  have h2 : (c == '\r') = false := by
    cases hc : (c == '\r') <;> simp_all
  simp [h1, h2]

/-- the fields of one line -/
def fieldsOf (l : List Char) : List String := (splitOnChar ',' l).map String.ofList

/-- the records of `pre ++ text` where `pre` is the (line-break free) beginning of the current line -/
def recsFrom (pre : List Char) (cs : List Char) : List (List String) :=
  ((match splitOnChar '\n' (cs.map crToLf) with
    | g :: gs => (pre ++ g) :: gs
    | [] => [pre]).filter fun (l : List Char) => !l.isEmpty).map fieldsOf

theorem splitOnChar_ne_nil (c : Char) : ∀ l : List Char, splitOnChar c l ≠ []
  | [] => by simp [splitOnChar]
  | x :: xs => by
    simp only [splitOnChar]
    split
    · simp
    · split <;> simp

theorem csvRecords_eq_recsFrom (cs : List Char) : csvRecords cs = recsFrom [] cs := by
  unfold csvRecords recsFrom fieldsOf
  cases h : splitOnChar '\n' (cs.map crToLf) with
  | nil => exact absurd h (splitOnChar_ne_nil _ _)
  | cons g gs => simp

theorem recsFrom_nil (pre : List Char) : recsFrom pre [] = if pre.isEmpty then [] else [fieldsOf pre] := by
  unfold recsFrom
  simp only [List.map_nil, splitOnChar, List.append_nil]
  cases pre <;> simp

theorem recsFrom_cons_nl (pre : List Char) (c : Char) (cs : List Char) (h : isNlC c = true) :
    recsFrom pre (c :: cs) = if pre.isEmpty then recsFrom [] cs else fieldsOf pre :: recsFrom [] cs := by
  unfold recsFrom
  simp only [List.map_cons, crToLf_nl c h, splitOnChar, beq_self_eq_true, if_true, List.append_nil]
  cases hL : splitOnChar '\n' (cs.map crToLf) with
  | nil => exact absurd hL (splitOnChar_ne_nil _ _)
  | cons g gs =>
    cases pre with
    | nil => simp
    | cons p ps => simp

theorem recsFrom_cons_other (pre : List Char) (c : Char) (cs : List Char) (h : isNlC c = false) :
    recsFrom pre (c :: cs) = recsFrom (pre ++ [c]) cs := by
  unfold recsFrom
  obtain ⟨h1, h2⟩ := crToLf_not_nl c h
  simp only [List.map_cons, h1, splitOnChar]
  rw [h1] at h2
  simp only [h2]
  cases hL : splitOnChar '\n' (cs.map crToLf) with
  | nil => exact absurd hL (splitOnChar_ne_nil _ _)
  | cons g gs => simp

/-- the beginning of the current line as the automaton holds it: finished fields (reversed list), each
    followed by a comma, then the field in progress (reversed) -/
def preOf (r : List String) (f : List Char) : List Char :=
  (r.reverse.flatMap fun s => s.toList ++ [',']) ++ f.reverse

theorem preOf_push (r : List String) (f : List Char) (c : Char) : preOf r (c :: f) = preOf r f ++ [c] := by
  simp [preOf]

theorem preOf_comma (r : List String) (f : List Char) :
    preOf (String.ofList f.reverse :: r) [] = preOf r f ++ [','] := by
  simp [preOf, List.flatMap_append]

theorem preOf_isEmpty (r : List String) (f : List Char) : (preOf r f).isEmpty = (r.isEmpty && f.isEmpty) := by
  cases r with
  | nil => cases f <;> simp [preOf]
  | cons s r => simp [preOf, List.flatMap_append]

/-- no comma inside the fields -/
def NoComma (r : List String) (f : List Char) : Prop := (∀ s ∈ r, ',' ∉ s.toList) ∧ ',' ∉ f

theorem splitOnChar_flat (r : List String) (hr : ∀ s ∈ r, ',' ∉ s.toList) (tail : List Char) (ht : ',' ∉ tail) :
    splitOnChar ',' ((r.flatMap fun s => s.toList ++ [',']) ++ tail) = r.map String.toList ++ [tail] := by
  induction r with
  | nil => simpa using splitOnChar_no_sep ',' tail ht
  | cons s r ih =>
    have hs := hr s (by simp)
    have := ih (fun t ht' => hr t (by simp [ht']))
    simp only [List.flatMap_cons, List.append_assoc, List.cons_append, List.nil_append, List.map_cons]
    rw [splitOnChar_append_sep ',' s.toList _ hs, this]

theorem fieldsOf_preOf (r : List String) (f : List Char) (h : NoComma r f) :
    fieldsOf (preOf r f) = (String.ofList f.reverse :: r).reverse := by
  unfold fieldsOf preOf
  rw [splitOnChar_flat r.reverse (fun s hs => h.1 s (List.mem_reverse.mp hs)) f.reverse
    (fun hm => h.2 (List.mem_reverse.mp hm))]
  simp [List.map_map, Function.comp]

/-- what the end of the text makes of the automaton's state -/
def finishQ (st : QState × List Char × List String × List (List String)) : Option (List (List String)) :=
  match st with
  | (q, f, r, rs) =>
    match q with
    | .quoted => none
    | .start => some (if r.isEmpty then rs.reverse else (("" :: r).reverse :: rs).reverse)
    | _ => some (((String.ofList f.reverse :: r).reverse :: rs).reverse)

theorem csvRecordsQ_eq (s : List Char) :
    csvRecordsQ s = (csvQRun s (.start, [], [], [])).bind finishQ := by
  unfold csvRecordsQ
  cases h : csvQRun s (.start, [], [], []) with
  | none => rfl
  | some st => obtain ⟨q, f, r, rs⟩ := st; cases q <;> rfl

/-- the simulation: on quote-free text the automaton, started in a state that stands for the line
    beginning `preOf r f`, yields the records collected so far followed by `recsFrom` -/
theorem run_simple : ∀ (cs : List Char) (q : QState) (f : List Char) (r : List String) (rs : List (List String)),
    (∀ c ∈ cs, c ≠ '"') → (q = .start ∨ q = .unquoted) → (q = .start ↔ f = []) → NoComma r f →
    (csvQRun cs (q, f, r, rs)).bind finishQ = some (rs.reverse ++ recsFrom (preOf r f) cs)
  | [], q, f, r, rs, _, hq, hqf, hnc => by
    simp only [csvQRun, Option.bind_some, recsFrom_nil, preOf_isEmpty]
    rcases hq with rfl | rfl
    · have hf : f = [] := hqf.mp rfl
      subst hf
      cases r with
      | nil => simp [finishQ]
      | cons s r =>
        simp only [finishQ, List.isEmpty_cons, Bool.false_and, Bool.false_eq_true, if_false]
        rw [fieldsOf_preOf _ _ hnc]
        simp
    · have hf : f ≠ [] := fun h => by have := hqf.mpr h; cases this
      have hfe : f.isEmpty = false := by cases f <;> simp_all
      simp only [finishQ, hfe, Bool.and_false, Bool.false_eq_true, if_false]
      rw [fieldsOf_preOf _ _ hnc]
      simp
  | c :: cs, q, f, r, rs, hquote, hq, hqf, hnc => by
    have hc : (c == '"') = false := by
      have := hquote c (by simp)
      simpa using this
    have hrest : ∀ d ∈ cs, d ≠ '"' := fun d hd => hquote d (by simp [hd])
    simp only [csvQRun]
    by_cases hnl : isNlC c = true
    · -- a line break ends the record
      have hnl' : (c == '\n' || c == '\r') = true := hnl
      have hcomma : (c == ',') = false := by
        unfold isNlC at hnl
        cases hcc : (c == ',')
        · rfl
        · have : c = ',' := by simpa using hcc
          subst this; simp at hnl
      rw [recsFrom_cons_nl _ _ _ hnl, preOf_isEmpty]
      rcases hq with rfl | rfl
      · have hf : f = [] := hqf.mp rfl
        subst hf
        simp only [csvQStep, hc, hcomma, hnl', Bool.false_eq_true, if_false, if_true]
        cases r with
        | nil =>
          simp only [List.isEmpty_nil, if_true, Bool.and_self]
          have := run_simple cs .start [] [] rs hrest (Or.inl rfl) (by simp) ⟨by simp, by simp⟩
          simpa [preOf] using this
        | cons s r =>
          simp only [List.isEmpty_cons, Bool.false_eq_true, if_false, Bool.false_and]
          have := run_simple cs .start [] [] (("" :: s :: r).reverse :: rs) hrest (Or.inl rfl) (by simp) ⟨by simp, by simp⟩
          rw [this, fieldsOf_preOf _ _ hnc]
          simp [preOf]
      · have hf : f ≠ [] := fun h => by have := hqf.mpr h; cases this
        have hfe : f.isEmpty = false := by cases f <;> simp_all
        simp only [csvQStep, hc, hcomma, hnl', Bool.false_eq_true, if_false, if_true, hfe, Bool.and_false]
        have := run_simple cs .start [] [] ((String.ofList f.reverse :: r).reverse :: rs) hrest (Or.inl rfl) (by simp) ⟨by simp, by simp⟩
        rw [this, fieldsOf_preOf _ _ hnc]
        simp [preOf]
    · have hnl0 : isNlC c = false := by cases h : isNlC c <;> simp_all
      have hnl' : (c == '\n' || c == '\r') = false := hnl0
      rw [recsFrom_cons_other _ _ _ hnl0]
      by_cases hcomma : c = ','
      · -- a delimiter ends the field
        subst hcomma
        have hstep : csvQStep (q, f, r, rs) ',' = some (.start, [], String.ofList f.reverse :: r, rs) := by
          rcases hq with rfl | rfl
          · have hf : f = [] := hqf.mp rfl
            subst hf
            simp [csvQStep]
          · simp [csvQStep]
        rw [hstep]
        have hnc' : NoComma (String.ofList f.reverse :: r) [] := by
          refine ⟨fun s hs => ?_, by simp⟩
          rcases List.mem_cons.mp hs with rfl | hs'
          · simpa using hnc.2
          · exact hnc.1 s hs'
        have := run_simple cs .start [] (String.ofList f.reverse :: r) rs hrest (Or.inl rfl) (by simp) hnc'
        rw [this, preOf_comma]
      · -- an ordinary character extends the field
        have hcm : (c == ',') = false := by simpa using hcomma
        have hstep : csvQStep (q, f, r, rs) c = some (.unquoted, c :: f, r, rs) := by
          rcases hq with rfl | rfl
          · have hf : f = [] := hqf.mp rfl
            subst hf
            simp [csvQStep, hc, hcm, hnl']
          · simp [csvQStep, hc, hcm, hnl']
        rw [hstep]
        have hnc' : NoComma r (c :: f) := ⟨hnc.1, by
          intro hm
          rcases List.mem_cons.mp hm with h | h
          · exact hcomma h.symm
          · exact hnc.2 h⟩
        have := run_simple cs .unquoted (c :: f) r rs hrest (Or.inr rfl) (by simp) hnc'
        rw [this, preOf_push]

/-- **on text without quotes the quoted-dialect reader is the simple-dialect reader** -/
theorem csvRecordsQ_simple (s : List Char) (h : simpleDialect s = true) : csvRecordsQ s = some (csvRecords s) := by
  have hq : ∀ c ∈ s, c ≠ '"' := by
    intro c hc
    have := (List.all_eq_true.mp h) c hc
    simpa using this
  rw [csvRecordsQ_eq, run_simple s .start [] [] [] hq (Or.inl rfl) (by simp) ⟨by simp, by simp⟩,
    csvRecords_eq_recsFrom]
  simp [preOf]

/-- hence the reader used on both dialects agrees with the simple reader wherever that one applies -/
theorem csvRecordsAny_simple (s : List Char) (h : simpleDialect s = true) : csvRecordsAny s = some (csvRecords s) := by
  simp [csvRecordsAny, h]

end BoolFn
