import BoolFn.Proofs.Table
import BoolFn.Proofs.Quant
/-! The bit scan of `TruthTable::essential_inputs` finds exactly the inputs whose flip changes the
    output somewhere. -/
namespace BoolFn

theorem valLsb_testBit (q : List Bool) (k : Nat) : (valLsb q).testBit k = q.getD k false := by
  induction q generalizing k with
  | nil => simp [valLsb]
  | cons b bs ih =>
    cases k with
    | zero =>
      simp only [valLsb, Nat.testBit_zero, List.getD_cons_zero]
      cases b <;> simp <;> omega
    | succ k =>
      rw [Nat.testBit_succ]
      have : ((if b then 1 else 0) + 2 * valLsb bs) / 2 = valLsb bs := by cases b <;> simp <;> omega
      simp only [valLsb, this, ih, List.getD_cons_succ]

/-- bit `k` of the row index of a point is the `k`-th coordinate from the right -/
theorem valMsb_testBit (p : List Bool) (k : Nat) : (valMsb p).testBit k = p.reverse.getD k false := by
  rw [← valLsb_reverse_eq_valMsb, valLsb_testBit]

theorem reverse_getD (p : List Bool) (k : Nat) (hk : k < p.length) :
    p.reverse.getD k false = p.getD (p.length - 1 - k) false := by
  simp [List.getD_eq_getElem?_getD, List.getElem?_reverse hk]

/-- `row & (1 << j) == 0` says bit `j` is clear -/
theorem and_shift_eq_zero_iff (r j : Nat) : ((r &&& (1 <<< j)) == 0) = !(r.testBit j) := by
  rw [Nat.one_shiftLeft]
  by_cases h : r.testBit j
  · have : r &&& 2 ^ j = 2 ^ j := by
      apply Nat.eq_of_testBit_eq
      intro i
      rw [Nat.testBit_and, Nat.testBit_two_pow]
      by_cases hji : j = i
      · subst hji; simp [h]
      · simp [hji]
    have hpos : 0 < 2 ^ j := Nat.pow_pos (by omega)
    simp only [this, h, Bool.not_true]
    simp only [beq_eq_false_iff_ne, ne_eq]; omega
  · have : r &&& 2 ^ j = 0 := by
      apply Nat.eq_of_testBit_eq
      intro i
      rw [Nat.testBit_and, Nat.testBit_two_pow]
      by_cases hji : j = i
      · subst hji; simp [h]
      · simp [hji]
    simp [this, h]

namespace Table
variable {α : Type} [DecidableEq α]
set_option linter.unusedSectionVars false

/-- the point with coordinate `i` set: its row index differs from the original's exactly in bit `n-1-i` -/
theorem valMsb_set_testBit (p : List Bool) (i : Nat) (hi : i < p.length) (v : Bool) (k : Nat) :
    (valMsb (p.set i v)).testBit k =
      if k = p.length - 1 - i then v else (valMsb p).testBit k := by
  rw [valMsb_testBit, valMsb_testBit]
  by_cases hk : k < p.length
  · rw [reverse_getD _ _ (by simpa using hk), reverse_getD _ _ hk]
    simp only [List.length_set]
    rw [Inner_getD_set]
    by_cases hki : k = p.length - 1 - i
    · have h1 : i = p.length - 1 - k := by omega
      rw [if_pos ⟨h1, by omega⟩, if_pos hki]
    · have h1 : ¬ (i = p.length - 1 - k ∧ p.length - 1 - k < p.length) := by omega
      rw [if_neg h1, if_neg hki]
  · have h1 : p.reverse.getD k false = false := by
      simp [List.getD_eq_getElem?_getD, List.getElem?_eq_none (by simpa using Nat.le_of_not_lt hk : p.reverse.length ≤ k)]
    have h2 : (p.set i v).reverse.getD k false = false := by
      simp [List.getD_eq_getElem?_getD, List.getElem?_eq_none (by simpa using Nat.le_of_not_lt hk : (p.set i v).reverse.length ≤ k)]
    have : k ≠ p.length - 1 - i := by omega
    rw [h1, h2, if_neg this]
where
  Inner_getD_set (p : List Bool) (i j : Nat) (v : Bool) :
      (p.set i v).getD j false = if i = j ∧ j < p.length then v else p.getD j false := by
    simp only [List.getD_eq_getElem?_getD, List.getElem?_set]
    by_cases h : i = j
    · subst h
      by_cases hl : i < p.length
      · simp [hl]
      · simp [hl]
    · simp [h]

/-- flipping bit `j` of a row whose bit `j` is clear gives the row of the point with that coordinate set -/
theorem xor_shift_eq (p : List Bool) (i : Nat) (hi : i < p.length) :
    valMsb (p.set i false) ^^^ (1 <<< (p.length - 1 - i)) = valMsb (p.set i true) := by
  apply Nat.eq_of_testBit_eq
  intro k
  rw [Nat.testBit_xor, Nat.one_shiftLeft, Nat.testBit_two_pow, valMsb_set_testBit p i hi, valMsb_set_testBit p i hi]
  by_cases hk : k = p.length - 1 - i
  · subst hk; simp
  · have : ¬ (p.length - 1 - i = k) := fun e => hk e.symm
    simp [hk, this]

variable [Ord α] [Std.TransOrd α] [Std.LawfulEqOrd α]

/-- the scan predicate of the code for the input at position `i` (bit `n-1-i`) -/
def scanDiffers (t : Table α) (j : Nat) : Bool :=
  (List.range t.rowCount).any fun r =>
    (r &&& (1 <<< j)) == 0 && (t.outputs.getD r false != t.outputs.getD (r ^^^ (1 <<< j)) false)

theorem scanDiffers_iff (t : Table α) (h : t.WF) (i : Nat) (hi : i < t.inputs.length) :
    scanDiffers t (t.inputs.length - 1 - i) = true ↔
      ∃ ρ : α → Bool, t.den (upd ρ t.inputs[i] false) ≠ t.den (upd ρ t.inputs[i] true) := by
  have hnd := h.1.nodup
  have hset : ∀ (ρ : α → Bool) (v : Bool), t.inputs.map (upd ρ t.inputs[i] v) = (t.inputs.map ρ).set i v := by
    intro ρ v
    apply List.ext_getElem (by simp)
    intro k h1 h2
    simp only [List.getElem_map, List.getElem_set, upd]
    by_cases hk : i = k
    · subst hk; simp
    · have : t.inputs[i] ≠ t.inputs[k]'(by simpa using h1) := fun heq => hk ((List.getElem_inj hnd).mp heq)
      simp [hk, this]
  simp only [scanDiffers, List.any_eq_true, List.mem_range, Bool.and_eq_true, rowCount]
  constructor
  · rintro ⟨r, hr, hclear, hne⟩
    rw [and_shift_eq_zero_iff] at hclear
    -- the point of row r
    obtain ⟨p, hp⟩ : ∃ p, p = rowIndexToPoint r t.inputs.length := ⟨_, rfl⟩
    have hpl : p.length = t.inputs.length := by rw [hp]; exact rowIndexToPoint_length r _ hr
    have hpv : valMsb p = r := by rw [hp]; exact valMsb_rowIndexToPoint r _
    have hpi : p.getD i false = false := by
      have hb : r.testBit (t.inputs.length - 1 - i) = false := by simpa using hclear
      rw [← hpv, valMsb_testBit, reverse_getD _ _ (by rw [hpl]; omega), hpl] at hb
      have : t.inputs.length - 1 - (t.inputs.length - 1 - i) = i := by omega
      rwa [this] at hb
    have hp0 : p.set i false = p := by
      apply List.ext_getElem (by simp)
      intro k h1 h2
      rw [List.getElem_set]
      split
      · rename_i hik; subst hik
        have := hpi
        rw [List.getD_eq_getElem?_getD, List.getElem?_eq_getElem h2] at this
        simpa using this.symm
      · rfl
    refine ⟨complete (t.inputs.zip p) false, ?_⟩
    have hmap : t.inputs.map (complete (t.inputs.zip p) false) = p := map_complete_zip t.inputs p hpl hnd false
    simp only [den]
    rw [hset, hset, hmap, hp0, hpv]
    have hx := xor_shift_eq p i (by rw [hpl]; exact hi)
    rw [hp0, hpv, hpl] at hx
    rw [← hx]
    simpa using hne
  · rintro ⟨ρ, hne⟩
    simp only [den] at hne
    rw [hset, hset] at hne
    obtain ⟨p, hp⟩ : ∃ p, p = t.inputs.map ρ := ⟨_, rfl⟩
    rw [← hp] at hne
    have hpl : p.length = t.inputs.length := by rw [hp]; simp
    refine ⟨valMsb (p.set i false), ?_, ?_, ?_⟩
    · have := valMsb_lt (p.set i false); simpa [hpl] using this
    · rw [and_shift_eq_zero_iff]
      have := valMsb_set_testBit p i (by rw [hpl]; exact hi) false (t.inputs.length - 1 - i)
      rw [hpl] at this
      simp [this]
    · have hx := xor_shift_eq p i (by rw [hpl]; exact hi)
      rw [hpl] at hx
      rw [hx]
      simpa using hne

/-- **essential inputs of a table** -/
theorem essentialInputs_iff (t : Table α) (h : t.WF) (u : α) :
    u ∈ t.essentialInputs ↔ ∃ ρ : α → Bool, t.den (upd ρ u false) ≠ t.den (upd ρ u true) := by
  have hg := gatherLiterals_of_WF t h
  simp only [essentialInputs, mem_sortDedup, hg, List.mem_map, List.mem_filter]
  constructor
  · rintro ⟨⟨x, j⟩, ⟨hm, hscan⟩, rfl⟩
    have hz := List.mem_zipIdx hm
    simp only [List.length_reverse, Nat.zero_add, Nat.zero_le, true_and] at hz
    have hj : j < t.inputs.length := hz.1
    have hx : x = t.inputs[t.inputs.length - 1 - j]'(by omega) := by
      have := hz.2
      simp only [Nat.sub_zero, List.getElem_reverse] at this
      exact this
    have := (scanDiffers_iff t h (t.inputs.length - 1 - j) (by omega)).mp (by
      have e : t.inputs.length - 1 - (t.inputs.length - 1 - j) = j := by omega
      rw [e]; exact hscan)
    simp only
    rw [hx]; exact this
  · rintro ⟨ρ, hne⟩
    -- u must be an input
    have hu : u ∈ t.inputs := by
      apply Classical.byContradiction
      intro hcon
      apply hne
      apply den_congr
      intro y hy
      have : u ≠ y := fun e => hcon (e ▸ hy)
      simp [upd, this]
    obtain ⟨i, hi, rfl⟩ := List.mem_iff_getElem.mp hu
    refine ⟨(t.inputs[i], t.inputs.length - 1 - i), ⟨?_, ?_⟩, rfl⟩
    · apply List.mem_zipIdx_iff_getElem?.mpr
      simp only [Nat.sub_zero]
      rw [List.getElem?_reverse (by omega)]
      have : t.inputs.length - 1 - (t.inputs.length - 1 - i) = i := by omega
      rw [this, List.getElem?_eq_getElem hi]
    · exact (scanDiffers_iff t h i hi).mpr ⟨ρ, hne⟩

end Table
end BoolFn
