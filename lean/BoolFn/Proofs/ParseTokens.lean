import BoolFn.Parser
/-! The precedence parser: its `unreachable!` arm is unreachable and its fuel suffices. -/
namespace BoolFn

theorem toksSize_append (a b : List Tok) : toksSize (a ++ b) = toksSize a + toksSize b := by
  induction a with
  | nil => simp [toksSize]
  | cons t ts ih => simp [toksSize, ih]; omega

theorem tokSize_pos (t : Tok) : 1 ≤ tokSize t := by
  cases t <;> simp [tokSize] <;> omega

/-- the groups of a split contain no separator, only tokens of the input, and are no larger -/
theorem mem_splitOnTok (sep : Tok → Bool) (ts : List Tok) :
    ∀ g ∈ splitOnTok sep ts, (∀ t ∈ g, sep t = false) ∧ (∀ t ∈ g, t ∈ ts) ∧ toksSize g ≤ toksSize ts := by
  induction ts with
  | nil => intro g hg; simp [splitOnTok] at hg; subst hg; simp
  | cons t ts ih =>
    intro g hg
    simp only [splitOnTok] at hg
    split at hg
    · rcases List.mem_cons.mp hg with rfl | hg
      · simp [toksSize]
      · have := ih g hg
        exact ⟨this.1, fun x hx => List.mem_cons_of_mem _ (this.2.1 x hx), by
          simp only [toksSize]; have := this.2.2; omega⟩
    · rename_i hsep
      cases hs : splitOnTok sep ts with
      | nil => 
        rw [hs] at hg
        simp only [List.mem_singleton] at hg
        subst hg
        exact ⟨by simpa using hsep, by simp, by simp [toksSize]⟩
      | cons g0 gs =>
        rw [hs] at hg
        simp only at hg
        rcases List.mem_cons.mp hg with rfl | hg
        · have := ih g0 (by rw [hs]; simp)
          refine ⟨?_, ?_, ?_⟩
          · intro x hx
            rcases List.mem_cons.mp hx with rfl | hx
            · simpa using hsep
            · exact this.1 x hx
          · intro x hx
            rcases List.mem_cons.mp hx with rfl | hx
            · simp
            · exact List.mem_cons_of_mem _ (this.2.1 x hx)
          · simp only [toksSize]; have := this.2.2; omega
        · have := ih g (by rw [hs]; simp [hg])
          exact ⟨this.1, fun x hx => List.mem_cons_of_mem _ (this.2.1 x hx), by
            simp only [toksSize]; have := this.2.2; omega⟩

theorem mapMExcept_ne {ε β γ : Type} (f : β → Except ε γ) (e0 : ε) (l : List β)
    (h : ∀ x ∈ l, f x ≠ .error e0) : mapMExcept f l ≠ .error e0 := by
  induction l with
  | nil => simp [mapMExcept]
  | cons a as ih =>
    simp only [mapMExcept]
    split
    · rename_i e he
      intro hc
      simp only [Except.error.injEq] at hc
      subst hc
      exact h a (by simp) he
    · split
      · rename_i e he
        intro hc
        simp only [Except.error.injEq] at hc
        subst hc
        exact ih (fun x hx => h x (by simp [hx])) he
      · simp

/-- no `unreachable!`: with `or` split off before `and`, a terminal group never holds an operator -/
theorem parse_no_unreachable (fuel : Nat) :
    (∀ ts, parseTokensF fuel ts ≠ .error .unreachable) ∧
    (∀ ts, (∀ t ∈ ts, Tok.isOr t = false) → parseAndF fuel ts ≠ .error .unreachable) ∧
    (∀ ts, (∀ t ∈ ts, Tok.isOr t = false) → (∀ t ∈ ts, Tok.isAnd t = false) →
        parseTermF fuel ts ≠ .error .unreachable) := by
  induction fuel with
  | zero => simp [parseTokensF, parseAndF, parseTermF]
  | succ fuel ih =>
    obtain ⟨ihA, ihB, ihC⟩ := ih
    refine ⟨?_, ?_, ?_⟩
    · intro ts
      simp only [parseTokensF]
      have := mapMExcept_ne (parseAndF fuel) .unreachable (splitOnTok Tok.isOr ts)
        (fun g hg => ihB g (mem_splitOnTok _ ts g hg).1)
      split
      · rename_i e he; intro hc; simp only [Except.error.injEq] at hc; subst hc; exact this he
      all_goals simp
    · intro ts hor
      simp only [parseAndF]
      have := mapMExcept_ne (parseTermF fuel) .unreachable (splitOnTok Tok.isAnd ts)
        (fun g hg => ihC g (fun t ht => hor t ((mem_splitOnTok _ ts g hg).2.1 t ht))
          (mem_splitOnTok _ ts g hg).1)
      split
      · rename_i e he; intro hc; simp only [Except.error.injEq] at hc; subst hc; exact this he
      all_goals simp
    · intro ts hor hand
      match ts with
      | [] => simp [parseTermF]
      | .not :: rest =>
        simp only [parseTermF]
        have := ihC rest (fun t ht => hor t (by simp [ht])) (fun t ht => hand t (by simp [ht]))
        split
        · simp
        · rename_i e he; intro hc; simp only [Except.error.injEq] at hc; subst hc; exact this he
      | [.tt] => simp [parseTermF]
      | [.ff] => simp [parseTermF]
      | [.lit _] => simp [parseTermF]
      | [.paren inner] => simpa [parseTermF] using ihA inner
      | [.and] => have := hand .and (by simp); simp [Tok.isAnd] at this
      | [.or] => have := hor .or (by simp); simp [Tok.isOr] at this
      | .and :: _ :: _ => simp [parseTermF]
      | .or :: _ :: _ => simp [parseTermF]
      | .tt :: _ :: _ => simp [parseTermF]
      | .ff :: _ :: _ => simp [parseTermF]
      | .lit _ :: _ :: _ => simp [parseTermF]
      | .paren _ :: _ :: _ => simp [parseTermF]

/-- the parser's fuel `3 * size + 3` is never exhausted -/
theorem parse_fuel (fuel : Nat) :
    (∀ ts, 3 * toksSize ts + 3 ≤ fuel → parseTokensF fuel ts ≠ .error .outOfFuel) ∧
    (∀ ts, 3 * toksSize ts + 2 ≤ fuel → parseAndF fuel ts ≠ .error .outOfFuel) ∧
    (∀ ts, 3 * toksSize ts + 1 ≤ fuel → parseTermF fuel ts ≠ .error .outOfFuel) := by
  induction fuel with
  | zero =>
    refine ⟨fun ts h => by omega, fun ts h => by omega, fun ts h => by omega⟩
  | succ fuel ih =>
    obtain ⟨ihA, ihB, ihC⟩ := ih
    refine ⟨?_, ?_, ?_⟩
    · intro ts hf
      simp only [parseTokensF]
      have := mapMExcept_ne (parseAndF fuel) .outOfFuel (splitOnTok Tok.isOr ts)
        (fun g hg => ihB g (by have := (mem_splitOnTok _ ts g hg).2.2; omega))
      split
      · rename_i e he; intro hc; simp only [Except.error.injEq] at hc; subst hc; exact this he
      all_goals simp
    · intro ts hf
      simp only [parseAndF]
      have := mapMExcept_ne (parseTermF fuel) .outOfFuel (splitOnTok Tok.isAnd ts)
        (fun g hg => ihC g (by have := (mem_splitOnTok _ ts g hg).2.2; omega))
      split
      · rename_i e he; intro hc; simp only [Except.error.injEq] at hc; subst hc; exact this he
      all_goals simp
    · intro ts hf
      match ts with
      | [] => simp [parseTermF]
      | .not :: rest =>
        simp only [parseTermF]
        have := ihC rest (by simp only [toksSize, tokSize] at hf; omega)
        split
        · simp
        · rename_i e he; intro hc; simp only [Except.error.injEq] at hc; subst hc; exact this he
      | [.tt] => simp [parseTermF]
      | [.ff] => simp [parseTermF]
      | [.lit _] => simp [parseTermF]
      | [.paren inner] =>
        simp only [parseTermF]
        exact ihA inner (by simp only [toksSize, tokSize] at hf; omega)
      | [.and] => simp [parseTermF]
      | [.or] => simp [parseTermF]
      | .and :: _ :: _ => simp [parseTermF]
      | .or :: _ :: _ => simp [parseTermF]
      | .tt :: _ :: _ => simp [parseTermF]
      | .ff :: _ :: _ => simp [parseTermF]
      | .lit _ :: _ :: _ => simp [parseTermF]
      | .paren _ :: _ :: _ => simp [parseTermF]

end BoolFn
