import BoolFn.Spec.Check
import BoolFn.Proofs.Expr
import BoolFn.Proofs.Table
import BoolFn.Proofs.BddOps
/-! The decidable specification predicates of `Spec/Check.lean` (the oracle applied to the
    implementation's answers) say what the properties say: each `…Ok` predicate is equivalent to the
    quantified statement over *all* assignments. This takes the brute-force enumeration out of the
    trusted base. -/
namespace BoolFn.Spec
open BoolFn

theorem mem_lexPoints : ∀ (n : Nat) (p : List Bool), p ∈ lexPoints n ↔ p.length = n
  | 0, p => by cases p <;> simp [lexPoints]
  | n + 1, p => by
    cases p with
    | nil => simp [lexPoints]
    | cons b bs =>
      simp only [lexPoints, List.mem_append, List.mem_map, List.length_cons, Nat.add_right_cancel_iff]
      constructor
      · rintro (⟨q, hq, he⟩ | ⟨q, hq, he⟩)
        · cases he; exact (mem_lexPoints n _).mp hq
        · cases he; exact (mem_lexPoints n _).mp hq
      · intro h
        cases b
        · exact Or.inl ⟨bs, (mem_lexPoints n bs).mpr h, rfl⟩
        · exact Or.inr ⟨bs, (mem_lexPoints n bs).mpr h, rfl⟩

/-- `f` reads only the names in `u` -/
def DependsOnly (u : List String) (f : (String → Bool) → Bool) : Prop :=
  ∀ ρ σ : String → Bool, (∀ x ∈ u, ρ x = σ x) → f ρ = f σ

theorem envOf_zip_map (u : List String) (ρ : String → Bool) : ∀ x ∈ u, envOf (u.zip (u.map ρ)) x = ρ x := by
  induction u with
  | nil => intro x hx; cases hx
  | cons a as ih =>
    intro x hx
    simp only [envOf, complete, List.map_cons, List.zip_cons_cons, PVal.get?_cons]
    by_cases hax : a = x
    · simp [hax]
    · simp only [hax, if_false]
      rcases List.mem_cons.mp hx with h | h
      · exact absurd h.symm hax
      · exact ih x h

/-- **the enumeration oracle decides the quantified statement** -/
theorem agreeOn_iff (u : List String) (f g : (String → Bool) → Bool) (hf : DependsOnly u f) (hg : DependsOnly u g) :
    agreeOn u f g = true ↔ ∀ ρ, f ρ = g ρ := by
  simp only [agreeOn, List.all_eq_true, beq_iff_eq]
  constructor
  · intro h ρ
    have hv : u.zip (u.map ρ) ∈ envs u := by
      simp only [envs, List.mem_map]
      exact ⟨u.map ρ, (mem_lexPoints _ _).mpr (by simp), rfl⟩
    have := h _ hv
    rw [hf _ ρ (envOf_zip_map u ρ), hg _ ρ (envOf_zip_map u ρ)] at this
    exact this
  · intro h v _; exact h _

theorem mem_union (a b : List String) (x : String) : x ∈ union a b ↔ x ∈ a ∨ x ∈ b := by
  simp only [union, List.mem_append, List.mem_filter, Bool.not_eq_true', List.contains_eq_mem,
    decide_eq_false_iff_not]
  constructor
  · rintro (h | ⟨h, _⟩); exact Or.inl h; exact Or.inr h
  · rintro (h | h)
    · exact Or.inl h
    · by_cases ha : x ∈ a
      · exact Or.inl ha
      · exact Or.inr ⟨h, ha⟩

theorem subset_iff (a b : List String) : subset a b = true ↔ ∀ x ∈ a, x ∈ b := by
  simp [subset, List.all_eq_true]

theorem sameSet_iff (a b : List String) : sameSet a b = true ↔ ∀ x, x ∈ a ↔ x ∈ b := by
  simp only [sameSet, Bool.and_eq_true, subset_iff]
  constructor
  · rintro ⟨h1, h2⟩ x; exact ⟨h1 x, h2 x⟩
  · intro h; exact ⟨fun x hx => (h x).mp hx, fun x hx => (h x).mpr hx⟩

/-- the value of a function object depends only on its inputs -/
theorem den_dependsOnly (x : Fn) (u : List String) (hu : ∀ n ∈ x.inputs, n ∈ u) : DependsOnly u (x.den) := by
  intro ρ σ h
  cases x with
  | E e =>
    apply Expr.den_congr
    intro n hn
    exact h n (hu n (by simp [Fn.inputs, List.mem_eraseDups, hn]))
  | T t => exact Table.den_congr ρ σ t (fun n hn => h n (hu n hn))
  | B b => exact Bdd.den_congr b ρ σ (fun n hn => h n (hu n hn))

/-- C01: the conversion oracle holds exactly when the result is well-formed, denotes the source's
    function at *every* assignment, and has the promised inputs -/
theorem convOk_iff (x y : Fn) :
    convOk x y = true ↔ y.wf = true ∧ (∀ ρ, x.den ρ = y.den ρ) ∧
      (match y with
       | .E _ => ∀ n ∈ y.inputs, n ∈ x.inputs
       | _ => ∀ n, n ∈ y.inputs ↔ n ∈ x.inputs) := by
  have hag := agreeOn_iff (union x.inputs y.inputs) x.den y.den
    (den_dependsOnly x _ (fun n hn => (mem_union _ _ n).mpr (Or.inl hn)))
    (den_dependsOnly y _ (fun n hn => (mem_union _ _ n).mpr (Or.inr hn)))
  simp only [convOk, Bool.and_eq_true, hag]
  cases y <;> simp [subset_iff, sameSet_iff, and_assoc]

/-- C03 -/
theorem connectiveOk_iff (op : Bool → Bool → Bool) (a b y : Fn) :
    connectiveOk op a b y = true ↔ y.wf = true ∧ (∀ ρ, y.den ρ = op (a.den ρ) (b.den ρ)) ∧
      (∀ n, n ∈ y.inputs ↔ n ∈ a.inputs ∨ n ∈ b.inputs) := by
  have hag := agreeOn_iff (union (union a.inputs b.inputs) y.inputs) (fun ρ => op (a.den ρ) (b.den ρ)) y.den
    (by
      intro ρ σ h
      have h1 := den_dependsOnly a _ (fun n hn => (mem_union _ _ n).mpr (Or.inl ((mem_union _ _ n).mpr (Or.inl hn)))) ρ σ h
      have h2 := den_dependsOnly b _ (fun n hn => (mem_union _ _ n).mpr (Or.inl ((mem_union _ _ n).mpr (Or.inr hn)))) ρ σ h
      simp only [h1, h2])
    (den_dependsOnly y _ (fun n hn => (mem_union _ _ n).mpr (Or.inr hn)))
  simp only [connectiveOk, Bool.and_eq_true, hag, sameSet_iff, mem_union]
  constructor
  · rintro ⟨⟨h1, h2⟩, h3⟩; exact ⟨h1, fun ρ => (h2 ρ).symm, h3⟩
  · rintro ⟨h1, h2, h3⟩; exact ⟨⟨h1, fun ρ => (h2 ρ).symm⟩, h3⟩

theorem notOk_iff (a y : Fn) :
    notOk a y = true ↔ y.wf = true ∧ (∀ ρ, y.den ρ = !(a.den ρ)) ∧ (∀ n, n ∈ y.inputs ↔ n ∈ a.inputs) := by
  have hag := agreeOn_iff (union a.inputs y.inputs) (fun ρ => !(a.den ρ)) y.den
    (by
      intro ρ σ h
      have h1 := den_dependsOnly a _ (fun n hn => (mem_union _ _ n).mpr (Or.inl hn)) ρ σ h
      simp only [h1])
    (den_dependsOnly y _ (fun n hn => (mem_union _ _ n).mpr (Or.inr hn)))
  simp only [notOk, Bool.and_eq_true, hag, sameSet_iff]
  constructor
  · rintro ⟨⟨h1, h2⟩, h3⟩; exact ⟨h1, fun ρ => (h2 ρ).symm, h3⟩
  · rintro ⟨h1, h2, h3⟩; exact ⟨⟨h1, fun ρ => (h2 ρ).symm⟩, h3⟩

/-- C04 -/
theorem equivOk_iff (a b : Fn) (ans : Bool) :
    equivOk a b ans = true ↔ (ans = true ↔ ∀ ρ, a.den ρ = b.den ρ) := by
  have hag := agreeOn_iff (union a.inputs b.inputs) a.den b.den
    (den_dependsOnly a _ (fun n hn => (mem_union _ _ n).mpr (Or.inl hn)))
    (den_dependsOnly b _ (fun n hn => (mem_union _ _ n).mpr (Or.inr hn)))
  simp only [equivOk, beq_iff_eq]
  rw [← hag]
  cases ans <;> cases agreeOn (union a.inputs b.inputs) a.den b.den <;> simp


/-- a Boolean-valued statement about assignments, checked over the enumeration, is the statement for all -/
theorem all_envs_iff (u : List String) (P : (String → Bool) → Bool) (hP : DependsOnly u P) :
    ((envs u).all fun v => P (envOf v)) = true ↔ ∀ ρ, P ρ = true := by
  have := agreeOn_iff u P (fun _ => true) hP (fun _ _ _ => rfl)
  simp only [agreeOn, List.all_eq_true, beq_iff_eq] at this ⊢
  exact this

theorem impliedOk_iff (self other : Fn) (ans : Bool) :
    impliedOk self other ans = true ↔ (ans = true ↔ ∀ ρ, other.den ρ = true → self.den ρ = true) := by
  have h := all_envs_iff (union self.inputs other.inputs) (fun ρ => !(other.den ρ) || self.den ρ) (by
    intro ρ σ h
    have h1 := den_dependsOnly self _ (fun n hn => (mem_union _ _ n).mpr (Or.inl hn)) ρ σ h
    have h2 := den_dependsOnly other _ (fun n hn => (mem_union _ _ n).mpr (Or.inr hn)) ρ σ h
    simp only [h1, h2])
  simp only [impliedOk, beq_iff_eq]
  have h' : (∀ ρ, (!(other.den ρ) || self.den ρ) = true) ↔ ∀ ρ, other.den ρ = true → self.den ρ = true := by
    constructor
    · intro hh ρ ho; have := hh ρ; rw [ho] at this; simpa using this
    · intro hh ρ; cases ho : other.den ρ
      · rfl
      · simp [hh ρ ho]
  rw [← h', ← h]
  cases ans <;> cases ((envs (union self.inputs other.inputs)).all fun v => !(other.den (envOf v)) || self.den (envOf v)) <;> simp

theorem mem_diff (a b : List String) (x : String) : x ∈ diff a b ↔ x ∈ a ∧ x ∉ b := by
  simp [diff, List.mem_filter]

theorem override_congr (ρ σ : String → Bool) (r : PVal String) (u : List String) (h : ∀ x ∈ u, ρ x = σ x) :
    ∀ x ∈ u, override ρ r x = override σ r x := by
  intro x hx
  simp only [override, h x hx]

/-- C05 -/
theorem restrictOk_iff (x : Fn) (r : PVal String) (y : Fn) :
    restrictOk x r y = true ↔ y.wf = true ∧ (∀ n, n ∈ y.inputs ↔ n ∈ x.inputs ∧ n ∉ r.keys) ∧
      ∀ ρ, y.den ρ = x.den (override ρ r) := by
  have hag := agreeOn_iff (union (union x.inputs r.keys) y.inputs) (fun ρ => x.den (override ρ r)) y.den
    (by
      intro ρ σ h
      apply den_dependsOnly x x.inputs (fun n hn => hn)
      intro n hn
      exact override_congr ρ σ r _ h n ((mem_union _ _ n).mpr (Or.inl ((mem_union _ _ n).mpr (Or.inl hn)))))
    (den_dependsOnly y _ (fun n hn => (mem_union _ _ n).mpr (Or.inr hn)))
  simp only [restrictOk, Bool.and_eq_true, hag, sameSet_iff, mem_diff]
  constructor
  · rintro ⟨⟨h1, h2⟩, h3⟩; exact ⟨h1, h2, fun ρ => (h3 ρ).symm⟩
  · rintro ⟨h1, h2, h3⟩; exact ⟨⟨h1, h2⟩, fun ρ => (h3 ρ).symm⟩

/-- over all assignments of `vs`: "some assignment of the eliminated names" is "some total assignment
    that agrees with ρ outside `vs`" -/
theorem any_assignments_iff (vs : List String) (P : (String → Bool) → Bool) (ρ : String → Bool) :
    ((assignments vs).any fun a => P (override ρ a)) = true ↔
      ∃ σ : String → Bool, (∀ n, n ∉ vs → σ n = ρ n) ∧ P σ = true := by
  simp only [assignments, envs, List.any_eq_true, List.mem_map]
  constructor
  · rintro ⟨a, ⟨p, hp, rfl⟩, ha⟩
    refine ⟨override ρ (vs.zip p), ?_, ha⟩
    intro n hn
    simp only [override]
    rw [get?_zip_none vs p n hn]; rfl
  · rintro ⟨σ, hσ, hP⟩
    refine ⟨vs.zip (vs.map σ), ⟨vs.map σ, (mem_lexPoints _ _).mpr (by simp), rfl⟩, ?_⟩
    have : override ρ (vs.zip (vs.map σ)) = σ := by
      funext n
      by_cases hn : n ∈ vs
      · have := envOf_zip_map vs σ n hn
        simp only [envOf, complete] at this
        simp only [override]
        cases h : PVal.get? (vs.zip (vs.map σ)) n with
        | none =>
          exfalso
          have hk := (PVal.get?_eq_none_iff _ _).mp h
          apply hk
          simp only [PVal.keys, List.map_fst_zip (l₁ := vs) (l₂ := vs.map σ) (by simp)]
          exact hn
        | some b => rw [h] at this; simpa using this
      · simp only [override]
        rw [get?_zip_none vs _ n hn]; exact (hσ n hn).symm
    rw [this]; exact hP


theorem all_assignments_iff (vs : List String) (P : (String → Bool) → Bool) (ρ : String → Bool) :
    ((assignments vs).all fun a => P (override ρ a)) = true ↔
      ∀ σ : String → Bool, (∀ n, n ∉ vs → σ n = ρ n) → P σ = true := by
  have h := any_assignments_iff vs (fun σ => !P σ) ρ
  constructor
  · intro hall σ hσ
    cases hp : P σ with
    | true => rfl
    | false =>
      have : ((assignments vs).any fun a => !P (override ρ a)) = true := h.mpr ⟨σ, hσ, by simp [hp]⟩
      rw [List.any_eq_true] at this
      obtain ⟨a, ha, hna⟩ := this
      have := (List.all_eq_true.mp hall) a ha
      simp [this] at hna
  · intro hall
    rw [List.all_eq_true]
    intro a ha
    cases hp : P (override ρ a) with
    | true => rfl
    | false =>
      have : ((assignments vs).any fun a => !P (override ρ a)) = true :=
        List.any_eq_true.mpr ⟨a, ha, by simp [hp]⟩
      obtain ⟨σ, hσ, hn⟩ := h.mp this
      have := hall σ hσ
      simp [this] at hn

theorem quant_dependsOnly (x : Fn) (vs : List String) (u : List String) (hu : ∀ n ∈ x.inputs, n ∈ u)
    (comb : List Bool → Bool) :
    DependsOnly u (fun ρ => comb ((assignments vs).map fun a => x.den (override ρ a))) := by
  intro ρ σ h
  simp only
  congr 1
  apply List.map_congr_left
  intro a _
  apply den_dependsOnly x x.inputs (fun n hn => hn)
  intro n hn
  exact override_congr ρ σ a u h n (hu n hn)

/-- C06: the quantifier oracles say "for some / for every assignment that agrees outside the
    eliminated variables" -/
theorem existsOk_iff (x : Fn) (vs : List String) (y : Fn) :
    existsOk x vs y = true ↔ y.wf = true ∧ (∀ n, n ∈ y.inputs ↔ n ∈ x.inputs ∧ n ∉ vs) ∧
      ∀ ρ, (y.den ρ = true ↔ ∃ σ : String → Bool, (∀ n, n ∉ vs → σ n = ρ n) ∧ x.den σ = true) := by
  have hdep : DependsOnly (union (union x.inputs vs) y.inputs)
      (fun ρ => (assignments vs).any fun a => x.den (override ρ a)) := by
    have := quant_dependsOnly x vs (union (union x.inputs vs) y.inputs)
      (fun n hn => (mem_union _ _ n).mpr (Or.inl ((mem_union _ _ n).mpr (Or.inl hn)))) (fun l => l.any id)
    intro ρ σ h
    have := this ρ σ h
    simpa [List.any_map] using this
  have hag := agreeOn_iff _ _ y.den hdep (den_dependsOnly y _ (fun n hn => (mem_union _ _ n).mpr (Or.inr hn)))
  simp only [existsOk, Bool.and_eq_true, hag, sameSet_iff, mem_diff]
  constructor
  · rintro ⟨⟨h1, h2⟩, h3⟩
    refine ⟨h1, h2, fun ρ => ?_⟩
    rw [← h3 ρ]; exact any_assignments_iff vs x.den ρ
  · rintro ⟨h1, h2, h3⟩
    refine ⟨⟨h1, h2⟩, fun ρ => ?_⟩
    have := (any_assignments_iff vs x.den ρ).trans (h3 ρ).symm
    cases hy : y.den ρ <;> cases ha : ((assignments vs).any fun a => x.den (override ρ a)) <;> simp_all

theorem forallOk_iff (x : Fn) (vs : List String) (y : Fn) :
    forallOk x vs y = true ↔ y.wf = true ∧ (∀ n, n ∈ y.inputs ↔ n ∈ x.inputs ∧ n ∉ vs) ∧
      ∀ ρ, (y.den ρ = true ↔ ∀ σ : String → Bool, (∀ n, n ∉ vs → σ n = ρ n) → x.den σ = true) := by
  have hdep : DependsOnly (union (union x.inputs vs) y.inputs)
      (fun ρ => (assignments vs).all fun a => x.den (override ρ a)) := by
    have := quant_dependsOnly x vs (union (union x.inputs vs) y.inputs)
      (fun n hn => (mem_union _ _ n).mpr (Or.inl ((mem_union _ _ n).mpr (Or.inl hn)))) (fun l => l.all id)
    intro ρ σ h
    have := this ρ σ h
    simpa [List.all_map] using this
  have hag := agreeOn_iff _ _ y.den hdep (den_dependsOnly y _ (fun n hn => (mem_union _ _ n).mpr (Or.inr hn)))
  simp only [forallOk, Bool.and_eq_true, hag, sameSet_iff, mem_diff]
  constructor
  · rintro ⟨⟨h1, h2⟩, h3⟩
    refine ⟨h1, h2, fun ρ => ?_⟩
    rw [← h3 ρ]; exact all_assignments_iff vs x.den ρ
  · rintro ⟨h1, h2, h3⟩
    refine ⟨⟨h1, h2⟩, fun ρ => ?_⟩
    have := (all_assignments_iff vs x.den ρ).trans (h3 ρ).symm
    cases hy : y.den ρ <;> cases ha : ((assignments vs).all fun a => x.den (override ρ a)) <;> simp_all

/-- C02: the evaluation oracles are the statements themselves -/
theorem evalDefaultOk_iff (x : Fn) (v : PVal String) (d ans : Bool) :
    evalDefaultOk x v d ans = true ↔ ans = x.den (complete v d) := by simp [evalDefaultOk]


/-- the inputs of all replacements -/
def valueInputs (m : List (String × Fn)) : List String := m.foldl (fun acc kv => union acc kv.2.inputs) []

theorem mem_foldl_union (m : List (String × Fn)) (acc : List String) (x : String) :
    x ∈ m.foldl (fun acc kv => union acc kv.2.inputs) acc ↔ x ∈ acc ∨ ∃ kv ∈ m, x ∈ kv.2.inputs := by
  induction m generalizing acc with
  | nil => simp
  | cons kv rest ih =>
    simp only [List.foldl_cons, ih, mem_union, List.mem_cons]
    constructor
    · rintro ((h | h) | ⟨kv', hk, hx⟩)
      · exact Or.inl h
      · exact Or.inr ⟨kv, Or.inl rfl, h⟩
      · exact Or.inr ⟨kv', Or.inr hk, hx⟩
    · rintro (h | ⟨kv', rfl | hk, hx⟩)
      · exact Or.inl (Or.inl h)
      · exact Or.inl (Or.inr hx)
      · exact Or.inr ⟨kv', hk, hx⟩

theorem mem_valueInputs (m : List (String × Fn)) (x : String) :
    x ∈ valueInputs m ↔ ∃ kv ∈ m, x ∈ kv.2.inputs := by
  simp [valueInputs, mem_foldl_union]

theorem lookup_mem' (m : List (String × Fn)) (n : String) (g : Fn) (h : lookup m n = some g) : (n, g) ∈ m := by
  simp only [lookup, Option.map_eq_some_iff] at h
  obtain ⟨⟨k, g'⟩, hf, hg⟩ := h
  simp only at hg; subst hg
  have hk := List.find?_some hf
  simp only [beq_iff_eq] at hk
  subst hk
  exact List.mem_of_find?_eq_some hf

/-- C08: the substitution oracle is simultaneous composition at *every* assignment, with the input clauses -/
theorem substituteOk_iff (x : Fn) (m : List (String × Fn)) (y : Fn) :
    substituteOk x m y = true ↔ y.wf = true ∧
      (∀ n ∈ y.inputs, (n ∈ x.inputs ∧ n ∉ m.map (·.1)) ∨ ∃ kv ∈ m, n ∈ kv.2.inputs) ∧
      (∀ k ∈ m.map (·.1), k ∈ y.inputs → ∃ kv ∈ m, k ∈ kv.2.inputs) ∧
      (match y with
       | .E _ => True
       | _ => ∀ n, n ∈ y.inputs ↔ (n ∈ x.inputs ∧ n ∉ m.map (·.1)) ∨ ∃ kv ∈ m, n ∈ kv.2.inputs) ∧
      ∀ ρ, y.den ρ = x.den (composedEnv m ρ) := by
  have hdep : DependsOnly (union (union (union x.inputs (m.map (·.1))) (valueInputs m)) y.inputs)
      (fun ρ => x.den (composedEnv m ρ)) := by
    intro ρ σ h
    apply den_dependsOnly x x.inputs (fun n hn => hn)
    intro n hn
    simp only [composedEnv]
    cases hl : lookup m n with
    | none =>
      exact h n ((mem_union _ _ n).mpr (Or.inl ((mem_union _ _ n).mpr (Or.inl ((mem_union _ _ n).mpr (Or.inl hn))))))
    | some g =>
      have hg := lookup_mem' m n g hl
      apply den_dependsOnly g g.inputs (fun k hk => hk)
      intro k hk
      exact h k ((mem_union _ _ k).mpr (Or.inl ((mem_union _ _ k).mpr (Or.inr ((mem_valueInputs m k).mpr ⟨(n, g), hg, hk⟩)))))
  have hag := agreeOn_iff _ _ y.den hdep (den_dependsOnly y _ (fun n hn => (mem_union _ _ n).mpr (Or.inr hn)))
  have hfold : (m.foldl (fun acc kv => union acc kv.2.inputs) []) = valueInputs m := rfl
  simp only [substituteOk, hfold, Bool.and_eq_true, hag, subset_iff, mem_union, mem_diff, mem_valueInputs,
    List.all_eq_true, Bool.or_eq_true, Bool.not_eq_true', List.any_eq_true, List.contains_eq_mem,
    decide_eq_true_eq, decide_eq_false_iff_not]
  constructor
  · rintro ⟨⟨⟨⟨h1, h2⟩, h3⟩, h4⟩, h5⟩
    refine ⟨h1, h2, ?_, ?_, fun ρ => (h5 ρ).symm⟩
    · intro k hk hin
      rcases h3 k hk with h | h
      · exact absurd hin h
      · exact h
    · cases y <;> simp_all [sameSet_iff, mem_union, mem_diff, mem_valueInputs]
  · rintro ⟨h1, h2, h3, h4, h5⟩
    refine ⟨⟨⟨⟨h1, h2⟩, ?_⟩, ?_⟩, fun ρ => (h5 ρ).symm⟩
    · intro k hk
      by_cases hin : k ∈ y.inputs
      · exact Or.inr (h3 k hk hin)
      · exact Or.inl hin
    · cases y <;> simp_all [sameSet_iff, mem_union, mem_diff, mem_valueInputs]

end BoolFn.Spec
