import BoolFn.Proofs.ParserTotal
/-! One loop iteration of the tokenizer as a function of "the rest of the run", monotonicity in the
    fuel, and the fuel-free judgement `LexTo` used to reason about concrete texts. -/
namespace BoolFn
open BoolFn.Spec

abbrev LexRes := Except TokErr (List Tok × List Char)
abbrev LexFn := List Char → Bool → List Tok → LexRes

/-- the body of `tokenize_level`'s loop with the recursive calls abstracted -/
def stepLex (m : List Char → Option Pat) (rec : LexFn) (inp : List Char) (top : Bool) (acc : List Tok) : LexRes :=
  match trimWs inp with
  | [] => if top then .ok (acc, []) else .error .missingClosingParenthesis
  | c :: cs =>
    let inp' := c :: cs
    match m inp' with
    | none =>
      let r := spanIdent inp'
      if r.1.isEmpty then .error .unknownSymbol
      else rec r.2 top (acc ++ [.lit r.1])
    | some p =>
      match p.kind with
      | .and => rec (inp'.drop p.text.length) top (acc ++ [.and])
      | .or => rec (inp'.drop p.text.length) top (acc ++ [.or])
      | .not => rec (inp'.drop p.text.length) top (acc ++ [.not])
      | .tt => rec (inp'.drop p.text.length) top (acc ++ [.tt])
      | .ff => rec (inp'.drop p.text.length) top (acc ++ [.ff])
      | .parenStart =>
        match rec (inp'.drop 1) false [] with
        | .error e => .error e
        | .ok (inner, rest) => rec rest top (acc ++ [.paren inner])
      | .parenEnd =>
        if top then .error .unexpectedClosingParenthesis else .ok (acc, inp'.drop 1)
      | .braceStart =>
        match untilBrace (inp'.drop 1) with
        | none => .error .missingClosingCurlyBrace
        | some (name, rest) =>
          if name.isEmpty then .error .emptyLiteralName
          else rec rest top (acc ++ [.lit name])
      | .braceEnd => .error .unexpectedClosingCurlyBrace
      | .invalid => .error .invalidPattern

theorem tokenizeLevelW_succ (m : List Char → Option Pat) (f : Nat) (inp : List Char) (top : Bool) (acc : List Tok) :
    tokenizeLevelW m (f + 1) inp top acc = stepLex m (tokenizeLevelW m f) inp top acc := by
  rw [tokenizeLevelW]; rfl

/-- `rec'` extends `rec`: wherever `rec` gives a definite answer (not "out of fuel"), `rec'` gives the same -/
def Extends (rec rec' : LexFn) : Prop :=
  ∀ inp top acc r, rec inp top acc = r → r ≠ .error .outOfFuel → rec' inp top acc = r

theorem stepLex_mono (m : List Char → Option Pat) (rec rec' : LexFn) (h : Extends rec rec') :
    Extends (stepLex m rec) (stepLex m rec') := by
  intro inp top acc r hr hne
  subst hr
  unfold stepLex at hne ⊢
  cases ht : trimWs inp with
  | nil => rfl
  | cons c cs =>
    simp only [ht] at hne ⊢
    cases hm : m (c :: cs) with
    | none =>
      simp only [hm] at hne ⊢
      by_cases he : (spanIdent (c :: cs)).1.isEmpty = true
      · simp only [he, if_true]
      · simp only [he] at hne ⊢
        exact h _ _ _ _ rfl hne
    | some p =>
      simp only [hm] at hne ⊢
      cases hk : p.kind <;> simp only [hk] at hne ⊢
      · exact h _ _ _ _ rfl hne
      · exact h _ _ _ _ rfl hne
      · exact h _ _ _ _ rfl hne
      · exact h _ _ _ _ rfl hne
      · exact h _ _ _ _ rfl hne
      · cases hin : rec (List.drop 1 (c :: cs)) false [] with
        | error e =>
          simp only [hin] at hne ⊢
          have he : e ≠ .outOfFuel := fun h' => hne (by rw [h'])
          rw [h _ _ _ _ hin (by simpa using he)]
        | ok pr =>
          obtain ⟨inner, rest⟩ := pr
          simp only [hin] at hne ⊢
          rw [h _ _ _ _ hin (by simp)]
          exact h _ _ _ _ rfl hne
      · cases hu : untilBrace (List.drop 1 (c :: cs)) with
        | none => rfl
        | some pr =>
          obtain ⟨name, rest⟩ := pr
          simp only [hu] at hne ⊢
          by_cases he : name.isEmpty = true
          · simp only [he, if_true]
          · simp only [he] at hne ⊢
            exact h _ _ _ _ rfl hne

theorem tokenizeLevelW_mono_succ (m : List Char → Option Pat) (f : Nat) :
    Extends (tokenizeLevelW m f) (tokenizeLevelW m (f + 1)) := by
  induction f with
  | zero =>
    intro inp top acc r hr hne
    exact absurd (by rw [← hr]; rfl) hne
  | succ f ih =>
    intro inp top acc r hr hne
    rw [tokenizeLevelW_succ] at hr ⊢
    exact stepLex_mono m _ _ ih inp top acc r hr hne

theorem tokenizeLevelW_mono (m : List Char → Option Pat) (f f' : Nat) (hle : f ≤ f') :
    Extends (tokenizeLevelW m f) (tokenizeLevelW m f') := by
  induction hle with
  | refl => intro _ _ _ r hr _; exact hr
  | step _ ih =>
    intro inp top acc r hr hne
    exact tokenizeLevelW_mono_succ m _ inp top acc r (ih inp top acc r hr hne) hne

/-- the fuel-free judgement: some amount of fuel gives the definite answer `r` -/
def LexTo (m : List Char → Option Pat) (inp : List Char) (top : Bool) (acc : List Tok) (r : LexRes) : Prop :=
  ∃ f, tokenizeLevelW m f inp top acc = r ∧ r ≠ .error .outOfFuel

/-- with the tokenizer's own fuel (input length + 1) the answer is the fuel-free one -/
theorem LexTo.at_own_fuel {m : List Char → Option Pat} (hm : Progress m) {inp : List Char} {top : Bool}
    {acc : List Tok} {r : LexRes} (h : LexTo m inp top acc r) :
    tokenizeLevelW m (inp.length + 1) inp top acc = r := by
  obtain ⟨f, hf, hne⟩ := h
  have hown := (tokenizeLevelW_fuel m hm (inp.length + 1) inp top acc (by omega)).1
  have h1 := tokenizeLevelW_mono m f (max f (inp.length + 1)) (Nat.le_max_left _ _) inp top acc r hf hne
  have h2 := tokenizeLevelW_mono m (inp.length + 1) (max f (inp.length + 1)) (Nat.le_max_right _ _) inp top acc _ rfl hown
  rw [← h2, h1]

/-- one step: if the loop body, run over fuel-free continuations, … -/
theorem LexTo.step {m : List Char → Option Pat} {inp : List Char} {top : Bool} {acc : List Tok} {r : LexRes}
    (f : Nat) (h : stepLex m (tokenizeLevelW m f) inp top acc = r) (hne : r ≠ .error .outOfFuel) :
    LexTo m inp top acc r :=
  ⟨f + 1, by rw [tokenizeLevelW_succ]; exact h, hne⟩

theorem trimWs_cons_of_not_ws (c : Char) (cs : List Char) (h : isWs c = false) : trimWs (c :: cs) = c :: cs := by
  simp [trimWs, h]

theorem trimWs_cons_of_ws (c : Char) (cs : List Char) (h : isWs c = true) : trimWs (c :: cs) = trimWs cs := by
  simp [trimWs, h]

/-- leading white space is skipped -/
theorem LexTo.skip_ws {m : List Char → Option Pat} {c : Char} {cs : List Char} {top : Bool} {acc : List Tok}
    {r : LexRes} (hc : isWs c = true) (h : LexTo m cs top acc r) : LexTo m (c :: cs) top acc r := by
  obtain ⟨f, hf, hne⟩ := h
  cases f with
  | zero => exact absurd (by rw [← hf]; rfl) hne
  | succ f =>
    refine ⟨f + 1, ?_, hne⟩
    rw [tokenizeLevelW_succ] at hf ⊢
    unfold stepLex at hf ⊢
    rw [trimWs_cons_of_ws c cs hc]
    exact hf

section
variable {m : List Char → Option Pat} {c : Char} {cs : List Char} {top : Bool} {acc : List Tok} {r : LexRes}

/-- an operator or constant token -/
theorem LexTo.simple (hc : isWs c = false) (p : Pat) (hm : m (c :: cs) = some p) (t : Tok)
    (hk : (p.kind = .and ∧ t = .and) ∨ (p.kind = .or ∧ t = .or) ∨ (p.kind = .not ∧ t = .not) ∨
      (p.kind = .tt ∧ t = .tt) ∨ (p.kind = .ff ∧ t = .ff))
    (h : LexTo m ((c :: cs).drop p.text.length) top (acc ++ [t]) r) : LexTo m (c :: cs) top acc r := by
  obtain ⟨f, hf, hne⟩ := h
  refine ⟨f + 1, ?_, hne⟩
  rw [tokenizeLevelW_succ]
  unfold stepLex
  rw [trimWs_cons_of_not_ws c cs hc]
  simp only [hm]
  rcases hk with ⟨hk, rfl⟩ | ⟨hk, rfl⟩ | ⟨hk, rfl⟩ | ⟨hk, rfl⟩ | ⟨hk, rfl⟩ <;> simp only [hk] <;> exact hf

/-- an identifier -/
theorem LexTo.ident (hc : isWs c = false) (hm : m (c :: cs) = none) (name rest : List Char)
    (hs : spanIdent (c :: cs) = (name, rest)) (hn : name ≠ [])
    (h : LexTo m rest top (acc ++ [.lit name]) r) : LexTo m (c :: cs) top acc r := by
  obtain ⟨f, hf, hne⟩ := h
  refine ⟨f + 1, ?_, hne⟩
  rw [tokenizeLevelW_succ]
  unfold stepLex
  rw [trimWs_cons_of_not_ws c cs hc]
  simp only [hm, hs]
  rw [if_neg (by simpa using hn)]
  exact hf

/-- a parenthesised group: the nested level returns at the matching `)` -/
theorem LexTo.group (hc : isWs c = false) (p : Pat) (hm : m (c :: cs) = some p) (hk : p.kind = .parenStart)
    (inner : List Tok) (rest : List Char) (h1 : LexTo m cs false [] (.ok (inner, rest)))
    (h2 : LexTo m rest top (acc ++ [.paren inner]) r) : LexTo m (c :: cs) top acc r := by
  obtain ⟨f1, hf1, hne1⟩ := h1
  obtain ⟨f2, hf2, hne2⟩ := h2
  refine ⟨max f1 f2 + 1, ?_, hne2⟩
  rw [tokenizeLevelW_succ]
  unfold stepLex
  rw [trimWs_cons_of_not_ws c cs hc]
  simp only [hm, hk, List.drop_succ_cons, List.drop_zero]
  rw [tokenizeLevelW_mono m f1 _ (Nat.le_max_left _ _) _ _ _ _ hf1 hne1]
  exact tokenizeLevelW_mono m f2 _ (Nat.le_max_right _ _) _ _ _ _ hf2 hne2

/-- the closing parenthesis ends a nested level -/
theorem LexTo.close (hc : isWs c = false) (p : Pat) (hm : m (c :: cs) = some p) (hk : p.kind = .parenEnd) :
    LexTo m (c :: cs) false acc (.ok (acc, cs)) := by
  refine ⟨1, ?_, by simp⟩
  rw [tokenizeLevelW_succ]
  unfold stepLex
  rw [trimWs_cons_of_not_ws c cs hc]
  simp only [hm, hk, List.drop_succ_cons, List.drop_zero]
  rfl

/-- end of input at the top level -/
theorem LexTo.eof : LexTo m [] true acc (.ok (acc, [])) :=
  ⟨1, by rw [tokenizeLevelW_succ]; rfl, by simp⟩
end

end BoolFn
