import BoolFn.Bdd
import BoolFn.Proofs.Basic
/-! `indexOf?` (binary search on a strictly sorted vector = position lookup). -/
namespace BoolFn
variable {α : Type} [DecidableEq α]

theorem indexOf?_some_iff (x : α) (l : List α) (i : Nat) :
    indexOf? x l = some i → i < l.length ∧ l[i]? = some x := by
  induction l generalizing i with
  | nil => simp [indexOf?]
  | cons y ys ih =>
    simp only [indexOf?]
    split
    · rename_i h; intro hi; cases hi; simp [h]
    · intro hi
      cases hidx : indexOf? x ys with
      | none => rw [hidx] at hi; cases hi
      | some j =>
        rw [hidx] at hi
        simp only [Option.map_some, Option.some.injEq] at hi
        subst hi
        have := ih j hidx
        exact ⟨by simp; omega, by simpa using this.2⟩

theorem indexOf?_of_mem (x : α) (l : List α) (h : x ∈ l) : ∃ i, indexOf? x l = some i := by
  induction l with
  | nil => cases h
  | cons y ys ih =>
    simp only [indexOf?]
    split
    · exact ⟨0, rfl⟩
    · rename_i hne
      rcases List.mem_cons.mp h with rfl | h
      · exact absurd rfl hne
      · obtain ⟨i, hi⟩ := ih h
        exact ⟨i + 1, by simp [hi]⟩

theorem indexOf?_none_iff (x : α) (l : List α) : indexOf? x l = none ↔ x ∉ l := by
  constructor
  · intro h hm
    obtain ⟨i, hi⟩ := indexOf?_of_mem x l hm
    rw [h] at hi; cases hi
  · intro h
    cases hi : indexOf? x l with
    | none => rfl
    | some i =>
      have := (indexOf?_some_iff x l i hi).2
      exact absurd (List.mem_of_getElem? this) h

/-- in a duplicate-free list the index of the i-th element is i -/
theorem indexOf?_getElem (l : List α) (hn : l.Nodup) (i : Nat) (hi : i < l.length) :
    indexOf? l[i] l = some i := by
  induction l generalizing i with
  | nil => simp at hi
  | cons y ys ih =>
    have hn' := List.nodup_cons.mp hn
    cases i with
    | zero => simp [indexOf?]
    | succ j =>
      simp only [List.getElem_cons_succ, indexOf?]
      have hne : y ≠ ys[j]'(by simpa using hi) := fun h => hn'.1 (h ▸ List.getElem_mem _)
      simp [hne, ih hn'.2 j (by simpa using hi)]

/-- reading the coordinate of a name in the point of an assignment -/
theorem getD_map_indexOf (ρ : α → Bool) (x : α) (l : List α) (i : Nat) (h : indexOf? x l = some i) :
    (l.map ρ).getD i false = ρ x := by
  have := indexOf?_some_iff x l i h
  rw [List.getD_eq_getElem?_getD, List.getElem?_map, this.2]; rfl

end BoolFn
