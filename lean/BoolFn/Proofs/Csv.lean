import BoolFn.Csv
import BoolFn.Proofs.Table
/-! Record-level lemmas about CSV import/export. -/
namespace BoolFn
set_option linter.unusedSectionVars false

/-- the importer accepts every spelling the exporter can emit, with the right value
    (re-checked against the regenerated spelling tables) -/
theorem stringToBool_formatBool (f : Fmt) (b : Bool) : stringToBool (formatBool f b) = some b := by
  cases f <;> cases b <;> decide

/-- the header word of the output column is not a Boolean spelling -/
theorem resultHeader_not_bool : isBoolString resultHeader = false := by decide

theorem hasDup_false_of_nodup {α : Type} [DecidableEq α] (l : List α) (h : l.Nodup) : hasDup l = false := by
  induction l with
  | nil => rfl
  | cons a as ih =>
    have := List.nodup_cons.mp h
    simp [hasDup, this.1, ih this.2]

/-- looking a name up in the enumerated name list of a duplicate-free list -/
theorem find?_zipIdx_of_nodup (l : List String) (hnd : l.Nodup) (i : Nat) (hi : i < l.length) (k : Nat) :
    (l.zipIdx k).find? (fun p => p.1 == l[i]) = some (l[i], k + i) := by
  induction l generalizing i k with
  | nil => simp at hi
  | cons a as ih =>
    have hn := List.nodup_cons.mp hnd
    cases i with
    | zero => simp [List.zipIdx_cons]
    | succ j =>
      have hne : a ≠ as[j]'(by simpa using hi) := fun h => hn.1 (h ▸ List.getElem_mem _)
      simp only [List.zipIdx_cons, List.getElem_cons_succ, List.find?]
      have : (a == as[j]'(by simpa using hi)) = false := by simp [hne]
      rw [this]
      rw [ih hn.2 j (by simpa using hi) (k + 1)]
      simp; omega

theorem filterMap_find_zipIdx (pre names : List String) (hnd : (pre ++ names).Nodup) :
    names.filterMap (fun k => ((pre ++ names).zipIdx).find? fun p => p.1 == k) = names.zipIdx pre.length := by
  induction names generalizing pre with
  | nil => rfl
  | cons a as ih =>
    have hidx : pre.length < (pre ++ a :: as).length := by simp
    have hget : (pre ++ a :: as)[pre.length] = a := by simp
    have hfind := find?_zipIdx_of_nodup (pre ++ a :: as) hnd pre.length hidx 0
    rw [hget] at hfind
    simp only [List.filterMap_cons, hfind, List.zipIdx_cons, Nat.zero_add]
    congr 1
    have := ih (pre ++ [a]) (by simpa using hnd)
    simpa using this

/-- for strictly sorted names the column map is the enumeration itself -/
theorem sortByName_zipIdx (names : List String) (h : StrictSorted names) :
    sortByName names.zipIdx = names.zipIdx := by
  simp only [sortByName]
  have hkeys : (names.zipIdx.map (·.1)) = names := by simp [List.zipIdx_map_fst]
  rw [hkeys, sortDedup_of_strictSorted names h]
  simpa using filterMap_find_zipIdx [] names (by simpa using h.nodup)

/-- writing rows `0 .. m-1` in order into an all-false vector reproduces the outputs and marks
    every row as filled -/
theorem fillRows_enumerated (outs : List Bool) :
    ∀ (done : List Bool) (rest : List Bool), outs = done ++ rest →
      fillRows ((rest.zipIdx done.length).map fun x => (x.2, x.1))
        (done ++ List.replicate rest.length false)
        (List.replicate done.length true ++ List.replicate rest.length false) = .ok outs := by
  intro done rest
  induction rest generalizing done with
  | nil =>
    intro h
    simp only [List.zipIdx_nil, List.map_nil, fillRows, List.length_nil, List.replicate_zero, List.append_nil]
    simp [h]
  | cons b bs ih =>
    intro h
    simp only [List.zipIdx_cons, List.map_cons, fillRows]
    have hget : (List.replicate done.length true ++ List.replicate (b :: bs).length false).getD done.length false = false := by
      rw [List.getD_eq_getElem?_getD, List.getElem?_append_right (by simp)]
      simp
    rw [hget]
    simp only [Bool.false_eq_true, if_false]
    have h1 : (done ++ List.replicate (b :: bs).length false).set done.length b =
        (done ++ [b]) ++ List.replicate bs.length false := by
      simp [List.set_append_right, List.replicate_succ]
    have h2 : (List.replicate done.length true ++ List.replicate (b :: bs).length false).set done.length true =
        List.replicate (done ++ [b]).length true ++ List.replicate bs.length false := by
      have e : List.replicate (done ++ [b]).length true = List.replicate done.length true ++ [true] := by
        simp [List.replicate_succ']
      rw [e]
      simp [List.set_append_right, List.replicate_succ]
    rw [h1, h2]
    have := ih (done ++ [b]) (by simp [h])
    simpa using this

end BoolFn
