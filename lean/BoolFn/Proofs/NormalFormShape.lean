import BoolFn.Proofs.NormalForm
/-! Shape lemmas for C11: the conversions produce the promised shape, and the library's
    predicates coincide with the independently written reference shape predicates. -/
namespace BoolFn
namespace Expr
variable {α : Type}
open BoolFn.Spec

@[simp] theorem isAnd_lit (a : α) : isAnd (lit a) = false := rfl
@[simp] theorem isAnd_const (b : Bool) : isAnd (const b : Expr α) = false := rfl
@[simp] theorem isAnd_not (e : Expr α) : isAnd (not e) = false := rfl
@[simp] theorem isAnd_or (es : List (Expr α)) : isAnd (or es) = false := rfl
@[simp] theorem isAnd_and (es : List (Expr α)) : isAnd (and es) = true := rfl
@[simp] theorem isOr_lit (a : α) : isOr (lit a) = false := rfl
@[simp] theorem isOr_const (b : Bool) : isOr (const b : Expr α) = false := rfl
@[simp] theorem isOr_not (e : Expr α) : isOr (not e) = false := rfl
@[simp] theorem isOr_and (es : List (Expr α)) : isOr (and es) = false := rfl
@[simp] theorem isOr_or (es : List (Expr α)) : isOr (or es) = true := rfl

/-! ### NNF of a constant-free expression satisfies `is_nnf` -/
mutual
theorem isNnf_toNnf : (e : Expr α) → constFree e = true → isNnf (toNnf e) = true
  | lit _, _ => rfl
  | const _, h => by simp [constFree] at h
  | not e, h => by simpa [toNnf] using isNnf_toNnfNeg e (by simpa [constFree] using h)
  | and es, h => by simpa [toNnf, isNnf] using isNnfL_toNnfL es (by simpa [constFree] using h)
  | or es, h => by simpa [toNnf, isNnf] using isNnfL_toNnfL es (by simpa [constFree] using h)
theorem isNnf_toNnfNeg : (e : Expr α) → constFree e = true → isNnf (toNnfNeg e) = true
  | lit _, _ => rfl
  | const _, h => by simp [constFree] at h
  | not e, h => by simpa [toNnfNeg] using isNnf_toNnf e (by simpa [constFree] using h)
  | and es, h => by simpa [toNnfNeg, isNnf] using isNnfL_toNnfNegL es (by simpa [constFree] using h)
  | or es, h => by simpa [toNnfNeg, isNnf] using isNnfL_toNnfNegL es (by simpa [constFree] using h)
theorem isNnfL_toNnfL : (es : List (Expr α)) → constFreeL es = true → isNnfL (toNnfL es) = true
  | [], _ => rfl
  | e :: es, h => by
    simp only [constFreeL, Bool.and_eq_true] at h
    simp [toNnfL, isNnfL, isNnf_toNnf e h.1, isNnfL_toNnfL es h.2]
theorem isNnfL_toNnfNegL : (es : List (Expr α)) → constFreeL es = true → isNnfL (toNnfNegL es) = true
  | [], _ => rfl
  | e :: es, h => by
    simp only [constFreeL, Bool.and_eq_true] at h
    simp [toNnfNegL, isNnfL, isNnf_toNnfNeg e h.1, isNnfL_toNnfNegL es h.2]
end

/-! ### CNF shape -/
mutual
theorem isCnf_distrCnfRight (f : Expr α) (hf : isCnf f = true) (hna : isAnd f = false) :
    (s : Expr α) → isCnf s = true → isCnf (distrCnfRight f s) = true
  | lit _, _ => by simp [distrCnfRight, binaryOr, isCnf, isCnfL, hf, hna]
  | const _, h => by simp [isCnf] at h
  | not x, h => by simp [distrCnfRight, binaryOr, isCnf, isCnfL, hf, hna]; simpa [isCnf] using h
  | or es, h => by simp [distrCnfRight, binaryOr, isCnf, isCnfL, hf, hna]; simpa [isCnf] using h
  | and es, h => by
    simpa [distrCnfRight, isCnf] using isCnfL_distrCnfRightL f hf hna es (by simpa [isCnf] using h)
theorem isCnfL_distrCnfRightL (f : Expr α) (hf : isCnf f = true) (hna : isAnd f = false) :
    (es : List (Expr α)) → isCnfL es = true → isCnfL (distrCnfRightL f es) = true
  | [], _ => rfl
  | e :: es, h => by
    simp only [isCnfL, Bool.and_eq_true] at h
    simp [distrCnfRightL, isCnfL, isCnf_distrCnfRight f hf hna e h.1, isCnfL_distrCnfRightL f hf hna es h.2]
end

mutual
theorem isCnf_distributeCnf :
    (a b : Expr α) → isCnf a = true → isCnf b = true → isCnf (distributeCnf a b) = true
  | and es, b, ha, hb => by
    simpa [distributeCnf, isCnf] using isCnfL_distributeCnfL es b (by simpa [isCnf] using ha) hb
  | lit x, b, ha, hb => by simpa [distributeCnf] using isCnf_distrCnfRight (lit x) ha rfl b hb
  | const _, _, ha, _ => by simp [isCnf] at ha
  | not x, b, ha, hb => by simpa [distributeCnf] using isCnf_distrCnfRight (not x) ha rfl b hb
  | or xs, b, ha, hb => by simpa [distributeCnf] using isCnf_distrCnfRight (or xs) ha rfl b hb
theorem isCnfL_distributeCnfL :
    (es : List (Expr α)) → (b : Expr α) → isCnfL es = true → isCnf b = true →
      isCnfL (distributeCnfL es b) = true
  | [], _, _, _ => rfl
  | e :: es, b, h, hb => by
    simp only [isCnfL, Bool.and_eq_true] at h
    simp [distributeCnfL, isCnfL, isCnf_distributeCnf e b h.1 hb, isCnfL_distributeCnfL es b h.2 hb]
end

theorem isCnfL_iff (es : List (Expr α)) : isCnfL es = true ↔ ∀ e ∈ es, isCnf e = true := by
  induction es with
  | nil => simp [isCnfL]
  | cons x xs ih => simp [isCnfL, ih]

theorem isCnf_foldl_distributeCnf (cs : List (Expr α)) (c : Expr α)
    (hc : isCnf c = true) (hcs : isCnfL cs = true) : isCnf (cs.foldl distributeCnf c) = true := by
  induction cs generalizing c with
  | nil => exact hc
  | cons x xs ih =>
    simp only [isCnfL, Bool.and_eq_true] at hcs
    exact ih _ (isCnf_distributeCnf c x hc hcs.1) hcs.2

mutual
theorem isCnf_cnfN : (e : Expr α) → isNnf e = true → isCnf (cnfN e) = true
  | lit _, _ => rfl
  | const _, h => by simp [isNnf] at h
  | not (lit _), _ => rfl
  | not (const _), h => by simp [isNnf] at h
  | not (not _), h => by simp [isNnf] at h
  | not (and _), h => by simp [isNnf] at h
  | not (or _), h => by simp [isNnf] at h
  | and es, h => by simpa [cnfN, isCnf] using isCnfL_cnfNL es (by simpa [isNnf] using h)
  | or es, h => by
    have hl := isCnfL_cnfNL es (by simpa [isNnf] using h)
    simp only [cnfN]
    split
    · simp [isCnf, isCnfL]
    · rename_i c cs heq
      rw [heq] at hl
      simp only [isCnfL, Bool.and_eq_true] at hl
      exact isCnf_foldl_distributeCnf cs c hl.1 hl.2
theorem isCnfL_cnfNL : (es : List (Expr α)) → isNnfL es = true → isCnfL (cnfNL es) = true
  | [], _ => rfl
  | e :: es, h => by
    simp only [isNnfL, Bool.and_eq_true] at h
    simp [cnfNL, isCnfL, isCnf_cnfN e h.1, isCnfL_cnfNL es h.2]
end

theorem isCnf_toCnf (e : Expr α) (h : constFree e = true) : isCnf (toCnf e) = true :=
  isCnf_cnfN _ (isNnf_toNnf e h)

/-! ### DNF shape (dual) -/
mutual
theorem isDnf_distrDnfRight (f : Expr α) (hf : isDnf f = true) (hna : isOr f = false) :
    (s : Expr α) → isDnf s = true → isDnf (distrDnfRight f s) = true
  | lit _, _ => by simp [distrDnfRight, binaryAnd, isDnf, isDnfL, hf, hna]
  | const _, h => by simp [isDnf] at h
  | not x, h => by simp [distrDnfRight, binaryAnd, isDnf, isDnfL, hf, hna]; simpa [isDnf] using h
  | and es, h => by simp [distrDnfRight, binaryAnd, isDnf, isDnfL, hf, hna]; simpa [isDnf] using h
  | or es, h => by
    simpa [distrDnfRight, isDnf] using isDnfL_distrDnfRightL f hf hna es (by simpa [isDnf] using h)
theorem isDnfL_distrDnfRightL (f : Expr α) (hf : isDnf f = true) (hna : isOr f = false) :
    (es : List (Expr α)) → isDnfL es = true → isDnfL (distrDnfRightL f es) = true
  | [], _ => rfl
  | e :: es, h => by
    simp only [isDnfL, Bool.and_eq_true] at h
    simp [distrDnfRightL, isDnfL, isDnf_distrDnfRight f hf hna e h.1, isDnfL_distrDnfRightL f hf hna es h.2]
end

mutual
theorem isDnf_distributeDnf :
    (a b : Expr α) → isDnf a = true → isDnf b = true → isDnf (distributeDnf a b) = true
  | or es, b, ha, hb => by
    simpa [distributeDnf, isDnf] using isDnfL_distributeDnfL es b (by simpa [isDnf] using ha) hb
  | lit x, b, ha, hb => by simpa [distributeDnf] using isDnf_distrDnfRight (lit x) ha rfl b hb
  | const _, _, ha, _ => by simp [isDnf] at ha
  | not x, b, ha, hb => by simpa [distributeDnf] using isDnf_distrDnfRight (not x) ha rfl b hb
  | and xs, b, ha, hb => by simpa [distributeDnf] using isDnf_distrDnfRight (and xs) ha rfl b hb
theorem isDnfL_distributeDnfL :
    (es : List (Expr α)) → (b : Expr α) → isDnfL es = true → isDnf b = true →
      isDnfL (distributeDnfL es b) = true
  | [], _, _, _ => rfl
  | e :: es, b, h, hb => by
    simp only [isDnfL, Bool.and_eq_true] at h
    simp [distributeDnfL, isDnfL, isDnf_distributeDnf e b h.1 hb, isDnfL_distributeDnfL es b h.2 hb]
end

theorem isDnf_foldl_distributeDnf (cs : List (Expr α)) (c : Expr α)
    (hc : isDnf c = true) (hcs : isDnfL cs = true) : isDnf (cs.foldl distributeDnf c) = true := by
  induction cs generalizing c with
  | nil => exact hc
  | cons x xs ih =>
    simp only [isDnfL, Bool.and_eq_true] at hcs
    exact ih _ (isDnf_distributeDnf c x hc hcs.1) hcs.2

mutual
theorem isDnf_dnfN : (e : Expr α) → isNnf e = true → isDnf (dnfN e) = true
  | lit _, _ => rfl
  | const _, h => by simp [isNnf] at h
  | not (lit _), _ => rfl
  | not (const _), h => by simp [isNnf] at h
  | not (not _), h => by simp [isNnf] at h
  | not (and _), h => by simp [isNnf] at h
  | not (or _), h => by simp [isNnf] at h
  | or es, h => by simpa [dnfN, isDnf] using isDnfL_dnfNL es (by simpa [isNnf] using h)
  | and es, h => by
    have hl := isDnfL_dnfNL es (by simpa [isNnf] using h)
    simp only [dnfN]
    split
    · simp [isDnf, isDnfL]
    · rename_i c cs heq
      rw [heq] at hl
      simp only [isDnfL, Bool.and_eq_true] at hl
      exact isDnf_foldl_distributeDnf cs c hl.1 hl.2
theorem isDnfL_dnfNL : (es : List (Expr α)) → isNnfL es = true → isDnfL (dnfNL es) = true
  | [], _ => rfl
  | e :: es, h => by
    simp only [isNnfL, Bool.and_eq_true] at h
    simp [dnfNL, isDnfL, isDnf_dnfN e h.1, isDnfL_dnfNL es h.2]
end

theorem isDnf_toDnf (e : Expr α) (h : constFree e = true) : isDnf (toDnf e) = true :=
  isDnf_dnfN _ (isNnf_toNnf e h)

/-! ### the predicates coincide with the reference shapes -/
mutual
theorem isNnf_eq_shape : (e : Expr α) → isNnf e = shapeNnf e
  | lit _ => rfl
  | const _ => rfl
  | not (lit _) => rfl
  | not (const _) => rfl
  | not (not _) => by simp [isNnf, shapeNnf, negOnlyOnVars]
  | not (and _) => by simp [isNnf, shapeNnf, negOnlyOnVars]
  | not (or _) => by simp [isNnf, shapeNnf, negOnlyOnVars]
  | and es => by simpa [isNnf, shapeNnf, constFree, negOnlyOnVars] using isNnfL_eq_shape es
  | or es => by simpa [isNnf, shapeNnf, constFree, negOnlyOnVars] using isNnfL_eq_shape es
theorem isNnfL_eq_shape : (es : List (Expr α)) → isNnfL es = (constFreeL es && negOnlyOnVarsL es)
  | [] => rfl
  | e :: es => by
    have h1 := isNnf_eq_shape e
    have h2 := isNnfL_eq_shape es
    simp only [shapeNnf] at h1
    simp only [isNnfL, constFreeL, negOnlyOnVarsL, h1, h2]
    cases constFree e <;> cases negOnlyOnVars e <;> cases constFreeL es <;> cases negOnlyOnVarsL es <;> rfl
end


theorem and3_shuffle (a b c d e f : Bool) :
    ((a && b && c) && (d && e && f)) = ((a && d) && (b && e) && (c && f)) := by
  cases a <;> cases b <;> cases c <;> cases d <;> cases e <;> cases f <;> rfl

mutual
theorem isCnf_eq_shape : (e : Expr α) → isCnf e = (shapeNnf e && noAndBelowOr false e)
  | lit _ => rfl
  | const _ => rfl
  | not (lit _) => rfl
  | not (const _) => rfl
  | not (not _) => by simp [isCnf, shapeNnf, negOnlyOnVars]
  | not (and _) => by simp [isCnf, shapeNnf, negOnlyOnVars]
  | not (or _) => by simp [isCnf, shapeNnf, negOnlyOnVars]
  | and es => by simpa [isCnf, shapeNnf, constFree, negOnlyOnVars, noAndBelowOr] using isCnfL_eq_shape es
  | or es => by simpa [isCnf, shapeNnf, constFree, negOnlyOnVars, noAndBelowOr] using isCnfL_child es
theorem isCnf_child : (e : Expr α) → (!(isAnd e) && isCnf e) = (shapeNnf e && noAndBelowOr true e)
  | lit _ => rfl
  | const _ => rfl
  | not (lit _) => rfl
  | not (const _) => rfl
  | not (not _) => by simp [isCnf, shapeNnf, negOnlyOnVars]
  | not (and _) => by simp [isCnf, shapeNnf, negOnlyOnVars]
  | not (or _) => by simp [isCnf, shapeNnf, negOnlyOnVars]
  | and es => by simp [noAndBelowOr]
  | or es => by simpa [isCnf, shapeNnf, constFree, negOnlyOnVars, noAndBelowOr] using isCnfL_child es
theorem isCnfL_eq_shape : (es : List (Expr α)) →
    isCnfL es = (constFreeL es && negOnlyOnVarsL es && noAndBelowOrL false es)
  | [] => rfl
  | e :: es => by
    have h1 := isCnf_eq_shape e
    have h2 := isCnfL_eq_shape es
    simp only [shapeNnf] at h1
    simp only [isCnfL, constFreeL, negOnlyOnVarsL, noAndBelowOrL, h1, h2, and3_shuffle]
theorem isCnfL_child : (es : List (Expr α)) →
    (!(es.any isAnd) && isCnfL es) = (constFreeL es && negOnlyOnVarsL es && noAndBelowOrL true es)
  | [] => rfl
  | e :: es => by
    have h1 := isCnf_child e
    have h2 := isCnfL_child es
    simp only [shapeNnf] at h1
    simp only [isCnfL, constFreeL, negOnlyOnVarsL, noAndBelowOrL, List.any_cons, Bool.not_or, ← and3_shuffle,
      ← h1, ← h2]
    cases isAnd e <;> cases isCnf e <;> cases es.any isAnd <;> cases isCnfL es <;> rfl
end

mutual
theorem isDnf_eq_shape : (e : Expr α) → isDnf e = (shapeNnf e && noOrBelowAnd false e)
  | lit _ => rfl
  | const _ => rfl
  | not (lit _) => rfl
  | not (const _) => rfl
  | not (not _) => by simp [isDnf, shapeNnf, negOnlyOnVars]
  | not (and _) => by simp [isDnf, shapeNnf, negOnlyOnVars]
  | not (or _) => by simp [isDnf, shapeNnf, negOnlyOnVars]
  | or es => by simpa [isDnf, shapeNnf, constFree, negOnlyOnVars, noOrBelowAnd] using isDnfL_eq_shape es
  | and es => by simpa [isDnf, shapeNnf, constFree, negOnlyOnVars, noOrBelowAnd] using isDnfL_child es
theorem isDnf_child : (e : Expr α) → (!(isOr e) && isDnf e) = (shapeNnf e && noOrBelowAnd true e)
  | lit _ => rfl
  | const _ => rfl
  | not (lit _) => rfl
  | not (const _) => rfl
  | not (not _) => by simp [isDnf, shapeNnf, negOnlyOnVars]
  | not (and _) => by simp [isDnf, shapeNnf, negOnlyOnVars]
  | not (or _) => by simp [isDnf, shapeNnf, negOnlyOnVars]
  | or es => by simp [noOrBelowAnd]
  | and es => by simpa [isDnf, shapeNnf, constFree, negOnlyOnVars, noOrBelowAnd] using isDnfL_child es
theorem isDnfL_eq_shape : (es : List (Expr α)) →
    isDnfL es = (constFreeL es && negOnlyOnVarsL es && noOrBelowAndL false es)
  | [] => rfl
  | e :: es => by
    have h1 := isDnf_eq_shape e
    have h2 := isDnfL_eq_shape es
    simp only [shapeNnf] at h1
    simp only [isDnfL, constFreeL, negOnlyOnVarsL, noOrBelowAndL, h1, h2, and3_shuffle]
theorem isDnfL_child : (es : List (Expr α)) →
    (!(es.any isOr) && isDnfL es) = (constFreeL es && negOnlyOnVarsL es && noOrBelowAndL true es)
  | [] => rfl
  | e :: es => by
    have h1 := isDnf_child e
    have h2 := isDnfL_child es
    simp only [shapeNnf] at h1
    simp only [isDnfL, constFreeL, negOnlyOnVarsL, noOrBelowAndL, List.any_cons, Bool.not_or, ← and3_shuffle,
      ← h1, ← h2]
    cases isOr e <;> cases isDnf e <;> cases es.any isOr <;> cases isDnfL es <;> rfl
end

end Expr
end BoolFn
