import BoolFn.Spec.Grammar
import BoolFn.Spec.Derives
import BoolFn.Proofs.Grammar
/-! The independent reference reading used as the C12/C13 oracle (`Spec.refParseTokens`, a
    recursive-descent parser with an explicit remainder) accepts exactly the grammar `DOr`, with the
    derivation's tree — so it coincides with the model of `parse_tokens` on every token list. -/
namespace BoolFn.Spec
open BoolFn

/-! ### appending an operand at the right end of a level -/
theorem dandL_snoc : {g : List Tok} → {es : List (Expr String)} → DAndL g es →
    ∀ {gt : List Tok} {t : Expr String}, DTerm gt t → DAndL (g ++ .and :: gt) (es ++ [t])
  | _, _, .one h, _, _, ht => .cons h (.one ht)
  | _, _, .cons (g := g) (gs := gs) h hs, gt, t, ht => by
    have := dandL_snoc hs ht
    have e : g ++ Tok.and :: gs ++ Tok.and :: gt = g ++ Tok.and :: (gs ++ Tok.and :: gt) := by simp
    rw [e]
    exact .cons h this

theorem dorL_snoc : {g : List Tok} → {ds : List (Expr String)} → DOrL g ds →
    ∀ {ga : List Tok} {es : List (Expr String)}, DAndL ga es → DOrL (g ++ .or :: ga) (ds ++ [collapse .and es])
  | _, _, .one h, _, _, ha => .cons h (.one ha)
  | _, _, .cons (g := g) (gs := gs) h hs, ga, es, ha => by
    have := dorL_snoc hs ha
    have e : g ++ Tok.or :: gs ++ Tok.or :: ga = g ++ Tok.or :: (gs ++ Tok.or :: ga) := by simp
    rw [e]
    exact .cons h this

/-- the value a tail function returns for its accumulated operands -/
def finish (mk : List (Expr String) → Expr String) (acc : List (Expr String)) : Expr String :=
  match acc with
  | [e] => e
  | _ => mk acc

theorem finish_eq_collapse (mk : List (Expr String) → Expr String) (acc : List (Expr String)) :
    finish mk acc = collapse mk acc := by
  rcases acc with _ | ⟨a, _ | ⟨b, r⟩⟩ <;> rfl

/-! ### soundness: what the reference parser returns is derivable -/
theorem ref_sound (fuel : Nat) :
    (∀ ts e rest, refTerm fuel ts = some (e, rest) → ∃ g, ts = g ++ rest ∧ DTerm g e) ∧
    (∀ acc ts e rest, refAndTail fuel acc ts = some (e, rest) → ∀ g0, DAndL g0 acc →
        ∃ g es, g0 ++ ts = g ++ rest ∧ DAndL g es ∧ e = collapse .and es) ∧
    (∀ ts e rest, refAnd fuel ts = some (e, rest) → ∃ g es, ts = g ++ rest ∧ DAndL g es ∧ e = collapse .and es) ∧
    (∀ acc ts e rest, refOrTail fuel acc ts = some (e, rest) → ∀ g0, DOrL g0 acc →
        ∃ g ds, g0 ++ ts = g ++ rest ∧ DOrL g ds ∧ e = collapse .or ds) ∧
    (∀ ts e rest, refOr fuel ts = some (e, rest) → ∃ g ds, ts = g ++ rest ∧ DOrL g ds ∧ e = collapse .or ds) := by
  induction fuel with
  | zero =>
    refine ⟨?_, ?_, ?_, ?_, ?_⟩ <;> intros <;> simp_all [refTerm, refAndTail, refAnd, refOrTail, refOr]
  | succ f ih =>
    obtain ⟨ihT, ihAT, ihA, ihOT, ihO⟩ := ih
    have hT : ∀ ts e rest, refTerm (f + 1) ts = some (e, rest) → ∃ g, ts = g ++ rest ∧ DTerm g e := by
      intro ts e rest h
      cases ts with
      | nil => simp [refTerm] at h
      | cons t ts =>
        cases t with
        | and => simp [refTerm] at h
        | or => simp [refTerm] at h
        | not =>
          simp only [refTerm] at h
          cases hr : refTerm f ts with
          | none => rw [hr] at h; cases h
          | some r =>
            obtain ⟨e', rest'⟩ := r
            rw [hr] at h
            simp only [Option.some.injEq, Prod.mk.injEq] at h
            obtain ⟨rfl, rfl⟩ := h
            obtain ⟨g, hg, hd⟩ := ihT ts e' rest' hr
            exact ⟨.not :: g, by rw [hg]; rfl, .not hd⟩
        | tt =>
          simp only [refTerm, Option.some.injEq, Prod.mk.injEq] at h
          obtain ⟨rfl, rfl⟩ := h
          exact ⟨[.tt], rfl, .tt⟩
        | ff =>
          simp only [refTerm, Option.some.injEq, Prod.mk.injEq] at h
          obtain ⟨rfl, rfl⟩ := h
          exact ⟨[.ff], rfl, .ff⟩
        | lit n =>
          simp only [refTerm, Option.some.injEq, Prod.mk.injEq] at h
          obtain ⟨rfl, rfl⟩ := h
          exact ⟨[.lit n], rfl, .lit n⟩
        | paren inner =>
          simp only [refTerm] at h
          cases hr : refOr f inner with
          | none => rw [hr] at h; cases h
          | some r =>
            obtain ⟨e', rest'⟩ := r
            rw [hr] at h
            cases rest' with
            | cons _ _ => cases h
            | nil =>
              simp only [Option.some.injEq, Prod.mk.injEq] at h
              obtain ⟨rfl, rfl⟩ := h
              obtain ⟨g, ds, hg, hd, rfl⟩ := ihO inner e' [] hr
              simp only [List.append_nil] at hg
              subst hg
              exact ⟨[.paren inner], rfl, .paren (.mk hd)⟩
    have hAT : ∀ acc ts e rest, refAndTail (f + 1) acc ts = some (e, rest) → ∀ g0, DAndL g0 acc →
        ∃ g es, g0 ++ ts = g ++ rest ∧ DAndL g es ∧ e = collapse .and es := by
      intro acc ts e rest h g0 hacc
      have hstop : ∀ ts', (∀ r, ts' ≠ .and :: r) → refAndTail (f + 1) acc ts' = some (finish .and acc, ts') := by
        intro ts' hne
        cases ts' with
        | nil => rcases acc with _ | ⟨a, _ | ⟨b, r⟩⟩ <;> rfl
        | cons t r =>
          cases t <;> first | exact absurd rfl (hne r) | (rcases acc with _ | ⟨a, _ | ⟨b, r'⟩⟩ <;> rfl)
      cases ts with
      | nil =>
        rw [hstop [] (by intro r; simp)] at h
        simp only [Option.some.injEq, Prod.mk.injEq] at h
        obtain ⟨rfl, rfl⟩ := h
        exact ⟨g0, acc, rfl, hacc, finish_eq_collapse _ _⟩
      | cons t r =>
        by_cases ht : t = .and
        · subst ht
          simp only [refAndTail] at h
          cases hr : refTerm f r with
          | none => rw [hr] at h; cases h
          | some p =>
            obtain ⟨e', rest'⟩ := p
            rw [hr] at h
            obtain ⟨gt, hgt, hdt⟩ := ihT r e' rest' hr
            obtain ⟨g, es, hg, hd, he⟩ := ihAT (acc ++ [e']) rest' e rest h (g0 ++ .and :: gt) (dandL_snoc hacc hdt)
            refine ⟨g, es, ?_, hd, he⟩
            rw [← hg, hgt]; simp
        · rw [hstop (t :: r) (by intro r' e'; cases e'; exact ht rfl)] at h
          simp only [Option.some.injEq, Prod.mk.injEq] at h
          obtain ⟨rfl, rfl⟩ := h
          exact ⟨g0, acc, rfl, hacc, finish_eq_collapse _ _⟩
    have hA : ∀ ts e rest, refAnd (f + 1) ts = some (e, rest) →
        ∃ g es, ts = g ++ rest ∧ DAndL g es ∧ e = collapse .and es := by
      intro ts e rest h
      simp only [refAnd] at h
      cases hr : refTerm f ts with
      | none => rw [hr] at h; cases h
      | some p =>
        obtain ⟨e', rest'⟩ := p
        rw [hr] at h
        obtain ⟨gt, hgt, hdt⟩ := ihT ts e' rest' hr
        obtain ⟨g, es, hg, hd, he⟩ := ihAT [e'] rest' e rest h gt (.one hdt)
        exact ⟨g, es, by rw [hgt, hg], hd, he⟩
    have hOT : ∀ acc ts e rest, refOrTail (f + 1) acc ts = some (e, rest) → ∀ g0, DOrL g0 acc →
        ∃ g ds, g0 ++ ts = g ++ rest ∧ DOrL g ds ∧ e = collapse .or ds := by
      intro acc ts e rest h g0 hacc
      have hstop : ∀ ts', (∀ r, ts' ≠ .or :: r) → refOrTail (f + 1) acc ts' = some (finish .or acc, ts') := by
        intro ts' hne
        cases ts' with
        | nil => rcases acc with _ | ⟨a, _ | ⟨b, r⟩⟩ <;> rfl
        | cons t r =>
          cases t <;> first | exact absurd rfl (hne r) | (rcases acc with _ | ⟨a, _ | ⟨b, r'⟩⟩ <;> rfl)
      cases ts with
      | nil =>
        rw [hstop [] (by intro r; simp)] at h
        simp only [Option.some.injEq, Prod.mk.injEq] at h
        obtain ⟨rfl, rfl⟩ := h
        exact ⟨g0, acc, rfl, hacc, finish_eq_collapse _ _⟩
      | cons t r =>
        by_cases ht : t = .or
        · subst ht
          simp only [refOrTail] at h
          cases hr : refAnd f r with
          | none => rw [hr] at h; cases h
          | some p =>
            obtain ⟨e', rest'⟩ := p
            rw [hr] at h
            obtain ⟨ga, es, hga, hda, rfl⟩ := ihA r e' rest' hr
            obtain ⟨g, ds, hg, hd, he⟩ := ihOT (acc ++ [collapse .and es]) rest' e rest h (g0 ++ .or :: ga)
              (dorL_snoc hacc hda)
            refine ⟨g, ds, ?_, hd, he⟩
            rw [← hg, hga]; simp
        · rw [hstop (t :: r) (by intro r' e'; cases e'; exact ht rfl)] at h
          simp only [Option.some.injEq, Prod.mk.injEq] at h
          obtain ⟨rfl, rfl⟩ := h
          exact ⟨g0, acc, rfl, hacc, finish_eq_collapse _ _⟩
    have hO : ∀ ts e rest, refOr (f + 1) ts = some (e, rest) →
        ∃ g ds, ts = g ++ rest ∧ DOrL g ds ∧ e = collapse .or ds := by
      intro ts e rest h
      simp only [refOr] at h
      cases hr : refAnd f ts with
      | none => rw [hr] at h; cases h
      | some p =>
        obtain ⟨e', rest'⟩ := p
        rw [hr] at h
        obtain ⟨ga, es, hga, hda, rfl⟩ := ihA ts e' rest' hr
        obtain ⟨g, ds, hg, hd, he⟩ := ihOT [collapse .and es] rest' e rest h ga (.one hda)
        exact ⟨g, ds, by rw [hga, hg], hd, he⟩
    exact ⟨hT, hAT, hA, hOT, hO⟩

theorem refParseTokens_sound (ts : List Tok) (e : Expr String) (h : refParseTokens ts = some e) : DOr ts e := by
  simp only [refParseTokens] at h
  cases hr : refOr (4 * toksSize ts + 4) ts with
  | none => rw [hr] at h; cases h
  | some p =>
    obtain ⟨e', rest⟩ := p
    rw [hr] at h
    cases rest with
    | cons _ _ => cases h
    | nil =>
      simp only [Option.some.injEq] at h
      subst h
      obtain ⟨g, ds, hg, hd, rfl⟩ := (ref_sound _).2.2.2.2 ts e' [] hr
      simp only [List.append_nil] at hg
      subst hg
      exact .mk hd


/-! ### completeness: every derivation is found, within the fuel `refParseTokens` provides -/

theorem dterm_size_pos : {g : List Tok} → {e : Expr String} → DTerm g e → 1 ≤ toksSize g
  | _, _, .tt => by simp [toksSize, tokSize]
  | _, _, .ff => by simp [toksSize, tokSize]
  | _, _, .lit _ => by simp [toksSize, tokSize]
  | _, _, .not _ => by simp only [toksSize, tokSize]; omega
  | _, _, .paren _ => by simp only [toksSize, tokSize]; omega

def NoAnd (rest : List Tok) : Prop := ∀ r, rest ≠ .and :: r
def NoOr (rest : List Tok) : Prop := ∀ r, rest ≠ .or :: r

theorem refAndTail_stop (f : Nat) (acc : List (Expr String)) (rest : List Tok) (h : NoAnd rest) :
    refAndTail (f + 1) acc rest = some (finish .and acc, rest) := by
  cases rest with
  | nil => rcases acc with _ | ⟨a, _ | ⟨b, r⟩⟩ <;> rfl
  | cons t r =>
    cases t <;> first | exact absurd rfl (h r) | (rcases acc with _ | ⟨a, _ | ⟨b, r'⟩⟩ <;> rfl)

theorem refOrTail_stop (f : Nat) (acc : List (Expr String)) (rest : List Tok) (h : NoOr rest) :
    refOrTail (f + 1) acc rest = some (finish .or acc, rest) := by
  cases rest with
  | nil => rcases acc with _ | ⟨a, _ | ⟨b, r⟩⟩ <;> rfl
  | cons t r =>
    cases t <;> first | exact absurd rfl (h r) | (rcases acc with _ | ⟨a, _ | ⟨b, r'⟩⟩ <;> rfl)

theorem finish_two (mk : List (Expr String) → Expr String) (acc es : List (Expr String)) (ha : acc ≠ []) (he : es ≠ []) :
    finish mk (acc ++ es) = mk (acc ++ es) := by
  rcases acc with _ | ⟨a, as⟩
  · exact absurd rfl ha
  · rcases es with _ | ⟨b, bs⟩
    · exact absurd rfl he
    · rcases as with _ | ⟨c, cs⟩ <;> rfl

theorem size_cons_and (g gs : List Tok) : toksSize (g ++ Tok.and :: gs) = toksSize g + 1 + toksSize gs := by
  rw [toksSize_append]
  simp only [toksSize, tokSize]
  omega
theorem size_cons_or (g gs : List Tok) : toksSize (g ++ Tok.or :: gs) = toksSize g + 1 + toksSize gs := by
  rw [toksSize_append]
  simp only [toksSize, tokSize]
  omega

mutual
theorem ref_term_complete : {g : List Tok} → {e : Expr String} → DTerm g e →
    ∀ f rest, 4 * toksSize g ≤ f → refTerm f (g ++ rest) = some (e, rest)
  | _, _, .tt => by
    intro f rest hf
    simp only [toksSize, tokSize] at hf
    obtain ⟨k, rfl⟩ : ∃ k, f = k + 1 := ⟨f - 1, by omega⟩
    rfl
  | _, _, .ff => by
    intro f rest hf
    simp only [toksSize, tokSize] at hf
    obtain ⟨k, rfl⟩ : ∃ k, f = k + 1 := ⟨f - 1, by omega⟩
    rfl
  | _, _, .lit _ => by
    intro f rest hf
    simp only [toksSize, tokSize] at hf
    obtain ⟨k, rfl⟩ : ∃ k, f = k + 1 := ⟨f - 1, by omega⟩
    rfl
  | _, _, .not (g := g) h => by
    intro f rest hf
    have hs : toksSize (Tok.not :: g) = 1 + toksSize g := by simp [toksSize, tokSize]
    obtain ⟨k, rfl⟩ : ∃ k, f = k + 1 := ⟨f - 1, by omega⟩
    simp only [List.cons_append, refTerm]
    rw [ref_term_complete h k rest (by omega)]
  | _, _, .paren (inner := inner) h => by
    intro f rest hf
    have hs : toksSize [Tok.paren inner] = 1 + toksSize inner := by simp [toksSize, tokSize]
    obtain ⟨k, rfl⟩ : ∃ k, f = k + 1 := ⟨f - 1, by omega⟩
    simp only [List.cons_append, List.nil_append, refTerm]
    rw [ref_or_complete h k (by omega)]
theorem ref_andTail_complete : {gs : List Tok} → {es : List (Expr String)} → DAndL gs es →
    ∀ f acc rest, NoAnd rest → acc ≠ [] → 4 * toksSize gs + 1 ≤ f →
      refAndTail f acc (.and :: (gs ++ rest)) = some (.and (acc ++ es), rest)
  | _, _, .one (g := g) (e := e) h => by
    intro f acc rest hr ha hf
    have hp := dterm_size_pos h
    obtain ⟨k, rfl⟩ : ∃ k, f = k + 1 := ⟨f - 1, by omega⟩
    simp only [refAndTail]
    rw [ref_term_complete h k rest (by omega)]
    simp only
    obtain ⟨j, rfl⟩ : ∃ j, k = j + 1 := ⟨k - 1, by omega⟩
    rw [refAndTail_stop j _ rest hr, finish_two _ acc [e] ha (by simp)]
  | _, _, .cons (g := g) (e := e) (gs := gs) (es := es) h hs => by
    intro f acc rest hr ha hf
    rw [size_cons_and] at hf
    obtain ⟨k, rfl⟩ : ∃ k, f = k + 1 := ⟨f - 1, by omega⟩
    simp only [refAndTail, List.append_assoc, List.cons_append]
    rw [ref_term_complete h k _ (by omega)]
    simp only
    rw [ref_andTail_complete hs k (acc ++ [e]) rest hr (by simp) (by omega)]
    simp
theorem ref_and_complete : {g : List Tok} → {es : List (Expr String)} → DAndL g es →
    ∀ f rest, NoAnd rest → 4 * toksSize g + 1 ≤ f → refAnd f (g ++ rest) = some (collapse .and es, rest)
  | _, _, .one (g := g) (e := e) h => by
    intro f rest hr hf
    have hp := dterm_size_pos h
    obtain ⟨k, rfl⟩ : ∃ k, f = k + 1 := ⟨f - 1, by omega⟩
    simp only [refAnd]
    rw [ref_term_complete h k rest (by omega)]
    simp only
    obtain ⟨j, rfl⟩ : ∃ j, k = j + 1 := ⟨k - 1, by omega⟩
    rw [refAndTail_stop j _ rest hr]
    rfl
  | _, _, .cons (g := g) (e := e) (gs := gs) (es := es) h hs => by
    intro f rest hr hf
    rw [size_cons_and] at hf
    obtain ⟨k, rfl⟩ : ∃ k, f = k + 1 := ⟨f - 1, by omega⟩
    simp only [refAnd, List.append_assoc, List.cons_append]
    rw [ref_term_complete h k _ (by omega)]
    simp only
    rw [ref_andTail_complete hs k [e] rest hr (by simp) (by omega)]
    have hne := dandL_ne_nil hs
    rcases es with _ | ⟨b, bs⟩
    · exact absurd rfl hne
    · rfl
theorem ref_orTail_complete : {gs : List Tok} → {ds : List (Expr String)} → DOrL gs ds →
    ∀ f acc, acc ≠ [] → 4 * toksSize gs + 2 ≤ f → refOrTail f acc (.or :: gs) = some (.or (acc ++ ds), [])
  | _, _, .one (g := g) (es := es) h => by
    intro f acc ha hf
    obtain ⟨k, rfl⟩ : ∃ k, f = k + 1 := ⟨f - 1, by omega⟩
    simp only [refOrTail]
    have := ref_and_complete h k [] (by intro r; simp) (by omega)
    simp only [List.append_nil] at this
    rw [this]
    simp only
    obtain ⟨j, rfl⟩ : ∃ j, k = j + 1 := ⟨k - 1, by omega⟩
    rw [refOrTail_stop j _ [] (by intro r; simp), finish_two _ acc [collapse .and es] ha (by simp)]
  | _, _, .cons (g := g) (es := es) (gs := gs) (ds := ds) h hs => by
    intro f acc ha hf
    rw [size_cons_or] at hf
    obtain ⟨k, rfl⟩ : ∃ k, f = k + 1 := ⟨f - 1, by omega⟩
    simp only [refOrTail]
    rw [ref_and_complete h k (.or :: gs) (by intro r hh; cases hh) (by omega)]
    simp only
    rw [ref_orTail_complete hs k (acc ++ [collapse .and es]) (by simp) (by omega)]
    simp
theorem ref_or_complete : {g : List Tok} → {e : Expr String} → DOr g e →
    ∀ f, 4 * toksSize g + 3 ≤ f → refOr f g = some (e, [])
  | _, _, .mk (.one (g := g) (es := es) h) => by
    intro f hf
    obtain ⟨k, rfl⟩ : ∃ k, f = k + 1 := ⟨f - 1, by omega⟩
    simp only [refOr]
    have := ref_and_complete h k [] (by intro r; simp) (by omega)
    simp only [List.append_nil] at this
    rw [this]
    simp only
    obtain ⟨j, rfl⟩ : ∃ j, k = j + 1 := ⟨k - 1, by omega⟩
    rw [refOrTail_stop j _ [] (by intro r; simp)]
    rfl
  | _, _, .mk (.cons (g := g) (es := es) (gs := gs) (ds := ds) h hs) => by
    intro f hf
    rw [size_cons_or] at hf
    obtain ⟨k, rfl⟩ : ∃ k, f = k + 1 := ⟨f - 1, by omega⟩
    simp only [refOr]
    rw [ref_and_complete h k (.or :: gs) (by intro r hh; cases hh) (by omega)]
    simp only
    rw [ref_orTail_complete hs k [collapse .and es] (by simp) (by omega)]
    have hne := dorL_ne_nil hs
    rcases ds with _ | ⟨b, bs⟩
    · exact absurd rfl hne
    · rfl
end

/-- **the reference parser accepts exactly the grammar**, with the derivation's tree -/
theorem refParseTokens_iff (ts : List Tok) (e : Expr String) : refParseTokens ts = some e ↔ DOr ts e := by
  constructor
  · exact refParseTokens_sound ts e
  · intro h
    simp only [refParseTokens, ref_or_complete h (4 * toksSize ts + 4) (by omega)]

/-- hence the reference reading is the model of `parse_tokens` on every token list -/
theorem refParseTokens_eq_parseTokens (ts : List Tok) :
    refParseTokens ts = (match parseTokens ts with | .ok e => some e | .error _ => none) := by
  cases hp : parseTokens ts with
  | ok e => exact (refParseTokens_iff ts e).mpr ((parseTokens_iff ts e).mp hp)
  | error err =>
    cases hr : refParseTokens ts with
    | none => rfl
    | some e =>
      have := (parseTokens_iff ts e).mpr ((refParseTokens_iff ts e).mp hr)
      rw [hp] at this; cases this

end BoolFn.Spec
