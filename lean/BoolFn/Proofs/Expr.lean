import BoolFn.Expr
import BoolFn.Proofs.Basic
import BoolFn.Proofs.Codec
/-! Lemmas about the expression model: evaluation = denotation, congruence, operators,
    substitution, restriction, quantifier steps. -/
namespace BoolFn
namespace Expr
variable {α : Type}

@[simp] theorem denAll_append (ρ : α → Bool) (a b : List (Expr α)) :
    denAll ρ (a ++ b) = (denAll ρ a && denAll ρ b) := by
  induction a with
  | nil => simp [denAll]
  | cons x xs ih => simp [denAll, ih, Bool.and_assoc]

@[simp] theorem denAny_append (ρ : α → Bool) (a b : List (Expr α)) :
    denAny ρ (a ++ b) = (denAny ρ a || denAny ρ b) := by
  induction a with
  | nil => simp [denAny]
  | cons x xs ih => simp [denAny, ih, Bool.or_assoc]

@[simp] theorem varsL_append (a b : List (Expr α)) : varsL (a ++ b) = varsL a ++ varsL b := by
  induction a with
  | nil => simp [varsL]
  | cons x xs ih => simp [varsL, ih]

/-! ### operators -/

theorem den_mkAnd (ρ : α → Bool) (a b : Expr α) : den ρ (mkAnd a b) = (den ρ a && den ρ b) := by
  unfold mkAnd
  split <;> simp [den, denAll]

theorem den_mkOr (ρ : α → Bool) (a b : Expr α) : den ρ (mkOr a b) = (den ρ a || den ρ b) := by
  unfold mkOr
  split <;> simp [den, denAny]

theorem den_mkXor (ρ : α → Bool) (a b : Expr α) : den ρ (mkXor a b) = (den ρ a != den ρ b) := by
  simp only [mkXor, den_mkAnd, den_mkOr, den]
  cases den ρ a <;> cases den ρ b <;> rfl

theorem den_mkImply (ρ : α → Bool) (a b : Expr α) : den ρ (mkImply a b) = (!(den ρ a) || den ρ b) := by
  simp [mkImply, den_mkOr, den]

theorem den_mkIff (ρ : α → Bool) (a b : Expr α) : den ρ (mkIff a b) = (den ρ a == den ρ b) := by
  simp only [mkIff, den_mkAnd, den_mkOr, den]
  cases den ρ a <;> cases den ρ b <;> rfl

theorem mem_vars_mkAnd (x : α) (a b : Expr α) : x ∈ vars (mkAnd a b) ↔ x ∈ vars a ∨ x ∈ vars b := by
  unfold mkAnd
  split <;> simp [vars, varsL]

theorem mem_vars_mkOr (x : α) (a b : Expr α) : x ∈ vars (mkOr a b) ↔ x ∈ vars a ∨ x ∈ vars b := by
  unfold mkOr
  split <;> simp [vars, varsL]

theorem mem_vars_mkXor (x : α) (a b : Expr α) : x ∈ vars (mkXor a b) ↔ x ∈ vars a ∨ x ∈ vars b := by
  simp only [mkXor, mem_vars_mkAnd, mem_vars_mkOr, vars]; grind

theorem mem_vars_mkImply (x : α) (a b : Expr α) : x ∈ vars (mkImply a b) ↔ x ∈ vars a ∨ x ∈ vars b := by
  simp [mkImply, mem_vars_mkOr, vars]

theorem mem_vars_mkIff (x : α) (a b : Expr α) : x ∈ vars (mkIff a b) ↔ x ∈ vars a ∨ x ∈ vars b := by
  simp only [mkIff, mem_vars_mkAnd, mem_vars_mkOr, vars]; grind

/-! ### the denotation only looks at the variables of the expression -/
mutual
theorem den_congr (ρ σ : α → Bool) :
    (e : Expr α) → (∀ x ∈ vars e, ρ x = σ x) → den ρ e = den σ e
  | lit a, h => by simp [den]; exact h a (by simp [vars])
  | const _, _ => rfl
  | not e, h => by simp [den, den_congr ρ σ e (by simpa [vars] using h)]
  | and es, h => by simp [den, denAll_congr ρ σ es (by simpa [vars] using h)]
  | or es, h => by simp [den, denAny_congr ρ σ es (by simpa [vars] using h)]
theorem denAll_congr (ρ σ : α → Bool) :
    (es : List (Expr α)) → (∀ x ∈ varsL es, ρ x = σ x) → denAll ρ es = denAll σ es
  | [], _ => rfl
  | e :: es, h => by
    have h1 : ∀ x ∈ vars e, ρ x = σ x := fun x hx => h x (by simp [varsL, hx])
    have h2 : ∀ x ∈ varsL es, ρ x = σ x := fun x hx => h x (by simp [varsL, hx])
    simp [denAll, den_congr ρ σ e h1, denAll_congr ρ σ es h2]
theorem denAny_congr (ρ σ : α → Bool) :
    (es : List (Expr α)) → (∀ x ∈ varsL es, ρ x = σ x) → denAny ρ es = denAny σ es
  | [], _ => rfl
  | e :: es, h => by
    have h1 : ∀ x ∈ vars e, ρ x = σ x := fun x hx => h x (by simp [varsL, hx])
    have h2 : ∀ x ∈ varsL es, ρ x = σ x := fun x hx => h x (by simp [varsL, hx])
    simp [denAny, den_congr ρ σ e h1, denAny_congr ρ σ es h2]
end

section
variable [DecidableEq α]

/-! ### C02 core: evaluation with a default is the denotation under the completed valuation -/
mutual
theorem eval_eq_den (v : PVal α) (d : Bool) :
    (e : Expr α) → eval v d e = den (complete v d) e
  | lit _ => by simp [eval, den, complete]
  | const _ => by simp [eval, den]
  | not e => by simp [eval, den, eval_eq_den v d e]
  | and es => by simp [eval, den, evalAll_eq v d es]
  | or es => by simp [eval, den, evalAny_eq v d es]
theorem evalAll_eq (v : PVal α) (d : Bool) :
    (es : List (Expr α)) → evalAll v d es = denAll (complete v d) es
  | [] => rfl
  | e :: es => by simp [evalAll, denAll, eval_eq_den v d e, evalAll_eq v d es]
theorem evalAny_eq (v : PVal α) (d : Bool) :
    (es : List (Expr α)) → evalAny v d es = denAny (complete v d) es
  | [] => rfl
  | e :: es => by simp [evalAny, denAny, eval_eq_den v d e, evalAny_eq v d es]
end

/-! ### the list of missing literals -/
mutual
theorem mem_missing (v : PVal α) (x : α) :
    (e : Expr α) → (x ∈ missing v e ↔ x ∈ vars e ∧ PVal.get? v x = none)
  | lit a => by
    simp only [missing, vars, List.mem_singleton]
    split
    · rename_i h; simp only [List.mem_singleton]
      constructor
      · rintro rfl; exact ⟨rfl, by simpa using h⟩
      · rintro ⟨rfl, _⟩; rfl
    · rename_i h; simp only [List.not_mem_nil, false_iff, not_and]
      rintro rfl; simpa using h
  | const _ => by simp [missing, vars]
  | not e => by simp [missing, vars, mem_missing v x e]
  | and es => by simp [missing, vars, mem_missingL v x es]
  | or es => by simp [missing, vars, mem_missingL v x es]
theorem mem_missingL (v : PVal α) (x : α) :
    (es : List (Expr α)) → (x ∈ missingL v es ↔ x ∈ varsL es ∧ PVal.get? v x = none)
  | [] => by simp [missingL, varsL]
  | e :: es => by
    simp only [missingL, varsL, List.mem_append, mem_missing v x e, mem_missingL v x es]; grind
end

/-! ### substitution is composition -/
mutual
theorem den_substitute (ρ : α → Bool) (m : List (α × Expr α)) :
    (e : Expr α) → den ρ (substitute m e) =
      den (fun x => match lookup m x with | some g => den ρ g | none => ρ x) e
  | lit a => by
    simp only [substitute, den]
    cases lookup m a <;> simp [den]
  | const _ => rfl
  | not e => by simp [substitute, den, den_substitute ρ m e]
  | and es => by simp [substitute, den, denAll_substitute ρ m es]
  | or es => by simp [substitute, den, denAny_substitute ρ m es]
theorem denAll_substitute (ρ : α → Bool) (m : List (α × Expr α)) :
    (es : List (Expr α)) → denAll ρ (substituteL m es) =
      denAll (fun x => match lookup m x with | some g => den ρ g | none => ρ x) es
  | [] => rfl
  | e :: es => by simp [substituteL, denAll, den_substitute ρ m e, denAll_substitute ρ m es]
theorem denAny_substitute (ρ : α → Bool) (m : List (α × Expr α)) :
    (es : List (Expr α)) → denAny ρ (substituteL m es) =
      denAny (fun x => match lookup m x with | some g => den ρ g | none => ρ x) es
  | [] => rfl
  | e :: es => by simp [substituteL, denAny, den_substitute ρ m e, denAny_substitute ρ m es]
end

mutual
/-- the variables of a substitution instance: untouched literals, plus the variables of the
    replacements of the literals that occur -/
theorem mem_vars_substitute (m : List (α × Expr α)) (x : α) :
    (e : Expr α) → (x ∈ vars (substitute m e) ↔
      (x ∈ vars e ∧ lookup m x = none) ∨ ∃ k g, k ∈ vars e ∧ lookup m k = some g ∧ x ∈ vars g)
  | lit a => by
    simp only [substitute, vars, List.mem_singleton]
    cases h : lookup m a with
    | none =>
      simp only [vars, List.mem_singleton]
      constructor
      · rintro rfl; exact Or.inl ⟨rfl, h⟩
      · rintro (⟨rfl, _⟩ | ⟨k, g, rfl, hk, _⟩)
        · rfl
        · rw [h] at hk; cases hk
    | some g =>
      constructor
      · intro hx; exact Or.inr ⟨a, g, rfl, h, hx⟩
      · rintro (⟨rfl, hn⟩ | ⟨k, g', rfl, hk, hx⟩)
        · rw [h] at hn; cases hn
        · rw [h] at hk; cases hk; exact hx
  | const _ => by simp [substitute, vars]
  | not e => by simp only [substitute, vars]; exact mem_vars_substitute m x e
  | and es => by simp only [substitute, vars]; exact mem_varsL_substitute m x es
  | or es => by simp only [substitute, vars]; exact mem_varsL_substitute m x es
theorem mem_varsL_substitute (m : List (α × Expr α)) (x : α) :
    (es : List (Expr α)) → (x ∈ varsL (substituteL m es) ↔
      (x ∈ varsL es ∧ lookup m x = none) ∨ ∃ k g, k ∈ varsL es ∧ lookup m k = some g ∧ x ∈ vars g)
  | [] => by simp [substituteL, varsL]
  | e :: es => by
    simp only [substituteL, varsL, List.mem_append, mem_vars_substitute m x e, mem_varsL_substitute m x es]
    constructor
    · rintro ((⟨h1, h2⟩ | ⟨k, g, h1, h2, h3⟩) | (⟨h1, h2⟩ | ⟨k, g, h1, h2, h3⟩))
      · exact Or.inl ⟨Or.inl h1, h2⟩
      · exact Or.inr ⟨k, g, Or.inl h1, h2, h3⟩
      · exact Or.inl ⟨Or.inr h1, h2⟩
      · exact Or.inr ⟨k, g, Or.inr h1, h2, h3⟩
    · rintro (⟨h1 | h1, h2⟩ | ⟨k, g, h1 | h1, h2, h3⟩)
      · exact Or.inl (Or.inl ⟨h1, h2⟩)
      · exact Or.inr (Or.inl ⟨h1, h2⟩)
      · exact Or.inl (Or.inr ⟨k, g, h1, h2, h3⟩)
      · exact Or.inr (Or.inr ⟨k, g, h1, h2, h3⟩)
end

/-! ### restriction -/
theorem den_restrict (ρ : α → Bool) (v : PVal α) (e : Expr α) :
    den ρ (restrict v e) = den (override ρ v) e := by
  rw [restrict, den_substitute]
  congr 1
  funext x
  rw [lookup_map, lookup_eq_get?]
  simp only [override]
  cases PVal.get? v x <;> simp [den]

theorem mem_vars_restrict (v : PVal α) (x : α) (e : Expr α) :
    x ∈ vars (restrict v e) ↔ x ∈ vars e ∧ PVal.get? v x = none := by
  rw [restrict, mem_vars_substitute]
  simp only [lookup_map, lookup_eq_get?]
  constructor
  · rintro (⟨h1, h2⟩ | ⟨k, g, _, h2, h3⟩)
    · refine ⟨h1, ?_⟩
      cases h : PVal.get? v x <;> simp_all
    · cases h : PVal.get? v k with
      | none => simp [h] at h2
      | some b =>
        simp only [h, Option.map_some, Option.some.injEq] at h2
        subst h2
        simp [vars] at h3
  · rintro ⟨h1, h2⟩
    exact Or.inl ⟨h1, by simp [h2]⟩

/-! ### one elimination step of a quantifier / derivative -/
theorem den_quantStep (op : Expr α → Expr α → Expr α) (bop : Bool → Bool → Bool)
    (hop : ∀ ρ a b, den ρ (op a b) = bop (den ρ a) (den ρ b))
    (ρ : α → Bool) (e : Expr α) (x : α) :
    den ρ (quantStep op e x) = bop (den (override ρ [(x, false)]) e) (den (override ρ [(x, true)]) e) := by
  simp [quantStep, hop, den_restrict]

theorem mem_vars_quantStep (op : Expr α → Expr α → Expr α)
    (hop : ∀ y a b, y ∈ vars (op a b) ↔ y ∈ vars a ∨ y ∈ vars b)
    (e : Expr α) (x y : α) :
    y ∈ vars (quantStep op e x) ↔ y ∈ vars e ∧ y ≠ x := by
  simp only [quantStep, hop, mem_vars_restrict, PVal.get?_cons, PVal.get?_nil]
  constructor
  · rintro (⟨h1, h2⟩ | ⟨h1, h2⟩) <;> refine ⟨h1, ?_⟩ <;> intro h <;> simp [h] at h2
  · rintro ⟨h1, h2⟩
    exact Or.inl ⟨h1, by simp [Ne.symm h2]⟩
end

end Expr
end BoolFn
