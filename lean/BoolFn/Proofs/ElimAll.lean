import BoolFn.Props.C10
import BoolFn.Proofs.BddQuant
/-! Eliminating *all* inputs of a diagram leaves a constant that is a function of the weight:
    satisfiable / tautology / odd number of satisfying points. (These are the conclusions the
    `law.elimall` instances judge the implementation by at 54–90 inputs, where a weight or a parity
    computed in floating point goes wrong.) -/
namespace BoolFn.C10
open BoolFn BoolFn.Spec
variable {α : Type} [DecidableEq α] [Ord α] [Std.TransOrd α] [Std.LawfulEqOrd α]
set_option linter.unusedSectionVars false

theorem den_atPoint_map (b : Bdd α) (h : b.WF) (σ : α → Bool) :
    b.den (atPoint b.inputs (b.inputs.map σ)) = b.den σ := by
  apply Bdd.den_congr
  intro x hx
  exact Table.complete_zip_map b.inputs h.1.nodup σ false x hx

theorem weight_pos_iff (b : Bdd α) (h : b.WF) : 0 < b.weight ↔ ∃ σ : α → Bool, b.den σ = true := by
  rw [bdd_weight_eq b h, List.length_pos_iff_exists_mem]
  constructor
  · rintro ⟨p, hp⟩
    exact ⟨_, (List.mem_filter.mp hp).2⟩
  · rintro ⟨σ, hσ⟩
    refine ⟨b.inputs.map σ, List.mem_filter.mpr ⟨?_, ?_⟩⟩
    · simp [Bdd.domain, mem_allPoints]
    · rw [den_atPoint_map b h σ]; exact hσ

theorem weight_full_iff (b : Bdd α) (h : b.WF) :
    b.weight = 2 ^ b.inputs.length ↔ ∀ σ : α → Bool, b.den σ = true := by
  rw [bdd_weight_eq b h]
  have hlen : b.domain.length = 2 ^ b.inputs.length := by simp [Bdd.domain, allPoints_length]
  rw [← hlen, List.length_filter_eq_length_iff]
  constructor
  · intro hall σ
    have := hall (b.inputs.map σ) (by simp [Bdd.domain, mem_allPoints])
    rwa [den_atPoint_map b h σ] at this
  · intro hall p _; exact hall _

theorem filter_inputs_self (ins : List α) : ins.filter (fun x => !(ins.contains x)) = [] := by
  rw [List.filter_eq_nil_iff]
  intro x hx
  simp [hx]

/-- the assignment that follows σ on the inputs and ρ elsewhere -/
def mix (ins : List α) (σ ρ : α → Bool) : α → Bool := fun y => if y ∈ ins then σ y else ρ y

theorem den_mix (b : Bdd α) (σ ρ : α → Bool) : b.den (mix b.inputs σ ρ) = b.den σ := by
  apply Bdd.den_congr
  intro x hx
  simp [mix, hx]

/-- **quantifying every input away**: the result is the constant "satisfiable" / "tautology" -/
theorem bdd_exists_all (b : Bdd α) (h : b.WF) :
    ∃ c, Bdd.existsQ b.inputs b = .ok c ∧ c.inputs = [] ∧ ∀ ρ, c.den ρ = decide (0 < b.weight) := by
  obtain ⟨c, hc, _, hci, hcd⟩ := Bdd.existsQ_den b.inputs h.1.nodup b h
  refine ⟨c, hc, by rw [hci, filter_inputs_self], fun ρ => ?_⟩
  rw [hcd, Bool.eq_iff_iff, nested_or_iff, decide_eq_true_iff, weight_pos_iff b h]
  constructor
  · rintro ⟨σ, _, hσ⟩; exact ⟨σ, hσ⟩
  · rintro ⟨σ, hσ⟩
    exact ⟨mix b.inputs σ ρ, fun y hy => by simp [mix, hy], by rw [den_mix]; exact hσ⟩

theorem bdd_forall_all (b : Bdd α) (h : b.WF) :
    ∃ c, Bdd.forallQ b.inputs b = .ok c ∧ c.inputs = [] ∧
      ∀ ρ, c.den ρ = decide (b.weight = 2 ^ b.inputs.length) := by
  obtain ⟨c, hc, _, hci, hcd⟩ := Bdd.forallQ_den b.inputs h.1.nodup b h
  refine ⟨c, hc, by rw [hci, filter_inputs_self], fun ρ => ?_⟩
  rw [hcd, Bool.eq_iff_iff, nested_and_iff, decide_eq_true_iff, weight_full_iff b h]
  constructor
  · intro hall σ
    have := hall (mix b.inputs σ ρ) (fun y hy => by simp [mix, hy])
    rwa [den_mix] at this
  · intro hall σ _; exact hall σ

/-! ### the derivative by all inputs is the parity of the weight -/

theorem override_cons_upd' (ρ : α → Bool) (v : α) (bv : Bool) (a : PVal α) (hv : v ∉ a.keys) :
    override ρ ((v, bv) :: a) = override (upd ρ v bv) a := by
  funext n
  simp only [override, PVal.get?_cons, upd]
  by_cases hvn : v = n
  · subst hvn
    simp [(PVal.get?_eq_none_iff a v).mpr hv]
  · simp [hvn]

theorem parity_add (m n : Nat) : decide ((m + n) % 2 = 1) = (decide (m % 2 = 1) != decide (n % 2 = 1)) := by
  rcases Nat.mod_two_eq_zero_or_one m with hm | hm <;> rcases Nat.mod_two_eq_zero_or_one n with hn | hn <;>
    simp [Nat.add_mod, hm, hn]

/-- the nested exclusive-or over `vs` counts, modulo two, the assignments of `vs` at which the function holds -/
theorem nested_xor_parity {F : Type} (den : (α → Bool) → F → Bool) (f : F) :
    ∀ (vs : List α), vs.Nodup → ∀ ρ : α → Bool,
      nested (· != ·) den vs f ρ =
        decide (((lexPoints vs.length).filter fun p => den (override ρ (vs.zip p)) f).length % 2 = 1)
  | [], _, ρ => by
    have : override ρ ([] : PVal α) = ρ := by funext n; simp [override]
    simp only [nested, lexPoints, List.length_nil, List.zip_nil_left, this, List.filter_cons, List.filter_nil]
    cases den ρ f <;> simp
  | v :: vs, hnd, ρ => by
    have hnd' := List.nodup_cons.mp hnd
    have hkeys : ∀ p : List Bool, v ∉ PVal.keys (vs.zip p) := by
      intro p hk
      simp only [PVal.keys, List.mem_map] at hk
      obtain ⟨⟨a, b⟩, hab, rfl⟩ := hk
      exact hnd'.1 (List.of_mem_zip hab).1
    simp only [nested, List.length_cons, lexPoints, List.filter_append, List.length_append, List.filter_map,
      List.length_map, parity_add]
    rw [nested_xor_parity den f vs hnd'.2 (upd ρ v false), nested_xor_parity den f vs hnd'.2 (upd ρ v true)]
    congr 2
    · congr 2
      refine congrArg List.length (List.filter_congr ?_)
      intro p _
      simp only [Function.comp, List.zip_cons_cons, override_cons_upd' ρ v false _ (hkeys p)]
    · congr 2
      refine congrArg List.length (List.filter_congr ?_)
      intro p _
      simp only [Function.comp, List.zip_cons_cons, override_cons_upd' ρ v true _ (hkeys p)]

theorem den_override_all (b : Bdd α) (h : b.WF) (ρ : α → Bool) (p : List Bool) (hp : p.length = b.inputs.length) :
    b.den (override ρ (b.inputs.zip p)) = b.den (atPoint b.inputs p) := by
  apply Bdd.den_congr
  intro x hx
  obtain ⟨i, hi, rfl⟩ := List.mem_iff_getElem.mp hx
  simp only [override, atPoint, complete]
  rw [get?_zip_of_nodup b.inputs p hp h.1.nodup i hi]
  rfl

theorem bdd_derivative_all (b : Bdd α) (h : b.WF) :
    ∃ c, Bdd.derivative b.inputs b = .ok c ∧ c.inputs = [] ∧ ∀ ρ, c.den ρ = decide (b.weight % 2 = 1) := by
  obtain ⟨c, hc, _, hci, hcd⟩ := Bdd.derivative_den b.inputs h.1.nodup b h
  refine ⟨c, hc, by rw [hci, filter_inputs_self], fun ρ => ?_⟩
  rw [hcd, nested_xor_parity Bdd.den b b.inputs h.1.nodup ρ, bdd_weight_eq b h]
  simp only [Bdd.domain, domain_eq]
  have hfil : (lexPoints b.inputs.length).filter (fun p => b.den (override ρ (b.inputs.zip p))) =
      (lexPoints b.inputs.length).filter (fun p => b.den (atPoint b.inputs p)) := by
    apply List.filter_congr
    intro p hp
    exact den_override_all b h ρ p (lexPoints_mem_length _ p hp)
  rw [hfil]

end BoolFn.C10
