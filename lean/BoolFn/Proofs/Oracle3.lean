import BoolFn.Proofs.Oracle
/-! Oracle theorems for the normal-form conversions (C11) and checked evaluation (C02). -/
namespace BoolFn.Spec
open BoolFn

/-- C11, conversion clause: same function at every assignment, no new variables, and the promised
    shape whenever the source is constant-free without empty n-ary nodes -/
theorem nfOk_iff (k : NF) (e y : Expr String) :
    nfOk k e y = true ↔ (∀ ρ, e.den ρ = y.den ρ) ∧ (∀ n ∈ y.vars, n ∈ e.vars) ∧
      (constFree e = true → noEmptyNary e = true → k.shape y = true) := by
  have hag := agreeOn_iff (union (Fn.E e).inputs (Fn.E y).inputs) e.den y.den
    (den_dependsOnly (.E e) _ (fun n hn => (mem_union _ _ n).mpr (Or.inl hn)))
    (den_dependsOnly (.E y) _ (fun n hn => (mem_union _ _ n).mpr (Or.inr hn)))
  simp only [nfOk, Bool.and_eq_true, hag]
  simp only [subset_iff, Fn.inputs, List.mem_eraseDups, Bool.or_eq_true, Bool.not_eq_true']
  constructor
  · rintro ⟨⟨h1, h2⟩, h3⟩
    refine ⟨h1, h2, fun hc hn => ?_⟩
    rcases h3 with h | h
    · rw [hc, hn] at h; cases h
    · exact h
  · rintro ⟨h1, h2, h3⟩
    refine ⟨⟨h1, h2⟩, ?_⟩
    cases hc : constFree e <;> cases hn : noEmptyNary e <;> simp_all

theorem nfPredOk_iff (k : NF) (e : Expr String) (ans : Bool) : nfPredOk k e ans = true ↔ ans = k.shape e := by
  simp [nfPredOk]

/-- C02, checked mode: `Ok(b)` exactly when no input is missing and `b` is the value; otherwise the
    error lists exactly the missing inputs -/
theorem evalCheckedOk_iff (x : Fn) (v : PVal String) (ans : Except (List String) Bool) :
    evalCheckedOk x v ans = true ↔
      match ans with
      | .ok b => (∀ n ∈ x.inputs, n ∈ v.keys) ∧ b = x.den (complete v false)
      | .error s => (∃ n ∈ x.inputs, n ∉ v.keys) ∧ ∀ n, n ∈ s ↔ (n ∈ x.inputs ∧ n ∉ v.keys) := by
  cases ans with
  | ok b =>
    simp only [evalCheckedOk, Bool.and_eq_true, List.isEmpty_iff, beq_iff_eq]
    constructor
    · rintro ⟨h1, h2⟩
      refine ⟨fun n hn => ?_, h2⟩
      apply Classical.byContradiction
      intro hnot
      have : n ∈ diff x.inputs v.keys := (mem_diff _ _ n).mpr ⟨hn, hnot⟩
      rw [h1] at this; cases this
    · rintro ⟨h1, h2⟩
      refine ⟨?_, h2⟩
      apply List.eq_nil_iff_forall_not_mem.mpr
      intro n hn
      have := (mem_diff _ _ n).mp hn
      exact this.2 (h1 n this.1)
  | error s =>
    simp only [evalCheckedOk, Bool.and_eq_true, Bool.not_eq_true', List.isEmpty_eq_false_iff, sameSet_iff, mem_diff]
    constructor
    · rintro ⟨h1, h2⟩
      obtain ⟨n, hn⟩ := List.exists_mem_of_ne_nil _ h1
      exact ⟨⟨n, ((mem_diff _ _ n).mp hn).1, ((mem_diff _ _ n).mp hn).2⟩, h2⟩
    · rintro ⟨⟨n, hn1, hn2⟩, h2⟩
      exact ⟨List.ne_nil_of_mem ((mem_diff _ _ n).mpr ⟨hn1, hn2⟩), h2⟩

end BoolFn.Spec
