import BoolFn.Parser
import BoolFn.Spec.Grammar
/-! The code's token recogniser (first match of the ordered pattern set on a 6-character peek buffer)
    is the declarative one (longest matching spelling, judged on the whole remaining input).
    The facts about the pattern table are re-checked by `decide` against the regenerated table. -/
namespace BoolFn
open BoolFn.Spec

/-! ### facts about the reflected pattern table -/

/-- every pattern, with its boundary character, fits the peek buffer -/
theorem patterns_fit : ∀ p ∈ patterns, p.text.length + 1 ≤ takeSize := by decide

/-- every pattern is non-empty (each token consumes input) -/
theorem patterns_nonempty : ∀ p ∈ patterns, 1 ≤ p.text.length := by decide

/-- the table is ordered from the longest pattern to the shortest -/
theorem patterns_sorted : patterns.Pairwise (fun p q => q.text.length ≤ p.text.length) := by decide

/-- every pattern is classified (the `panic!` arm of `IntermediateToken::from` is unreachable) -/
theorem patterns_classified : ∀ p ∈ patterns, p.kind ≠ .invalid := by decide

/-- the boundary flag computed by the code (`LITERAL_IDENTIFIER.is_match(pattern)`) is set exactly on
    the patterns written with identifier characters only -/
theorem patterns_boundary : ∀ p ∈ patterns, p.identLike = Spec.isWord p := by decide

/-- the parenthesis and brace patterns are one character long (the tokenizer pops exactly one) -/
theorem paren_patterns_single : ∀ p ∈ patterns,
    (p.kind = .parenStart ∨ p.kind = .parenEnd ∨ p.kind = .braceStart) → p.text.length = 1 := by decide

/-! ### truncation to the buffer does not change whether a pattern matches -/

theorem prefixFold_take (ps inp : List Char) (k : Nat) (h : ps.length ≤ k) :
    prefixFold ps (inp.take k) = prefixFold ps inp := by
  induction ps generalizing inp k with
  | nil => simp [prefixFold]
  | cons p ps ih =>
    cases k with
    | zero => simp at h
    | succ k =>
      cases inp with
      | nil => simp [prefixFold]
      | cons c cs =>
        simp only [List.take_succ_cons, prefixFold]
        rw [ih cs k (by simpa using h)]

theorem drop_take_head (inp : List Char) (len k : Nat) (h : len < k) :
    boundaryOk ((inp.take k).drop len) = boundaryOk (inp.drop len) := by
  induction inp generalizing len k with
  | nil => simp
  | cons c cs ih =>
    cases k with
    | zero => omega
    | succ k =>
      cases len with
      | zero => simp [boundaryOk]
      | succ len =>
        simp only [List.take_succ_cons, List.drop_succ_cons]
        exact ih len k (by omega)

theorem find?_congr' {β : Type} (l : List β) (P Q : β → Bool) (h : ∀ x ∈ l, P x = Q x) :
    l.find? P = l.find? Q := by
  induction l with
  | nil => rfl
  | cons a as ih =>
    simp only [List.find?, h a (by simp)]
    rw [ih (fun x hx => h x (by simp [hx]))]

theorem matchPat_take (inp : List Char) (p : Pat) (h : p.text.length + 1 ≤ takeSize)
    (hb : p.identLike = Spec.isWord p) :
    matchPat (inp.take takeSize) p = patMatches inp p := by
  simp only [matchPat, patMatches, hb]
  rw [prefixFold_take _ _ _ (by omega), drop_take_head _ _ _ (by omega)]

/-! ### first match in a list sorted by decreasing length is the longest match -/

def pickLonger (best : Option Pat) (p : Pat) : Option Pat :=
  match best with
  | none => some p
  | some b => if p.text.length > b.text.length then some p else some b

theorem foldl_pickLonger_keep (b : Pat) (xs : List Pat) (h : ∀ x ∈ xs, x.text.length ≤ b.text.length) :
    xs.foldl pickLonger (some b) = some b := by
  induction xs with
  | nil => rfl
  | cons x xs ih =>
    have hx := h x (by simp)
    simp only [List.foldl, pickLonger]
    rw [if_neg (by omega)]
    exact ih (fun y hy => h y (by simp [hy]))

theorem find?_eq_longest (l : List Pat) (P : Pat → Bool)
    (hs : l.Pairwise (fun p q => q.text.length ≤ p.text.length)) :
    l.find? P = (l.filter P).foldl pickLonger none := by
  induction l with
  | nil => rfl
  | cons a as ih =>
    have hp := List.pairwise_cons.mp hs
    by_cases ha : P a = true
    · simp only [List.find?, ha, List.filter_cons, if_true, List.foldl, pickLonger]
      rw [foldl_pickLonger_keep]
      intro x hx
      exact hp.1 x (List.mem_filter.mp hx).1
    · have ha' : P a = false := by simpa using ha
      simp only [List.find?, ha', List.filter_cons]
      exact ih hp.2

theorem longestMatch_eq (inp : List Char) :
    longestMatch inp = (patterns.filter (patMatches inp)).foldl pickLonger none := rfl

/-- **the buffered first match is the longest match on the whole input** -/
theorem bufMatch_eq_longestMatch : bufMatch = longestMatch := by
  funext inp
  rw [bufMatch, firstMatch, longestMatch_eq]
  have hcongr : patterns.find? (matchPat (inp.take takeSize)) = patterns.find? (patMatches inp) := by
    apply find?_congr'
    intro p hp
    exact matchPat_take inp p (patterns_fit p hp) (patterns_boundary p hp)
  rw [hcongr]
  exact find?_eq_longest patterns (patMatches inp) patterns_sorted

end BoolFn
