import BoolFn.Codec
/-! Semantic model of a `biodivine_lib_bdd::Bdd` over `n` variables: its truth table.
    Each operation the wrapper calls is defined by its documented meaning. lib-bdd itself is
    *modelled, not verified* (DESIGN.md §3.3, §8). -/
namespace BoolFn

structure Inner where
  n : Nat
  tt : List Bool
deriving Repr, Inhabited, DecidableEq

namespace Inner

/-- `eval_in(&BddValuation::new(p))` -/
def eval (b : Inner) (p : List Bool) : Bool := b.tt.getD (pointToRowIndex p) false

def ofFn (n : Nat) (f : List Bool → Bool) : Inner := ⟨n, (allPoints n).map f⟩

def WF (b : Inner) : Prop := b.tt.length = 2 ^ b.n
def isWF (b : Inner) : Bool := b.tt.length == 2 ^ b.n

def mkConst (n : Nat) (c : Bool) : Inner := ofFn n fun _ => c
def mkVar (n i : Nat) : Inner := ofFn n fun p => p.getD i false
def mkLiteral (n i : Nat) (v : Bool) : Inner := ofFn n fun p => p.getD i false == v
def not (b : Inner) : Inner := ofFn b.n fun p => !(b.eval p)
/-- `and`/`or`/`xor`/`imp`/`iff`: pointwise (lib-bdd requires equal variable counts) -/
def binop (op : Bool → Bool → Bool) (a b : Inner) : Inner := ofFn a.n fun p => op (a.eval p) (b.eval p)
def and := binop (· && ·)
def or := binop (· || ·)
def xor := binop (· != ·)
def imp := binop (fun x y => !x || y)
def iff := binop (· == ·)

/-- overwrite coordinates of a point -/
def applyFix (p : List Bool) (fix : List (Nat × Bool)) : List Bool :=
  fix.foldl (fun q f => q.set f.1 f.2) p

/-- `restrict(&[(var, value)])`: the variable count is unchanged -/
def restrict (b : Inner) (fix : List (Nat × Bool)) : Inner := ofFn b.n fun p => b.eval (applyFix p fix)
def varRestrict (b : Inner) (i : Nat) (v : Bool) : Inner := restrict b [(i, v)]
def existsStep (acc : Inner) (i : Nat) : Inner :=
  ofFn acc.n fun p => acc.eval (p.set i false) || acc.eval (p.set i true)
def forAllStep (acc : Inner) (i : Nat) : Inner :=
  ofFn acc.n fun p => acc.eval (p.set i false) && acc.eval (p.set i true)
/-- `exists(&vars)` -/
def existsV (b : Inner) (vars : List Nat) : Inner := vars.foldl existsStep b
/-- `for_all(&vars)` -/
def forAllV (b : Inner) (vars : List Nat) : Inner := vars.foldl forAllStep b
/-- `substitute(var, g)`: `g` must not depend on `var` (the wrapper guarantees it) -/
def substitute (b : Inner) (i : Nat) (g : Inner) : Inner := ofFn b.n fun p => b.eval (p.set i (g.eval p))

def isTrue (b : Inner) : Bool := b.tt.all id
def isFalse (b : Inner) : Bool := b.tt.all (!·)

def dependsOn (b : Inner) (i : Nat) : Bool :=
  (allPoints b.n).any fun p => b.eval (p.set i false) != b.eval (p.set i true)
/-- `support_set()`: lib-bdd diagrams are reduced, so the variables that occur are the essential ones -/
def supportSet (b : Inner) : List Nat := (List.range b.n).filter b.dependsOn
/-- `exact_cardinality()` -/
def cardinality (b : Inner) : Nat := b.tt.count true
/-- `sat_valuations()` as a set (lib-bdd's order depends on the node order) -/
def satValuations (b : Inner) : List (List Bool) := (allPoints b.n).filter b.eval

/-- `set_num_vars(m)`: panics if a variable in the diagram is `≥ m` -/
def setNumVars (b : Inner) (m : Nat) : Outcome Inner :=
  if (supportSet b).any (fun i => decide (m ≤ i)) then .panic "lib-bdd set_num_vars: variable out of range"
  else .ok (ofFn m fun q => b.eval ((List.range b.n).map fun i => q.getD i false))

def strictlyIncreasing : List Nat → Bool
  | [] => true
  | [_] => true
  | a :: b :: rest => decide (a < b) && strictlyIncreasing (b :: rest)

def permLookup (perm : List (Nat × Nat)) (i : Nat) : Nat :=
  match perm.find? (fun p => p.1 == i) with
  | some p => p.2
  | none => i

/-- `rename_variables(&perm)`: only decision nodes (support variables) are renamed; asserts that
    the renamed support stays in range and strictly increasing. `perm` is a `HashMap` in the
    code, here an association list in arbitrary order. -/
def renameVariables (b : Inner) (perm : List (Nat × Nat)) : Outcome Inner :=
  let s := supportSet b
  if s.isEmpty then .ok b
  else
    let s' := s.map (permLookup perm)
    if !(s'.all fun i => decide (i < b.n)) || !(strictlyIncreasing s') then
      .panic "lib-bdd rename_variables: assertion failed"
    else .ok (ofFn b.n fun q =>
      b.eval ((List.range b.n).map fun i => if s.contains i then q.getD (permLookup perm i) false else false))

/-! canonical ROBDD size: `1` for false, `2` for true, else `2 +` the number of distinct
    sub-tables (cofactors by a prefix of the variables) whose two halves differ. -/
def chunks (k : Nat) : Nat → List Bool → List (List Bool)
  | 0, _ => []
  | fuel + 1, l => if l.isEmpty || k = 0 then [] else l.take k :: chunks k fuel (l.drop k)

def dedup {β : Type} [DecidableEq β] : List β → List β
  | [] => []
  | x :: xs => if xs.contains x then dedup xs else x :: dedup xs

def levelNodes (tt : List Bool) (n k : Nat) : Nat :=
  let sz := 2 ^ (n - k)
  ((dedup (chunks sz tt.length tt)).filter fun c => c.take (sz / 2) != c.drop (sz / 2)).length

def size (b : Inner) : Nat :=
  if b.isFalse then 1 else if b.isTrue then 2
  else 2 + ((List.range b.n).map (levelNodes b.tt b.n)).sum

end Inner
end BoolFn
