import BoolFn.Inner
import BoolFn.Expr
/-! Model of the wrapper `src/bdd` over the semantic `Inner` model of lib-bdd: name ↔ index maps,
    lifting to the union of inputs (`extend_bdd_variables`), pruning (`prune_bdd_variables`), and
    the `BooleanFunction` / `Evaluate` / operator impls, with the `fix:` commits for
    `is_equivalent`, `derivative` and `substitute`. -/
namespace BoolFn

structure Bdd (α : Type) where
  inputs : List α
  inner : Inner
deriving Repr, Inhabited, DecidableEq

variable {α : Type}

/-- position of an element: `Vec::binary_search` on a strictly sorted vector -/
def indexOf? [DecidableEq α] (x : α) : List α → Option Nat
  | [] => none
  | y :: ys => if y = x then some 0 else (indexOf? x ys).map (· + 1)

namespace Bdd

def WF [Ord α] (b : Bdd α) : Prop :=
  StrictSorted b.inputs ∧ b.inner.n = b.inputs.length ∧ b.inner.tt.length = 2 ^ b.inner.n

def isWF [Ord α] (b : Bdd α) : Bool :=
  isStrictSorted b.inputs && b.inner.n == b.inputs.length && b.inner.tt.length == 2 ^ b.inner.n

/-- specification: value under a total assignment -/
def den (ρ : α → Bool) (b : Bdd α) : Bool := b.inner.eval (b.inputs.map ρ)

def mkConst (v : Bool) : Bdd α := ⟨[], Inner.mkConst 0 v⟩
def mkLiteral (x : α) (v : Bool) : Bdd α := ⟨[x], Inner.mkLiteral 1 0 v⟩
def nodeCount (b : Bdd α) : Nat := b.inner.size
def not (b : Bdd α) : Bdd α := ⟨b.inputs, b.inner.not⟩

section
variable [DecidableEq α]

/-- `map_var_outer_to_inner` -/
def outerToInner (b : Bdd α) (x : α) : Option Nat := indexOf? x b.inputs
/-- `map_var_inner_to_outer` -/
def innerToOuter (b : Bdd α) (i : Nat) : Option α := b.inputs[i]?

/-- the `HashMap` permutation of `extend_bdd_variables`: `(old_i, new_i)` for moved variables;
    `none` models the `expect` panic -/
def extendPerm (old new : List α) : Option (List (Nat × Nat)) :=
  (old.zipIdx.mapM fun x => (indexOf? x.1 new).map fun ni => (x.2, ni)).map
    fun l => l.filter fun p => p.1 != p.2

/-- `extend_bdd_variables` -/
def extend (b : Bdd α) (new : List α) : Outcome (Bdd α) :=
  if b.inputs = new then .ok b
  else if !(b.inputs.all new.contains) then .panic "extend_variables.rs:22 debug_assert"
  else match extendPerm b.inputs new with
    | none => .panic "extend_variables.rs:33 expect"
    | some perm =>
      (b.inner.setNumVars new.length).bind fun i1 =>
      (if perm.isEmpty then .ok i1 else i1.renameVariables perm).bind fun i2 =>
      .ok ⟨new, i2⟩

/-- the permutation of `prune_bdd_variables`: `(old_i, new_i)` -/
def prunePerm (old new : List α) : Option (List (Nat × Nat)) :=
  (new.zipIdx.mapM fun x => (indexOf? x.1 old).map fun oi => (oi, x.2)).map
    fun l => l.filter fun p => p.1 != p.2

def essentialInputsRaw (b : Bdd α) : Option (List α) := b.inner.supportSet.mapM b.innerToOuter

/-- `prune_bdd_variables` -/
def prune (b : Bdd α) (new : List α) : Outcome (Bdd α) :=
  if b.inputs = new then .ok b
  else match essentialInputsRaw b with
    | none => .panic "boolean_function.rs:28 unwrap"
    | some ess =>
      if !(ess.all new.contains) then .panic "prune_variables.rs:21 debug_assert"
      else match prunePerm b.inputs new with
        | none => .panic "prune_variables.rs:33 expect"
        | some perm =>
          (if perm.isEmpty then .ok b.inner else b.inner.renameVariables perm).bind fun i1 =>
          (i1.setNumVars new.length).bind fun i2 =>
          .ok ⟨new, i2⟩

/-- `evaluate_with_default` -/
def eval (v : PVal α) (d : Bool) (b : Bdd α) : Bool :=
  b.inner.eval (b.inputs.map fun x => (PVal.get? v x).getD d)

/-- `evaluate_checked`: missing inputs in input order -/
def evalChecked (v : PVal α) (b : Bdd α) : Except (List α) Bool :=
  let missing := b.inputs.filter fun x => (PVal.get? v x).isNone
  if missing.isEmpty then .ok (b.inner.eval (b.inputs.map fun x => (PVal.get? v x).getD false))
  else .error missing

/-- `restrict_and_prune_common` -/
def restrictAndPrune (self : Bdd α) (removed : α → Bool) (newBdd : Bdd α) : Outcome (Bdd α) :=
  prune newBdd (self.inputs.filter fun x => !(removed x))

/-- `restrict` -/
def restrict (v : PVal α) (b : Bdd α) : Outcome (Bdd α) :=
  let fix := v.filterMap fun p => (b.outerToInner p.1).map fun i => (i, p.2)
  restrictAndPrune b (fun x => (PVal.get? v x).isSome) ⟨b.inputs, b.inner.restrict fix⟩

def existsQ (vs : List α) (b : Bdd α) : Outcome (Bdd α) :=
  restrictAndPrune b vs.contains ⟨b.inputs, b.inner.existsV (vs.filterMap b.outerToInner)⟩

def forallQ (vs : List α) (b : Bdd α) : Outcome (Bdd α) :=
  restrictAndPrune b vs.contains ⟨b.inputs, b.inner.forAllV (vs.filterMap b.outerToInner)⟩

/-- repaired `derivative`: fold `F[v=0] xor F[v=1]`; a non-input contributes `F xor F` -/
def derivStep (b : Bdd α) (acc : Inner) (x : α) : Inner :=
  match b.outerToInner x with
  | some i => (acc.varRestrict i false).xor (acc.varRestrict i true)
  | none => acc.xor acc

def derivative (vs : List α) (b : Bdd α) : Outcome (Bdd α) :=
  restrictAndPrune b vs.contains ⟨b.inputs, vs.foldl (derivStep b) b.inner⟩

variable [Ord α]

/-- `inputs()` -/
def inputsSet (b : Bdd α) : List α := sortDedup b.inputs

/-- `essential_inputs()` -/
def essentialInputs (b : Bdd α) : Outcome (List α) :=
  match essentialInputsRaw b with
  | none => .panic "boolean_function.rs:28 unwrap"
  | some l => .ok (sortDedup l)

def essentialDegree (b : Bdd α) : Nat := b.inner.supportSet.length
def degree (b : Bdd α) : Nat := (inputsSet b).length

/-- `union_and_extend`: push the missing names, sort, extend both -/
def unionAndExtend (a b : Bdd α) : Outcome (Bdd α × Bdd α × List α) :=
  let common := sortDedup (a.inputs ++ b.inputs.filter fun x => !(a.inputs.contains x))
  (extend a common).bind fun a' => (extend b common).bind fun b' => .ok (a', b', common)

/-- `bit_common` -/
def bitCommon (op : Inner → Inner → Inner) (me other : Bdd α) : Outcome (Bdd α) :=
  if me.inputs = other.inputs then .ok ⟨me.inputs, op me.inner other.inner⟩
  else (unionAndExtend me other).bind fun r => .ok ⟨r.2.2, op r.1.inner r.2.1.inner⟩

def mkAnd (a b : Bdd α) := bitCommon Inner.and a b
def mkOr (a b : Bdd α) := bitCommon Inner.or a b
def mkXor (a b : Bdd α) := bitCommon Inner.xor a b

/-- repaired `is_equivalent`: `iff(..).is_true()` -/
def isEquivalent (a b : Bdd α) : Outcome Bool :=
  (unionAndExtend a b).bind fun r => .ok (r.1.inner.iff r.2.1.inner).isTrue

/-- `is_implied_by`: `other.imp(self).is_true()` -/
def isImpliedBy (self other : Bdd α) : Outcome Bool :=
  (unionAndExtend self other).bind fun r => .ok (r.2.1.inner.imp r.1.inner).isTrue

/-- `union_and_extend_n_ary` -/
def unionAndExtendNAry (self : Bdd α) (others : List (α × Bdd α)) :
    Outcome (Bdd α × List (α × Bdd α) × List α) :=
  let common := sortDedup (others.foldl
    (fun acc o => acc ++ o.2.inputs.filter fun x => !(acc.contains x)) self.inputs)
  (extend self common).bind fun s' =>
  (others.foldr (fun o (acc : Outcome (List (α × Bdd α))) =>
      acc.bind fun l => (extend o.2 common).bind fun o' => Outcome.ok ((o.1, o') :: l))
    (Outcome.ok [])).bind fun os' => Outcome.ok (s', os', common)

/-- repaired `substitute` (proxy variables; `boolean_function.rs:68-120`) -/
def substitute (m : List (α × Bdd α)) (self : Bdd α) : Outcome (Bdd α) :=
  if m.any (fun kv => kv.2.inputs.contains kv.1) then
    .panic "boolean_function.rs:79 substituted variable appears in the substituting BDD"
  else
    (unionAndExtendNAry self m).bind fun r =>
    let selfL := r.1
    let ext := r.2.1
    let common := r.2.2
    let substituted := ext.filterMap fun kv => (selfL.outerToInner kv.1).map fun i => (i, kv.2)
    let inputCount := common.length
    let total := inputCount + substituted.length
    (selfL.inner.setNumVars total).bind fun r0 =>
    let r1 := substituted.zipIdx.foldl
      (fun acc x => acc.substitute x.1.1 (Inner.mkVar total (inputCount + x.2))) r0
    (substituted.zipIdx.foldl
      (fun (acc : Outcome Inner) x => acc.bind fun a =>
        (x.1.2.inner.setNumVars total).bind fun vb => .ok (a.substitute (inputCount + x.2) vb))
      (.ok r1)).bind fun r2 =>
    (r2.setNumVars inputCount).bind fun r3 =>
    let retained := common.filter fun x =>
      (lookup m x).isNone || m.any fun kv => kv.2.inputs.contains x
    prune ⟨selfL.inputs, r3⟩ retained

end

/-! iterators -/
def domain (b : Bdd α) : List (List Bool) := allPoints b.inputs.length
def image (b : Bdd α) : List Bool := (allPoints b.inputs.length).map b.inner.eval
def relation (b : Bdd α) : List (List Bool × Bool) := (domain b).zip (image b)
/-- `support()`: the satisfying valuations, as a set -/
def support (b : Bdd α) : List (List Bool) := b.inner.satValuations
def weight (b : Bdd α) : Nat := b.inner.cardinality
/-- `sat_point()` is *some* satisfying valuation (`sat_witness`): a relation -/
def IsSatPoint (b : Bdd α) (r : Option (List Bool)) : Prop :=
  match r with
  | some p => p ∈ support b
  | none => support b = []
def isSatPoint (b : Bdd α) (r : Option (List Bool)) : Bool :=
  match r with
  | some p => (support b).contains p
  | none => (support b).isEmpty

end Bdd
end BoolFn
