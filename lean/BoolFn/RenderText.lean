import BoolFn.Render
/-! Model of the text `tabled` produces for the four styles of `to_string_formatted`
    (`Style::empty()` with right padding 1; `ascii`, `modern`, `markdown` with the default padding of
    one space on each side), for cells whose display width is their number of characters (no wide or
    zero-width characters). The layout engine itself is a third-party crate: this model is *validated*
    by the correspondence check, which compares the rendered text byte for byte. -/
namespace BoolFn

/-- lines joined by a one-character separator (no trailing separator) -/
def joinSep (c : Char) : List (List Char) → List Char
  | [] => []
  | [l] => l
  | l :: l' :: ls => l ++ c :: joinSep c (l' :: ls)

/-- the width of column `j`: the longest cell -/
def colWidth (grid : List (List String)) (j : Nat) : Nat :=
  (grid.map fun row => (row.getD j "").toList.length).foldl max 0

def colWidths (grid : List (List String)) : List Nat :=
  match grid with
  | [] => []
  | r :: _ => (List.range r.length).map (colWidth grid)

/-- a cell padded on the right to the column width -/
def padCell (w : Nat) (s : String) : List Char := s.toList ++ List.replicate (w - s.toList.length) ' '

def paddedRow (ws : List Nat) (row : List String) : List (List Char) := List.zipWith padCell ws row

/-- `Style::empty()` with `Padding::new(0, 1, 0, 0)` -/
def emptyLine (ws : List Nat) (row : List String) : List Char :=
  (paddedRow ws row).flatMap fun c => c ++ [' ']

/-- a framed row: `| a | bbb |` -/
def framedLine (bar : Char) (ws : List Nat) (row : List String) : List Char :=
  bar :: (paddedRow ws row).flatMap fun c => ' ' :: c ++ [' ', bar]

/-- a horizontal rule: `+---+-----+` -/
def ruleLine (l m r h : Char) (ws : List Nat) : List Char :=
  l :: joinSep m (ws.map fun w => List.replicate (w + 2) h) ++ [r]

def interleave (sep : List Char) : List (List Char) → List (List Char)
  | [] => []
  | [l] => [l]
  | l :: l' :: ls => l :: sep :: interleave sep (l' :: ls)

def renderLines (style : Style) (grid : List (List String)) : List (List Char) :=
  let ws := colWidths grid
  match style with
  | .empty => grid.map (emptyLine ws)
  | .ascii =>
    let rule := ruleLine '+' '+' '+' '-' ws
    rule :: grid.flatMap fun row => [framedLine '|' ws row, rule]
  | .modern =>
    [ruleLine '┌' '┬' '┐' '─' ws] ++ interleave (ruleLine '├' '┼' '┤' '─' ws) (grid.map (framedLine '│' ws)) ++
      [ruleLine '└' '┴' '┘' '─' ws]
  | .markdown =>
    match grid with
    | [] => []
    | h :: rest => framedLine '|' ws h :: ruleLine '|' '|' '|' '-' ws :: rest.map (framedLine '|' ws)

/-- `to_string_formatted` on the cell grid -/
def render (style : Style) (grid : List (List String)) : String :=
  String.ofList (joinSep '\n' (renderLines style grid))

/-- the width model applies: every character is one column wide (printable ASCII, Latin-1 and
    Latin Extended letters; no control, combining or wide characters) -/
def narrowText (s : String) : Bool :=
  s.toList.all fun c => (0x20 ≤ c.toNat && c.toNat ≤ 0x7E) || (0xA1 ≤ c.toNat && c.toNat ≤ 0x24F && c.toNat != 0xAD)

end BoolFn
