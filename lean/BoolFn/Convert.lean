import BoolFn.Table
import BoolFn.Bdd
/-! The six conversions (`src/table/traits/from_expression.rs`, `from_bdd.rs`,
    `src/bdd/traits/from_expression.rs`, `from_table.rs`, `src/expressions/traits/from_bdd.rs`,
    `TruthTable::to_expression_trivial`). -/
namespace BoolFn
variable {α : Type}

/-- the only error a conversion may return (`TryFromIntError` from `u16::try_from`) -/
inductive ConvErr where
  | tooManyVariables
deriving Repr, DecidableEq

/-- `make_inner_variable_set` (after the `fix:` for D15): `u16::try_from(len + 2)? - 2`, so the
    conversion returns the error as soon as `len + 2` does not fit into `u16` -/
def maxBddVars : Nat := 65533
/-- `BddVariableSet::new_anonymous` of lib-bdd panics for `u16::MAX - 1` variables or more -/
def libBddPanicsFrom : Nat := 65534

/-- `BddVariableSet::mk_dnf`: disjunction of conjunctive clauses `(variable, value)` -/
def Inner.mkDnf (n : Nat) (clauses : List (List (Nat × Bool))) : Inner :=
  Inner.ofFn n fun p => clauses.any fun c => c.all fun l => p.getD l.1 false == l.2

section
variable [DecidableEq α]

/-- `From<&Expression> for TruthTable` given the sorted literals -/
def exprToTableWith (lits : List α) (e : Expr α) : Table α :=
  let outputs := (powerSet lits).foldl
    (fun out opt => out.set (valuesToRowIndex lits opt false) (e.eval opt false))
    (List.replicate (2 ^ lits.length) false)
  ⟨lits, outputs⟩

mutual
/-- `try_from_rec`; `none` models the `expect` on the literal index map -/
def exprToInner (lits : List α) (n : Nat) : Expr α → Option Inner
  | .lit a => (indexOf? a lits).map fun i => Inner.mkVar n i
  | .const b => some (Inner.mkConst n b)
  | .not e => (exprToInner lits n e).map Inner.not
  | .and es => (exprToInnerL lits n es).map fun l =>
      match l with
      | [] => Inner.mkConst n true
      | c :: cs => cs.foldl Inner.and c
  | .or es => (exprToInnerL lits n es).map fun l =>
      match l with
      | [] => Inner.mkConst n false
      | c :: cs => cs.foldl Inner.or c
def exprToInnerL (lits : List α) (n : Nat) : List (Expr α) → Option (List Inner)
  | [] => some []
  | e :: es => match exprToInner lits n e, exprToInnerL lits n es with
    | some i, some l => some (i :: l)
    | _, _ => none
end

/-- `From<Bdd> for TruthTable` -/
def bddToTableWith (ins : List α) (b : Bdd α) : Table α :=
  let outputs := (Bdd.support b).foldl (fun out p => out.set (pointToRowIndex p) true)
    (List.replicate (2 ^ ins.length) false)
  ⟨ins, outputs⟩

/-- `From<Bdd> for Expression`, for a given result `dnf` of `to_optimized_dnf()`;
    `none` models the `expect` on `map_var_inner_to_outer` -/
def bddToExprWith (dnf : List (List (Nat × Bool))) (b : Bdd α) : Option (Expr α) :=
  if b.inner.isTrue then some (.const true)
  else if b.inner.isFalse then some (.const false)
  else (dnf.mapM fun (c : List (Nat × Bool)) =>
      (c.mapM fun (l : Nat × Bool) => (b.innerToOuter l.1).map fun x =>
        if l.2 then Expr.lit x else Expr.not (Expr.lit x)).map Expr.and).map Expr.or

/-- a canonical clause list satisfying the `to_optimized_dnf` contract: the minterms -/
def Inner.mintermDnf (b : Inner) : List (List (Nat × Bool)) :=
  b.satValuations.map fun p => p.zipIdx.map fun x => (x.2, x.1)

variable [Ord α]

def exprToTable (e : Expr α) : Table α := exprToTableWith (Expr.inputs e) e

/-- `TryFrom<Expression> for Bdd` -/
def exprToBdd (e : Expr α) : Except ConvErr (Outcome (Bdd α)) :=
  let lits := Expr.inputs e
  if lits.length > maxBddVars then .error .tooManyVariables
  else if lits.length ≥ libBddPanicsFrom then .ok (.panic "lib-bdd: Too many BDD variables")
  else .ok (match exprToInner lits lits.length e with
    | none => .panic "from_expression.rs:40 expect"
    | some i => .ok ⟨lits, i⟩)

/-- `TryFrom<TruthTable> for Bdd` **as the code has it** (known finding D1): one full valuation per
    *domain* point, whatever the outputs -/
def tableToBdd (t : Table α) : Except ConvErr (Bdd α) :=
  let lits := Table.gatherLiterals t
  if lits.length > maxBddVars then .error .tooManyVariables
  else .ok ⟨lits, Inner.mkDnf lits.length
    ((Table.domain t).map fun p => p.zipIdx.map fun x => (x.2, x.1))⟩

def bddToTable (b : Bdd α) : Table α := bddToTableWith (Bdd.inputsSet b) b

def tableToExpr (t : Table α) : Expr α := Table.toExpressionTrivial t
end

end BoolFn
