/-! Basic vocabulary of the model: partial valuations (`BTreeMap<T,bool>`), sorted sets
    (`BTreeSet<T>`), outcomes of functions that can panic. Core Lean only. -/
namespace BoolFn

variable {α : Type}

/-- Result of a Rust function that may panic. `site` names the source location. -/
inductive Outcome (β : Type) where
  | ok : β → Outcome β
  | panic : String → Outcome β
deriving Repr

namespace Outcome
def bind {β γ : Type} : Outcome β → (β → Outcome γ) → Outcome γ
  | ok b, f => f b
  | panic s, _ => panic s
def map {β γ : Type} (f : β → γ) : Outcome β → Outcome γ
  | ok b => ok (f b)
  | panic s => panic s
def isOk {β : Type} : Outcome β → Bool
  | ok _ => true
  | panic _ => false
instance : Monad Outcome where
  pure := ok
  bind := bind
end Outcome

/-- `BTreeMap<T,bool>` as an association list; only `get?` is observed. -/
abbrev PVal (α : Type) := List (α × Bool)

section
variable [DecidableEq α]

/-- `BTreeMap::get` -/
def PVal.get? (v : PVal α) (x : α) : Option Bool := (v.find? (fun p => p.1 == x)).map (·.2)

def PVal.keys (v : PVal α) : List α := v.map (·.1)

/-- total assignment obtained by completing a partial valuation with a default -/
def complete (v : PVal α) (d : Bool) : α → Bool := fun x => (PVal.get? v x).getD d

/-- `ρ` overridden by the partial valuation `v` -/
def override (ρ : α → Bool) (v : PVal α) : α → Bool := fun x => (PVal.get? v x).getD (ρ x)

/-- association-list lookup used for substitution maps (`BTreeMap<T,F>`) -/
def lookup {β : Type} (m : List (α × β)) (x : α) : Option β := (m.find? (fun p => p.1 == x)).map (·.2)
end

/-! ### sorted duplicate-free lists: `BTreeSet<T>` and sorted `Vec<T>` -/
section
variable [Ord α]

def ltb (a b : α) : Bool := compare a b == .lt

/-- `BTreeSet::insert` -/
def insertSorted (a : α) : List α → List α
  | [] => [a]
  | b :: bs =>
    match compare a b with
    | .lt => a :: b :: bs
    | .eq => b :: bs
    | .gt => b :: insertSorted a bs

/-- `BTreeSet::from_iter` / `Vec::sort` + dedup -/
def sortDedup (l : List α) : List α := l.foldr insertSorted []

/-- strictly increasing -/
def StrictSorted (l : List α) : Prop := l.Pairwise (fun a b => compare a b = .lt)

def isStrictSorted : List α → Bool
  | [] => true
  | [_] => true
  | a :: b :: rest => ltb a b && isStrictSorted (b :: rest)

/-- `BTreeSet::union` -/
def unionSorted (a b : List α) : List α := sortDedup (a ++ b)
end

end BoolFn
