import BoolFn.Convert
import BoolFn.NormalForm
/-! Decidable specification predicates: the oracle the correspondence check applies to the
    *implementation's* answers. Written against the denotations (`den`) and clean-room reference
    definitions, independently of the faithful model functions. Variables are `String`s. -/
namespace BoolFn.Spec
open BoolFn

/-- a function object of one of the three representations -/
inductive Fn where
  | E (e : Expr String)
  | T (t : Table String)
  | B (b : Bdd String)
deriving Inhabited

/-- membership-based set operations on name lists -/
def subset (a b : List String) : Bool := a.all b.contains
def sameSet (a b : List String) : Bool := subset a b && subset b a
def union (a b : List String) : List String := a ++ b.filter fun x => !(a.contains x)
def diff (a b : List String) : List String := a.filter fun x => !(b.contains x)
def nodup : List String → Bool
  | [] => true
  | x :: xs => !(xs.contains x) && nodup xs

namespace Fn
/-- declared inputs, as a list of names without a promise of order -/
def inputs : Fn → List String
  | E e => e.vars.eraseDups
  | T t => t.inputs
  | B b => b.inputs
/-- value under a total assignment -/
def den (ρ : String → Bool) : Fn → Bool
  | E e => e.den ρ
  | T t => t.den ρ
  | B b => b.den ρ
/-- representation invariant (C15) -/
def wf : Fn → Bool
  | E _ => true
  | T t => t.isWF
  | B b => b.isWF
def kind : Fn → Nat
  | E _ => 0 | T _ => 1 | B _ => 2
end Fn

/-- lexicographic enumeration of all points of length `n`, `false` first (reference for `domain`) -/
def lexPoints : Nat → List (List Bool)
  | 0 => [[]]
  | n + 1 => (lexPoints n).map (false :: ·) ++ (lexPoints n).map (true :: ·)

/-- every total assignment of the names `u` (all other names read `false`) -/
def envs (u : List String) : List (PVal String) := (lexPoints u.length).map fun p => u.zip p

def envOf (v : PVal String) : String → Bool := complete v false

/-- `f` and `g` agree on every assignment of `u` -/
def agreeOn (u : List String) (f g : (String → Bool) → Bool) : Bool :=
  (envs u).all fun v => f (envOf v) == g (envOf v)

/-- C01: conversion result `y` of source `x` -/
def convOk (x y : Fn) : Bool :=
  y.wf && agreeOn (union x.inputs y.inputs) (x.den) (y.den) &&
  (match y with
   | .E _ => subset y.inputs x.inputs
   | _ => sameSet y.inputs x.inputs)

/-- C02 -/
def evalDefaultOk (x : Fn) (v : PVal String) (d : Bool) (ans : Bool) : Bool :=
  ans == x.den (complete v d)

def evalCheckedOk (x : Fn) (v : PVal String) (ans : Except (List String) Bool) : Bool :=
  let missing := diff x.inputs v.keys
  match ans with
  | .ok b => missing.isEmpty && b == x.den (complete v false)
  | .error s => !missing.isEmpty && sameSet s missing

/-- C03 -/
def connectiveOk (op : Bool → Bool → Bool) (a b y : Fn) : Bool :=
  y.wf && agreeOn (union (union a.inputs b.inputs) y.inputs) (fun ρ => op (a.den ρ) (b.den ρ)) y.den &&
  sameSet y.inputs (union a.inputs b.inputs)

def notOk (a y : Fn) : Bool :=
  y.wf && agreeOn (union a.inputs y.inputs) (fun ρ => !(a.den ρ)) y.den && sameSet y.inputs a.inputs

/-- C04 -/
def equivOk (a b : Fn) (ans : Bool) : Bool :=
  ans == agreeOn (union a.inputs b.inputs) a.den b.den
def impliedOk (self other : Fn) (ans : Bool) : Bool :=
  ans == (envs (union self.inputs other.inputs)).all fun v => !(other.den (envOf v)) || self.den (envOf v)

/-- C05 -/
def restrictOk (x : Fn) (r : PVal String) (y : Fn) : Bool :=
  y.wf && sameSet y.inputs (diff x.inputs r.keys) &&
  agreeOn (union (union x.inputs r.keys) y.inputs) (fun ρ => x.den (override ρ r)) y.den

/-- all assignments of the names `vs` as partial valuations -/
def assignments (vs : List String) : List (PVal String) := envs vs

/-- C06 -/
def existsOk (x : Fn) (vs : List String) (y : Fn) : Bool :=
  y.wf && sameSet y.inputs (diff x.inputs vs) &&
  agreeOn (union (union x.inputs vs) y.inputs)
    (fun ρ => (assignments vs).any fun a => x.den (override ρ a)) y.den
def forallOk (x : Fn) (vs : List String) (y : Fn) : Bool :=
  y.wf && sameSet y.inputs (diff x.inputs vs) &&
  agreeOn (union (union x.inputs vs) y.inputs)
    (fun ρ => (assignments vs).all fun a => x.den (override ρ a)) y.den

/-- C07 -/
def derivativeOk (x : Fn) (vs : List String) (y : Fn) : Bool :=
  y.wf && sameSet y.inputs (diff x.inputs vs) &&
  agreeOn (union (union x.inputs vs) y.inputs)
    (fun ρ => (assignments vs).foldl (fun acc a => acc != x.den (override ρ a)) false) y.den

/-- the assignment the original function is read at: every key reads its replacement at ρ -/
def composedEnv (m : List (String × Fn)) (ρ : String → Bool) : String → Bool :=
  fun n => match lookup m n with
    | some g => g.den ρ
    | none => ρ n

/-- C08 -/
def substituteOk (x : Fn) (m : List (String × Fn)) (y : Fn) : Bool :=
  let keys := m.map (·.1)
  let valueInputs := m.foldl (fun acc kv => union acc kv.2.inputs) []
  y.wf &&
  subset y.inputs (union (diff x.inputs keys) valueInputs) &&
  (keys.all fun k => !(y.inputs.contains k) || m.any fun kv => kv.2.inputs.contains k) &&
  (match y with
   | .E _ => true
   | _ => sameSet y.inputs (union (diff x.inputs keys) valueInputs)) &&
  agreeOn (union (union (union x.inputs keys) valueInputs) y.inputs)
    (fun ρ => x.den (composedEnv m ρ)) y.den

def substitutePanicAllowed (x : Fn) (m : List (String × Fn)) : Bool :=
  x.kind == 2 && m.any fun kv => kv.2.inputs.contains kv.1

/-- C09 -/
def essentialRef (x : Fn) : List String :=
  x.inputs.filter fun u => (envs x.inputs).any fun v =>
    x.den (override (envOf v) [(u, false)]) != x.den (override (envOf v) [(u, true)])

def essentialOk (x : Fn) (ans : List String) : Bool := nodup ans && sameSet ans (essentialRef x)

/-- C10 -/
structure Enum where
  domain : List (List Bool)
  image : List Bool
  relation : List (List Bool × Bool)
  support : List (List Bool)
  weight : Nat
  satPoint : Option (List Bool)

def nodupPts : List (List Bool) → Bool
  | [] => true
  | x :: xs => !(xs.contains x) && nodupPts xs

def sortedInputs (x : Fn) : List String := sortDedup x.inputs

def enumOk (x : Fn) (r : Enum) : Bool :=
  let ins := sortedInputs x
  let dom := lexPoints ins.length
  let img := dom.map fun p => x.den (envOf (ins.zip p))
  let ones := (dom.zip img).filter (·.2) |>.map (·.1)
  r.domain == dom && r.image == img && r.relation == dom.zip img &&
  nodupPts r.support && r.support.all ones.contains && ones.all r.support.contains &&
  (x.kind == 2 || r.support == ones) &&
  r.weight == ones.length &&
  (match r.satPoint with
   | some p => ones.contains p
   | none => ones.isEmpty)

/-! C11: reference shape predicates, written independently of `isNnf`/`isCnf`/`isDnf` -/
section
variable {α : Type}
mutual
def constFree : Expr α → Bool
  | .lit _ => true
  | .const _ => false
  | .not e => constFree e
  | .and es => constFreeL es
  | .or es => constFreeL es
def constFreeL : List (Expr α) → Bool
  | [] => true
  | e :: es => constFree e && constFreeL es
end

mutual
def noEmptyNary : Expr α → Bool
  | .lit _ => true
  | .const _ => true
  | .not e => noEmptyNary e
  | .and es => !es.isEmpty && noEmptyNaryL es
  | .or es => !es.isEmpty && noEmptyNaryL es
def noEmptyNaryL : List (Expr α) → Bool
  | [] => true
  | e :: es => noEmptyNary e && noEmptyNaryL es
end

mutual
/-- negations only on variables -/
def negOnlyOnVars : Expr α → Bool
  | .lit _ => true
  | .const _ => true
  | .not (.lit _) => true
  | .not _ => false
  | .and es => negOnlyOnVarsL es
  | .or es => negOnlyOnVarsL es
def negOnlyOnVarsL : List (Expr α) → Bool
  | [] => true
  | e :: es => negOnlyOnVars e && negOnlyOnVarsL es
end

mutual
/-- `below = true`: we are somewhere below a disjunction, so no conjunction may occur -/
def noAndBelowOr (below : Bool) : Expr α → Bool
  | .lit _ => true
  | .const _ => true
  | .not e => noAndBelowOr below e
  | .and es => !below && noAndBelowOrL below es
  | .or es => noAndBelowOrL true es
def noAndBelowOrL (below : Bool) : List (Expr α) → Bool
  | [] => true
  | e :: es => noAndBelowOr below e && noAndBelowOrL below es
end

mutual
def noOrBelowAnd (below : Bool) : Expr α → Bool
  | .lit _ => true
  | .const _ => true
  | .not e => noOrBelowAnd below e
  | .or es => !below && noOrBelowAndL below es
  | .and es => noOrBelowAndL true es
def noOrBelowAndL (below : Bool) : List (Expr α) → Bool
  | [] => true
  | e :: es => noOrBelowAnd below e && noOrBelowAndL below es
end

def shapeNnf (e : Expr α) : Bool := constFree e && negOnlyOnVars e
def shapeCnf (e : Expr α) : Bool := shapeNnf e && noAndBelowOr false e
def shapeDnf (e : Expr α) : Bool := shapeNnf e && noOrBelowAnd false e
end

inductive NF where | nnf | cnf | dnf
deriving DecidableEq, Repr

def NF.shape : NF → Expr String → Bool
  | .nnf => shapeNnf | .cnf => shapeCnf | .dnf => shapeDnf

/-- C11, conversion clause: same function, no new variables, promised shape -/
def nfOk (k : NF) (e y : Expr String) : Bool :=
  agreeOn (union (Fn.E e).inputs (Fn.E y).inputs) (e.den) (y.den) &&
  subset (Fn.E y).inputs (Fn.E e).inputs &&
  (!(constFree e && noEmptyNary e) || k.shape y)

/-- C11, predicate clause -/
def nfPredOk (k : NF) (e : Expr String) (ans : Bool) : Bool := ans == k.shape e

end BoolFn.Spec
