/-! The audited list of constructs under `/repo/src` (bindings, tests and verification hooks excluded)
    that could carry state, time, environment, randomness or unordered iteration:

    * `HashMap` in `extend_variables.rs` / `prune_variables.rs`: the permutation handed to lib-bdd's
      `rename_variables`, which only *looks keys up* (order independence: `C20.rename_order_independent`);
    * `unsafe` in the same files and in the repaired `Bdd::substitute`: calls of lib-bdd's
      `set_num_vars` / `rename_variables` (not memory-unsafe; modelled with their panics);
    * `lazy_static!` with three `static ref` regexes in `parser/utils/regex.rs`: immutable after
      initialisation.
    Nothing else: no `Cell`/`RefCell`/`Mutex`/`thread_local`/atomics, no clock, environment or RNG. -/
namespace BoolFn.Spec
def auditedImpurity : List (String × String × Nat) := [
  ("src/bdd/traits/boolean_function.rs", "unsafe", 3),
  ("src/bdd/utils/extend_variables.rs", "HashMap", 2),
  ("src/bdd/utils/extend_variables.rs", "unsafe", 1),
  ("src/bdd/utils/prune_variables.rs", "HashMap", 2),
  ("src/bdd/utils/prune_variables.rs", "unsafe", 1),
  ("src/parser/utils/regex.rs", "lazy_static", 1),
  ("src/parser/utils/regex.rs", "static item", 3)
]
end BoolFn.Spec
