import BoolFn.Parser
/-! The expression language as a textbook stratified grammar over token lists:

      Or   → And ( 'or' And )*          a single operand is the operand itself
      And  → Term ( 'and' Term )*       otherwise an n-ary node of all operands
      Term → 'not' Term | true | false | name | '(' Or ')'

    NOT binds tighter than AND, AND tighter than OR; a parenthesised group is one operand. -/
namespace BoolFn.Spec
open BoolFn

/-- an n-ary level with one operand is the operand itself -/
def collapse (mk : List (Expr String) → Expr String) : List (Expr String) → Expr String
  | [e] => e
  | es => mk es

mutual
inductive DTerm : List Tok → Expr String → Prop
  | tt : DTerm [.tt] (.const true)
  | ff : DTerm [.ff] (.const false)
  | lit (n : List Char) : DTerm [.lit n] (.lit (String.ofList n))
  | not {g e} : DTerm g e → DTerm (.not :: g) (.not e)
  | paren {inner e} : DOr inner e → DTerm [.paren inner] e
/-- one or more terms separated by `and` -/
inductive DAndL : List Tok → List (Expr String) → Prop
  | one {g e} : DTerm g e → DAndL g [e]
  | cons {g e gs es} : DTerm g e → DAndL gs es → DAndL (g ++ .and :: gs) (e :: es)
/-- one or more and-level sentences separated by `or` -/
inductive DOrL : List Tok → List (Expr String) → Prop
  | one {g es} : DAndL g es → DOrL g [collapse .and es]
  | cons {g es gs ds} : DAndL g es → DOrL gs ds → DOrL (g ++ .or :: gs) (collapse .and es :: ds)
inductive DOr : List Tok → Expr String → Prop
  | mk {g ds} : DOrL g ds → DOr g (collapse .or ds)
end

end BoolFn.Spec
