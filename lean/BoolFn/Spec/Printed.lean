import BoolFn.Parser
/-! The token list a printed expression stands for, and the side condition of C14 on the shape of the
    expression (definitions shared by `Props/C14.lean` and the character-level proof). -/
namespace BoolFn.C14
open BoolFn

/-- operands joined by a separator token -/
def joinToks (sep : Tok) : List (List Tok) → List Tok
  | [] => []
  | [g] => g
  | g :: gs => g ++ sep :: joinToks sep gs

mutual
/-- the tokens of the printed form -/
def toks : Expr String → List Tok
  | .const true => [.tt]
  | .const false => [.ff]
  | .lit n => [.lit n.toList]
  | .not e => [.not, .paren (toks e)]
  | .and es => [.paren (joinToks .and (toksL es))]
  | .or es => [.paren (joinToks .or (toksL es))]
def toksL : List (Expr String) → List (List Tok)
  | [] => []
  | e :: es => toks e :: toksL es
end

mutual
def nonEmptyNary : Expr String → Bool
  | .const _ => true
  | .lit _ => true
  | .not e => nonEmptyNary e
  | .and es => !es.isEmpty && nonEmptyNaryL es
  | .or es => !es.isEmpty && nonEmptyNaryL es
def nonEmptyNaryL : List (Expr String) → Bool
  | [] => true
  | e :: es => nonEmptyNary e && nonEmptyNaryL es
end


end BoolFn.C14
