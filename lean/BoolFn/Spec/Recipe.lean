import BoolFn.Expr
/-! Recipes: the functions of the law instances (`law.*` requests) are read-once DNFs given by their
    clauses. The driver evaluates a recipe directly from the clause list (`evalRecipe`); the harness
    builds the expression `recipeExpr` from the same list. `Proofs/Recipe.lean` proves that the two
    agree, so the law judges compare the implementation with the model's meaning of the expression. -/
namespace BoolFn
variable {α : Type}

/-- the literal `x` / `!x` -/
def litE (p : α × Bool) : Expr α := if p.2 then .lit p.1 else .not (.lit p.1)

abbrev Clause := List (String × Bool)

/-- a clause as the harness builds it: a single literal stays a literal -/
def clauseExpr (c : Clause) : Expr String :=
  match c.map litE with
  | [l] => l
  | ls => .and ls

/-- the DNF as the harness builds it: a single clause stays a clause -/
def recipeExpr (cs : List Clause) : Expr String :=
  match cs.map clauseExpr with
  | [c] => c
  | xs => .or xs

/-- the recipe evaluated from the clause list under a partial assignment with a default -/
def evalRecipe (cs : List Clause) (look : String → Option Bool) (dflt : Bool) : Bool :=
  cs.any fun c => c.all fun (v, p) => (look v).getD dflt == p

/-- same clauses up to order and repetition, literals up to order and repetition -/
def sameClauseSet (a b : List Clause) : Bool :=
  a.all (fun c => b.any fun d => c.all d.contains && d.all c.contains) &&
  b.all (fun c => a.any fun d => c.all d.contains && d.all c.contains)

end BoolFn
