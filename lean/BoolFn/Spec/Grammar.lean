import BoolFn.Parser
/-! Reference reading of the expression language (C12/C13): a maximal-munch lexer judged on the
    whole remaining input, and a recursive-descent precedence parser
    (`or := and ('|' and)*`, `and := term ('&' term)*`, `term := '!' term | atom`). -/
namespace BoolFn.Spec
open BoolFn

/-- a word written with identifier characters only -/
def isWord (p : Pat) : Bool := p.text.all isIdentChar

/-- does pattern `p` match at the start of `inp` (whole remaining input, no buffer)? A pattern that is
    a *word* (identifier characters only: `and`, `or`, `not`, `true`, `false`, `t`, `f`, `v`, `0`, `1`)
    is a token only when it stands alone as a whole identifier, i.e. is followed by the end of the
    input or by a non-identifier character. (The code decides this per pattern with its
    `LITERAL_IDENTIFIER` regex; the flag it computes is in the regenerated table and
    `patterns_boundary` shows that it is exactly `isWord`.) -/
def patMatches (inp : List Char) (p : Pat) : Bool :=
  prefixFold p.text inp && (!isWord p || boundaryOk (inp.drop p.text.length))

/-- the longest pattern of the table matching at the start of `inp` (first among equals) -/
def longestMatch (inp : List Char) : Option Pat :=
  (patterns.filter (patMatches inp)).foldl
    (fun best p => match best with
      | none => some p
      | some b => if p.text.length > b.text.length then some p else some b) none

/-- reference lexer: the same level structure (white space, groups, braces, identifiers) with the
    *declarative* token recogniser `longestMatch` in place of the code's buffered first match -/
def refLex (s : List Char) : Option (List Tok) :=
  match tokenizeLevelW longestMatch (s.length + 1) s true [] with
  | .ok r => some r.1
  | .error _ => none

/-! recursive-descent reference parser over a token list; each function returns the parsed
    expression and the remaining tokens -/
mutual
def refOr : Nat → List Tok → Option (Expr String × List Tok)
  | 0, _ => none
  | fuel + 1, ts =>
    match refAnd fuel ts with
    | none => none
    | some (e, rest) => refOrTail fuel [e] rest
def refOrTail : Nat → List (Expr String) → List Tok → Option (Expr String × List Tok)
  | 0, _, _ => none
  | fuel + 1, acc, .or :: rest =>
    match refAnd fuel rest with
    | none => none
    | some (e, rest') => refOrTail fuel (acc ++ [e]) rest'
  | _ + 1, acc, rest =>
    match acc with
    | [e] => some (e, rest)
    | _ => some (.or acc, rest)
def refAnd : Nat → List Tok → Option (Expr String × List Tok)
  | 0, _ => none
  | fuel + 1, ts =>
    match refTerm fuel ts with
    | none => none
    | some (e, rest) => refAndTail fuel [e] rest
def refAndTail : Nat → List (Expr String) → List Tok → Option (Expr String × List Tok)
  | 0, _, _ => none
  | fuel + 1, acc, .and :: rest =>
    match refTerm fuel rest with
    | none => none
    | some (e, rest') => refAndTail fuel (acc ++ [e]) rest'
  | _ + 1, acc, rest =>
    match acc with
    | [e] => some (e, rest)
    | _ => some (.and acc, rest)
def refTerm : Nat → List Tok → Option (Expr String × List Tok)
  | 0, _ => none
  | _ + 1, [] => none
  | fuel + 1, .not :: rest => match refTerm fuel rest with
    | none => none
    | some (e, rest') => some (.not e, rest')
  | _ + 1, .tt :: rest => some (.const true, rest)
  | _ + 1, .ff :: rest => some (.const false, rest)
  | _ + 1, .lit n :: rest => some (.lit (String.ofList n), rest)
  | fuel + 1, .paren inner :: rest => match refOr fuel inner with
    | some (e, []) => some (e, rest)
    | _ => none
  | _ + 1, _ :: _ => none
end

def refParseTokens (ts : List Tok) : Option (Expr String) :=
  match refOr (4 * toksSize ts + 4) ts with
  | some (e, []) => some e
  | _ => none

/-- the reference reading of a string -/
def refParse (s : String) : Option (Expr String) :=
  match refLex s.toList with
  | none => none
  | some ts => refParseTokens ts

end BoolFn.Spec
