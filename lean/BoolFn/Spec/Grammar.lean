import BoolFn.Parser
/-! Reference reading of the expression language (C12/C13): a maximal-munch lexer judged on the
    whole remaining input, and a recursive-descent precedence parser
    (`or := and ('|' and)*`, `and := term ('&' term)*`, `term := '!' term | atom`). -/
namespace BoolFn.Spec
open BoolFn

/-- does pattern `p` match at the start of `inp` (whole remaining input, no buffer)? -/
def patMatches (inp : List Char) (p : Pat) : Bool :=
  prefixFold p.text inp &&
  (!p.identLike || match inp.drop p.text.length with | [] => true | c :: _ => !isIdentChar c)

/-- the longest pattern of the table matching at the start of `inp` (first among equals) -/
def longestMatch (inp : List Char) : Option Pat :=
  (patterns.filter (patMatches inp)).foldl
    (fun best p => match best with
      | none => some p
      | some b => if p.text.length > b.text.length then some p else some b) none

inductive LexResult where
  | ok (toks : List Tok) (rest : List Char)
  | error
deriving Repr

/-- reference lexer for one nesting level; `top = false` means we are inside parentheses and stop
    after the matching `)` -/
def refLexLevel : Nat → List Char → Bool → List Tok → LexResult
  | 0, _, _, _ => .error
  | fuel + 1, inp, top, acc =>
    match trimWs inp with
    | [] => if top then .ok acc [] else .error
    | c :: cs =>
      let inp' := c :: cs
      match longestMatch inp' with
      | some p =>
        let rest := inp'.drop p.text.length
        match p.kind with
        | .and => refLexLevel fuel rest top (acc ++ [.and])
        | .or => refLexLevel fuel rest top (acc ++ [.or])
        | .not => refLexLevel fuel rest top (acc ++ [.not])
        | .tt => refLexLevel fuel rest top (acc ++ [.tt])
        | .ff => refLexLevel fuel rest top (acc ++ [.ff])
        | .parenStart =>
          match refLexLevel fuel rest false [] with
          | .ok inner rest' => refLexLevel fuel rest' top (acc ++ [.paren inner])
          | .error => .error
        | .parenEnd => if top then .error else .ok acc rest
        | .braceStart =>
          match untilBrace rest with
          | some (name, rest') => if name.isEmpty then .error else refLexLevel fuel rest' top (acc ++ [.lit name])
          | none => .error
        | .braceEnd => .error
        | .invalid => .error
      | none =>
        let r := spanIdent inp'
        if r.1.isEmpty then .error else refLexLevel fuel r.2 top (acc ++ [.lit r.1])

def refLex (s : List Char) : Option (List Tok) :=
  match refLexLevel (s.length + 1) s true [] with
  | .ok toks _ => some toks
  | .error => none

/-! recursive-descent reference parser over a token list; each function returns the parsed
    expression and the remaining tokens -/
mutual
def refOr : Nat → List Tok → Option (Expr String × List Tok)
  | 0, _ => none
  | fuel + 1, ts =>
    match refAnd fuel ts with
    | none => none
    | some (e, rest) => refOrTail fuel [e] rest
def refOrTail : Nat → List (Expr String) → List Tok → Option (Expr String × List Tok)
  | 0, _, _ => none
  | fuel + 1, acc, .or :: rest =>
    match refAnd fuel rest with
    | none => none
    | some (e, rest') => refOrTail fuel (acc ++ [e]) rest'
  | _ + 1, acc, rest =>
    match acc with
    | [e] => some (e, rest)
    | _ => some (.or acc, rest)
def refAnd : Nat → List Tok → Option (Expr String × List Tok)
  | 0, _ => none
  | fuel + 1, ts =>
    match refTerm fuel ts with
    | none => none
    | some (e, rest) => refAndTail fuel [e] rest
def refAndTail : Nat → List (Expr String) → List Tok → Option (Expr String × List Tok)
  | 0, _, _ => none
  | fuel + 1, acc, .and :: rest =>
    match refTerm fuel rest with
    | none => none
    | some (e, rest') => refAndTail fuel (acc ++ [e]) rest'
  | _ + 1, acc, rest =>
    match acc with
    | [e] => some (e, rest)
    | _ => some (.and acc, rest)
def refTerm : Nat → List Tok → Option (Expr String × List Tok)
  | 0, _ => none
  | _ + 1, [] => none
  | fuel + 1, .not :: rest => match refTerm fuel rest with
    | none => none
    | some (e, rest') => some (.not e, rest')
  | _ + 1, .tt :: rest => some (.const true, rest)
  | _ + 1, .ff :: rest => some (.const false, rest)
  | _ + 1, .lit n :: rest => some (.lit (String.ofList n), rest)
  | fuel + 1, .paren inner :: rest => match refOr fuel inner with
    | some (e, []) => some (e, rest)
    | _ => none
  | _ + 1, _ :: _ => none
end

def refParseTokens (ts : List Tok) : Option (Expr String) :=
  match refOr (4 * toksSize ts + 4) ts with
  | some (e, []) => some e
  | _ => none

/-- the reference reading of a string -/
def refParse (s : String) : Option (Expr String) :=
  match refLex s.toList with
  | none => none
  | some ts => refParseTokens ts

end BoolFn.Spec
