import BoolFn.Codec
/-! Model of `src/expressions` (tree, evaluation, operators, BooleanFunction impl) and of
    `src/traits/power_set.rs`. Faithful: structure of results is reproduced, not only meaning. -/
namespace BoolFn

/-- `ExpressionNode<T>` behind `Expression<T>` (the `Arc` is invisible: values are immutable). -/
inductive Expr (α : Type) where
  | lit : α → Expr α
  | const : Bool → Expr α
  | not : Expr α → Expr α
  | and : List (Expr α) → Expr α
  | or : List (Expr α) → Expr α
deriving Repr, Inhabited, BEq

variable {α : Type}

namespace Expr

mutual
/-- specification: denotation under a total assignment -/
def den (ρ : α → Bool) : Expr α → Bool
  | lit a => ρ a
  | const b => b
  | not e => !(den ρ e)
  | and es => denAll ρ es
  | or es => denAny ρ es
def denAll (ρ : α → Bool) : List (Expr α) → Bool
  | [] => true
  | e :: es => den ρ e && denAll ρ es
def denAny (ρ : α → Bool) : List (Expr α) → Bool
  | [] => false
  | e :: es => den ρ e || denAny ρ es
end

mutual
/-- every literal occurrence, in traversal order (`gather_literals_rec` before the set insert) -/
def vars : Expr α → List α
  | lit a => [a]
  | const _ => []
  | not e => vars e
  | and es => varsL es
  | or es => varsL es
def varsL : List (Expr α) → List α
  | [] => []
  | e :: es => vars e ++ varsL es
end

mutual
def size : Expr α → Nat
  | lit _ => 1
  | const _ => 1
  | not e => 1 + size e
  | and es => 1 + sizeL es
  | or es => 1 + sizeL es
def sizeL : List (Expr α) → Nat
  | [] => 0
  | e :: es => size e + sizeL es
end

/-! `is_literal`, `is_constant`, … (`expression.rs:24-48`) -/
def isLiteral : Expr α → Bool
  | lit _ => true
  | not (lit _) => true
  | _ => false
def isConstant : Expr α → Bool | const _ => true | _ => false
def isNot : Expr α → Bool | not _ => true | _ => false
def isAnd : Expr α → Bool | and _ => true | _ => false
def isOr : Expr α → Bool | or _ => true | _ => false

/-! operators (`src/expressions/traits/bit`, `operations`) -/
def negate (e : Expr α) : Expr α := not e
def binaryAnd (a b : Expr α) : Expr α := and [a, b]
def binaryOr (a b : Expr α) : Expr α := or [a, b]

/-- `BitAnd::bitand` with its flattening -/
def mkAnd (a b : Expr α) : Expr α :=
  match a, b with
  | and es1, and es2 => and (es1 ++ es2)
  | and es1, _ => and (es1 ++ [b])
  | _, and es2 => and (a :: es2)
  | _, _ => and [a, b]

/-- `BitOr::bitor` with its flattening -/
def mkOr (a b : Expr α) : Expr α :=
  match a, b with
  | or es1, or es2 => or (es1 ++ es2)
  | or es1, _ => or (es1 ++ [b])
  | _, or es2 => or (a :: es2)
  | _, _ => or [a, b]

/-- `(self | other) & !(self & other)` -/
def mkXor (a b : Expr α) : Expr α := mkAnd (mkOr a b) (not (mkAnd a b))
/-- `!self | rhs` -/
def mkImply (a b : Expr α) : Expr α := mkOr (not a) b
/-- `(self & rhs) | (!self & !rhs)` -/
def mkIff (a b : Expr α) : Expr α := mkOr (mkAnd a b) (mkAnd (not a) (not b))

section
variable [DecidableEq α]

mutual
/-- `evaluate_with_default` -/
def eval (v : PVal α) (d : Bool) : Expr α → Bool
  | lit a => (PVal.get? v a).getD d
  | const b => b
  | not e => !(eval v d e)
  | and es => evalAll v d es
  | or es => evalAny v d es
def evalAll (v : PVal α) (d : Bool) : List (Expr α) → Bool
  | [] => true
  | e :: es => eval v d e && evalAll v d es
def evalAny (v : PVal α) (d : Bool) : List (Expr α) → Bool
  | [] => false
  | e :: es => eval v d e || evalAny v d es
end

mutual
/-- the literals `evaluate_checked_rec` pushes to `err_values`, in order, with repeats -/
def missing (v : PVal α) : Expr α → List α
  | lit a => if (PVal.get? v a).isNone then [a] else []
  | const _ => []
  | not e => missing v e
  | and es => missingL v es
  | or es => missingL v es
def missingL (v : PVal α) : List (Expr α) → List α
  | [] => []
  | e :: es => missing v e ++ missingL v es
end

/-- `evaluate_checked`: a missing literal evaluates to `true` ("will be unused") -/
def evalChecked (v : PVal α) (e : Expr α) : Except (List α) Bool :=
  let errs := missing v e
  if errs.isEmpty then .ok (eval v true e) else .error errs

mutual
/-- `substitute_rec` -/
def substitute (m : List (α × Expr α)) : Expr α → Expr α
  | lit a => match lookup m a with
    | none => lit a
    | some e => e
  | const b => const b
  | not e => not (substitute m e)
  | and es => and (substituteL m es)
  | or es => or (substituteL m es)
def substituteL (m : List (α × Expr α)) : List (Expr α) → List (Expr α)
  | [] => []
  | e :: es => substitute m e :: substituteL m es
end

/-- `restrict`: substitute constants -/
def restrict (v : PVal α) (e : Expr α) : Expr α :=
  substitute (v.map fun p => (p.1, const p.2)) e

/-- repaired `existential_quantification` etc.: fold over the set, one variable at a time -/
def quantStep (op : Expr α → Expr α → Expr α) (acc : Expr α) (x : α) : Expr α :=
  op (restrict [(x, false)] acc) (restrict [(x, true)] acc)
def existsQ (vs : List α) (e : Expr α) : Expr α := vs.foldl (quantStep mkOr) e
def forallQ (vs : List α) (e : Expr α) : Expr α := vs.foldl (quantStep mkAnd) e
def derivative (vs : List α) (e : Expr α) : Expr α := vs.foldl (quantStep mkXor) e

mutual
/-- `rename_literals` -/
def renameLiterals (m : List (α × α)) : Expr α → Expr α
  | lit a => lit ((lookup m a).getD a)
  | const b => const b
  | not e => not (renameLiterals m e)
  | and es => and (renameLiteralsL m es)
  | or es => or (renameLiteralsL m es)
def renameLiteralsL (m : List (α × α)) : List (Expr α) → List (Expr α)
  | [] => []
  | e :: es => renameLiterals m e :: renameLiteralsL m es
end
end

end Expr

/-! ### `PowerSet` (`src/traits/power_set.rs`) -/

/-- `generate_power_set_rec`, with the literal vector reversed so that `pop` is the head;
    the `true` branch is explored first, as in the source. The map is built by consing; only
    `get?` is observed and the keys are distinct. -/
def powerSetRev : List α → PVal α → List (PVal α)
  | [], cur => [cur]
  | x :: xs, cur => powerSetRev xs ((x, true) :: cur) ++ powerSetRev xs ((x, false) :: cur)

/-- `generate_arbitrary_power_set(variables)` -/
def powerSet (lits : List α) : List (PVal α) := powerSetRev lits.reverse []

namespace Expr
section
variable [DecidableEq α] [Ord α]

/-- `gather_literals()` = `inputs()` -/
def inputs (e : Expr α) : List α := sortDedup (vars e)

/-- `semantic_eq` / `is_equivalent` -/
def semanticEq (a b : Expr α) : Bool :=
  (powerSet (unionSorted (inputs a) (inputs b))).all fun v => eval v false a == eval v false b

/-- `is_implied_by`: `!other | self` on every valuation -/
def isImpliedBy (self other : Expr α) : Bool :=
  (powerSet (unionSorted (inputs self) (inputs other))).all fun v => !(eval v false other) || eval v false self

/-- `essential_inputs` -/
def essentialInputs (e : Expr α) : List α :=
  (inputs e).filter fun x => !(semanticEq (restrict [(x, true)] e) (restrict [(x, false)] e))

def degree (e : Expr α) : Nat := (inputs e).length
def essentialDegree (e : Expr α) : Nat := (essentialInputs e).length

/-- `image()`: evaluate at each domain point mapped onto the sorted literals -/
def image (e : Expr α) : List Bool :=
  (allPoints (inputs e).length).map fun p => eval ((inputs e).zip p) false e
def domain (e : Expr α) : List (List Bool) := allPoints (inputs e).length
def relation (e : Expr α) : List (List Bool × Bool) := (domain e).zip (image e)
def support (e : Expr α) : List (List Bool) := ((relation e).filter (·.2)).map (·.1)
def weight (e : Expr α) : Nat := (support e).length
def satPoint (e : Expr α) : Option (List Bool) := (support e).head?
end
end Expr

end BoolFn
