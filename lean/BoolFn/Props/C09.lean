import BoolFn.Proofs.Oracle2
import BoolFn.Props.C04
import BoolFn.Props.C07
import BoolFn.Proofs.Support
import BoolFn.Proofs.IndexOf
import BoolFn.Proofs.Quant
import BoolFn.Proofs.Essential
/-! # C09 — Declared and essential inputs are reported exactly

The essential inputs of a function are exactly those variables for which some assignment exists
where flipping the variable changes the output; they are always a subset of the declared inputs, and
degree and essential degree are the sizes of the two sets. Representations of the same function
report the same essential inputs, whatever additional variables they merely declare. -/
namespace BoolFn.C09
open BoolFn
variable {α : Type} [DecidableEq α] [Ord α] [Std.TransOrd α] [Std.LawfulEqOrd α]
set_option linter.unusedSectionVars false

/-- the semantic notion: flipping `u` changes the value somewhere -/
def Essential (den : (α → Bool) → Bool) (u : α) : Prop :=
  ∃ ρ : α → Bool, den (upd ρ u false) ≠ den (upd ρ u true)

/-! ### expressions -/
theorem expr_essential_iff (e : Expr α) (u : α) :
    u ∈ e.essentialInputs ↔ Essential (fun ρ => e.den ρ) u := by
  simp only [Expr.essentialInputs, List.mem_filter, Bool.not_eq_true', Essential]
  have hsem : (Expr.semanticEq (e.restrict [(u, true)]) (e.restrict [(u, false)]) = false) ↔
      ∃ ρ, e.den (upd ρ u false) ≠ e.den (upd ρ u true) := by
    rw [← Bool.not_eq_true, C04.expr_equiv_iff]
    simp only [Expr.den_restrict, ← upd_eq_override, Classical.not_forall]
    constructor
    · rintro ⟨ρ, h⟩; exact ⟨ρ, fun e' => h e'.symm⟩
    · rintro ⟨ρ, h⟩; exact ⟨ρ, fun e' => h e'.symm⟩
  rw [hsem]
  constructor
  · exact fun h => h.2
  · rintro ⟨ρ, h⟩
    refine ⟨?_, ρ, h⟩
    -- a variable that does not occur cannot matter
    rw [Expr.inputs, mem_sortDedup]
    apply Classical.byContradiction
    intro hu
    apply h
    apply Expr.den_congr
    intro y hy
    have : u ≠ y := fun e' => hu (e' ▸ hy)
    simp [upd, this]

theorem expr_subset_inputs (e : Expr α) : ∀ u ∈ e.essentialInputs, u ∈ e.inputs := by
  intro u hu; exact (List.mem_filter.mp hu).1

theorem expr_degrees (e : Expr α) : e.degree = e.inputs.length ∧ e.essentialDegree = e.essentialInputs.length :=
  ⟨rfl, rfl⟩

/-- the inputs of an expression are exactly the variables that occur in it, sorted, once each -/
theorem expr_inputs (e : Expr α) : StrictSorted e.inputs ∧ ∀ x, x ∈ e.inputs ↔ x ∈ e.vars :=
  ⟨strictSorted_sortDedup _, fun x => mem_sortDedup x _⟩

/-! ### decision diagrams: `support_set` of the model is the set of positions that matter -/
theorem map_upd_eq_set (ins : List α) (hnd : ins.Nodup) (ρ : α → Bool) (i : Nat) (hi : i < ins.length) (v : Bool) :
    ins.map (upd ρ ins[i] v) = (ins.map ρ).set i v := by
  apply List.ext_getElem (by simp)
  intro k h1 h2
  simp only [List.getElem_map, List.getElem_set, upd]
  by_cases hk : i = k
  · subst hk; simp
  · have : ins[i] ≠ ins[k]'(by simpa using h1) := by
      intro heq
      exact hk ((List.getElem_inj hnd).mp heq)
    simp [hk, this]

theorem bdd_essential_iff (b : Bdd α) (h : b.WF) (u : α) :
    (∃ i, i ∈ b.inner.supportSet ∧ b.inputs[i]? = some u) ↔ Essential (fun ρ => b.den ρ) u := by
  have hnd := h.1.nodup
  constructor
  · rintro ⟨i, hi, hu⟩
    have hlt : i < b.inputs.length := by rw [← h.2.1]; exact Inner.supportSet_lt _ i hi
    have hget : b.inputs[i] = u := by
      rw [List.getElem?_eq_getElem hlt] at hu; exact Option.some.inj hu
    have hdep := ((Inner.mem_supportSet _ i).mp hi).2
    have : ¬ (b.inner.dependsOn i = false) := by simp [hdep]
    rw [Inner.not_dependsOn_iff] at this
    simp only [Classical.not_forall] at this
    obtain ⟨p, hp, hne⟩ := this
    -- an assignment whose point is p
    refine ⟨fun x => match indexOf? x b.inputs with | some k => p.getD k false | none => false, ?_⟩
    have hmap : b.inputs.map (fun x => match indexOf? x b.inputs with | some k => p.getD k false | none => false) = p := by
      apply List.ext_getElem (by simp [hp, h.2.1])
      intro k h1 h2
      simp only [List.getElem_map]
      rw [indexOf?_getElem b.inputs hnd k (by simpa using h1)]
      simp [List.getD_eq_getElem?_getD, List.getElem?_eq_getElem h2]
    simp only [Bdd.den]
    rw [← hget, map_upd_eq_set _ hnd _ i hlt, map_upd_eq_set _ hnd _ i hlt, hmap]
    exact hne
  · rintro ⟨ρ, hne⟩
    simp only [Bdd.den] at hne
    -- u must be an input, otherwise the two points coincide
    cases hidx : indexOf? u b.inputs with
    | none =>
      exfalso; apply hne
      congr 1
      apply List.map_congr_left
      intro y hy
      have : u ≠ y := fun e' => (indexOf?_none_iff u b.inputs).mp hidx (e' ▸ hy)
      simp [upd, this]
    | some i =>
      have hi := indexOf?_some_iff u b.inputs i hidx
      have hget : b.inputs[i] = u := by
        have := hi.2; rw [List.getElem?_eq_getElem hi.1] at this; exact Option.some.inj this
      refine ⟨i, ?_, hi.2⟩
      rw [← hget, map_upd_eq_set _ hnd _ i hi.1, map_upd_eq_set _ hnd _ i hi.1] at hne
      exact Inner.mem_supportSet_of_differs _ i (by rw [h.2.1]; exact hi.1) _ (by simp [h.2.1]) hne

/-- `essential_inputs()` of a well-formed diagram never hits its `unwrap`, is a subset of the
    declared inputs, and `essential_degree` counts the same set -/
theorem bdd_essential_ok (b : Bdd α) (h : b.WF) :
    ∃ l, b.essentialInputs = .ok l ∧ (∀ u, u ∈ l ↔ ∃ i, i ∈ b.inner.supportSet ∧ b.inputs[i]? = some u) ∧
      (∀ u ∈ l, u ∈ b.inputs) := by
  have hall : ∀ i ∈ b.inner.supportSet, ∃ x, b.innerToOuter i = some x := by
    intro i hi
    have hlt : i < b.inputs.length := by rw [← h.2.1]; exact Inner.supportSet_lt _ i hi
    exact ⟨b.inputs[i], by simp [Bdd.innerToOuter, hlt]⟩
  have hm : ∀ (s : List Nat), (∀ i ∈ s, ∃ x, b.innerToOuter i = some x) →
      ∃ l, s.mapM b.innerToOuter = some l ∧ ∀ u, u ∈ l ↔ ∃ i, i ∈ s ∧ b.inputs[i]? = some u := by
    intro s
    induction s with
    | nil => intro _; exact ⟨[], rfl, by simp⟩
    | cons a as ih =>
      intro hs
      obtain ⟨x, hx⟩ := hs a (by simp)
      obtain ⟨l, hl, hmem⟩ := ih (fun i hi => hs i (by simp [hi]))
      refine ⟨x :: l, by simp [List.mapM_cons, hx, hl], ?_⟩
      intro u
      simp only [List.mem_cons, hmem]
      constructor
      · rintro (rfl | ⟨i, hi, hu⟩)
        · exact ⟨a, Or.inl rfl, hx⟩
        · exact ⟨i, Or.inr hi, hu⟩
      · rintro ⟨i, rfl | hi, hu⟩
        · left; have : b.inputs[i]? = some x := hx; rw [this] at hu; exact (Option.some.inj hu).symm
        · right; exact ⟨i, hi, hu⟩
  obtain ⟨l, hl, hmem⟩ := hm _ hall
  refine ⟨sortDedup l, by simp [Bdd.essentialInputs, Bdd.essentialInputsRaw, hl], ?_, ?_⟩
  · intro u; rw [mem_sortDedup, hmem]
  · intro u hu
    rw [mem_sortDedup, hmem] at hu
    obtain ⟨i, _, hi⟩ := hu
    exact List.mem_of_getElem? hi

/-! ### tables: the bit scan of `TruthTable::essential_inputs` (row `r` against row `r ^ (1 << shift)`)
    finds exactly the inputs that matter; subset and degrees -/
theorem table_essential_iff (t : Table α) (h : t.WF) (u : α) :
    u ∈ t.essentialInputs ↔ Essential (fun ρ => t.den ρ) u :=
  Table.essentialInputs_iff t h u

/-- tables and expressions of the same function report the same essential inputs, whatever either
    merely declares -/
theorem table_expr_same_essentials (t : Table α) (h : t.WF) (e : Expr α) (hd : ∀ ρ, t.den ρ = e.den ρ) (u : α) :
    u ∈ t.essentialInputs ↔ u ∈ e.essentialInputs := by
  rw [table_essential_iff t h, expr_essential_iff]
  simp only [Essential, hd]

/-- … and so do diagrams and expressions -/
theorem bdd_expr_same_essentials (b : Bdd α) (h : b.WF) (e : Expr α) (hd : ∀ ρ, b.den ρ = e.den ρ) (u : α) :
    (∃ i, i ∈ b.inner.supportSet ∧ b.inputs[i]? = some u) ↔ u ∈ e.essentialInputs := by
  rw [bdd_essential_iff b h, expr_essential_iff]
  simp only [Essential, hd]

theorem table_subset_inputs (t : Table α) : ∀ u ∈ t.essentialInputs, u ∈ t.inputs := by
  intro u hu
  simp only [Table.essentialInputs, mem_sortDedup, List.mem_map, List.mem_filter] at hu
  obtain ⟨⟨x, j⟩, ⟨hm, _⟩, rfl⟩ := hu
  have := (List.of_mem_zip (by simpa [List.zipIdx_eq_zip_range'] using hm)).1
  simpa [Table.gatherLiterals, mem_sortDedup] using this

theorem table_degrees (t : Table α) (h : t.WF) :
    t.degree = t.inputs.length ∧ t.essentialDegree = t.essentialInputs.length := by
  simp [Table.degree, Table.essentialDegree, Table.gatherLiterals_of_WF t h]

/-- representations of the same function report the same essential inputs: the right-hand side of
    the characterisations mentions only the denotation -/
theorem same_function_same_essentials (e e' : Expr α) (h : ∀ ρ, e.den ρ = e'.den ρ) (u : α) :
    u ∈ e.essentialInputs ↔ u ∈ e'.essentialInputs := by
  rw [expr_essential_iff, expr_essential_iff]
  simp only [Essential, h]


/-- essential inputs and the Boolean derivative tell the same story: `u` is reported essential exactly
    when the derivative by `u` is satisfiable -/
theorem expr_essential_iff_derivative (e : Expr α) (u : α) :
    u ∈ e.essentialInputs ↔ ∃ ρ, (e.derivative [u]).den ρ = true := by
  rw [expr_essential_iff]
  simp only [Essential, C07.single_flip_expr]
  constructor
  · intro ⟨ρ, h⟩; exact ⟨ρ, by simpa using h⟩
  · intro ⟨ρ, h⟩; exact ⟨ρ, by simpa using h⟩

/-- negation does not change which inputs are essential -/
theorem expr_essential_not (e : Expr α) (u : α) :
    Essential (fun ρ => (Expr.not e).den ρ) u ↔ Essential (fun ρ => e.den ρ) u := by
  simp only [Essential, Expr.den]
  constructor
  · intro ⟨ρ, h⟩; exact ⟨ρ, fun h' => h (by rw [h'])⟩
  · intro ⟨ρ, h⟩; exact ⟨ρ, fun h' => h (by simpa using h')⟩

/-- non-vacuity: `(a & b) | (c & !c)` declares c but depends on a and b only -/
example : (Expr.or [.and [.lit 1, .lit 2], .and [.lit 3, .not (.lit 3)]] : Expr Nat).essentialInputs = [1, 2] := by decide
/-- a table over (1, 2, 3) that ignores 2 -/
example : (⟨[1, 2, 3], [false, true, false, true, true, false, true, false]⟩ : Table Nat).essentialInputs = [1, 3] := by
  decide

end BoolFn.C09
