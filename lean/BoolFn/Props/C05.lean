import BoolFn.Proofs.Oracle
import BoolFn.Proofs.BddQuant
import BoolFn.Proofs.TableOps
import BoolFn.Bdd
/-! # C05 — Restriction fixes variables to constants and removes them from the inputs

Restricting a function by a partial assignment yields a function whose value at any assignment x
equals the original's value at x overridden by the partial assignment. None of the restricted
variables remains an input of the result and all other inputs are kept; variables of the partial
assignment that are not inputs are ignored, and restricting by an empty assignment leaves the
function unchanged. -/
namespace BoolFn.C05
open BoolFn
variable {α : Type} [DecidableEq α]
set_option linter.unusedSectionVars false

/-! ### expressions -/
theorem expr_restrict (v : PVal α) (e : Expr α) :
    (∀ ρ, (e.restrict v).den ρ = e.den (override ρ v)) ∧
    ∀ x, x ∈ (e.restrict v).vars ↔ x ∈ e.vars ∧ x ∉ v.keys := by
  refine ⟨fun ρ => Expr.den_restrict ρ v e, fun x => ?_⟩
  rw [Expr.mem_vars_restrict, PVal.get?_eq_none_iff]

mutual
theorem expr_substitute_nil : (e : Expr α) → Expr.substitute [] e = e
  | .lit _ => by simp [Expr.substitute, lookup]
  | .const _ => rfl
  | .not e => by simp [Expr.substitute, expr_substitute_nil e]
  | .and es => by simp [Expr.substitute, expr_substituteL_nil es]
  | .or es => by simp [Expr.substitute, expr_substituteL_nil es]
theorem expr_substituteL_nil : (es : List (Expr α)) → Expr.substituteL [] es = es
  | [] => rfl
  | e :: es => by simp [Expr.substituteL, expr_substitute_nil e, expr_substituteL_nil es]
end

/-- restricting by the empty assignment returns the expression unchanged (structurally) -/
theorem expr_restrict_empty (e : Expr α) : e.restrict [] = e := by
  simp [Expr.restrict, expr_substitute_nil]

section
variable [Ord α]

/-! ### tables -/
theorem table_restrict (v : PVal α) (t : Table α) (h : t.WF) :
    (t.restrict v).WF ∧
    (∀ x, x ∈ (t.restrict v).inputs ↔ x ∈ t.inputs ∧ x ∉ v.keys) ∧
    ∀ ρ, (t.restrict v).den ρ = t.den (override ρ v) := by
  have := Table.restrict_den v t h
  refine ⟨this.1, ?_, this.2.2⟩
  intro x
  rw [this.2.1, List.mem_filter]
  simp [PVal.get?_eq_none_iff]

/-- restricting by the empty assignment returns the table unchanged (structurally) -/
theorem table_restrict_empty (t : Table α) (h : t.WF) : t.restrict [] = t := by
  have hlen : t.outputs.length = 2 ^ (t.inputs.map (PVal.get? ([] : PVal α))).length := by simpa using h.2
  have hspec : t.inputs.map (PVal.get? ([] : PVal α)) = List.replicate t.inputs.length none := by
    rw [List.eq_replicate_iff]; simp
  cases t with | mk ins outs =>
  simp only [Table.restrict, Table.mk.injEq]
  constructor
  · exact List.filter_eq_self.mpr (by simp)
  · simp only at hspec hlen
    rw [hspec]
    have : Table.fixedBits (List.replicate ins.length (none : Option Bool)) = [] := by
      simp only [Table.fixedBits, List.reverse_replicate]
      apply List.filterMap_eq_nil_iff.mpr
      intro x hx
      have := (List.of_mem_zip (by simpa [List.zipIdx_eq_zip_range'] using hx)).1
      simp [List.eq_of_mem_replicate this]
    simp only [Table.restrictOutputs, this, Table.keepRow, List.all_nil]
    rw [List.filter_eq_self.mpr (by simp)]
    simp [List.zipIdx_map_fst]

/-- keys that are not inputs are ignored (semantically, and the inputs are untouched) -/
theorem table_restrict_foreign (v : PVal α) (t : Table α) (h : t.WF) (hf : ∀ k ∈ v.keys, k ∉ t.inputs) :
    (t.restrict v).inputs = t.inputs ∧ ∀ ρ, (t.restrict v).den ρ = t.den ρ := by
  have := Table.restrict_den v t h
  constructor
  · rw [this.2.1]
    apply List.filter_eq_self.mpr
    intro x hx
    have : x ∉ v.keys := fun hk => hf x hk hx
    simp [(PVal.get?_eq_none_iff v x).mpr this]
  · intro ρ
    rw [this.2.2]
    apply Table.den_congr
    intro x hx
    have : x ∉ v.keys := fun hk => hf x hk hx
    simp [override, (PVal.get?_eq_none_iff v x).mpr this]
end

section
variable [Ord α] [Std.TransOrd α] [Std.LawfulEqOrd α]
/-! ### decision diagrams: lib-bdd `restrict` + `prune_bdd_variables` (the assignment is a `BTreeMap`:
    distinct keys) -/
theorem bdd_restrict (v : PVal α) (hv : (v.map (·.1)).Nodup) (b : Bdd α) (hb : b.WF) :
    ∃ b', Bdd.restrict v b = .ok b' ∧ b'.WF ∧
      (∀ x, x ∈ b'.inputs ↔ x ∈ b.inputs ∧ x ∉ v.keys) ∧
      ∀ ρ, b'.den ρ = b.den (override ρ v) := by
  obtain ⟨b', h1, h2, h3, h4⟩ := Bdd.restrict_den v hv b hb
  refine ⟨b', h1, h2, ?_, h4⟩
  intro x
  rw [h3, List.mem_filter]
  have : (!(PVal.get? v x).isSome) = true ↔ x ∉ v.keys := by
    rw [← PVal.get?_eq_none_iff]; cases PVal.get? v x <;> simp
  rw [this]
/-- the lemma that shows the `debug_assert!` of `prune_bdd_variables` cannot fire and its unsafe calls are sound -/
theorem prune_keeps_function (b : Bdd α) (new : List α) (hb : b.WF) (hnew : StrictSorted new)
    (hsub : ∀ x ∈ new, x ∈ b.inputs)
    (hess : ∀ i ∈ b.inner.supportSet, ∀ (hi : i < b.inputs.length), b.inputs[i] ∈ new) :
    ∃ b', Bdd.prune b new = .ok b' ∧ b'.WF ∧ b'.inputs = new ∧ ∀ ρ, b'.den ρ = b.den ρ :=
  prune_den b new hb hnew hsub hess
end

/-! ### consequences: the fixed variables no longer matter; the representations restrict alike -/

/-- the restricted function no longer depends on the fixed variables -/
theorem expr_restrict_independent (v : PVal α) (e : Expr α) (ρ σ : α → Bool)
    (h : ∀ x, x ∉ v.keys → ρ x = σ x) : (e.restrict v).den ρ = (e.restrict v).den σ :=
  Expr.den_congr ρ σ _ (fun x hx => h x (((expr_restrict v e).2 x).mp hx).2)

section
variable [Ord α]
theorem table_restrict_independent (v : PVal α) (t : Table α) (ht : t.WF) (ρ σ : α → Bool)
    (h : ∀ x, x ∉ v.keys → ρ x = σ x) : (t.restrict v).den ρ = (t.restrict v).den σ :=
  Table.den_congr ρ σ _ (fun x hx => h x (((table_restrict v t ht).2.1 x).mp hx).2)
end

section
variable [Ord α] [Std.TransOrd α] [Std.LawfulEqOrd α]
theorem bdd_restrict_independent (v : PVal α) (hv : (v.map (·.1)).Nodup) (b : Bdd α) (hb : b.WF) :
    ∃ b', Bdd.restrict v b = .ok b' ∧
      ∀ ρ σ : α → Bool, (∀ x, x ∉ v.keys → ρ x = σ x) → b'.den ρ = b'.den σ := by
  obtain ⟨b', h1, _, h3, _⟩ := bdd_restrict v hv b hb
  exact ⟨b', h1, fun ρ σ h => Bdd.den_congr b' ρ σ (fun x hx => h x ((h3 x).mp hx).2)⟩

/-- the three representations restrict alike: if they denote the same function before, they do after -/
theorem restrict_agree (v : PVal α) (hv : (v.map (·.1)).Nodup) (e : Expr α) (t : Table α) (b : Bdd α)
    (ht : t.WF) (hb : b.WF) (het : ∀ ρ, e.den ρ = t.den ρ) (heb : ∀ ρ, e.den ρ = b.den ρ) :
    ∃ b', Bdd.restrict v b = .ok b' ∧
      ∀ ρ, (e.restrict v).den ρ = (t.restrict v).den ρ ∧ (e.restrict v).den ρ = b'.den ρ := by
  obtain ⟨b', h1, _, _, h4⟩ := bdd_restrict v hv b hb
  refine ⟨b', h1, fun ρ => ⟨?_, ?_⟩⟩
  · rw [(expr_restrict v e).1, (table_restrict v t ht).2.2, het]
  · rw [(expr_restrict v e).1, h4, heb]
end


theorem override_append (ρ : α → Bool) (w v : PVal α) :
    override ρ (w ++ v) = override (override ρ v) w := by
  funext x
  simp only [override, PVal.get?, List.find?_append]
  cases h : List.find? (fun p => p.1 == x) w <;> simp

/-- restricting in two steps is restricting once by both assignments (the first one wins on a clash) -/
theorem expr_restrict_restrict (w v : PVal α) (e : Expr α) (ρ : α → Bool) :
    ((e.restrict w).restrict v).den ρ = (e.restrict (w ++ v)).den ρ := by
  rw [(expr_restrict v _).1, (expr_restrict w e).1, (expr_restrict (w ++ v) e).1, override_append]

section
variable [Ord α]
theorem table_restrict_restrict (w v : PVal α) (t : Table α) (ht : t.WF) (ρ : α → Bool) :
    ((t.restrict w).restrict v).den ρ = (t.restrict (w ++ v)).den ρ := by
  have h1 := table_restrict w t ht
  rw [(table_restrict v _ h1.1).2.2, h1.2.2, (table_restrict (w ++ v) t ht).2.2, override_append]
end

/-- non-vacuity: two inputs fixed plus a foreign key on a three-input table -/
example : (Table.restrict [(1, true), (2, true), (9, false)]
    (⟨[1, 2, 3], [false, false, false, true, false, true, true, true]⟩ : Table Nat)) = ⟨[3], [true, true]⟩ := by decide

end BoolFn.C05
