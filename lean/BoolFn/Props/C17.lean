import BoolFn.Proofs.Csv
import BoolFn.Proofs.CsvText
import BoolFn.Proofs.Codec
/-! # C17 — CSV export round-trips and lists the table in domain order

Exporting any truth table to CSV and importing the text again gives back an equal table, for the
default format and for every choice of Boolean cell formatting with the comma delimiter. The exported
text has one header line naming the inputs in order followed by an output column, then one line per
domain point in domain order carrying the point's values and the function's output.

Two layers. *Records* (the cell grid the exporter writes and the records the importer reads):
`roundtrip_records`. *Text*: in the simple dialect (input names without `,` and line breaks; the
`csv` crate then neither quotes on writing nor unquotes on reading) the reader's records of the
exported text are the exported grid and the importer's line count is the number of exported lines
(`Proofs/CsvText.lean`), so `from_csv_string(to_csv_formatted(t)) = Ok(t)`: `roundtrip_text`. That
the `csv` crate behaves as modelled in that dialect is what the correspondence check compares (the
exported text byte for byte, and the real importer on it). -/
namespace BoolFn.C17
open BoolFn
set_option linter.unusedSectionVars false

theorem mapMOpt_map {β γ δ : Type} (f : γ → Except CsvErr δ) (g : β → γ) (h : β → δ) (l : List β)
    (hall : ∀ x ∈ l, f (g x) = .ok (h x)) : mapMOpt f (l.map g) = .ok (l.map h) := by
  induction l with
  | nil => rfl
  | cons a as ih =>
    simp only [List.map_cons, mapMOpt, hall a (by simp), ih (fun x hx => hall x (by simp [hx]))]

/-- one exported data row is read back as (its row index, its output) -/
theorem parseRecord_recordRow (t : Table String) (h : t.WF) (fi fo : Fmt) (k : Nat) (b : Bool)
    (hk : k < 2 ^ t.inputs.length) :
    parseRecord (t.inputs.length + 1) t.inputs.zipIdx (recordRow t fi fo k b) = .ok (k, b) := by
  have hp := rowIndexToPoint_length k t.inputs.length hk
  obtain ⟨p, hpdef⟩ : ∃ p, p = rowIndexToPoint k t.inputs.length := ⟨_, rfl⟩
  rw [← hpdef] at hp
  have hrow : recordRow t fi fo k b = p.map (formatBool fi) ++ [formatBool fo b] := by
    simp [recordRow, hpdef]
  rw [hrow]
  unfold parseRecord
  rw [if_neg (by simp [hp])]
  have hcells : mapMOpt (parseCell (p.map (formatBool fi) ++ [formatBool fo b])) t.inputs.zipIdx =
      .ok (t.inputs.zipIdx.map fun kc => (kc.1, p.getD kc.2 false)) := by
    have := mapMOpt_map (parseCell (p.map (formatBool fi) ++ [formatBool fo b])) id
      (fun kc => (kc.1, p.getD kc.2 false)) t.inputs.zipIdx (by
        intro kc hkc
        have hlt : kc.2 < p.length := by
          have := List.mem_zipIdx hkc
          omega
        simp only [id, parseCell]
        rw [List.getElem?_append_left (by simpa using hlt), List.getElem?_map, List.getElem?_eq_getElem hlt]
        simp [stringToBool_formatBool, List.getD_eq_getElem?_getD, List.getElem?_eq_getElem hlt])
    simpa using this
  have hout : parseOutput (p.map (formatBool fi) ++ [formatBool fo b]) = .ok b := by
    simp [parseOutput, stringToBool_formatBool]
  simp only [hcells, hout]
  -- the valuation is the point zipped onto the names
  have hval : (t.inputs.zipIdx.map fun kc => (kc.1, p.getD kc.2 false)) = t.inputs.zip p := by
    apply List.ext_getElem (by simp [hp])
    intro i h1 h2
    have hi : i < p.length := by simp at h2; omega
    simp [List.getD_eq_getElem?_getD, List.getElem?_eq_getElem hi]
  rw [hval]
  have hidx : valuesToRowIndex (t.inputs.zipIdx.map (·.1)) (t.inputs.zip p) false = k := by
    simp only [List.zipIdx_map_fst, valuesToRowIndex]
    have := map_complete_zip t.inputs p hp h.1.nodup false
    have e : (t.inputs.map fun x => (PVal.get? (t.inputs.zip p) x).getD false) = p := this
    rw [e, hpdef, valMsb_rowIndexToPoint]
  rw [hidx]

/-- **round trip at record level**: importing the grid the exporter writes gives the table back -/
theorem roundtrip_records (t : Table String) (h : t.WF) (hsmall : t.inputs.length < 64) (fi fo : Fmt) :
    fromCsvCommon (2 ^ t.inputs.length + 1) (cells t fi fo) = .ok t := by
  have hhdr : isHeaderRec (t.inputs ++ [resultHeader]) = true := by
    simp [isHeaderRec, resultHeader_not_bool]
  have hnames : namesOf (t.inputs ++ [resultHeader]) = t.inputs := by
    simp [namesOf, hhdr]
  have hcols : colsOf (t.inputs ++ [resultHeader]) = t.inputs.zipIdx := by
    rw [colsOf, hnames]; exact sortByName_zipIdx t.inputs h.1
  have hdata : dataRecsOf (t.inputs ++ [resultHeader])
      (t.outputs.zipIdx.map fun x => recordRow t fi fo x.2 x.1) =
      t.outputs.zipIdx.map fun x => recordRow t fi fo x.2 x.1 := by
    simp [dataRecsOf, hhdr]
  simp only [cells, fromCsvCommon, headerRow]
  rw [if_neg (by simp), hnames, hasDup_false_of_nodup _ h.1.nodup, hhdr, hcols, hdata]
  simp only [Bool.and_false, Bool.false_eq_true, if_false, importWith, List.length_zipIdx, actualCount, if_true,
    Nat.add_sub_cancel]
  rw [if_neg (by omega), if_neg (by simp)]
  -- every data row parses to (index, output)
  have hrows : mapMOpt (parseRecord (t.inputs ++ [resultHeader]).length t.inputs.zipIdx)
      (t.outputs.zipIdx.map fun x => recordRow t fi fo x.2 x.1) =
      .ok (t.outputs.zipIdx.map fun x => (x.2, x.1)) := by
    apply mapMOpt_map
    intro x hx
    have hlt := List.mem_zipIdx hx
    have : (t.inputs ++ [resultHeader]).length = t.inputs.length + 1 := by simp
    rw [this]
    exact parseRecord_recordRow t h fi fo x.2 x.1 (by rw [← h.2]; omega)
  have hfill := fillRows_enumerated t.outputs [] t.outputs rfl
  simp only [List.length_nil, List.nil_append, List.replicate_zero, h.2] at hfill
  simp only [hrows, hfill]
  simp [List.zipIdx_map_fst]

/-- every exported row ends in a non-blank word and has separator-free cells -/
theorem rows_ok (t : Table String) (hnames : ∀ n ∈ t.inputs, CellOK n) (fi fo : Fmt) :
    ∀ r ∈ cells t fi fo, RowOK r := by
  intro r hr
  simp only [cells, List.mem_cons, List.mem_map] at hr
  rcases hr with rfl | ⟨x, _, rfl⟩
  · exact ⟨t.inputs, resultHeader, rfl, hnames, resultHeader_ok.1, resultHeader_ok.2⟩
  · refine ⟨_, _, rfl, ?_, (formatBool_ok fo x.1).1, (formatBool_ok fo x.1).2⟩
    intro s hs
    obtain ⟨b, _, rfl⟩ := List.mem_map.mp hs
    exact (formatBool_ok fi b).1

/-- **round trip on the text** (simple dialect): importing the exported text gives the table back, for
    every formatting pair -/
theorem roundtrip_text (t : Table String) (h : t.WF) (hsmall : t.inputs.length < 64)
    (hnames : ∀ n ∈ t.inputs, CellOK n) (fi fo : Fmt) :
    fromCsvString (toCsvFormatted t fi fo) = .ok t := by
  have hpos : 0 < t.outputs.length := by rw [h.2]; exact Nat.pos_of_ne_zero (by simp)
  have hout : t.outputs.isEmpty = false := by
    cases ho : t.outputs with
    | nil => rw [ho] at hpos; simp at hpos
    | cons _ _ => rfl
  -- the data rows, split as  mid ++ [last]
  obtain ⟨rows, hrows⟩ : ∃ rows, rows = t.outputs.zipIdx.map fun x => recordRow t fi fo x.2 x.1 := ⟨_, rfl⟩
  have hrl : rows.length = 2 ^ t.inputs.length := by rw [hrows]; simp [h.2]
  have hrne : rows ≠ [] := by
    intro e; rw [e] at hrl; simp at hrl
    exact absurd hrl.symm (by have := Nat.pos_of_ne_zero (n := 2 ^ t.inputs.length) (by simp); omega)
  have hsplit : rows = rows.dropLast ++ [rows.getLast hrne] := (List.dropLast_concat_getLast hrne).symm
  have hcells : cells t fi fo = headerRow t :: (rows.dropLast ++ [rows.getLast hrne]) := by
    rw [← hsplit, hrows]; rfl
  have hok := rows_ok t hnames fi fo
  have htext : (toCsvFormatted t fi fo).toList = textOf (cells t fi fo) := by
    simp only [toCsvFormatted, hout, Bool.and_false, Bool.false_eq_true, if_false]
    exact intercalate_toList _
  have hcount : fileRowCount (toCsvFormatted t fi fo).toList = 2 ^ t.inputs.length + 1 := by
    rw [htext, hcells, fileRowCount_textOf _ _ _ (by rw [← hcells]; exact hok)]
    have : rows.dropLast.length = rows.length - 1 := List.length_dropLast
    have hp : 0 < rows.length := List.length_pos_iff.mpr hrne
    omega
  have hrecs : csvRecords (toCsvFormatted t fi fo).toList = cells t fi fo := by
    rw [htext]; exact csvRecords_textOf _ (by simp [cells]) hok
  have hnonempty : (toCsvFormatted t fi fo).isEmpty = false := by
    cases he : (toCsvFormatted t fi fo).isEmpty with
    | false => rfl
    | true =>
      have := String.isEmpty_iff.mp he
      have hl : (toCsvFormatted t fi fo).toList = [] := by rw [this]; rfl
      rw [← hrecs, hl] at hcells
      simp [csvRecords, splitOnChar] at hcells
  simp only [fromCsvString, hnonempty, Bool.false_eq_true, if_false, hcount, hrecs]
  exact roundtrip_records t h hsmall fi fo

/-- layout: line 0 is the header (inputs in order, then the result column), line k+1 encodes entry k
    of the relation (domain point k and its output) -/
theorem layout (t : Table String) (fi fo : Fmt) :
    cells t fi fo = (t.inputs ++ [resultHeader]) ::
      (t.relation.map fun pr => pr.1.map (formatBool fi) ++ [formatBool fo pr.2]) := by
  simp [cells, headerRow, recordRow, Table.relation, List.map_map, Function.comp_def]

/-- the spelling tables (regenerated from the crate on every run) are consistent -/
theorem spellings (f : Fmt) (b : Bool) : stringToBool (formatBool f b) = some b := stringToBool_formatBool f b
theorem result_is_no_spelling : isBoolString resultHeader = false := resultHeader_not_bool

/-- non-vacuity, including the zero-variable constant -/
example : (match fromCsvCommon 5 (cells ⟨["a", "b"], [false, true, true, false]⟩ .word .character) with
    | .ok t => t == ⟨["a", "b"], [false, true, true, false]⟩ | .error _ => false) = true := by decide
example : (match fromCsvCommon 2 (cells ⟨[], [true]⟩ .number .number) with
    | .ok t => t == ⟨[], [true]⟩ | .error _ => false) = true := by decide
/-- the name hypothesis of the text theorem is met by ordinary names, and the exported text is what one expects -/
example : (∀ n ∈ ["a", "x_1"], CellOK n) ∧
    (toCsvFormatted ⟨["a"], [false, true]⟩ .number .word).toList = "a,result\n0,false\n1,true".toList := by decide

end BoolFn.C17
