import BoolFn.Props.C12
/-! # C13 — The parser is total and rejects everything outside the language

For every input string whatsoever, parsing terminates and returns either an expression or an error
value; it never panics, loops, or exhausts the stack on input nested a few hundred levels deep.
Strings outside the language — unbalanced parentheses or braces, empty braces, an operator missing an
operand, adjacent operands without an operator, empty input, unknown symbols — are rejected with an
error rather than accepted with some invented meaning.

The model's tokenizer and parser carry explicit fuel; `fuel_suffices` shows it is never exhausted,
which is the argument that every iteration of the real loop consumes input and every recursive call
is on a strictly smaller token list. Stack depth and wall time are runtime behaviour: measured on the
implementation (nesting depth 300/500 on a 2 MiB stack), not proved (partial). -/
namespace BoolFn.C13
open BoolFn BoolFn.Spec

/-- the tokenizer's fuel is never exhausted and it never meets an unclassified pattern -/
theorem tokenize_total (s : List Char) :
    tokenize s ≠ .error .outOfFuel ∧ tokenize s ≠ .error .invalidPattern := by
  have h1 := (tokenizeLevelW_fuel bufMatch bufMatch_progress (s.length + 1) s true [] (by omega)).1
  have h2 := tokenizeLevelW_no_invalid bufMatch bufMatch_classified (s.length + 1) s true []
  simp only [tokenize, tokenizeLevel]
  cases h : tokenizeLevelW bufMatch (s.length + 1) s true [] with
  | ok r => exact ⟨by simp, by simp⟩
  | error e =>
    rw [h] at h1 h2
    exact ⟨fun hc => h1 (by simpa using hc), fun hc => h2 (by simpa using hc)⟩

/-- **fuel suffices / no panic**: `from_str` returns a value — an expression or one of the eight
    genuine error kinds; the `unreachable!` arm and the `panic!` arm of the classifier are unreachable -/
theorem fuel_suffices (s : String) :
    parse s ≠ .error .outOfFuel ∧ parse s ≠ .error .unreachable ∧
    parse s ≠ .error (.tok .outOfFuel) ∧ parse s ≠ .error (.tok .invalidPattern) := by
  have ht := tokenize_total s.toList
  simp only [parse]
  cases h : tokenize s.toList with
  | error e =>
    rw [h] at ht
    refine ⟨by simp, by simp, ?_, ?_⟩
    · intro hc; simp only [Except.error.injEq, ParseErr.tok.injEq] at hc; subst hc; exact ht.1 rfl
    · intro hc; simp only [Except.error.injEq, ParseErr.tok.injEq] at hc; subst hc; exact ht.2 rfl
  | ok ts =>
    simp only
    have h1 := (parse_fuel (3 * toksSize ts + 3)).1 ts (Nat.le_refl _)
    have h2 := (parse_no_unreachable (3 * toksSize ts + 3)).1 ts
    refine ⟨h1, h2, ?_, ?_⟩
    · cases hp : parseTokens ts with
      | ok e => simp
      | error e =>
        intro hc
        simp only [Except.error.injEq] at hc
        subst hc
        exact absurd hp (parse_tok_error_absurd ts _)
    · cases hp : parseTokens ts with
      | ok e => simp
      | error e =>
        intro hc
        simp only [Except.error.injEq] at hc
        subst hc
        exact absurd hp (parse_tok_error_absurd ts _)
where
  /-- the token parser never produces a tokenizer error -/
  parse_tok_error_absurd (ts : List Tok) (te : TokErr) : parseTokens ts ≠ .error (.tok te) := by
    have := no_tok_error (3 * toksSize ts + 3)
    exact this.1 ts te
  no_tok_error (fuel : Nat) :
      (∀ ts te, parseTokensF fuel ts ≠ .error (.tok te)) ∧
      (∀ ts te, parseAndF fuel ts ≠ .error (.tok te)) ∧
      (∀ ts te, parseTermF fuel ts ≠ .error (.tok te)) := by
    induction fuel with
    | zero => simp [parseTokensF, parseAndF, parseTermF]
    | succ fuel ih =>
      obtain ⟨ihA, ihB, ihC⟩ := ih
      refine ⟨?_, ?_, ?_⟩
      · intro ts te
        simp only [parseTokensF]
        have := mapMExcept_ne (parseAndF fuel) (.tok te) (splitOnTok Tok.isOr ts) (fun g _ => ihB g te)
        split
        · rename_i e he; intro hc; simp only [Except.error.injEq] at hc; subst hc; exact this he
        all_goals simp
      · intro ts te
        simp only [parseAndF]
        have := mapMExcept_ne (parseTermF fuel) (.tok te) (splitOnTok Tok.isAnd ts) (fun g _ => ihC g te)
        split
        · rename_i e he; intro hc; simp only [Except.error.injEq] at hc; subst hc; exact this he
        all_goals simp
      · intro ts te
        match ts with
        | [] => simp [parseTermF]
        | .not :: rest =>
          simp only [parseTermF]
          split
          · simp
          · rename_i e he; intro hc; simp only [Except.error.injEq] at hc; subst hc; exact ihC rest te he
        | [.tt] => simp [parseTermF]
        | [.ff] => simp [parseTermF]
        | [.lit _] => simp [parseTermF]
        | [.paren inner] => simpa [parseTermF] using ihA inner te
        | [.and] => simp [parseTermF]
        | [.or] => simp [parseTermF]
        | .and :: _ :: _ => simp [parseTermF]
        | .or :: _ :: _ => simp [parseTermF]
        | .tt :: _ :: _ => simp [parseTermF]
        | .ff :: _ :: _ => simp [parseTermF]
        | .lit _ :: _ :: _ => simp [parseTermF]
        | .paren _ :: _ :: _ => simp [parseTermF]

/-- **boundary**: `from_str(s)` is `Ok` exactly for the sentences of the language -/
theorem boundary (s : String) :
    (∃ e, parse s = .ok e) ↔ ∃ ts e, refLex s.toList = some ts ∧ DOr ts e := by
  constructor
  · rintro ⟨e, h⟩; obtain ⟨ts, h1, h2⟩ := (C12.meaning s e).mp h; exact ⟨ts, e, h1, h2⟩
  · rintro ⟨ts, e, h1, h2⟩; exact ⟨e, (C12.meaning s e).mpr ⟨ts, h1, h2⟩⟩

/-! rejection classes at token level (for all names): no derivation exists -/
theorem rejects_empty (e : Expr String) : ¬ DOr [] e := by
  rw [← C12.grammar]; simp [parseTokens, parseTokensF, toksSize, splitOnTok, mapMExcept, parseAndF, parseTermF]
theorem rejects_adjacent_operands (a b : List Char) (e : Expr String) : ¬ DOr [.lit a, .lit b] e := by
  rw [← C12.grammar]
  simp [parseTokens, parseTokensF, toksSize, tokSize, splitOnTok, Tok.isOr, Tok.isAnd, mapMExcept, parseAndF, parseTermF]
theorem rejects_missing_operand (a : List Char) (e : Expr String) :
    ¬ DOr [.lit a, .and] e ∧ ¬ DOr [.or, .lit a] e ∧ ¬ DOr [.not] e := by
  refine ⟨?_, ?_, ?_⟩ <;> rw [← C12.grammar] <;>
    simp [parseTokens, parseTokensF, toksSize, tokSize, splitOnTok, Tok.isOr, Tok.isAnd, mapMExcept, parseAndF, parseTermF]

/-! character-level rejection classes (unbalanced parentheses / braces, `{}`, unknown symbols, …) are
    exercised on the implementation and the model by the correspondence check (mutated sentences, token
    sequences, byte/Unicode soup). -/

end BoolFn.C13
