import BoolFn.Generated.Bindings
import BoolFn.Spec.Bindings
/-! # C19 — The Python classes behave exactly like the Rust API they wrap

Every method of the Python Expression, Table and Bdd classes returns what the corresponding Rust
operation returns for the same arguments; failures surface as Python exceptions of the documented
kind and never abort the interpreter.

The *meaning* of a wrapper is its forwarding descriptor — receiver, Rust operation, argument order,
result wrapper, error mapping — which a source translator extracts from `src/bindings/*.rs` on every
run (`Generated.bindings`, 146 functions; `Generated.errorMaps`, the three `From<…> for PyErr` impls).
`forwarding` and `exceptions` state that the regenerated tables are the audited ones
(`Spec.expectedBindings`): a swapped `left`/`right`, a wrapper forwarding to another method, an error
mapped to another exception, a dropped or added method changes the regenerated table and breaks the
obligation. PyO3's argument/result conversion and exception plumbing are outside Lean: the check
builds the extension module from the working tree and compares scripted calls through the Rust API
and through the module, value for value (partial: translation validation). -/
namespace BoolFn.C19
open BoolFn

/-- the forwarding table regenerated from the source is the audited one -/
theorem forwarding : Generated.bindings = Spec.expectedBindings := rfl

/-- the error → exception table regenerated from the source is the audited one -/
theorem exceptions : Generated.errorMaps = Spec.expectedErrorMaps := rfl

end BoolFn.C19
