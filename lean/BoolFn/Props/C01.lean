import BoolFn.Proofs.Oracle
import BoolFn.Proofs.Convert
/-! # C01 — Conversions between the three representations preserve the function

Converting a Boolean function between expression, truth table and decision diagram, in any of the
six directions and through any chain of conversions, yields an object that returns the same value
as the original for every assignment of the variables. Conversions into a truth table or a decision
diagram also keep the declared input set unchanged, and a conversion can fail only by returning an
error (too many variables), never by producing a different function.

**Status.** Five directions are proved in full. The sixth, table → BDD, is *false of the code*
(known finding D1, `src/bdd/traits/from_table.rs:15`): the model describes the code as it is,
`tableToBdd_is_true` states what it computes, `tableToBdd_wrong` refutes the property for it with a
concrete witness, and `chain_partial` proves the chain statement for every path whose table → BDD
steps are applied to tautologies (in particular every path without that step). -/
namespace BoolFn.C01
open BoolFn
variable {α : Type} [DecidableEq α] [Ord α] [Std.TransOrd α] [Std.LawfulEqOrd α]
set_option linter.unusedSectionVars false

/-- The full statement for one step `x ↦ y`: same function, declared inputs kept. -/
def StepPreserves (denx deny : (α → Bool) → Bool) (insx insy : List α) : Prop :=
  (∀ ρ, deny ρ = denx ρ) ∧ insy = insx

/-! ### E → T -/
theorem exprToTable_den (e : Expr α) :
    (exprToTable e).WF ∧ (exprToTable e).inputs = e.inputs ∧ ∀ ρ, (exprToTable e).den ρ = e.den ρ := by
  have hnd := nodup_sortDedup e.vars
  have hcov : ∀ x ∈ e.vars, x ∈ Expr.inputs e := fun x hx => (mem_sortDedup x _).mpr hx
  refine ⟨⟨strictSorted_sortDedup _, (exprToTableWith_den _ hnd e hcov (fun _ => false)).2⟩, rfl, ?_⟩
  intro ρ
  exact (exprToTableWith_den _ hnd e hcov ρ).1

/-! ### T → E -/
theorem tableToExpr_den (t : Table α) (h : t.WF) : ∀ ρ, (tableToExpr t).den ρ = t.den ρ :=
  fun ρ => BoolFn.tableToExpr_den t h ρ

/-! ### E → B: succeeds unless there are more than 65 533 literals (then: the error); never panics — in
    particular the assertion of lib-bdd's variable-set constructor (65 534 variables or more) is never
    reached, which is what the `fix:` for D15 established -/
theorem exprToBdd_den (e : Expr α) (hsmall : e.inputs.length ≤ maxBddVars) :
    ∃ b, exprToBdd e = .ok (.ok b) ∧ b.WF ∧ b.inputs = e.inputs ∧ ∀ ρ, b.den ρ = e.den ρ := by
  have hcov : ∀ x ∈ e.vars, x ∈ Expr.inputs e := fun x hx => (mem_sortDedup x _).mpr hx
  obtain ⟨i, hi, hn, hwf, hden⟩ := exprToInner_denotes (Expr.inputs e) e hcov
  refine ⟨⟨e.inputs, i⟩, ?_, ⟨strictSorted_sortDedup _, hn, ?_⟩, rfl, hden⟩
  · simp only [exprToBdd]
    have h1 : maxBddVars = 65533 := rfl
    have h2 : libBddPanicsFrom = 65534 := rfl
    rw [if_neg (by omega), if_neg (by omega), hi]
  · exact hwf

theorem exprToBdd_fails_only_too_many (e : Expr α) (err : ConvErr) (h : exprToBdd e = .error err) :
    err = .tooManyVariables ∧ maxBddVars < e.inputs.length := by
  simp only [exprToBdd] at h
  split at h
  · rename_i hbig; cases h; exact ⟨rfl, hbig⟩
  · split at h <;> cases h

/-- the crate's own limit keeps below the count at which lib-bdd panics -/
theorem limit_below_lib_bdd_assertion : maxBddVars < libBddPanicsFrom := by decide

/-! ### B → T -/
theorem bddToTable_den (b : Bdd α) (h : b.WF) :
    (bddToTable b).WF ∧ (bddToTable b).inputs = b.inputs ∧ ∀ ρ, (bddToTable b).den ρ = b.den ρ := by
  have hins : Bdd.inputsSet b = b.inputs := sortDedup_of_strictSorted _ h.1
  simp only [bddToTable, hins]
  refine ⟨⟨h.1, (bddToTableWith_den b h (fun _ => false)).2⟩, rfl, fun ρ => (bddToTableWith_den b h ρ).1⟩

/-! ### B → E, for every clause list `to_optimized_dnf` may return -/
theorem bddToExpr_den (b : Bdd α) (h : b.WF) (dnf : List (List (Nat × Bool)))
    (hd : DnfContract b.inner dnf) :
    ∃ e, bddToExprWith dnf b = some e ∧ ∀ ρ, e.den ρ = b.den ρ := by
  obtain ⟨e, he, _⟩ := bddToExprWith_den b h dnf hd (fun _ => false)
  refine ⟨e, he, ?_⟩
  intro ρ
  obtain ⟨e', he', hden⟩ := bddToExprWith_den b h dnf hd ρ
  rw [he] at he'; cases he'; exact hden

/-! ### T → B: what the code computes (known finding D1) -/
theorem tableToBdd_inputs_wf (t : Table α) (h : t.WF) (hsmall : t.inputs.length ≤ maxBddVars) :
    ∃ b, tableToBdd t = .ok b ∧ b.WF ∧ b.inputs = t.inputs := by
  have hins : Table.gatherLiterals t = t.inputs := Table.gatherLiterals_of_WF t h
  refine ⟨⟨t.inputs, Inner.mkDnf t.inputs.length
    ((Table.domain t).map fun p => p.zipIdx.map fun x => (x.2, x.1))⟩, ?_, ?_, rfl⟩
  · simp only [tableToBdd, hins]; rw [if_neg (by omega)]
  · exact ⟨h.1, by simp [Inner.mkDnf], Inner.wf_ofFn _ _⟩

/-- the table → BDD conversion yields the constant true, whatever the outputs -/
theorem tableToBdd_is_true (t : Table α) (h : t.WF) (b : Bdd α) (hb : tableToBdd t = .ok b) :
    ∀ ρ, b.den ρ = true := by
  have hins : Table.gatherLiterals t = t.inputs := Table.gatherLiterals_of_WF t h
  simp only [tableToBdd, hins] at hb
  split at hb
  · cases hb
  · cases hb
    intro ρ
    simp only [Bdd.den, Table.domain]
    exact mkDnf_allPoints_eval _ _ (by simp)

/-- **the property fails for table → BDD**: the table of `x0 & x1` converts to the constant true -/
theorem tableToBdd_wrong :
    ∃ (t : Table Nat) (b : Bdd Nat) (ρ : Nat → Bool), t.WF ∧ tableToBdd t = .ok b ∧ b.den ρ ≠ t.den ρ :=
  ⟨⟨[0, 1], [false, false, false, true]⟩, _, fun _ => false,
    ⟨by simp [StrictSorted]; decide, by decide⟩, rfl, by decide⟩

/-! ### chains -/
inductive Obj (α : Type) where
  | E (e : Expr α) | T (t : Table α) | B (b : Bdd α)

def Obj.den (ρ : α → Bool) : Obj α → Bool
  | .E e => e.den ρ | .T t => t.den ρ | .B b => b.den ρ
def Obj.WF : Obj α → Prop
  | .E _ => True | .T t => t.WF | .B b => b.WF
/-- declared inputs of tables and diagrams; `none` for expressions -/
def Obj.declared : Obj α → Option (List α)
  | .E _ => none | .T t => some t.inputs | .B b => some b.inputs
def Obj.small : Obj α → Prop
  | .E e => e.inputs.length ≤ maxBddVars | .T t => t.inputs.length ≤ maxBddVars | .B _ => True

inductive Dir where | ET | EB | TE | TB | BE | BT
deriving DecidableEq, Repr

/-- one conversion step; `none` when the direction does not apply to the object or the conversion
    returns its error. `dnfOf` is lib-bdd's `to_optimized_dnf`. -/
def step (dnfOf : Inner → List (List (Nat × Bool))) : Dir → Obj α → Option (Obj α)
  | .ET, .E e => some (.T (exprToTable e))
  | .EB, .E e => match exprToBdd e with
    | .ok (.ok b) => some (.B b)
    | _ => none
  | .TE, .T t => some (.E (tableToExpr t))
  | .TB, .T t => match tableToBdd t with
    | .ok b => some (.B b)
    | _ => none
  | .BE, .B b => (bddToExprWith (dnfOf b.inner) b).map .E
  | .BT, .B b => some (.T (bddToTable b))
  | _, _ => none

def runPath (dnfOf : Inner → List (List (Nat × Bool))) : List Dir → Obj α → Option (Obj α)
  | [], x => some x
  | d :: ds, x => (step dnfOf d x).bind (runPath dnfOf ds)

/-- every table → BDD step of the path is applied to a tautology -/
def TBSafe (dnfOf : Inner → List (List (Nat × Bool))) : List Dir → Obj α → Prop
  | [], _ => True
  | d :: ds, x =>
    (d = .TB → ∀ ρ, x.den ρ = true) ∧ ∀ y, step dnfOf d x = some y → TBSafe dnfOf ds y

theorem step_preserves (dnfOf : Inner → List (List (Nat × Bool))) (hdnf : ∀ i, DnfContract i (dnfOf i))
    (d : Dir) (x y : Obj α) (hx : x.WF) (hs : step dnfOf d x = some y)
    (hsafe : d = .TB → ∀ ρ, x.den ρ = true) :
    y.WF ∧ (∀ ρ, y.den ρ = x.den ρ) ∧ (∀ l, x.declared = some l → ∀ l', y.declared = some l' → l' = l) := by
  cases d <;> cases x <;> simp only [step] at hs <;> try (cases hs; done)
  · -- ET
    rename_i e; cases hs
    have := exprToTable_den e
    exact ⟨this.1, this.2.2, by intro l hl; cases hl⟩
  · -- EB
    rename_i e
    split at hs
    · rename_i b hb
      cases hs
      by_cases hsm : e.inputs.length ≤ maxBddVars
      · obtain ⟨b', hb', hwf, _, hden⟩ := exprToBdd_den e hsm
        rw [hb] at hb'; cases hb'
        exact ⟨hwf, hden, by intro l hl; cases hl⟩
      · simp only [exprToBdd] at hb
        rw [if_pos (by omega)] at hb; cases hb
    · cases hs
  · -- TE
    rename_i t; cases hs
    exact ⟨trivial, tableToExpr_den t hx, by intro l _ l' hl'; cases hl'⟩
  · -- TB
    rename_i t
    split at hs
    · rename_i b hb
      cases hs
      have htrue := tableToBdd_is_true t hx b hb
      have hins : Table.gatherLiterals t = t.inputs := Table.gatherLiterals_of_WF t hx
      have hb' := hb
      simp only [tableToBdd, hins] at hb'
      split at hb'
      · cases hb'
      · cases hb'
        refine ⟨⟨hx.1, by simp [Inner.mkDnf], Inner.wf_ofFn _ _⟩, ?_, ?_⟩
        · intro ρ
          have h1 := htrue ρ
          have h2 := hsafe rfl ρ
          simp only [Obj.den] at h2 ⊢
          rw [h2]; exact h1
        · intro l hl l' hl'
          simp only [Obj.declared, Option.some.injEq] at hl hl'
          rw [← hl, ← hl']
    · cases hs
  · -- BE
    rename_i b
    obtain ⟨e, he, hden⟩ := bddToExpr_den b hx (dnfOf b.inner) (hdnf _)
    rw [he] at hs; cases hs
    exact ⟨trivial, hden, by intro l _ l' hl'; cases hl'⟩
  · -- BT
    rename_i b; cases hs
    have := bddToTable_den b hx
    exact ⟨this.1, this.2.2, by
      intro l hl l' hl'
      simp only [Obj.declared, Option.some.injEq] at hl hl'
      rw [← hl, ← hl', this.2.1]⟩

/-- **chain theorem (partial: table → BDD only on tautologies)**: along any conversion path, for any
    choice lib-bdd makes for its optimised DNF, the function is preserved and the object stays
    well-formed -/
theorem chain_partial (dnfOf : Inner → List (List (Nat × Bool))) (hdnf : ∀ i, DnfContract i (dnfOf i))
    (p : List Dir) (x y : Obj α) (hx : x.WF) (hsafe : TBSafe dnfOf p x) (hr : runPath dnfOf p x = some y) :
    y.WF ∧ ∀ ρ, y.den ρ = x.den ρ := by
  induction p generalizing x with
  | nil => cases hr; exact ⟨hx, fun _ => rfl⟩
  | cons d ds ih =>
    simp only [runPath] at hr
    cases hs : step dnfOf d x with
    | none => rw [hs] at hr; cases hr
    | some z =>
      rw [hs] at hr
      have hz := step_preserves dnfOf hdnf d x z hx hs hsafe.1
      have := ih z hz.1 (hsafe.2 z hs) hr
      exact ⟨this.1, fun ρ => (this.2 ρ).trans (hz.2.1 ρ)⟩

/-! ### round trips and canonicity (corollaries) -/

/-- expression → table → expression gives the function back -/
theorem expr_table_expr (e : Expr α) (ρ : α → Bool) : (tableToExpr (exprToTable e)).den ρ = e.den ρ := by
  obtain ⟨hwf, _, hden⟩ := exprToTable_den e
  rw [tableToExpr_den _ hwf, hden]

/-- two expressions over the same variables that denote one function convert to the same diagram -/
theorem exprToBdd_canonical (e e' : Expr α) (hsmall : e.inputs.length ≤ maxBddVars)
    (hin : e.inputs = e'.inputs) (hden : ∀ ρ, e.den ρ = e'.den ρ) :
    ∃ b, exprToBdd e = .ok (.ok b) ∧ exprToBdd e' = .ok (.ok b) := by
  obtain ⟨b, hb, hw, hi, hd⟩ := exprToBdd_den e hsmall
  obtain ⟨b', hb', hw', hi', hd'⟩ := exprToBdd_den e' (hin ▸ hsmall)
  have : b = b' := Bdd.eq_of_den b b' hw hw' (by rw [hi, hi', hin]) (fun ρ => by rw [hd, hd', hden])
  exact ⟨b, hb, this ▸ hb'⟩

/-- expression → diagram → table denotes what expression → table denotes -/
theorem expr_bdd_table (e : Expr α) (hsmall : e.inputs.length ≤ maxBddVars) :
    ∃ b, exprToBdd e = .ok (.ok b) ∧ (bddToTable b).inputs = (exprToTable e).inputs ∧
      ∀ ρ, (bddToTable b).den ρ = (exprToTable e).den ρ := by
  obtain ⟨b, hb, hw, hi, hd⟩ := exprToBdd_den e hsmall
  obtain ⟨_, hi2, hd2⟩ := bddToTable_den b hw
  obtain ⟨_, hi3, hd3⟩ := exprToTable_den e
  exact ⟨b, hb, by rw [hi2, hi, hi3], fun ρ => by rw [hd2, hd, hd3]⟩

/-- non-vacuity: the E→T→E→B→T chain applies to a concrete non-trivial expression -/
example : (runPath (fun i => i.mintermDnf) [.ET, .TE, .EB, .BT]
    (.E (Expr.or [.and [.lit 0, .not (.lit 1)], .lit 2]) : Obj Nat)).isSome = true := by decide

end BoolFn.C01
