import BoolFn.Bdd
import BoolFn.Generated.Impurity
import BoolFn.Spec.Impurity
/-! # C20 — Operations are deterministic pure functions of their arguments

Every operation is a pure function of its arguments: repeating it with equal arguments — in the same
process, in another process, or interleaved differently with other operations — gives equal results,
including the chosen satisfying point, iteration orders and text forms. No operation alters its
operands.

(i) Every model operation is a Lean function: an implementation that agrees with the model on a call
cannot depend on anything but the arguments for that call (this is as strong as the correspondence).
(ii) The one mechanism in the code with an unordered container — the `HashMap` permutation handed to
`rename_variables` — is order independent: `rename_order_independent`. (iii) There is no hidden state:
the list of state-carrying constructs regenerated from the source equals the audited list
(`no_hidden_state`). Process-level randomness (hash seeds) cannot be exhibited by a theorem; the check
runs the same calls in separate processes with shuffled call order and compares digests (partial). -/
namespace BoolFn.C20
open BoolFn

/-- looking a key up does not depend on the order of an association list with distinct keys -/
theorem permLookup_perm {l₁ l₂ : List (Nat × Nat)} (hp : l₁.Perm l₂) (hnd : (l₁.map (·.1)).Nodup) (i : Nat) :
    Inner.permLookup l₁ i = Inner.permLookup l₂ i := by
  induction hp with
  | nil => rfl
  | @cons x la lb _ ih =>
    have h0 : (x.1 :: la.map (·.1)).Nodup := by simpa only [List.map_cons] using hnd
    have hnd' : (la.map (·.1)).Nodup := (List.nodup_cons.mp h0).2
    simp only [Inner.permLookup, List.find?]
    cases hx : (x.1 == i)
    · simpa [Inner.permLookup] using ih hnd'
    · rfl
  | swap x y l =>
    have h0 : (y.1 :: x.1 :: l.map (·.1)).Nodup := by simpa only [List.map_cons] using hnd
    have h1 := List.nodup_cons.mp h0
    have hxy : y.1 ≠ x.1 := by
      intro h; exact h1.1 (by simp [h])
    simp only [Inner.permLookup, List.find?]
    cases hx : (x.1 == i) <;> cases hy : (y.1 == i) <;> simp_all
  | trans h1 _ ih1 ih2 =>
    rw [ih1 hnd, ih2]
    exact (List.Perm.map _ h1).nodup hnd

/-- **`rename_variables` does not depend on the iteration order of the permutation map** -/
theorem rename_order_independent (b : Inner) {l₁ l₂ : List (Nat × Nat)} (hp : l₁.Perm l₂)
    (hnd : (l₁.map (·.1)).Nodup) : b.renameVariables l₁ = b.renameVariables l₂ := by
  have h : Inner.permLookup l₁ = Inner.permLookup l₂ := funext (permLookup_perm hp hnd)
  simp only [Inner.renameVariables, h]

/-- hence `extend_bdd_variables` / `prune_bdd_variables` (which build the map and call
    `rename_variables`) are functions of their arguments alone: emptiness of the map is also order
    independent -/
theorem perm_isEmpty {l₁ l₂ : List (Nat × Nat)} (hp : l₁.Perm l₂) : l₁.isEmpty = l₂.isEmpty := by
  have := hp.length_eq
  cases l₁ <;> cases l₂ <;> simp_all

/-- **no hidden state**: the constructs that could carry state or unordered iteration, regenerated
    from the source on every run, are exactly the audited ones -/
theorem no_hidden_state : Generated.impurity = Spec.auditedImpurity := rfl

/-- non-vacuity: two orders of a two-entry permutation -/
example : Inner.permLookup [(0, 1), (2, 3)] 2 = Inner.permLookup [(2, 3), (0, 1)] 2 := by decide

end BoolFn.C20
