import BoolFn.Proofs.Table
import BoolFn.Proofs.TableOps
import BoolFn.Proofs.BddOps
import BoolFn.Bdd
import BoolFn.Spec.Check
import BoolFn.Proofs.Oracle4
/-! # C10 — Domain, image, relation, support, weight and sat-point enumerations are coherent

For a function with n declared inputs the domain lists each of the 2^n points exactly once in
lexicographic order, position i of a point standing for the i-th smallest input; the image lists the
function's value at each domain point in the same order, and the relation is the pairing of the two.
The support lists exactly the points where the function is 1, once each, the weight is their number,
and the satisfying point is a member of the support, absent exactly when the function is
unsatisfiable. -/
namespace BoolFn.C10
open BoolFn BoolFn.Spec
variable {α : Type}
set_option linter.unusedSectionVars false

/-! ### the domain -/

theorem lexPoints_length (n : Nat) : (lexPoints n).length = 2 ^ n := by
  induction n with
  | zero => rfl
  | succ n ih => simp [lexPoints, ih, Nat.pow_succ]; omega

theorem lexPoints_mem_length (n : Nat) : ∀ p ∈ lexPoints n, p.length = n := by
  induction n with
  | zero => simp [lexPoints]
  | succ n ih =>
    intro p hp
    simp only [lexPoints, List.mem_append, List.mem_map] at hp
    rcases hp with ⟨q, hq, rfl⟩ | ⟨q, hq, rfl⟩ <;> simp [ih q hq]

/-- the k-th point of the reference enumeration has row index k -/
theorem lexPoints_getElem_valMsb (n k : Nat) (h : k < (lexPoints n).length) :
    valMsb ((lexPoints n)[k]) = k := by
  induction n generalizing k with
  | zero => simp [lexPoints] at h ⊢; subst h; rfl
  | succ n ih =>
    have hl := lexPoints_length n
    simp only [lexPoints] at h ⊢
    by_cases hk : k < 2 ^ n
    · rw [List.getElem_append_left (by simpa [hl] using hk)]
      simp only [List.getElem_map, valMsb]
      rw [ih k (by simpa [hl] using hk)]
      simp
    · rw [List.getElem_append_right (by simpa [hl] using Nat.le_of_not_lt hk)]
      simp only [List.getElem_map, valMsb, List.length_map, hl]
      have hlen : ((lexPoints n)[k - 2 ^ n]'(by
          simp only [List.length_append, List.length_map, hl] at h; omega)).length = n :=
        lexPoints_mem_length n _ (List.getElem_mem _)
      rw [ih (k - 2 ^ n) _, hlen]
      simp; omega

/-- **the domain is the lexicographic enumeration of all points of length n** (`false < true`,
    first coordinate most significant) -/
theorem domain_eq (n : Nat) : allPoints n = lexPoints n := by
  apply List.ext_getElem (by simp [allPoints_length, lexPoints_length])
  intro k h1 h2
  rw [allPoints_getElem]
  have hk : k < 2 ^ n := by simpa [allPoints_length] using h1
  apply valMsb_inj
  · rw [rowIndexToPoint_length k n hk, lexPoints_mem_length n _ (List.getElem_mem _)]
  · rw [valMsb_rowIndexToPoint, lexPoints_getElem_valMsb]

/-- every point of length n occurs, only points of length n occur -/
theorem domain_complete (n : Nat) (p : List Bool) : p ∈ allPoints n ↔ p.length = n := mem_allPoints

/-- … exactly once -/
theorem domain_nodup (n : Nat) : (allPoints n).Nodup := by
  rw [allPoints]
  refine nodup_map_on _ _ List.nodup_range ?_
  intro i hi j hj heq
  have := congrArg valMsb heq
  simpa [valMsb_rowIndexToPoint] using this

/-- lexicographic order on points of equal length -/
def lexLt : List Bool → List Bool → Prop
  | [], _ => False
  | _, [] => False
  | a :: as, b :: bs => (a = false ∧ b = true) ∨ (a = b ∧ lexLt as bs)

theorem lexLt_of_valMsb_lt : (a b : List Bool) → a.length = b.length → valMsb a < valMsb b → lexLt a b
  | [], [], _, h => by simp [valMsb] at h
  | [], _ :: _, h, _ => by simp at h
  | _ :: _, [], h, _ => by simp at h
  | x :: xs, y :: ys, hl, h => by
    simp only [List.length_cons, Nat.add_right_cancel_iff] at hl
    have hx := valMsb_lt xs
    have hy := valMsb_lt ys
    simp only [valMsb, hl] at h
    rw [hl] at hx
    simp only [lexLt]
    cases x <;> cases y
    · right; refine ⟨rfl, lexLt_of_valMsb_lt xs ys hl ?_⟩; simpa using h
    · left; exact ⟨rfl, rfl⟩
    · simp at h; omega
    · right; refine ⟨rfl, lexLt_of_valMsb_lt xs ys hl ?_⟩; simpa using h

/-- the domain is strictly increasing in the lexicographic order -/
theorem domain_lex_sorted (n : Nat) : (allPoints n).Pairwise lexLt := by
  rw [allPoints, List.pairwise_map]
  refine List.Pairwise.imp_of_mem ?_ (List.pairwise_lt_range)
  intro i j hi hj hij
  have hi' : i < 2 ^ n := by simpa using hi
  have hj' : j < 2 ^ n := by simpa using hj
  apply lexLt_of_valMsb_lt
  · rw [rowIndexToPoint_length i n hi', rowIndexToPoint_length j n hj']
  · simpa [valMsb_rowIndexToPoint] using hij

/-! ### expressions -/
section
variable [DecidableEq α] [Ord α]

/-- the value of a function at a domain point: position i of the point stands for the i-th input -/
def atPoint (ins : List α) (p : List Bool) : α → Bool := complete (ins.zip p) false

theorem expr_image (e : Expr α) :
    e.image = e.domain.map fun p => e.den (atPoint e.inputs p) := by
  simp [Expr.image, Expr.domain, Expr.eval_eq_den, atPoint]

theorem expr_relation (e : Expr α) : e.relation = e.domain.zip e.image := rfl

theorem expr_support (e : Expr α) (p : List Bool) :
    p ∈ e.support ↔ p ∈ e.domain ∧ e.den (atPoint e.inputs p) = true := by
  simp only [Expr.support, Expr.relation, expr_image, List.mem_map, List.mem_filter]
  constructor
  · rintro ⟨⟨q, b⟩, ⟨hz, hb⟩, rfl⟩
    have := List.of_mem_zip hz
    simp only [List.zip_map_right, List.mem_map] at hz
    obtain ⟨⟨q', q''⟩, hq, heq⟩ := hz
    simp only [Prod.map, id, Prod.mk.injEq] at heq
    have hqq : q' = q'' := by
      have := List.mem_iff_getElem.mp hq
      obtain ⟨i, hi, hget⟩ := this
      simp [List.getElem_zip] at hget
      exact hget.1.symm.trans hget.2
    subst hqq
    obtain ⟨rfl, rfl⟩ := heq
    exact ⟨this.1, by simpa using hb⟩
  · rintro ⟨hp, hv⟩
    refine ⟨(p, true), ⟨?_, rfl⟩, rfl⟩
    simp only [List.zip_map_right, List.mem_map]
    refine ⟨(p, p), ?_, by simp [Prod.map, hv]⟩
    obtain ⟨i, hi, rfl⟩ := List.mem_iff_getElem.mp hp
    exact List.mem_iff_getElem.mpr ⟨i, by simpa using hi, by simp [List.getElem_zip]⟩

theorem expr_weight (e : Expr α) : e.weight = e.support.length := rfl

theorem expr_sat_point (e : Expr α) :
    (∀ p, e.satPoint = some p → p ∈ e.support) ∧ (e.satPoint = none ↔ e.support = []) := by
  simp only [Expr.satPoint]
  constructor
  · intro p hp; exact List.mem_of_mem_head? hp
  · exact List.head?_eq_none_iff
end

/-! ### tables -/
section
variable [DecidableEq α] [Ord α] [Std.TransOrd α] [Std.LawfulEqOrd α]

theorem table_den_atPoint (t : Table α) (h : t.WF) (p : List Bool) (hp : p.length = t.inputs.length) :
    t.den (atPoint t.inputs p) = t.outputs.getD (valMsb p) false := by
  simp only [Table.den, atPoint]
  rw [map_complete_zip t.inputs p hp h.1.nodup]

/-- the image is the value at each domain point, in domain order -/
theorem table_image (t : Table α) (h : t.WF) :
    t.image = t.domain.map fun p => t.den (atPoint t.inputs p) := by
  apply List.ext_getElem
  · simp [Table.image, Table.domain, allPoints_length, h.2]
  · intro k h1 h2
    simp only [Table.image, Table.domain, List.getElem_map, allPoints_getElem]
    have hk : k < 2 ^ t.inputs.length := by rw [← h.2]; exact h1
    rw [table_den_atPoint t h _ (rowIndexToPoint_length k _ hk), valMsb_rowIndexToPoint]
    have h1' : k < t.outputs.length := h1
    rw [List.getD_eq_getElem?_getD, List.getElem?_eq_getElem h1']; rfl

theorem table_relation (t : Table α) (h : t.WF) : t.relation = t.domain.zip t.image := by
  apply List.ext_getElem
  · simp [Table.relation, Table.domain, Table.image, allPoints_length, h.2]
  · intro k h1 h2
    simp [Table.relation, Table.domain, Table.image, allPoints_getElem]

theorem table_support (t : Table α) (h : t.WF) (p : List Bool) :
    p ∈ t.support ↔ p ∈ t.domain ∧ t.den (atPoint t.inputs p) = true := by
  simp only [Table.support, Table.domain, List.mem_map, List.mem_filter, mem_allPoints]
  constructor
  · rintro ⟨⟨b, k⟩, ⟨hm, hb⟩, rfl⟩
    have hk := List.mem_zipIdx hm
    simp only [Nat.zero_add, Nat.zero_le, true_and] at hk
    have hk2 : k < 2 ^ t.inputs.length := by rw [← h.2]; exact hk.1
    have hlen := rowIndexToPoint_length k _ hk2
    refine ⟨hlen, ?_⟩
    rw [table_den_atPoint t h _ hlen, valMsb_rowIndexToPoint]
    rw [List.getD_eq_getElem?_getD, List.getElem?_eq_getElem hk.1]
    simp only [Option.getD_some]
    have hb2 : b = t.outputs[k] := by simpa using hk.2
    rw [← hb2]; simpa using hb
  · rintro ⟨hp, hv⟩
    rw [table_den_atPoint t h p hp] at hv
    have hlt : valMsb p < t.outputs.length := by rw [h.2, ← hp]; exact valMsb_lt p
    refine ⟨(true, valMsb p), ⟨?_, rfl⟩, by rw [← hp]; exact rowIndexToPoint_valMsb p⟩
    rw [List.getD_eq_getElem?_getD, List.getElem?_eq_getElem hlt] at hv
    simp only [Option.getD_some] at hv
    rw [← hv]
    exact List.mem_zipIdx_iff_getElem?.mpr (by simp [List.getElem?_eq_getElem hlt])

theorem table_support_nodup (t : Table α) (h : t.WF) : t.support.Nodup := by
  simp only [Table.support]
  refine nodup_map_on _ _ (nodup_filter _ _ (nodup_zipIdx _ _)) ?_
  · rintro ⟨b, i⟩ hi ⟨c, j⟩ hj heq
    simp only [List.mem_filter] at hi hj
    have h1 := List.mem_zipIdx hi.1
    have h2 := List.mem_zipIdx hj.1
    simp only [Nat.zero_add, Nat.zero_le, true_and] at h1 h2
    have := congrArg valMsb heq
    simp only [valMsb_rowIndexToPoint] at this
    subst this
    simp only [Prod.mk.injEq, and_true]
    rw [h1.2, h2.2]

theorem table_weight (t : Table α) : t.weight = t.support.length := rfl

theorem table_sat_point (t : Table α) :
    (∀ p, t.satPoint = some p → p ∈ t.support) ∧ (t.satPoint = none ↔ t.support = []) := by
  simp only [Table.satPoint]
  exact ⟨fun p hp => List.mem_of_mem_head? hp, List.head?_eq_none_iff⟩
end

/-! ### decision diagrams (over the lib-bdd model) -/
section
variable [DecidableEq α] [Ord α] [Std.TransOrd α] [Std.LawfulEqOrd α]

theorem bdd_den_atPoint (b : Bdd α) (h : b.WF) (p : List Bool) (hp : p.length = b.inputs.length) :
    b.den (atPoint b.inputs p) = b.inner.eval p := by
  simp only [Bdd.den, atPoint]
  rw [map_complete_zip b.inputs p hp h.1.nodup]

theorem bdd_image (b : Bdd α) (h : b.WF) :
    b.image = b.domain.map fun p => b.den (atPoint b.inputs p) := by
  simp only [Bdd.image, Bdd.domain]
  apply List.map_congr_left
  intro p hp
  rw [bdd_den_atPoint b h p (mem_allPoints.mp hp)]

theorem bdd_relation (b : Bdd α) : b.relation = b.domain.zip b.image := rfl

theorem bdd_support (b : Bdd α) (h : b.WF) (p : List Bool) :
    p ∈ b.support ↔ p ∈ b.domain ∧ b.den (atPoint b.inputs p) = true := by
  simp only [Bdd.support, Inner.satValuations, Bdd.domain, List.mem_filter, h.2.1]
  constructor
  · rintro ⟨hp, hv⟩
    exact ⟨hp, by rw [bdd_den_atPoint b h p (mem_allPoints.mp hp)]; exact hv⟩
  · rintro ⟨hp, hv⟩
    exact ⟨hp, by rw [bdd_den_atPoint b h p (mem_allPoints.mp hp)] at hv; exact hv⟩

theorem bdd_support_nodup (b : Bdd α) : b.support.Nodup :=
  nodup_filter _ _ (domain_nodup _)

/-- the truth table of a well-formed inner diagram lists `eval` over all points -/
theorem inner_tt_eq (i : Inner) (h : i.WF) : i.tt = (allPoints i.n).map i.eval := by
  apply List.ext_getElem
  · simp only [List.length_map, allPoints_length]; exact h
  · intro k h1 h2
    simp only [List.getElem_map, allPoints_getElem, Inner.eval]
    rw [pointToRowIndex_rowIndexToPoint, List.getD_eq_getElem?_getD, List.getElem?_eq_getElem h1]; rfl

/-- `exact_cardinality` is the number of satisfying valuations -/
theorem bdd_weight (b : Bdd α) (h : b.WF) : b.weight = b.support.length := by
  simp only [Bdd.weight, Inner.cardinality, Bdd.support, Inner.satValuations]
  conv => lhs; rw [inner_tt_eq b.inner h.2.2]
  rw [List.count_eq_length_filter, List.filter_map, List.length_map]
  congr 1
  apply List.filter_congr
  intro p _
  simp

/-- `sat_point` is modelled as a relation: any member of the support / `None` iff unsatisfiable -/
theorem bdd_sat_point (b : Bdd α) (r : Option (List Bool)) :
    b.isSatPoint r = true ↔ b.IsSatPoint r := by
  cases r with
  | none => simp [Bdd.isSatPoint, Bdd.IsSatPoint]
  | some p => simp [Bdd.isSatPoint, Bdd.IsSatPoint]
end

/-! ### the three representations agree -/
section
variable [DecidableEq α] [Ord α] [Std.TransOrd α] [Std.LawfulEqOrd α]

theorem zip_map_filter_snd {β : Type} (l : List β) (f : β → Bool) :
    ((l.zip (l.map f)).filter (·.2)).map (·.1) = l.filter f := by
  induction l with
  | nil => rfl
  | cons a as ih =>
    simp only [List.map_cons, List.zip_cons_cons, List.filter_cons]
    cases f a <;> simp [ih]

/-- the support of an expression is the domain filtered by the function, in domain order -/
theorem expr_support_eq (e : Expr α) :
    e.support = e.domain.filter fun p => e.den (atPoint e.inputs p) := by
  simp only [Expr.support, Expr.relation, expr_image]
  exact zip_map_filter_snd _ _

theorem zipIdx_filter_map {β : Type} (f : Nat → β) (l : List Bool) (k : Nat) :
    ((l.zipIdx k).filter (·.1)).map (fun x => f x.2) =
      ((List.range' k l.length).filter fun i => l.getD (i - k) false).map f := by
  induction l generalizing k with
  | nil => rfl
  | cons a as ih =>
    simp only [List.zipIdx_cons, List.length_cons, List.range'_succ, List.filter_cons, Nat.sub_self,
      List.getD_cons_zero]
    have hrest : ((List.range' (k + 1) as.length).filter fun i => (a :: as).getD (i - k) false) =
        (List.range' (k + 1) as.length).filter fun i => as.getD (i - (k + 1)) false := by
      apply List.filter_congr
      intro i hi
      have := (List.mem_range'_1.mp hi).1
      have e : i - k = (i - (k + 1)) + 1 := by omega
      rw [e, List.getD_cons_succ]
    rw [hrest]
    cases a <;> simp [ih (k + 1)]

/-- … and so is the support of a table (the one-rows of the output vector) -/
theorem table_support_eq (t : Table α) (h : t.WF) :
    t.support = t.domain.filter fun p => t.den (atPoint t.inputs p) := by
  simp only [Table.support, Table.domain, allPoints]
  rw [zipIdx_filter_map (fun i => rowIndexToPoint i t.inputs.length) t.outputs 0, List.filter_map]
  rw [List.range_eq_range', h.2]
  congr 1
  apply List.filter_congr
  intro i hi
  have hi' : i < 2 ^ t.inputs.length := by
    have := (List.mem_range'_1.mp hi).2
    omega
  simp only [Function.comp, Nat.sub_zero]
  rw [table_den_atPoint t h _ (rowIndexToPoint_length i _ hi'), valMsb_rowIndexToPoint]

/-- … and of a diagram in the model (lib-bdd yields the same set in its own order) -/
theorem bdd_support_eq (b : Bdd α) (h : b.WF) :
    b.support = b.domain.filter fun p => b.den (atPoint b.inputs p) := by
  simp only [Bdd.support, Inner.satValuations, Bdd.domain, h.2.1]
  apply List.filter_congr
  intro p hp
  rw [bdd_den_atPoint b h p (mem_allPoints.mp hp)]

/-- **the three representations agree on every enumeration**: objects with the same inputs denoting
    the same function have the same domain, image, relation, support and weight (and therefore the
    same answer to "is there a satisfying point") -/
theorem representations_agree (e : Expr α) (t : Table α) (b : Bdd α) (ht : t.WF) (hb : b.WF)
    (hin1 : t.inputs = e.inputs) (hin2 : b.inputs = e.inputs)
    (hd1 : ∀ ρ, t.den ρ = e.den ρ) (hd2 : ∀ ρ, b.den ρ = e.den ρ) :
    (t.domain = e.domain ∧ b.domain = e.domain) ∧ (t.image = e.image ∧ b.image = e.image) ∧
    (t.relation = e.relation ∧ b.relation = e.relation) ∧ (t.support = e.support ∧ b.support = e.support) ∧
    (t.weight = e.weight ∧ b.weight = e.weight) := by
  have d1 : t.domain = e.domain := by simp [Table.domain, Expr.domain, hin1]
  have d2 : b.domain = e.domain := by simp [Bdd.domain, Expr.domain, hin2]
  have i1 : t.image = e.image := by
    rw [table_image t ht, expr_image, d1]
    simp only [hd1, hin1]
  have i2 : b.image = e.image := by
    rw [bdd_image b hb, expr_image, d2]
    simp only [hd2, hin2]
  have s1 : t.support = e.support := by
    rw [table_support_eq t ht, expr_support_eq, d1]
    simp only [hd1, hin1]
  have s2 : b.support = e.support := by
    rw [bdd_support_eq b hb, expr_support_eq, d2]
    simp only [hd2, hin2]
  refine ⟨⟨d1, d2⟩, ⟨i1, i2⟩, ⟨?_, ?_⟩, ⟨s1, s2⟩, ⟨?_, ?_⟩⟩
  · rw [table_relation t ht, expr_relation, d1, i1]
  · rw [bdd_relation, expr_relation, d2, i2]
  · rw [table_weight, expr_weight, s1]
  · rw [bdd_weight b hb, expr_weight, s2]
end

/-! ### weight laws (exact integer identities; also checked on the implementation at 54–90 variables,
    where the executable model cannot follow: `law.weight` instances) -/
section
variable [DecidableEq α] [Ord α] [Std.TransOrd α] [Std.LawfulEqOrd α]

theorem filter_complement {β : Type} (l : List β) (P : β → Bool) :
    (l.filter P).length + (l.filter fun x => !P x).length = l.length := by
  induction l with
  | nil => rfl
  | cons a as ih => cases h : P a <;> simp [List.filter_cons, h] <;> omega

theorem filter_incl_excl {β : Type} (l : List β) (P Q : β → Bool) :
    (l.filter fun x => P x && Q x).length + (l.filter fun x => P x || Q x).length =
      (l.filter P).length + (l.filter Q).length := by
  induction l with
  | nil => rfl
  | cons a as ih => cases hp : P a <;> cases hq : Q a <;> simp [List.filter_cons, hp, hq] <;> omega

theorem table_weight_eq (t : Table α) (h : t.WF) :
    t.weight = (t.domain.filter fun p => t.den (atPoint t.inputs p)).length := by
  rw [table_weight, table_support_eq t h]

theorem bdd_weight_eq (b : Bdd α) (h : b.WF) :
    b.weight = (b.domain.filter fun p => b.den (atPoint b.inputs p)).length := by
  rw [bdd_weight b h, bdd_support_eq b h]

/-- **complement law**: a function and its negation share the 2^n points between them -/
theorem table_weight_complement (t : Table α) (h : t.WF) :
    t.weight + (Table.not t).weight = 2 ^ t.inputs.length := by
  obtain ⟨hw, hin, hd⟩ := Table.not_den t h
  rw [table_weight_eq t h, table_weight_eq _ hw]
  simp only [Table.domain, hin, hd]
  rw [filter_complement, allPoints_length]

theorem bdd_weight_complement (b : Bdd α) (h : b.WF) :
    b.weight + (Bdd.not b).weight = 2 ^ b.inputs.length := by
  have hw : (Bdd.not b).WF := ⟨h.1, h.2.1, Inner.wf_not _⟩
  have hd : ∀ ρ, (Bdd.not b).den ρ = !(b.den ρ) := by
    intro ρ
    simp only [Bdd.den, Bdd.not]
    rw [Inner.eval_not _ _ (by simp [h.2.1])]
  rw [bdd_weight_eq b h, bdd_weight_eq _ hw]
  have hi : (Bdd.not b).inputs = b.inputs := rfl
  simp only [Bdd.domain, hi, hd]
  rw [filter_complement, allPoints_length]

/-- **inclusion–exclusion** for two tables over the same inputs -/
theorem table_weight_incl_excl (a b : Table α) (ha : a.WF) (hb : b.WF) (hin : a.inputs = b.inputs) :
    (Table.bitCommon (· && ·) a b).weight + (Table.bitCommon (· || ·) a b).weight = a.weight + b.weight := by
  obtain ⟨w1, i1, d1⟩ := Table.bitCommon_den (· && ·) a b ha hb
  obtain ⟨w2, i2, d2⟩ := Table.bitCommon_den (· || ·) a b ha hb
  have hu : unionSorted a.inputs b.inputs = a.inputs := by rw [← hin]; exact Table.unionSorted_self a.inputs ha.1
  rw [table_weight_eq _ w1, table_weight_eq _ w2, table_weight_eq a ha, table_weight_eq b hb]
  simp only [Table.domain, i1, i2, d1, d2]
  rw [hu, ← hin]
  exact filter_incl_excl _ _ _

/-- … and for two diagrams over the same inputs (the connectives do not panic) -/
theorem bdd_weight_incl_excl (a b : Bdd α) (ha : a.WF) (hb : b.WF) (hin : a.inputs = b.inputs) :
    ∃ c d, Bdd.bitCommon (Inner.binop (· && ·)) a b = .ok c ∧ Bdd.bitCommon (Inner.binop (· || ·)) a b = .ok d ∧
      c.weight + d.weight = a.weight + b.weight := by
  obtain ⟨c, hc, wc, ic, dc⟩ := Bdd.bitCommon_den (· && ·) a b ha hb
  obtain ⟨d, hd, wd, id, dd⟩ := Bdd.bitCommon_den (· || ·) a b ha hb
  have hic : c.inputs = a.inputs := strictSorted_ext _ _ wc.1 ha.1 (fun x => by rw [ic, ← hin]; simp)
  have hid : d.inputs = a.inputs := strictSorted_ext _ _ wd.1 ha.1 (fun x => by rw [id, ← hin]; simp)
  refine ⟨c, d, hc, hd, ?_⟩
  rw [bdd_weight_eq _ wc, bdd_weight_eq _ wd, bdd_weight_eq a ha, bdd_weight_eq b hb]
  simp only [Bdd.domain, hic, hid, dc, dd, ← hin]
  exact filter_incl_excl _ _ _
end

/-- non-vacuity: a concrete two-variable function -/
example : allPoints 2 = [[false, false], [false, true], [true, false], [true, true]] := by decide
example : (Table.mk ["a", "b"] [false, true, true, false]).support = [[false, true], [true, false]] := by decide

end BoolFn.C10
