import BoolFn.Proofs.CsvQuoteRoundtrip
import BoolFn.Proofs.CsvQuoted
import BoolFn.Proofs.Csv
import BoolFn.Proofs.Codec
/-! # C16 — CSV import is faithful to the file and rejects incomplete or ambiguous tables

When importing a truth table from CSV succeeds, the table's value at the input combination of every
data record equals that record's output, whatever the column order, the row order, the presence of a
header line or the accepted spelling of true/false used in each cell; its inputs are the header names,
or x_0, x_1, ... when there is no header. Text that does not describe a complete, unambiguous table —
missing or repeated input combinations, ragged records, non-Boolean cells, duplicate variable names —
is rejected with an error, and no text causes a panic.

Proved for `from_csv_common` on the *records* of a text in the modelled dialect (no `"`, no `\r`);
the record splitter of the `csv` crate is outside the model (partial). -/
namespace BoolFn.C16
open BoolFn
set_option linter.unusedSectionVars false

theorem fillRows_dup_absurd (rows : List (Nat × Bool)) (outs filled res : List Bool) (j : Nat) (c : Bool)
    (hmem : (j, c) ∈ rows) (hf : filled.getD j false = true) (hr : fillRows rows outs filled = .ok res) : False := by
  induction rows generalizing outs filled with
  | nil => cases hmem
  | cons ib rest ih =>
    obtain ⟨i, b⟩ := ib
    simp only [fillRows] at hr
    split at hr
    · cases hr
    · rename_i hnot
      rcases List.mem_cons.mp hmem with heq | hmem
      · cases heq; exact hnot hf
      · apply ih (outs.set i b) (filled.set i true) hmem ?_ hr
        by_cases hij : i = j
        · subst hij; exact absurd hf hnot
        · simpa [List.getD_eq_getElem?_getD, List.getElem?_set, hij] using hf

/-- what the row-writing loop guarantees when it succeeds: every listed (row, value) is stored, no
    row is written twice, and every row of the table has been written -/
theorem fillRows_ok (rows : List (Nat × Bool)) (outs filled res : List Bool)
    (hlen : outs.length = filled.length) (hrange : ∀ ib ∈ rows, ib.1 < outs.length)
    (hr : fillRows rows outs filled = .ok res) :
    res.length = outs.length ∧
    (∀ ib ∈ rows, res[ib.1]? = some ib.2) ∧
    (∀ i, filled.getD i false = true → res[i]? = outs[i]?) ∧
    (rows.map (·.1)).Nodup ∧
    (∀ i, i < outs.length → filled.getD i false = true ∨ i ∈ rows.map (·.1)) := by
  induction rows generalizing outs filled with
  | nil =>
    simp only [fillRows] at hr
    split at hr
    · rename_i hall
      cases hr
      refine ⟨rfl, by simp, fun _ _ => rfl, by simp, ?_⟩
      intro i hi
      left
      have hi' : i < filled.length := by omega
      rw [List.getD_eq_getElem?_getD, List.getElem?_eq_getElem hi']
      simpa using List.all_eq_true.mp hall _ (List.getElem_mem hi')
    · cases hr
  | cons ib rest ih =>
    obtain ⟨i, b⟩ := ib
    have hi : i < outs.length := hrange (i, b) (by simp)
    have hi' : i < filled.length := by omega
    simp only [fillRows] at hr
    split at hr
    · cases hr
    · rename_i hnot
      have hnot' : filled.getD i false = false := by simpa using hnot
      have hmark : (filled.set i true).getD i false = true := by
        simp [List.getD_eq_getElem?_getD, hi']
      obtain ⟨h1, h2, h3, h4, h5⟩ := ih (outs.set i b) (filled.set i true) (by simp [hlen])
        (fun jb hjb => by simpa using hrange jb (by simp [hjb])) hr
      refine ⟨by simpa using h1, ?_, ?_, ?_, ?_⟩
      · intro jb hjb
        rcases List.mem_cons.mp hjb with rfl | hjb
        · rw [h3 i hmark]; simp [hi]
        · exact h2 jb hjb
      · intro j hj
        have hne : i ≠ j := by
          intro e; subst e; rw [hnot'] at hj; cases hj
        have := h3 j (by
          simpa [List.getD_eq_getElem?_getD, List.getElem?_set, hne] using hj)
        rw [this, List.getElem?_set_ne hne]
      · simp only [List.map_cons, List.nodup_cons]
        refine ⟨?_, h4⟩
        intro hmem
        obtain ⟨⟨j, c⟩, hjc, hj⟩ := List.mem_map.mp hmem
        simp only at hj; subst hj
        exact fillRows_dup_absurd rest _ _ res j c hjc hmark hr
      · intro j hj
        rcases h5 j (by simpa using hj) with hf | hm
        · by_cases hji : i = j
          · right; simp [hji]
          · left
            simpa [List.getD_eq_getElem?_getD, List.getElem?_set, hji] using hf
        · right; simp [hm]

theorem mapMOpt_ok {β γ : Type} (f : β → Except CsvErr γ) :
    (l : List β) → (res : List γ) → mapMOpt f l = .ok res →
      res.length = l.length ∧ ∀ i (h1 : i < l.length) (h2 : i < res.length), f l[i] = .ok res[i]
  | [], res, h => by simp only [mapMOpt] at h; cases h; simp
  | a :: as, res, h => by
    simp only [mapMOpt] at h
    split at h
    · cases h
    · rename_i y hy
      split at h
      · cases h
      · rename_i ys hys
        cases h
        have := mapMOpt_ok f as ys hys
        refine ⟨by simp [this.1], ?_⟩
        intro i h1 h2
        cases i with
        | zero => simpa using hy
        | succ j => simpa using this.2 j (by simpa using h1) (by simpa using h2)

theorem parseRecord_ok (firstLen : Nat) (cols : List (String × Nat)) (r : List String) (i : Nat) (b : Bool)
    (h : parseRecord firstLen cols r = .ok (i, b)) :
    ∃ valuation, mapMOpt (parseCell r) cols = .ok valuation ∧ parseOutput r = .ok b ∧
      i = valuesToRowIndex (cols.map (·.1)) valuation false ∧ r.length = firstLen := by
  simp only [parseRecord] at h
  split at h
  · cases h
  · rename_i hlen
    split at h
    · cases h
    · rename_i valuation hv
      split at h
      · cases h
      · rename_i b' hb
        cases h
        exact ⟨valuation, hv, hb, rfl, by simpa using hlen⟩

/-- a duplicate-free list of numbers below m that contains every number below m has length m -/
theorem nodup_cover_length (l : List Nat) (m : Nat) (hnd : l.Nodup) (hlt : ∀ x ∈ l, x < m)
    (hcov : ∀ i, i < m → i ∈ l) : l.length = m := by
  induction m generalizing l with
  | zero =>
    cases l with
    | nil => rfl
    | cons a _ => exact absurd (hlt a (by simp)) (by omega)
  | succ m ih =>
    -- remove m from l
    have hm : m ∈ l := hcov m (by omega)
    have hl : (l.erase m).length = m := by
      apply ih
      · exact hnd.erase m
      · intro x hx
        have hx' := List.mem_of_mem_erase hx
        have := hlt x hx'
        have hne : x ≠ m := by
          intro e; subst e
          exact (List.Nodup.not_mem_erase hnd) hx
        omega
      · intro i hi
        exact (List.mem_erase_of_ne (by omega)).mpr (hcov i (by omega))
    rw [List.length_erase_of_mem hm] at hl
    have : 0 < l.length := List.length_pos_of_mem hm
    omega



/-- **faithfulness**: if the import succeeds, the table is well-formed, its inputs are the (sorted)
    column names, every data record is stored at its own input combination — the table's value there is
    the record's output — no two records have the same input combination, and every combination occurs -/
theorem importWith_faithful (count : Nat) (isHeader : Bool) (cols : List (String × Nat)) (firstLen : Nat)
    (dataRecs : List (List String)) (t : Table String)
    (h : importWith count isHeader cols firstLen dataRecs = .ok t) :
    t.outputs.length = 2 ^ t.inputs.length ∧
    t.inputs = cols.map (·.1) ∧
    (∀ r ∈ dataRecs, ∃ valuation b,
        mapMOpt (parseCell r) cols = .ok valuation ∧ parseOutput r = .ok b ∧ r.length = firstLen ∧
        t.eval valuation false = b) ∧
    dataRecs.length = 2 ^ t.inputs.length := by
  unfold importWith at h
  by_cases h1 : cols.length ≥ 64
  · rw [if_pos h1] at h; cases h
  · rw [if_neg h1] at h
    by_cases h2 : actualCount count isHeader ≠ 2 ^ cols.length
    · rw [if_pos h2] at h; cases h
    · rw [if_neg h2] at h
      cases hrows : mapMOpt (parseRecord firstLen cols) dataRecs with
      | error e => rw [hrows] at h; cases h
      | ok rows =>
        rw [hrows] at h
        simp only at h
        cases hfill : fillRows rows (List.replicate (2 ^ cols.length) false) (List.replicate (2 ^ cols.length) false) with
        | error e => rw [hfill] at h; cases h
        | ok outs =>
          rw [hfill] at h
          simp only [Except.ok.injEq] at h
          subst h
          have hm := mapMOpt_ok _ _ _ hrows
          have hrange : ∀ ib ∈ rows, ib.1 < (List.replicate (2 ^ cols.length) false).length := by
            intro ib hib
            obtain ⟨k, hk, rfl⟩ := List.mem_iff_getElem.mp hib
            have hk' : k < dataRecs.length := by rw [← hm.1]; exact hk
            have hp := hm.2 k hk' hk
            obtain ⟨valuation, _, _, hidx, _⟩ := parseRecord_ok _ _ _ rows[k].1 rows[k].2 (by rw [hp])
            rw [hidx]
            simpa using Table.valuesToRowIndex_lt (cols.map (·.1)) valuation false
          have hf := fillRows_ok rows _ _ outs (by simp) hrange hfill
          refine ⟨by simpa using hf.1, rfl, ?_, ?_⟩
          · intro r hr
            obtain ⟨k, hk, rfl⟩ := List.mem_iff_getElem.mp hr
            have hk' : k < rows.length := by rw [hm.1]; exact hk
            have hp := hm.2 k hk hk'
            obtain ⟨valuation, hv, hb, hidx, hlen⟩ := parseRecord_ok _ _ _ rows[k].1 rows[k].2 (by rw [hp])
            refine ⟨valuation, rows[k].2, hv, hb, hlen, ?_⟩
            have hstored := hf.2.1 rows[k] (List.getElem_mem _)
            simp only [Table.eval]
            rw [List.getD_eq_getElem?_getD, ← hidx, hstored]; rfl
          · have hnd := hf.2.2.2.1
            have hcover := hf.2.2.2.2
            rw [← hm.1]
            have hlen : (rows.map (·.1)).length = rows.length := by simp
            rw [← hlen]
            simp only [List.length_map]
            have := nodup_cover_length (rows.map (·.1)) (2 ^ cols.length) hnd (by
                intro x hx
                obtain ⟨ib, hib, rfl⟩ := List.mem_map.mp hx
                simpa using hrange ib hib)
              (by
                intro i hi
                rcases hcover i (by simpa using hi) with hfalse | hmem
                · simp [List.getD_eq_getElem?_getD, hi] at hfalse
                · exact hmem)
            simpa using this

/-- the statement for `from_csv_common` itself -/
theorem faithful (count : Nat) (first : List String) (rest : List (List String)) (t : Table String)
    (h : fromCsvCommon count (first :: rest) = .ok t) :
    t.outputs.length = 2 ^ t.inputs.length ∧
    t.inputs = (colsOf first).map (·.1) ∧
    (∀ r ∈ dataRecsOf first rest, ∃ valuation b,
        mapMOpt (parseCell r) (colsOf first) = .ok valuation ∧ parseOutput r = .ok b ∧
        r.length = first.length ∧ t.eval valuation false = b) ∧
    (dataRecsOf first rest).length = 2 ^ t.inputs.length := by
  unfold fromCsvCommon at h
  by_cases h1 : first.isEmpty = true
  · simp only [h1, if_true] at h; cases h
  · simp only [h1, Bool.false_eq_true, if_false] at h
    by_cases h2 : (isHeaderRec first && hasDup (namesOf first)) = true
    · rw [if_pos h2] at h; cases h
    · rw [if_neg h2] at h
      exact importWith_faithful _ _ _ _ _ t h

/-- duplicate header names are rejected -/
theorem rejects_duplicate_names (count : Nat) (first : List String) (rest : List (List String))
    (hne : first.isEmpty = false) (hh : isHeaderRec first = true) (hd : hasDup (namesOf first) = true) :
    fromCsvCommon count (first :: rest) = .error .duplicateVariableName := by
  simp [fromCsvCommon, hne, hh, hd]

/-- a ragged record, a non-Boolean cell or a repeated combination makes the import fail:
    contrapositive of `faithful` (every record has the first record's length, every cell read is
    Boolean, and the number of data records is `2^n` with pairwise distinct combinations) -/
theorem rejects_ragged (count : Nat) (first : List String) (rest : List (List String))
    (r : List String) (hr : r ∈ dataRecsOf first rest) (hlen : r.length ≠ first.length) :
    ∀ t, fromCsvCommon count (first :: rest) ≠ .ok t := by
  intro t h
  obtain ⟨_, _, hall, _⟩ := faithful count first rest t h
  obtain ⟨_, _, _, _, hl, _⟩ := hall r hr
  exact hlen hl

theorem rejects_wrong_count (count : Nat) (first : List String) (rest : List (List String)) (t : Table String)
    (h : fromCsvCommon count (first :: rest) = .ok t) :
    (dataRecsOf first rest).length = 2 ^ ((colsOf first).length) := by
  obtain ⟨_, hin, _, hc⟩ := faithful count first rest t h
  rw [hc, hin]; simp

/-- the model function is total: whatever the records, the result is `ok` or `error` (no panic arm);
    the only index write `outputs[index] = …` is in range -/
theorem row_index_in_range (cols : List (String × Nat)) (valuation : PVal String) :
    valuesToRowIndex (cols.map (·.1)) valuation false < 2 ^ cols.length := by
  simpa using Table.valuesToRowIndex_lt (cols.map (·.1)) valuation false

/-- non-vacuity: permuted columns and rows, mixed spellings, with and without header -/
example : (match fromCsvCommon 5 [["b", "a", "out"], ["T", "0", "true"], ["0", "0", "F"], ["1", "True", "1"], ["F", "1", "false"]] with
    | .ok t => t == ⟨["a", "b"], [false, true, false, true]⟩ | .error _ => false) = true := by decide
example : (match fromCsvCommon 2 [["1", "1"], ["0", "0"]] with
    | .ok t => t == ⟨["x_0"], [false, true]⟩ | .error _ => false) = true := by decide

end BoolFn.C16
