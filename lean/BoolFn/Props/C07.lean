import BoolFn.Proofs.ElimAll
import BoolFn.Proofs.Oracle2
import BoolFn.Proofs.BddQuant
import BoolFn.Proofs.BddOps
import BoolFn.Proofs.QuantET
/-! # C07 — The Boolean derivative marks where flipping the variables changes the output

The derivative with respect to a set of variables equals the result of replacing F by
F[v=0] xor F[v=1] for each listed variable in turn, in every representation. In particular the
derivative with respect to one variable is true exactly at the assignments where flipping that
variable changes F, it is constantly false for a variable F does not depend on, the derivative with
respect to the empty set is F itself, and no differentiated variable remains an input.

`nested (· != ·) den vs f ρ` is the XOR over all assignments `a` of `vs` of `f (ρ overridden by a)`. -/
namespace BoolFn.C07
open BoolFn
variable {α : Type} [DecidableEq α]
set_option linter.unusedSectionVars false

/-! ### expressions -/
theorem expr_derivative (vs : List α) (hnd : vs.Nodup) (e : Expr α) (ρ : α → Bool) :
    (e.derivative vs).den ρ = nested (· != ·) Expr.den vs e ρ :=
  (foldl_eq_nested (· != ·) Expr.den (Expr.quantStep Expr.mkXor) (fun _ => True) medial_xor
    (fun f x h => Expr.quantStep_spec Expr.mkXor _ Expr.den_mkXor f x h) vs hnd e trivial ρ).2

/-- one variable: true exactly where flipping the variable changes the value -/
theorem single_flip_expr (x : α) (e : Expr α) (ρ : α → Bool) :
    (e.derivative [x]).den ρ = (e.den (upd ρ x false) != e.den (upd ρ x true)) :=
  expr_derivative [x] (by simp) e ρ

/-- a variable the function does not depend on: constantly false -/
theorem nonessential_false_expr (x : α) (e : Expr α)
    (h : ∀ ρ, e.den (upd ρ x false) = e.den (upd ρ x true)) (ρ : α → Bool) :
    (e.derivative [x]).den ρ = false := by
  rw [single_flip_expr, h ρ]; simp

theorem empty_is_self_expr (e : Expr α) : e.derivative [] = e := rfl

theorem expr_eliminated (vs : List α) (e : Expr α) (y : α) :
    y ∈ (e.derivative vs).vars ↔ y ∈ e.vars ∧ y ∉ vs :=
  Expr.mem_vars_foldl_quantStep _ Expr.mem_vars_mkXor vs e y

theorem order_independent_expr (vs vs' : List α) (hp : vs.Perm vs') (hnd : vs.Nodup) (e : Expr α) (ρ : α → Bool) :
    (e.derivative vs).den ρ = (e.derivative vs').den ρ := by
  rw [expr_derivative vs hnd, expr_derivative vs' (hp.nodup hnd)]
  exact nested_perm _ _ medial_xor hp hnd e ρ

section
variable [Ord α] [Std.TransOrd α] [Std.LawfulEqOrd α]

/-! ### tables -/
theorem table_derivative (vs : List α) (hnd : vs.Nodup) (t : Table α) (h : t.WF) (ρ : α → Bool) :
    (t.derivative vs).WF ∧ (t.derivative vs).den ρ = nested (· != ·) Table.den vs t ρ :=
  foldl_eq_nested (· != ·) Table.den (Table.quantStep (· != ·)) Table.WF medial_xor
    (fun f x hf => Table.quantStep_spec _ f x hf) vs hnd t h ρ

theorem single_flip_table (x : α) (t : Table α) (h : t.WF) (ρ : α → Bool) :
    (t.derivative [x]).den ρ = (t.den (upd ρ x false) != t.den (upd ρ x true)) :=
  (table_derivative [x] (by simp) t h ρ).2

/-- a variable that is not an input at all (or any variable the table does not depend on) -/
theorem nonessential_false_table (x : α) (t : Table α) (h : t.WF)
    (hind : ∀ ρ, t.den (upd ρ x false) = t.den (upd ρ x true)) (ρ : α → Bool) :
    (t.derivative [x]).den ρ = false := by
  rw [single_flip_table x t h, hind ρ]; simp

theorem not_input_independent (x : α) (t : Table α) (hx : x ∉ t.inputs) (ρ : α → Bool) :
    t.den (upd ρ x false) = t.den (upd ρ x true) := by
  apply Table.den_congr
  intro y hy
  have : x ≠ y := fun e => hx (e ▸ hy)
  simp [upd, this]

theorem empty_is_self_table (t : Table α) : t.derivative [] = t := rfl

theorem table_eliminated (vs : List α) (t : Table α) (h : t.WF) (y : α) :
    y ∈ (t.derivative vs).inputs ↔ y ∈ t.inputs ∧ y ∉ vs := by
  rw [Table.derivative, (Table.foldl_quantStep_inputs _ vs t h).2]; simp

theorem order_independent_table (vs vs' : List α) (hp : vs.Perm vs') (hnd : vs.Nodup) (t : Table α) (h : t.WF)
    (ρ : α → Bool) : (t.derivative vs).den ρ = (t.derivative vs').den ρ := by
  rw [(table_derivative vs hnd t h ρ).2, (table_derivative vs' (hp.nodup hnd) t h ρ).2]
  exact nested_perm _ _ medial_xor hp hnd t ρ
end

section
variable [Ord α] [Std.TransOrd α] [Std.LawfulEqOrd α]
/-! ### decision diagrams (repaired: fold of `var_restrict(v,0) xor var_restrict(v,1)`; a variable
    that is no input contributes `F xor F`) + prune -/
theorem bdd_derivative (vs : List α) (hnd : vs.Nodup) (b : Bdd α) (hb : b.WF) :
    ∃ b', Bdd.derivative vs b = .ok b' ∧ b'.WF ∧ (∀ y, y ∈ b'.inputs ↔ y ∈ b.inputs ∧ y ∉ vs) ∧
      ∀ ρ, b'.den ρ = nested (· != ·) Bdd.den vs b ρ := by
  obtain ⟨b', h1, h2, h3, h4⟩ := Bdd.derivative_den vs hnd b hb
  exact ⟨b', h1, h2, by intro y; rw [h3]; simp, h4⟩
/-- **in any order**: differentiating by the same variables in a different order gives the same diagram -/
theorem order_independent_bdd (vs vs' : List α) (hp : vs.Perm vs') (hnd : vs.Nodup) (b : Bdd α) (hb : b.WF)
    (c c' : Bdd α) (h1 : Bdd.derivative vs b = .ok c) (h2 : Bdd.derivative vs' b = .ok c') : c = c' := by
  obtain ⟨d, hd, hdw, hdi, hdd⟩ := Bdd.derivative_den vs hnd b hb
  obtain ⟨d', hd', hdw', hdi', hdd'⟩ := Bdd.derivative_den vs' (hp.nodup hnd) b hb
  rw [h1] at hd; cases hd
  rw [h2] at hd'; cases hd'
  have hfil : b.inputs.filter (fun x => !(vs.contains x)) = b.inputs.filter (fun x => !(vs'.contains x)) := by
    apply List.filter_congr
    intro x _
    simp only [List.contains_eq_mem, hp.mem_iff]
  apply Bdd.eq_of_den _ _ hdw hdw' (by rw [hdi, hdi', hfil])
  intro ρ
  rw [hdd, hdd']
  exact nested_perm _ _ medial_xor hp hnd b ρ

/-- the three representations of one function have the same derivative: the right-hand side is the
    same nested expansion of the common denotation -/
theorem representations_agree (vs : List α) (e : Expr α) (b : Bdd α) (hsame : ∀ ρ, b.den ρ = e.den ρ) (ρ : α → Bool) :
    nested (· != ·) Bdd.den vs b ρ = nested (· != ·) Expr.den vs e ρ :=
  Bdd.nested_congr _ _ _ b e hsame vs ρ
end

section
variable [Ord α] [Std.TransOrd α] [Std.LawfulEqOrd α]
/-- the derivative by *every* input is the constant "the function holds at an odd number of points" -/
theorem bdd_derivative_all_inputs (b : Bdd α) (h : b.WF) :
    ∃ c, Bdd.derivative b.inputs b = .ok c ∧ c.inputs = [] ∧ ∀ ρ, c.den ρ = decide (b.weight % 2 = 1) :=
  C10.bdd_derivative_all b h
end

/-- the pre-repair definition `F[all=0] xor F[all=1]` is wrong: for the empty set it yields the
    constant false instead of F (witness `!x1 | x3` at the all-false assignment) -/
theorem all0_all1_wrong :
    let e : Expr Nat := Expr.mkOr (.not (.lit 1)) (.lit 3)
    let old := Expr.mkXor (e.restrict []) (e.restrict [])
    old.den (fun _ => false) = false ∧ (e.derivative []).den (fun _ => false) = true := by decide

/-- non-vacuity: `d/dx3 (!x1 | x3) = x1` -/
example : ((Expr.mkOr (.not (.lit 1)) (.lit 3) : Expr Nat).derivative [3]).den (fun n => n == 1) = true := by decide

end BoolFn.C07

/-! ## A set that contains one variable the function does not depend on

`law.deriv.many` (correspondence) differentiates a small expression by one of its variables together
with many names it does not mention. The result is the constant false — for every function object,
every number of extra names and every position of the foreign name in the set. -/
namespace BoolFn.C07
open BoolFn
variable {α : Type} [DecidableEq α]

theorem upd_same (ρ : α → Bool) (x : α) (a b : Bool) : upd (upd ρ x a) x b = upd ρ x b := by
  funext y; simp only [upd]; split <;> rfl

/-- the nested expansion of a function that ignores `x` ignores `x` -/
theorem nested_ignores {F : Type} (bop : Bool → Bool → Bool) (den : (α → Bool) → F → Bool) (f : F) (x : α)
    (hind : ∀ ρ b, den (upd ρ x b) f = den ρ f) :
    ∀ (vs : List α) (ρ : α → Bool) (b : Bool), nested bop den vs f (upd ρ x b) = nested bop den vs f ρ := by
  intro vs
  induction vs with
  | nil => intro ρ b; exact hind ρ b
  | cons y ys ih =>
    intro ρ b
    simp only [nested]
    by_cases hxy : x = y
    · subst hxy
      -- the branch values do not depend on the earlier value of `x`
      rw [upd_same, upd_same]
    · rw [upd_comm ρ x y b false hxy, upd_comm ρ x y b true hxy, ih, ih]

/-- **one ignored variable in the set makes the derivative vanish** (parity over the assignments
    of the set: the two halves that differ only in the ignored variable cancel) -/
theorem nested_xor_foreign {F : Type} (den : (α → Bool) → F → Bool) (f : F) (x : α)
    (hind : ∀ ρ b, den (upd ρ x b) f = den ρ f) :
    ∀ (vs : List α), x ∈ vs → ∀ ρ, nested (· != ·) den vs f ρ = false := by
  intro vs
  induction vs with
  | nil => intro h; cases h
  | cons y ys ih =>
    intro hx ρ
    simp only [nested]
    by_cases hxy : x = y
    · subst hxy
      rw [nested_ignores (· != ·) den f x hind ys ρ false, nested_ignores (· != ·) den f x hind ys ρ true]
      simp
    · have hin : x ∈ ys := by
        rcases List.mem_cons.mp hx with h | h
        · exact absurd h hxy
        · exact h
      rw [ih hin, ih hin]; rfl

/-- expressions: differentiating by a duplicate-free set that contains a variable the expression does
    not mention gives the constant false -/
theorem expr_derivative_foreign (vs : List α) (hnd : vs.Nodup) (e : Expr α) (x : α) (hx : x ∈ vs)
    (hf : x ∉ e.vars) (ρ : α → Bool) : (e.derivative vs).den ρ = false := by
  rw [expr_derivative vs hnd]
  apply nested_xor_foreign Expr.den e x _ vs hx
  intro σ b
  apply Expr.den_congr
  intro y hy
  have : x ≠ y := fun h => hf (h ▸ hy)
  simp [upd, this]


/-! ### the derivative is linear over exclusive-or and blind to negation (single variable) -/
theorem derivative_xor_expr (x : α) (a b : Expr α) (ρ : α → Bool) :
    ((Expr.mkXor a b).derivative [x]).den ρ = ((a.derivative [x]).den ρ != (b.derivative [x]).den ρ) := by
  rw [single_flip_expr, single_flip_expr, single_flip_expr, Expr.den_mkXor, Expr.den_mkXor]
  cases a.den (upd ρ x false) <;> cases a.den (upd ρ x true) <;>
    cases b.den (upd ρ x false) <;> cases b.den (upd ρ x true) <;> rfl
theorem derivative_not_expr (x : α) (a : Expr α) (ρ : α → Bool) :
    ((Expr.not a).derivative [x]).den ρ = (a.derivative [x]).den ρ := by
  rw [single_flip_expr, single_flip_expr]
  simp only [Expr.den]
  cases a.den (upd ρ x false) <;> cases a.den (upd ρ x true) <;> rfl
/-- a second derivative by the same variable vanishes -/
theorem derivative_twice_expr (x : α) (e : Expr α) (ρ : α → Bool) :
    ((e.derivative [x]).derivative [x]).den ρ = false := by
  apply nonessential_false_expr
  intro σ
  rw [single_flip_expr, single_flip_expr, upd_same, upd_same, upd_same, upd_same]

section
variable [Ord α] [Std.TransOrd α] [Std.LawfulEqOrd α]
/-! ### the same laws for tables -/

theorem derivative_twice_table (x : α) (t : Table α) (h : t.WF) (ρ : α → Bool) :
    ((t.derivative [x]).derivative [x]).den ρ = false := by
  have hw : (t.derivative [x]).WF := (table_derivative [x] (by simp) t h ρ).1
  apply nonessential_false_table x _ hw
  intro σ
  rw [single_flip_table x t h, single_flip_table x t h, upd_same, upd_same, upd_same, upd_same]

theorem derivative_not_table (x : α) (t : Table α) (h : t.WF) (ρ : α → Bool) :
    ((Table.not t).derivative [x]).den ρ = (t.derivative [x]).den ρ := by
  obtain ⟨hw, _, hd⟩ := Table.not_den t h
  rw [single_flip_table x _ hw, single_flip_table x t h, hd, hd]
  cases t.den (upd ρ x false) <;> cases t.den (upd ρ x true) <;> rfl

/-- tables and expressions that denote one function have the same single-variable derivative -/
theorem derivative_table_expr_agree (x : α) (t : Table α) (h : t.WF) (e : Expr α)
    (hd : ∀ ρ, t.den ρ = e.den ρ) (ρ : α → Bool) :
    (t.derivative [x]).den ρ = (e.derivative [x]).den ρ := by
  rw [single_flip_table x t h, single_flip_expr, hd, hd]
end

end BoolFn.C07
