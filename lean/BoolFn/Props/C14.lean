import BoolFn.Props.C12
import BoolFn.Spec.Printed
import BoolFn.Proofs.PrintLex
/-! # C14 — Printing an expression and parsing the text gives the expression back

The text form of any expression whose variable names are plain identifiers other than the reserved
words, and whose conjunctions and disjunctions are non-empty, is accepted by the parser and parses to
an expression denoting the same function over the same variables. When every conjunction and
disjunction has at least two operands the parsed expression is structurally identical to the original.

`Display` writes `true`/`false`, the name, `!(…)`, and fully parenthesised n-ary nodes joined by
` & ` / ` | `. Two layers: the printed *characters* are tokenized to the token list `toks e`
(`printed_text_lexes`, for names that are plain identifiers other than the reserved words — `plainName`:
non-empty, identifier characters only, not equal to a word token up to the tokenizer's case folding);
and `toks e` derives `norm e` in the grammar, where `norm` replaces a one-operand
conjunction/disjunction by its operand; `norm e` denotes the same function over the same variables,
and is `e` itself when every n-ary node has at least two operands. `roundtrip` and `roundtrip_exact`
are the two sentences of the property on strings. -/
namespace BoolFn.C14
open BoolFn BoolFn.Spec

mutual
/-- what the parser returns: a one-operand level is the operand itself -/
def norm : Expr String → Expr String
  | .const b => .const b
  | .lit n => .lit n
  | .not e => .not (norm e)
  | .and es => collapse .and (normL es)
  | .or es => collapse .or (normL es)
def normL : List (Expr String) → List (Expr String)
  | [] => []
  | e :: es => norm e :: normL es
end

mutual
def arityAtLeast2 : Expr String → Bool
  | .const _ => true
  | .lit _ => true
  | .not e => arityAtLeast2 e
  | .and es => decide (2 ≤ es.length) && arityAtLeast2L es
  | .or es => decide (2 ≤ es.length) && arityAtLeast2L es
def arityAtLeast2L : List (Expr String) → Bool
  | [] => true
  | e :: es => arityAtLeast2 e && arityAtLeast2L es
end

/-! `norm` keeps the function and the variables -/
theorem den_collapse_and (ρ : String → Bool) (es : List (Expr String)) :
    (collapse .and es).den ρ = Expr.denAll ρ es := by
  match es with
  | [] => rfl
  | [x] => simp [collapse, Expr.denAll]
  | x :: y :: zs => rfl
theorem den_collapse_or (ρ : String → Bool) (es : List (Expr String)) :
    (collapse .or es).den ρ = Expr.denAny ρ es := by
  match es with
  | [] => rfl
  | [x] => simp [collapse, Expr.denAny]
  | x :: y :: zs => rfl
theorem vars_collapse (mk : List (Expr String) → Expr String) (hmk : ∀ l, (mk l).vars = Expr.varsL l)
    (es : List (Expr String)) : (collapse mk es).vars = Expr.varsL es := by
  match es with
  | [] => exact hmk []
  | [x] => simp [collapse, Expr.varsL]
  | x :: y :: zs => exact hmk _

mutual
theorem norm_den (ρ : String → Bool) : (e : Expr String) → (norm e).den ρ = e.den ρ
  | .const _ => rfl
  | .lit _ => rfl
  | .not e => by simp [norm, Expr.den, norm_den ρ e]
  | .and es => by simp [norm, den_collapse_and, Expr.den, normL_denAll ρ es]
  | .or es => by simp [norm, den_collapse_or, Expr.den, normL_denAny ρ es]
theorem normL_denAll (ρ : String → Bool) : (es : List (Expr String)) → Expr.denAll ρ (normL es) = Expr.denAll ρ es
  | [] => rfl
  | e :: es => by simp [normL, Expr.denAll, norm_den ρ e, normL_denAll ρ es]
theorem normL_denAny (ρ : String → Bool) : (es : List (Expr String)) → Expr.denAny ρ (normL es) = Expr.denAny ρ es
  | [] => rfl
  | e :: es => by simp [normL, Expr.denAny, norm_den ρ e, normL_denAny ρ es]
end

mutual
theorem norm_vars : (e : Expr String) → (norm e).vars = e.vars
  | .const _ => rfl
  | .lit _ => rfl
  | .not e => by simp [norm, Expr.vars, norm_vars e]
  | .and es => by simp [norm, vars_collapse .and (fun _ => rfl), Expr.vars, normL_vars es]
  | .or es => by simp [norm, vars_collapse .or (fun _ => rfl), Expr.vars, normL_vars es]
theorem normL_vars : (es : List (Expr String)) → Expr.varsL (normL es) = Expr.varsL es
  | [] => rfl
  | e :: es => by simp [normL, Expr.varsL, norm_vars e, normL_vars es]
end

mutual
/-- with at least two operands everywhere the parser's answer is the original expression -/
theorem norm_exact : (e : Expr String) → arityAtLeast2 e = true → norm e = e
  | .const _, _ => rfl
  | .lit _, _ => rfl
  | .not e, h => by simp [norm, norm_exact e (by simpa [arityAtLeast2] using h)]
  | .and es, h => by
    simp only [arityAtLeast2, Bool.and_eq_true, decide_eq_true_eq] at h
    have := normL_exact es h.2
    simp only [norm, this]
    match es, h.1 with
    | _ :: _ :: _, _ => rfl
  | .or es, h => by
    simp only [arityAtLeast2, Bool.and_eq_true, decide_eq_true_eq] at h
    have := normL_exact es h.2
    simp only [norm, this]
    match es, h.1 with
    | _ :: _ :: _, _ => rfl
theorem normL_exact : (es : List (Expr String)) → arityAtLeast2L es = true → normL es = es
  | [], _ => rfl
  | e :: es, h => by
    simp only [arityAtLeast2L, Bool.and_eq_true] at h
    simp [normL, norm_exact e h.1, normL_exact es h.2]
end

/-! the printed tokens derive `norm e` -/

mutual
theorem toks_derives : (e : Expr String) → nonEmptyNary e = true → DTerm (toks e) (norm e)
  | .const true, _ => .tt
  | .const false, _ => .ff
  | .lit n, _ => by
    have : (Expr.lit n : Expr String) = .lit (String.ofList n.toList) := by simp
    rw [toks, norm, this]; exact .lit _
  | .not e, h => by
    have he := toks_derives e (by simpa [nonEmptyNary] using h)
    -- `!( … )`: the group is an or-level sentence with a single and-level with a single term
    exact .not (.paren (by
      have : DOr (toks e) (collapse .or [collapse .and [norm e]]) := .mk (.one (.one he))
      simpa [collapse] using this))
  | .and es, h => by
    simp only [nonEmptyNary, Bool.and_eq_true, Bool.not_eq_true', List.isEmpty_eq_false_iff] at h
    have hl := toksL_derives_and es h.1 h.2
    exact .paren (by
      have : DOr (joinToks .and (toksL es)) (collapse .or [collapse .and (normL es)]) := .mk (.one hl)
      simpa [collapse, norm] using this)
  | .or es, h => by
    simp only [nonEmptyNary, Bool.and_eq_true, Bool.not_eq_true', List.isEmpty_eq_false_iff] at h
    have hl := toksL_derives_or es h.1 h.2
    exact .paren (by
      have : DOr (joinToks .or (toksL es)) (collapse .or (normL es)) := .mk hl
      simpa [norm] using this)
theorem toksL_derives_and : (es : List (Expr String)) → es ≠ [] → nonEmptyNaryL es = true →
    DAndL (joinToks .and (toksL es)) (normL es)
  | [], h, _ => absurd rfl h
  | [e], _, h => by
    simp only [nonEmptyNaryL, Bool.and_true] at h
    exact .one (toks_derives e h)
  | e :: e' :: es, _, h => by
    simp only [nonEmptyNaryL, Bool.and_eq_true] at h
    have h1 := toks_derives e h.1
    have h2 := toksL_derives_and (e' :: es) (by simp) (by simp [nonEmptyNaryL, h.2.1, h.2.2])
    exact .cons h1 h2
theorem toksL_derives_or : (es : List (Expr String)) → es ≠ [] → nonEmptyNaryL es = true →
    DOrL (joinToks .or (toksL es)) (normL es)
  | [], h, _ => absurd rfl h
  | [e], _, h => by
    simp only [nonEmptyNaryL, Bool.and_true] at h
    have := toks_derives e h
    have hd : DOrL (toks e) [collapse .and [norm e]] := .one (.one this)
    simpa [collapse, joinToks, toksL, normL] using hd
  | e :: e' :: es, _, h => by
    simp only [nonEmptyNaryL, Bool.and_eq_true] at h
    have h1 := toks_derives e h.1
    have h2 := toksL_derives_or (e' :: es) (by simp) (by simp [nonEmptyNaryL, h.2.1, h.2.2])
    have hd : DOrL (toks e ++ .or :: joinToks .or (toksL (e' :: es))) (collapse .and [norm e] :: normL (e' :: es)) :=
      .cons (.one h1) h2
    simpa [collapse, joinToks, toksL, normL] using hd
end

/-- **round trip at token level**: the tokens of the printed form are accepted and parse to `norm e`,
    which denotes the same function over the same variables, and is `e` when all arities are ≥ 2 -/
theorem roundtrip_tokens (e : Expr String) (h : nonEmptyNary e = true) :
    parseTokens (toks e) = .ok (norm e) ∧ (∀ ρ, (norm e).den ρ = e.den ρ) ∧ (norm e).vars = e.vars := by
  refine ⟨?_, fun ρ => norm_den ρ e, norm_vars e⟩
  rw [C12.grammar]
  have := toks_derives e h
  have hd : DOr (toks e) (collapse .or [collapse .and [norm e]]) := .mk (.one (.one this))
  simpa [collapse] using hd

theorem exact (e : Expr String) (h : arityAtLeast2 e = true) (hne : nonEmptyNary e = true) :
    parseTokens (toks e) = .ok e := by
  have := (roundtrip_tokens e hne).1
  rwa [norm_exact e h] at this


/-- **character level**: `Display`'s text is tokenized to the token list it stands for -/
theorem printed_text_lexes (e : Expr String) (hp : plainNames e = true) (hne : nonEmptyNary e = true) :
    tokenize (printE e).toList = .ok (toks e) := tokenize_printed e hp hne

/-- **C14, first sentence**: the text form of an expression over plain identifier names with non-empty
    conjunctions and disjunctions is accepted by `from_str` and parses to an expression denoting the
    same function over the same variables -/
theorem roundtrip (e : Expr String) (hp : plainNames e = true) (hne : nonEmptyNary e = true) :
    ∃ e', parse (printE e) = .ok e' ∧ (∀ ρ, e'.den ρ = e.den ρ) ∧ e'.vars = e.vars := by
  refine ⟨norm e, ?_, (roundtrip_tokens e hne).2.1, (roundtrip_tokens e hne).2.2⟩
  simp only [parse, printed_text_lexes e hp hne]
  exact (roundtrip_tokens e hne).1

/-- **C14, second sentence**: with at least two operands everywhere the parsed expression is the original -/
theorem roundtrip_exact (e : Expr String) (hp : plainNames e = true) (h2 : arityAtLeast2 e = true)
    (hne : nonEmptyNary e = true) : parse (printE e) = .ok e := by
  simp only [parse, printed_text_lexes e hp hne]
  exact exact e h2 hne

/-- reserved words are excluded for a reason: the name `T` prints as `T` and reads back as the constant -/
example : reserved ['T'] = true ∧ reserved ['o', 'R'] = true ∧ reserved ['1'] = true ∧
    plainName ['1', '0'] = true ∧ plainName ['n', 'o', 't', 'a'] = true ∧ plainName ['t', '-'] = true := by decide

/-- non-vacuity: a concrete expression with digit-led and keyword-prefixed names meets the hypotheses -/
example : plainNames (.and [.lit "10", .or [.not (.lit "nota"), .lit "t1"]]) = true ∧
    nonEmptyNary (.and [.lit "10", .or [.not (.lit "nota"), .lit "t1"]]) = true ∧
    arityAtLeast2 (.and [.lit "10", .or [.not (.lit "nota"), .lit "t1"]]) = true := by decide

end BoolFn.C14
