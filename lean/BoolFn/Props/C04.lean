import BoolFn.Proofs.Oracle
import BoolFn.Proofs.Recipe
import BoolFn.Proofs.BddOps
import BoolFn.Proofs.TableOps
import BoolFn.Bdd
/-! # C04 — Equivalence and implication tests decide semantic equality and entailment

The equivalence test returns true exactly when the two functions agree on every assignment of the
union of their variables, and the implication test returns true exactly when every assignment that
satisfies the other function also satisfies this one. The answer depends only on the functions
denoted — not on how the objects were built, on variables they merely mention, or on which
representation is used: the right-hand sides below mention only the denotations. -/
namespace BoolFn.C04
open BoolFn
variable {α : Type} [DecidableEq α] [Ord α] [Std.TransOrd α] [Std.LawfulEqOrd α]
set_option linter.unusedSectionVars false

/-- a test over the power set of a name list `u` covering the variables of both operands decides
    the statement for all assignments -/
theorem powerSet_all_iff (u : List α) (hnd : u.Nodup) (f : (α → Bool) → Bool)
    (hcongr : ∀ ρ σ : α → Bool, (∀ x ∈ u, ρ x = σ x) → f ρ = f σ) :
    ((powerSet u).all fun v => f (complete v false)) = true ↔ ∀ ρ, f ρ = true := by
  rw [List.all_eq_true]
  constructor
  · intro h ρ
    obtain ⟨v, hv, hag⟩ := powerSet_complete ρ u hnd
    rw [← hcongr (complete v false) ρ (complete_of_agrees v ρ u hag false)]
    exact h v hv
  · intro h v _; exact h _

/-! ### expressions -/
theorem expr_equiv_iff (a b : Expr α) :
    a.semanticEq b = true ↔ ∀ ρ, a.den ρ = b.den ρ := by
  have hu := nodup_sortDedup (a.inputs ++ b.inputs)
  have key := powerSet_all_iff (unionSorted a.inputs b.inputs) hu (fun ρ => a.den ρ == b.den ρ) (by
    intro ρ σ h
    have ha : a.den ρ = a.den σ := Expr.den_congr ρ σ a (fun x hx =>
      h x ((mem_unionSorted x _ _).mpr (Or.inl ((mem_sortDedup x _).mpr hx))))
    have hb : b.den ρ = b.den σ := Expr.den_congr ρ σ b (fun x hx =>
      h x ((mem_unionSorted x _ _).mpr (Or.inr ((mem_sortDedup x _).mpr hx))))
    simp [ha, hb])
  simp only [Expr.semanticEq, Expr.eval_eq_den]
  rw [key]
  simp

theorem expr_implied_iff (self other : Expr α) :
    self.isImpliedBy other = true ↔ ∀ ρ, other.den ρ = true → self.den ρ = true := by
  have hu := nodup_sortDedup (self.inputs ++ other.inputs)
  have key := powerSet_all_iff (unionSorted self.inputs other.inputs) hu
    (fun ρ => !(other.den ρ) || self.den ρ) (by
    intro ρ σ h
    have ha : self.den ρ = self.den σ := Expr.den_congr ρ σ self (fun x hx =>
      h x ((mem_unionSorted x _ _).mpr (Or.inl ((mem_sortDedup x _).mpr hx))))
    have hb : other.den ρ = other.den σ := Expr.den_congr ρ σ other (fun x hx =>
      h x ((mem_unionSorted x _ _).mpr (Or.inr ((mem_sortDedup x _).mpr hx))))
    simp [ha, hb])
  simp only [Expr.isImpliedBy, Expr.eval_eq_den]
  rw [key]
  constructor
  · intro h ρ ho; have := h ρ; simpa [ho] using this
  · intro h ρ; cases ho : other.den ρ <;> simp [h ρ, ho]

/-! ### tables -/
theorem table_equiv_iff (a b : Table α) (ha : a.WF) (hb : b.WF) :
    a.semanticEq b = true ↔ ∀ ρ, a.den ρ = b.den ρ := by
  have hga := Table.gatherLiterals_of_WF a ha
  have hgb := Table.gatherLiterals_of_WF b hb
  have hu := nodup_sortDedup (a.inputs ++ b.inputs)
  have key := powerSet_all_iff (unionSorted a.inputs b.inputs) hu (fun ρ => a.den ρ == b.den ρ) (by
    intro ρ σ h
    have h1 : a.den ρ = a.den σ := Table.den_congr ρ σ a (fun x hx => h x ((mem_unionSorted x _ _).mpr (Or.inl hx)))
    have h2 : b.den ρ = b.den σ := Table.den_congr ρ σ b (fun x hx => h x ((mem_unionSorted x _ _).mpr (Or.inr hx)))
    simp [h1, h2])
  simp only [Table.semanticEq, Table.eval_eq_den, hga, hgb]
  rw [key]
  simp

theorem table_implied_iff (self other : Table α) (hs : self.WF) (ho : other.WF) :
    self.isImpliedBy other = true ↔ ∀ ρ, other.den ρ = true → self.den ρ = true := by
  have hga := Table.gatherLiterals_of_WF self hs
  have hgb := Table.gatherLiterals_of_WF other ho
  have hu := nodup_sortDedup (self.inputs ++ other.inputs)
  have key := powerSet_all_iff (unionSorted self.inputs other.inputs) hu
    (fun ρ => !(other.den ρ) || self.den ρ) (by
    intro ρ σ h
    have h1 : self.den ρ = self.den σ := Table.den_congr ρ σ self (fun x hx => h x ((mem_unionSorted x _ _).mpr (Or.inl hx)))
    have h2 : other.den ρ = other.den σ := Table.den_congr ρ σ other (fun x hx => h x ((mem_unionSorted x _ _).mpr (Or.inr hx)))
    simp [h1, h2])
  simp only [Table.isImpliedBy, Table.eval_eq_den, hga, hgb]
  rw [key]
  constructor
  · intro h ρ hoth; have := h ρ; simpa [hoth] using this
  · intro h ρ; cases hoth : other.den ρ <;> simp [h ρ, hoth]

/-! `semantic_eq` is the same model function as `is_equivalent` for expressions and tables (the Rust
    `is_equivalent` forwards to `semantic_eq`), and `semantic_ne` is its negation; the check compares all
    four answers of the implementation. -/

/-! ### decision diagrams (repaired `is_equivalent`) -/
theorem bdd_equiv_iff (a b : Bdd α) (ha : a.WF) (hb : b.WF) :
    ∃ r, Bdd.isEquivalent a b = .ok r ∧ (r = true ↔ ∀ ρ, a.den ρ = b.den ρ) := Bdd.isEquivalent_iff a b ha hb
theorem bdd_implied_iff (self other : Bdd α) (hs : self.WF) (ho : other.WF) :
    ∃ r, Bdd.isImpliedBy self other = .ok r ∧ (r = true ↔ ∀ ρ, other.den ρ = true → self.den ρ = true) :=
  Bdd.isImpliedBy_iff self other hs ho

/-- independence of declared-only variables and of the construction history: two expressions with the
    same denotation as `a` resp. `b` get the same answer -/
theorem expr_answer_depends_only_on_function (a a' b b' : Expr α)
    (ha : ∀ ρ, a.den ρ = a'.den ρ) (hb : ∀ ρ, b.den ρ = b'.den ρ) :
    a.semanticEq b = a'.semanticEq b' ∧ a.isImpliedBy b = a'.isImpliedBy b' := by
  constructor
  · apply Bool.eq_iff_iff.mpr
    rw [expr_equiv_iff, expr_equiv_iff]
    constructor
    · intro h ρ; rw [← ha, ← hb]; exact h ρ
    · intro h ρ; rw [ha, hb]; exact h ρ
  · apply Bool.eq_iff_iff.mpr
    rw [expr_implied_iff, expr_implied_iff]
    constructor
    · intro h ρ; rw [← ha, ← hb]; exact h ρ
    · intro h ρ; rw [ha, hb]; exact h ρ


/-! ### the answers form an equivalence relation and a preorder (expressions) -/
theorem expr_equiv_refl (a : Expr α) : a.semanticEq a = true := (expr_equiv_iff a a).mpr fun _ => rfl
theorem expr_equiv_symm (a b : Expr α) : a.semanticEq b = b.semanticEq a := by
  apply Bool.eq_iff_iff.mpr
  rw [expr_equiv_iff, expr_equiv_iff]
  exact ⟨fun h ρ => (h ρ).symm, fun h ρ => (h ρ).symm⟩
theorem expr_equiv_trans (a b c : Expr α) (h₁ : a.semanticEq b = true) (h₂ : b.semanticEq c = true) :
    a.semanticEq c = true := by
  rw [expr_equiv_iff] at *
  exact fun ρ => (h₁ ρ).trans (h₂ ρ)
theorem expr_implied_refl (a : Expr α) : a.isImpliedBy a = true := (expr_implied_iff a a).mpr fun _ h => h
theorem expr_implied_trans (a b c : Expr α) (h₁ : a.isImpliedBy b = true) (h₂ : b.isImpliedBy c = true) :
    a.isImpliedBy c = true := by
  rw [expr_implied_iff] at *
  exact fun ρ h => h₁ ρ (h₂ ρ h)
/-- equivalent exactly when each implies the other -/
theorem expr_equiv_iff_mutual (a b : Expr α) :
    a.semanticEq b = (a.isImpliedBy b && b.isImpliedBy a) := by
  apply Bool.eq_iff_iff.mpr
  rw [Bool.and_eq_true, expr_equiv_iff, expr_implied_iff, expr_implied_iff]
  constructor
  · intro h; exact ⟨fun ρ hb => by rw [h ρ]; exact hb, fun ρ ha => by rw [← h ρ]; exact ha⟩
  · intro ⟨h₁, h₂⟩ ρ
    cases ha : a.den ρ <;> cases hb : b.den ρ <;> simp_all

/-! ### … and for tables -/
theorem table_equiv_refl (a : Table α) (ha : a.WF) : a.semanticEq a = true :=
  (table_equiv_iff a a ha ha).mpr fun _ => rfl
theorem table_equiv_symm (a b : Table α) (ha : a.WF) (hb : b.WF) : a.semanticEq b = b.semanticEq a := by
  apply Bool.eq_iff_iff.mpr
  rw [table_equiv_iff a b ha hb, table_equiv_iff b a hb ha]
  exact ⟨fun h ρ => (h ρ).symm, fun h ρ => (h ρ).symm⟩
theorem table_equiv_trans (a b c : Table α) (ha : a.WF) (hb : b.WF) (hc : c.WF)
    (h₁ : a.semanticEq b = true) (h₂ : b.semanticEq c = true) : a.semanticEq c = true := by
  rw [table_equiv_iff a b ha hb] at h₁
  rw [table_equiv_iff b c hb hc] at h₂
  rw [table_equiv_iff a c ha hc]
  exact fun ρ => (h₁ ρ).trans (h₂ ρ)
theorem table_equiv_iff_mutual (a b : Table α) (ha : a.WF) (hb : b.WF) :
    a.semanticEq b = (a.isImpliedBy b && b.isImpliedBy a) := by
  apply Bool.eq_iff_iff.mpr
  rw [Bool.and_eq_true, table_equiv_iff a b ha hb, table_implied_iff a b ha hb, table_implied_iff b a hb ha]
  constructor
  · intro h; exact ⟨fun ρ hb => by rw [h ρ]; exact hb, fun ρ ha => by rw [← h ρ]; exact ha⟩
  · intro ⟨h₁, h₂⟩ ρ
    cases ha : a.den ρ <;> cases hb : b.den ρ <;> simp_all

/-! ### … and for diagrams -/
theorem bdd_equiv_symm (a b : Bdd α) (ha : a.WF) (hb : b.WF) :
    ∃ r, Bdd.isEquivalent a b = .ok r ∧ Bdd.isEquivalent b a = .ok r := by
  obtain ⟨r, h, hr⟩ := bdd_equiv_iff a b ha hb
  obtain ⟨r', h', hr'⟩ := bdd_equiv_iff b a hb ha
  refine ⟨r, h, ?_⟩
  have : r' = r := by
    apply Bool.eq_iff_iff.mpr
    rw [hr, hr']
    exact ⟨fun h ρ => (h ρ).symm, fun h ρ => (h ρ).symm⟩
  rw [h', this]
theorem bdd_equiv_refl (a : Bdd α) (ha : a.WF) : Bdd.isEquivalent a a = .ok true := by
  obtain ⟨r, h, hr⟩ := bdd_equiv_iff a a ha ha
  rw [h, hr.mpr fun _ => rfl]


theorem bdd_equiv_trans (a b c : Bdd α) (ha : a.WF) (hb : b.WF) (hc : c.WF)
    (h₁ : Bdd.isEquivalent a b = .ok true) (h₂ : Bdd.isEquivalent b c = .ok true) :
    Bdd.isEquivalent a c = .ok true := by
  obtain ⟨r₁, e₁, i₁⟩ := bdd_equiv_iff a b ha hb
  obtain ⟨r₂, e₂, i₂⟩ := bdd_equiv_iff b c hb hc
  obtain ⟨r₃, e₃, i₃⟩ := bdd_equiv_iff a c ha hc
  rw [e₁] at h₁; rw [e₂] at h₂
  have h1 : r₁ = true := by injection h₁
  have h2 : r₂ = true := by injection h₂
  rw [e₃, i₃.mpr fun ρ => (i₁.mp h1 ρ).trans (i₂.mp h2 ρ)]

theorem bdd_implied_refl (a : Bdd α) (ha : a.WF) : Bdd.isImpliedBy a a = .ok true := by
  obtain ⟨r, h, hr⟩ := bdd_implied_iff a a ha ha
  rw [h, hr.mpr fun _ h => h]

/-- the three representations answer alike -/
theorem equiv_answers_agree (e₁ e₂ : Expr α) (t₁ t₂ : Table α) (b₁ b₂ : Bdd α)
    (ht₁ : t₁.WF) (ht₂ : t₂.WF) (hb₁ : b₁.WF) (hb₂ : b₂.WF)
    (h1t : ∀ ρ, e₁.den ρ = t₁.den ρ) (h2t : ∀ ρ, e₂.den ρ = t₂.den ρ)
    (h1b : ∀ ρ, e₁.den ρ = b₁.den ρ) (h2b : ∀ ρ, e₂.den ρ = b₂.den ρ) :
    t₁.semanticEq t₂ = e₁.semanticEq e₂ ∧ Bdd.isEquivalent b₁ b₂ = .ok (e₁.semanticEq e₂) := by
  constructor
  · apply Bool.eq_iff_iff.mpr
    rw [table_equiv_iff t₁ t₂ ht₁ ht₂, expr_equiv_iff]
    simp only [h1t, h2t]
  · obtain ⟨r, h, hr⟩ := bdd_equiv_iff b₁ b₂ hb₁ hb₂
    rw [h]; congr 1
    apply Bool.eq_iff_iff.mpr
    rw [hr, expr_equiv_iff]
    simp only [h1b, h2b]

/-- non-vacuity: `a xor b` against the same function rebuilt, and against a near miss -/
example : (Expr.mkXor (.lit 1) (.lit 2) : Expr Nat).semanticEq
    (.or [.and [.lit 1, .not (.lit 2)], .and [.not (.lit 1), .lit 2, .or [.lit 7, .not (.lit 7)]]]) = true := by decide
example : (Expr.mkXor (.lit 1) (.lit 2) : Expr Nat).semanticEq (.or [.lit 1, .lit 2]) = false := by decide

end BoolFn.C04
