import BoolFn.Proofs.Oracle3
import BoolFn.Props.C01
import BoolFn.Proofs.Recipe
import BoolFn.Proofs.Oracle
import BoolFn.Proofs.Table
import BoolFn.Bdd
/-! # C02 — Evaluation follows Boolean semantics, with consistent default and checked modes

For every function object and every assignment, evaluation returns the value given by the usual
semantics of constants, variables, negation, conjunction and disjunction (an empty conjunction is
true, an empty disjunction is false); variables in the assignment that the function does not mention
are ignored. Unassigned inputs take the caller's default, and checked evaluation returns the value
exactly when every input is assigned and otherwise reports exactly the set of unassigned inputs. -/
namespace BoolFn.C02
open BoolFn
variable {α : Type} [DecidableEq α]
set_option linter.unusedSectionVars false

/-- The semantics the property names: `Expr.den` is the usual semantics (`den` of an empty `and`
    is `true`, of an empty `or` is `false`). -/
theorem den_empty_and (ρ : α → Bool) : Expr.den ρ (.and []) = true := rfl
theorem den_empty_or (ρ : α → Bool) : Expr.den ρ (.or []) = false := rfl

/-- default mode, expressions: `evaluate_with_default(v, d)` is the denotation under `v` completed
    with `d` (so keys of `v` that the expression does not mention are ignored). -/
theorem expr_default (v : PVal α) (d : Bool) (e : Expr α) :
    e.eval v d = e.den (complete v d) := Expr.eval_eq_den v d e

/-- checked mode, expressions -/
theorem expr_checked (v : PVal α) (e : Expr α) :
    (∀ x ∈ e.vars, x ∈ v.keys) → e.evalChecked v = .ok (e.den (complete v false)) := by
  intro h
  have hm : Expr.missing v e = [] := by
    apply List.eq_nil_iff_forall_not_mem.mpr
    intro x hx
    have := (Expr.mem_missing v x e).mp hx
    exact (PVal.get?_eq_none_iff v x).mp this.2 (h x this.1)
  simp only [Expr.evalChecked, hm, List.isEmpty_nil, if_true]
  rw [Expr.eval_eq_den]
  congr 1
  apply Expr.den_congr
  intro x hx
  have : (PVal.get? v x).isSome := (PVal.get?_isSome_iff v x).mpr (h x hx)
  simp only [complete]
  cases hg : PVal.get? v x <;> simp_all

theorem expr_checked_err (v : PVal α) (e : Expr α) (hmiss : ∃ x ∈ e.vars, x ∉ v.keys) :
    ∃ s, e.evalChecked v = .error s ∧ ∀ x, x ∈ s ↔ (x ∈ e.vars ∧ x ∉ v.keys) := by
  obtain ⟨x, hx, hk⟩ := hmiss
  have hmem : x ∈ Expr.missing v e :=
    (Expr.mem_missing v x e).mpr ⟨hx, (PVal.get?_eq_none_iff v x).mpr hk⟩
  have hne : (Expr.missing v e).isEmpty = false := by
    cases hm : Expr.missing v e with
    | nil => rw [hm] at hmem; cases hmem
    | cons _ _ => rfl
  refine ⟨Expr.missing v e, by simp [Expr.evalChecked, hne], ?_⟩
  intro y
  rw [Expr.mem_missing, PVal.get?_eq_none_iff]

section
variable [Ord α]

/-- default mode, tables: the value, and the index expression is in bounds (no panic) -/
theorem table_default (v : PVal α) (d : Bool) (t : Table α) (h : t.WF) :
    t.eval v d = t.den (complete v d) ∧ valuesToRowIndex t.inputs v d < t.outputs.length :=
  ⟨Table.eval_eq_den v d t, Table.eval_inbounds v d t h⟩

/-- checked mode, tables: `Ok` exactly when every input is assigned -/
theorem table_checked (v : PVal α) (t : Table α) (hall : ∀ x ∈ t.inputs, x ∈ v.keys) :
    t.evalChecked v = .ok (t.den (complete v false)) := by
  have : (t.inputs.reverse.filter fun x => (PVal.get? v x).isNone) = [] := by
    apply List.filter_eq_nil_iff.mpr
    intro x hx
    have := (PVal.get?_isSome_iff v x).mpr (hall x (by simpa using hx))
    cases hg : PVal.get? v x <;> simp_all
  simp only [Table.evalChecked, valuesToRowIndexChecked, this, List.isEmpty_nil, if_true]
  rfl

theorem table_checked_err (v : PVal α) (t : Table α) (hmiss : ∃ x ∈ t.inputs, x ∉ v.keys) :
    ∃ s, t.evalChecked v = .error s ∧ ∀ x, x ∈ s ↔ (x ∈ t.inputs ∧ x ∉ v.keys) := by
  obtain ⟨x, hx, hk⟩ := hmiss
  have hmem : x ∈ t.inputs.reverse.filter fun x => (PVal.get? v x).isNone := by
    simp only [List.mem_filter, List.mem_reverse]
    exact ⟨hx, by simp [(PVal.get?_eq_none_iff v x).mpr hk]⟩
  have hne : (t.inputs.reverse.filter fun x => (PVal.get? v x).isNone).isEmpty = false := by
    cases hm : t.inputs.reverse.filter fun x => (PVal.get? v x).isNone with
    | nil => rw [hm] at hmem; cases hmem
    | cons _ _ => rfl
  refine ⟨t.inputs.reverse.filter fun x => (PVal.get? v x).isNone, ?_, ?_⟩
  · simp only [Table.evalChecked, valuesToRowIndexChecked, hne]
    rfl
  · intro y
    simp only [List.mem_filter, List.mem_reverse, Option.isNone_iff_eq_none, PVal.get?_eq_none_iff]

/-- default mode, decision diagrams (over the lib-bdd model) -/
theorem bdd_default (v : PVal α) (d : Bool) (b : Bdd α) : b.eval v d = b.den (complete v d) := rfl

theorem bdd_checked (v : PVal α) (b : Bdd α) (hall : ∀ x ∈ b.inputs, x ∈ v.keys) :
    b.evalChecked v = .ok (b.den (complete v false)) := by
  have : (b.inputs.filter fun x => (PVal.get? v x).isNone) = [] := by
    apply List.filter_eq_nil_iff.mpr
    intro x hx
    have := (PVal.get?_isSome_iff v x).mpr (hall x hx)
    cases hg : PVal.get? v x <;> simp_all
  simp only [Bdd.evalChecked, this, List.isEmpty_nil, if_true]
  rfl

theorem bdd_checked_err (v : PVal α) (b : Bdd α) (hmiss : ∃ x ∈ b.inputs, x ∉ v.keys) :
    ∃ s, b.evalChecked v = .error s ∧ ∀ x, x ∈ s ↔ (x ∈ b.inputs ∧ x ∉ v.keys) := by
  obtain ⟨x, hx, hk⟩ := hmiss
  have hmem : x ∈ b.inputs.filter fun x => (PVal.get? v x).isNone := by
    simp only [List.mem_filter]
    exact ⟨hx, by simp [(PVal.get?_eq_none_iff v x).mpr hk]⟩
  have hne : (b.inputs.filter fun x => (PVal.get? v x).isNone).isEmpty = false := by
    cases hm : b.inputs.filter fun x => (PVal.get? v x).isNone with
    | nil => rw [hm] at hmem; cases hmem
    | cons _ _ => rfl
  refine ⟨b.inputs.filter fun x => (PVal.get? v x).isNone, ?_, ?_⟩
  · simp only [Bdd.evalChecked, hne]
    rfl
  · intro y
    simp only [List.mem_filter, Option.isNone_iff_eq_none, PVal.get?_eq_none_iff]
end

/-- foreign keys are ignored: a key the expression does not mention does not change the value -/
theorem expr_ignores_foreign (v : PVal α) (d : Bool) (k : α) (b : Bool) (e : Expr α) (hk : k ∉ e.vars) :
    e.eval ((k, b) :: v) d = e.eval v d := by
  rw [Expr.eval_eq_den, Expr.eval_eq_den]
  apply Expr.den_congr
  intro x hx
  have : k ≠ x := fun h => hk (h ▸ hx)
  simp [complete, PVal.get?_cons_ne _ _ _ _ this]

/-- non-vacuity: a concrete expression, a partial valuation with a foreign key, both defaults -/
example : (Expr.and [.lit "a", .not (.lit "b")]).eval [("a", true), ("zz", false)] false = true := by decide
example : (Expr.and [.lit "a", .not (.lit "b")]).eval [("a", true), ("zz", false)] true = false := by decide

/-! ### the table and diagram *forms of an expression* evaluate like the expression

C02 speaks of "expressions, their table and BDD forms". With the conversion theorems of C01 the
evaluation theorems above give: the converted object returns, in every mode, what the expression
returns (`eval.of` observes this on the implementation). -/
section
variable [Ord α] [Std.TransOrd α] [Std.LawfulEqOrd α]

theorem table_form_default (v : PVal α) (d : Bool) (e : Expr α) :
    (exprToTable e).eval v d = e.eval v d := by
  obtain ⟨hwf, _, hden⟩ := C01.exprToTable_den e
  rw [(table_default v d _ hwf).1, hden, expr_default]

theorem table_form_checked (v : PVal α) (e : Expr α) (hall : ∀ x ∈ e.vars, x ∈ v.keys) :
    (exprToTable e).evalChecked v = e.evalChecked v := by
  obtain ⟨_, hins, hden⟩ := C01.exprToTable_den e
  rw [expr_checked v e hall, table_checked v _ (by
    intro x hx
    rw [hins] at hx
    exact hall x ((mem_sortDedup x _).mp hx)), hden]

theorem bdd_form_default (e : Expr α) (hsmall : e.inputs.length ≤ maxBddVars) :
    ∃ b, exprToBdd e = .ok (.ok b) ∧ ∀ (v : PVal α) (d : Bool), b.eval v d = e.eval v d := by
  obtain ⟨b, hb, _, _, hden⟩ := C01.exprToBdd_den e hsmall
  exact ⟨b, hb, fun v d => by rw [bdd_default, hden, expr_default]⟩

theorem bdd_form_checked (e : Expr α) (hsmall : e.inputs.length ≤ maxBddVars) :
    ∃ b, exprToBdd e = .ok (.ok b) ∧
      ∀ (v : PVal α), (∀ x ∈ e.vars, x ∈ v.keys) → b.evalChecked v = e.evalChecked v := by
  obtain ⟨b, hb, _, hins, hden⟩ := C01.exprToBdd_den e hsmall
  refine ⟨b, hb, fun v hall => ?_⟩
  rw [expr_checked v e hall, bdd_checked v b (by
    intro x hx
    rw [hins] at hx
    exact hall x ((mem_sortDedup x _).mp hx)), hden]
end

end BoolFn.C02
