import BoolFn.Proofs.Oracle
import BoolFn.Proofs.TableOps
import BoolFn.Proofs.BddSubst
/-! # C08 — Substitution is simultaneous functional composition

Substituting functions for variables yields a function whose value at x equals the original's value
at the assignment obtained from x by giving each substituted variable the value of its replacement at
x, all replacements being evaluated at the same x. A substituted variable stays an input only if some
replacement mentions it, substituting a variable the function does not mention is harmless, and the
only permitted refusal is the documented one for decision diagrams whose replacement mentions the
very variable it replaces.

The substitution map is a `BTreeMap` in the code: an association list with distinct keys here. -/
namespace BoolFn.C08
open BoolFn
variable {α : Type} [DecidableEq α]
set_option linter.unusedSectionVars false

/-- the assignment seen by the original function: every key reads its replacement at `ρ` -/
def composed {F : Type} (den : (α → Bool) → F → Bool) (m : List (α × F)) (ρ : α → Bool) : α → Bool :=
  fun x => match lookup m x with
    | some g => den ρ g
    | none => ρ x

/-! ### expressions -/
theorem expr_substitute (m : List (α × Expr α)) (e : Expr α) (ρ : α → Bool) :
    (e.substitute m).den ρ = e.den (composed Expr.den m ρ) := by
  rw [Expr.den_substitute]
  congr 1
  funext x
  simp only [composed]
  cases lookup m x <;> rfl

/-- a substituted variable stays only if some replacement (of a variable that occurs) mentions it -/
theorem expr_key_stays_only_if_mentioned (m : List (α × Expr α)) (e : Expr α) (k : α)
    (hk : (lookup m k).isSome) (hin : k ∈ (e.substitute m).vars) :
    ∃ k' g, lookup m k' = some g ∧ k ∈ g.vars := by
  rcases (Expr.mem_vars_substitute m k e).mp hin with ⟨_, hnone⟩ | ⟨k', g, _, hl, hg⟩
  · rw [hnone] at hk; cases hk
  · exact ⟨k', g, hl, hg⟩

/-- substituting a variable the expression does not mention changes nothing (structurally no new
    variables, semantically the same function) -/
theorem expr_foreign_key (k : α) (g e : Expr α) (hk : k ∉ e.vars) (ρ : α → Bool) :
    (e.substitute [(k, g)]).den ρ = e.den ρ := by
  rw [expr_substitute]
  apply Expr.den_congr
  intro x hx
  have : k ≠ x := fun h => hk (h ▸ hx)
  simp [composed, this, lookup]

section
variable [Ord α] [Std.TransOrd α] [Std.LawfulEqOrd α]

/-! ### tables (repaired substitute) -/

/-- the altered valuation built by the loop over the mapping -/
theorem get?_foldl_insert (orig : PVal α) (f : Table α → Bool) :
    (m : List (α × Table α)) → (m.map (·.1)).Nodup → (acc : PVal α) → (x : α) →
    PVal.get? (m.foldl (fun acc kv => (kv.1, f kv.2) :: acc) acc) x =
      match lookup m x with
      | some g => some (f g)
      | none => PVal.get? acc x
  | [], _, acc, x => by simp [lookup]
  | (k, g) :: rest, hnd, acc, x => by
    have hnd' := List.nodup_cons.mp hnd
    simp only [List.foldl]
    rw [get?_foldl_insert orig f rest hnd'.2]
    rw [lookup_cons]
    by_cases hkx : k = x
    · subst hkx
      have : lookup rest k = none := by
        cases hl : lookup rest k with
        | none => rfl
        | some g' =>
          exfalso
          apply hnd'.1
          simp only [lookup, Option.map_eq_some_iff] at hl
          obtain ⟨⟨k', g''⟩, hf, _⟩ := hl
          have hmem := List.mem_of_find?_eq_some hf
          have hk' := List.find?_some hf
          simp only [beq_iff_eq] at hk'
          exact List.mem_map.mpr ⟨(k', g''), hmem, hk'⟩
      simp [this, PVal.get?_cons]
    · simp only [hkx, if_false]
      cases lookup rest x with
      | none => simp [PVal.get?_cons, hkx]
      | some _ => rfl

theorem table_substitute (m : List (α × Table α)) (hkeys : (m.map (·.1)).Nodup)
    (hwf : ∀ kv ∈ m, kv.2.WF) (t : Table α) (h : t.WF) :
    (t.substitute m).WF ∧
    (∀ x, x ∈ (t.substitute m).inputs ↔
      (x ∈ t.inputs ∧ x ∉ m.map (·.1)) ∨ ∃ kv ∈ m, x ∈ kv.2.inputs) ∧
    ∀ ρ, (t.substitute m).den ρ = t.den (composed Table.den m ρ) := by
  have hgl := Table.gatherLiterals_of_WF t h
  -- name the final input list
  obtain ⟨fin, hfin⟩ : ∃ fin, fin = unionSorted
      ((Table.gatherLiterals t).filter fun x => !((sortDedup (m.map (·.1))).contains x))
      (sortDedup (m.flatMap fun p => Table.gatherLiterals p.2)) := ⟨_, rfl⟩
  have hss : StrictSorted fin := by rw [hfin]; exact strictSorted_sortDedup _
  have hmem : ∀ x, x ∈ fin ↔ (x ∈ t.inputs ∧ x ∉ m.map (·.1)) ∨ ∃ kv ∈ m, x ∈ kv.2.inputs := by
    intro x
    rw [hfin, mem_unionSorted, List.mem_filter, mem_sortDedup, hgl, List.mem_flatMap]
    simp only [Bool.not_eq_true', List.contains_eq_mem, decide_eq_false_iff_not, mem_sortDedup]
    constructor
    · rintro (h1 | ⟨kv, hkv, hx⟩)
      · exact Or.inl h1
      · exact Or.inr ⟨kv, hkv, by rwa [Table.gatherLiterals_of_WF _ (hwf kv hkv)] at hx⟩
    · rintro (h1 | ⟨kv, hkv, hx⟩)
      · exact Or.inl h1
      · exact Or.inr ⟨kv, hkv, by rwa [Table.gatherLiterals_of_WF _ (hwf kv hkv)]⟩
  have hdef : t.substitute m = ⟨fin, (allPoints fin.length).map fun p =>
      Table.eval (m.foldl (fun acc kv => (kv.1, Table.eval (fin.zip p) false kv.2) :: acc) (fin.zip p)) false t⟩ := by
    simp only [Table.substitute, ← hfin]
  rw [hdef]
  refine ⟨⟨hss, by simp [allPoints_length]⟩, hmem, ?_⟩
  intro ρ
  simp only [Table.den]
  rw [getD_map_allPoints _ _ _ (by simp)]
  rw [Table.eval_eq_den]
  apply Table.den_congr
  intro x hx
  have hag := Table.complete_zip_map fin hss.nodup ρ false
  simp only [complete, composed]
  rw [get?_foldl_insert (fin.zip (fin.map ρ)) _ m hkeys]
  cases hl : lookup m x with
  | some g =>
    simp only [Option.getD_some]
    rw [Table.eval_eq_den]
    apply Table.den_congr
    intro y hy
    apply hag
    -- y is an input of a replacement
    simp only [lookup, Option.map_eq_some_iff] at hl
    obtain ⟨⟨k', g'⟩, hf, hg⟩ := hl
    simp only at hg; subst hg
    exact (hmem y).mpr (Or.inr ⟨(k', g'), List.mem_of_find?_eq_some hf, hy⟩)
  | none =>
    have hx' : x ∈ fin := by
      apply (hmem x).mpr
      left
      refine ⟨hx, ?_⟩
      intro hk
      obtain ⟨⟨k', g'⟩, hkv, hk'⟩ := List.mem_map.mp hk
      simp only at hk'; subst hk'
      have : (lookup m k').isSome := by
        simp only [lookup, Option.isSome_map]
        rw [List.find?_isSome]
        exact ⟨(k', g'), hkv, by simp⟩
      rw [hl] at this; cases this
    exact hag x hx'

/-- a substituted variable stays an input only if some replacement mentions it -/
theorem table_key_stays_only_if_mentioned (m : List (α × Table α)) (hkeys : (m.map (·.1)).Nodup)
    (hwf : ∀ kv ∈ m, kv.2.WF) (t : Table α) (h : t.WF) (k : α) (hk : k ∈ m.map (·.1))
    (hin : k ∈ (t.substitute m).inputs) : ∃ kv ∈ m, k ∈ kv.2.inputs := by
  rcases ((table_substitute m hkeys hwf t h).2.1 k).mp hin with ⟨_, hnot⟩ | h2
  · exact absurd hk hnot
  · exact h2

/-! ### decision diagrams (repaired substitute: proxy variables) -/

/-- **substitution on diagrams is simultaneous composition**: when no replacement mentions the
    variable it replaces, the call does not panic (the `expect`s, lib-bdd's `set_num_vars` /
    `rename_variables` assertions and prune's `debug_assert!` never fire), the result is well-formed,
    its inputs are exactly the non-substituted inputs of the original together with the inputs of the
    replacements that are not unmentioned keys, and its value is the original's at the composed
    assignment, every replacement evaluated at the same `ρ` -/
theorem bdd_substitute (m : List (α × Bdd α)) (hkeys : (m.map (·.1)).Nodup) (hwf : ∀ kv ∈ m, kv.2.WF)
    (b : Bdd α) (h : b.WF) (hno : ∀ kv ∈ m, kv.1 ∉ kv.2.inputs) :
    ∃ b', Bdd.substitute m b = .ok b' ∧ b'.WF ∧
      (∀ x, x ∈ b'.inputs ↔ (x ∈ b.inputs ∨ ∃ kv ∈ m, x ∈ kv.2.inputs) ∧
        ((lookup m x).isNone = true ∨ ∃ kv ∈ m, x ∈ kv.2.inputs)) ∧
      ∀ ρ, b'.den ρ = b.den (composed Bdd.den m ρ) := by
  obtain ⟨b', h1, h2, h3, h4⟩ := Bdd.substitute_den m hkeys hwf b h hno
  refine ⟨b', h1, h2, h3, fun ρ => ?_⟩
  rw [h4]
  congr 1
  funext x
  simp only [composed]
  cases lookup m x <;> rfl

/-- a substituted variable stays an input of the diagram only if some replacement mentions it -/
theorem bdd_key_stays_only_if_mentioned (m : List (α × Bdd α)) (hkeys : (m.map (·.1)).Nodup)
    (hwf : ∀ kv ∈ m, kv.2.WF) (b b' : Bdd α) (h : b.WF) (hno : ∀ kv ∈ m, kv.1 ∉ kv.2.inputs)
    (hb' : Bdd.substitute m b = .ok b') (k : α) (hk : (lookup m k).isSome = true) (hin : k ∈ b'.inputs) :
    ∃ kv ∈ m, k ∈ kv.2.inputs := by
  obtain ⟨b'', h1, _, h3, _⟩ := bdd_substitute m hkeys hwf b h hno
  rw [hb'] at h1; cases h1
  rcases ((h3 k).mp hin).2 with hn | h2
  · cases hl : lookup m k with
    | none => rw [hl] at hk; cases hk
    | some g => rw [hl] at hn; cases hn
  · exact h2

/-- the only refusal is the documented one: the call panics exactly when some replacement mentions
    the variable it replaces (and then with the message of `boolean_function.rs`) -/
theorem bdd_refuses_iff_self_reference (m : List (α × Bdd α)) (hkeys : (m.map (·.1)).Nodup)
    (hwf : ∀ kv ∈ m, kv.2.WF) (b : Bdd α) (h : b.WF) :
    (∃ site, Bdd.substitute m b = .panic site) ↔ ∃ kv ∈ m, kv.1 ∈ kv.2.inputs := by
  constructor
  · rintro ⟨site, hp⟩
    apply Classical.byContradiction
    intro hnone
    obtain ⟨b', hb', _⟩ := bdd_substitute m hkeys hwf b h (fun kv hkv hin => hnone ⟨kv, hkv, hin⟩)
    rw [hp] at hb'; cases hb'
  · rintro ⟨kv, hkv, hin⟩
    refine ⟨"boolean_function.rs:79 substituted variable appears in the substituting BDD", ?_⟩
    unfold Bdd.substitute
    rw [if_pos]
    rw [List.any_eq_true]
    exact ⟨kv, hkv, by simpa using hin⟩
end

/-- the pre-repair table substitution read an unmentioned key with the default: witness kept as a
    replay (`a & c`, `{a := b}`); the repaired model gives `b & c` -/
example : (Table.substitute [(1, (⟨[2], [false, true]⟩ : Table Nat))] ⟨[1, 3], [false, false, false, true]⟩)
    = ⟨[2, 3], [false, false, false, true]⟩ := by decide


/-- substitution is simultaneous, not sequential: exchanging two variables exchanges their roles -/
theorem expr_swap (a b : α) (hab : a ≠ b) (e : Expr α) (ρ : α → Bool) :
    (e.substitute [(a, .lit b), (b, .lit a)]).den ρ =
      e.den (fun x => if x = a then ρ b else if x = b then ρ a else ρ x) := by
  rw [expr_substitute]
  congr 1
  funext x
  simp only [composed, lookup, List.find?]
  by_cases h1 : a = x
  · subst h1; simp [Expr.den]
  · have e1 : (a == x) = false := by simp [h1]
    by_cases h2 : b = x
    · subst h2
      have e2 : (b == b) = true := by simp
      simp [Expr.den, e1, Ne.symm hab]
    · have e2 : (b == x) = false := by simp [h2]
      simp [e1, e2, Ne.symm h1, Ne.symm h2]
/-- … hence doing it twice gives the function back -/
theorem expr_swap_twice (a b : α) (hab : a ≠ b) (e : Expr α) (ρ : α → Bool) :
    ((e.substitute [(a, .lit b), (b, .lit a)]).substitute [(a, .lit b), (b, .lit a)]).den ρ = e.den ρ := by
  rw [expr_swap a b hab, expr_swap a b hab]
  congr 1
  funext x
  by_cases h1 : x = a
  · subst h1; simp [Ne.symm hab]
  · by_cases h2 : x = b
    · subst h2; simp [Ne.symm hab]
    · simp [h1, h2]
/-- restriction is substitution of constants -/
theorem expr_restrict_is_substitute (v : PVal α) (e : Expr α) :
    e.restrict v = e.substitute (v.map fun p => (p.1, .const p.2)) := rfl

/-- non-vacuity for diagrams: the swap `{a := b, b := a}` on `a & !b` is accepted and gives `b & !a`
    (the pre-repair sequential substitution collapsed it) -/
example : (match Bdd.substitute [(1, Bdd.mkLiteral 2 true), (2, Bdd.mkLiteral 1 true)]
      (⟨[1, 2], ⟨2, [false, true, false, false]⟩⟩ : Bdd Nat) with
    | .ok b => b.inputs == [1, 2] && b.inner.tt == [false, false, true, false]
    | .panic _ => false) = true := by decide

end BoolFn.C08
