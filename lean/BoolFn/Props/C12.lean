import BoolFn.Proofs.BraceNames
import BoolFn.Proofs.RefParse
import BoolFn.Proofs.Grammar
import BoolFn.Proofs.ParserTotal
/-! # C12 — Parsed text means what it says: NOT binds tighter than AND, AND than OR

Every string of the expression language — variables, brace-quoted names, constants, negation,
conjunction and disjunction in any of their accepted spellings and letter cases, parentheses,
arbitrary whitespace — parses to an expression whose function is the one obtained by reading the
string with negation binding tightest, then conjunction, then disjunction. Parenthesised groups are
kept as units, a word is an operator or constant only when it stands alone as a whole identifier, and
variable names are preserved exactly.

Two theorems: the code's token recogniser (first match of the *regenerated* ordered pattern table on
a 6-character buffer) is the declarative longest-match recogniser, so `tokenize = refLex`; and
`parse_tokens` accepts exactly the stratified grammar `DOr` (Spec/Derives.lean) and returns the
derivation's tree — structurally, which is stronger than the semantic claim of the property. -/
namespace BoolFn.C12
open BoolFn BoolFn.Spec

/-- the token recogniser of the code is the longest-match recogniser on the whole remaining input -/
theorem recogniser : bufMatch = longestMatch := bufMatch_eq_longestMatch

/-- **lexer**: the tokenizer is the reference lexer -/
theorem lexer (s : List Char) :
    (match tokenize s with | .ok ts => some ts | .error _ => none) = refLex s := by
  simp only [tokenize, tokenizeLevel, refLex, recogniser]
  cases tokenizeLevelW longestMatch (s.length + 1) s true [] <;> rfl

/-- a keyword-like pattern is recognised only when it stands alone as a whole identifier: it must be
    followed by the end of the input or by a non-identifier character -/
theorem keyword_needs_boundary (inp : List Char) (p : Pat) (hp : Spec.isWord p = true)
    (h : patMatches inp p = true) : boundaryOk (inp.drop p.text.length) = true := by
  simp only [patMatches, hp, Bool.not_true, Bool.false_or, Bool.and_eq_true] at h
  exact h.2

/-- the code's per-pattern boundary flag (regenerated table) is set exactly on the word patterns -/
theorem boundary_flags : ∀ p ∈ patterns, p.identLike = Spec.isWord p := patterns_boundary

/-- **grammar**: `parse_tokens` returns `e` exactly when the token list derives `e` -/
theorem grammar (ts : List Tok) (e : Expr String) : parseTokens ts = .ok e ↔ DOr ts e :=
  parseTokens_iff ts e

/-- **meaning**: `from_str(s) = Ok(e)` exactly when `s` lexes (by the reference lexer) to a sentence of
    the grammar with tree `e`; in particular the function and the variables of `e` are those of the
    precedence reading, and names are kept exactly (`DTerm.lit`) -/
theorem meaning (s : String) (e : Expr String) :
    parse s = .ok e ↔ ∃ ts, refLex s.toList = some ts ∧ DOr ts e := by
  have hl := lexer s.toList
  simp only [parse]
  cases ht : tokenize s.toList with
  | error er =>
    rw [ht] at hl
    constructor
    · intro h; cases h
    · rintro ⟨ts, hts, _⟩; rw [← hl] at hts; cases hts
  | ok ts =>
    rw [ht] at hl
    simp only
    rw [grammar]
    constructor
    · intro h; exact ⟨ts, hl.symm, h⟩
    · rintro ⟨ts', hts', h⟩
      rw [← hl] at hts'
      cases hts'
      exact h

/-- precedence, concretely, at token level: `a | b & !c` is `Or[a, And[b, Not c]]`, and a
    parenthesised group is one operand -/
example : DOr [.lit ['a'], .or, .lit ['b'], .and, .not, .lit ['c']]
    (.or [.lit "a", .and [.lit "b", .not (.lit "c")]]) :=
  (grammar _ _).mp rfl
example : DOr [.paren [.lit ['a'], .or, .lit ['b']], .and, .lit ['c']]
    (.and [.or [.lit "a", .lit "b"], .lit "c"]) :=
  (grammar _ _).mp rfl

/-- **the reference reading used as the oracle is the model of `from_str`** on every string: the
    independent recursive-descent parser over the independent longest-match lexer returns exactly what
    the tokenizer + precedence-splitting parser returns -/
theorem oracle_is_model (s : String) :
    refParse s = (match parse s with | .ok e => some e | .error _ => none) := by
  have hl := lexer s.toList
  simp only [refParse, parse]
  cases ht : tokenize s.toList with
  | error er =>
    rw [ht] at hl
    rw [← hl]
  | ok ts =>
    rw [ht] at hl
    rw [← hl]
    simp only
    exact refParseTokens_eq_parseTokens ts

/-- … and both are the grammar -/
theorem oracle_is_grammar (ts : List Tok) (e : Expr String) : refParseTokens ts = some e ↔ DOr ts e :=
  refParseTokens_iff ts e

end BoolFn.C12
