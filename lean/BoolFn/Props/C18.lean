import BoolFn.Render
import BoolFn.Proofs.RenderText
import BoolFn.Proofs.Codec
/-! # C18 — Formatted table rendering shows exactly the function's relation

The text rendering of a truth table, in every style and with every Boolean formatting, consists of a
header with the input names in order followed by a result column, and then exactly one row per
domain point in domain order whose cells are the point's values and the function's output in the
requested formatting. Reading the cells back from the rendering reproduces the function's relation,
and the plain display form is the frameless style with word formatting.

Three layers: the *cell grid* the code hands to the `tabled` builder (`cells`: header + relation rows
in domain order, `cells_eq_relation`, `cells_rows`); a model of the text `tabled` lays out for the four
styles (`BoolFn/RenderText.lean`, cells one column wide per character — a third-party layout engine,
so this model is validated byte for byte by the correspondence check); and **reading the cells back
from the rendered text gives the grid** (`rendering_reads_back`, all four styles), for input names
that are non-empty words without white space, `|`, `│` or line breaks. The correspondence check also
reads every *real* rendering back by position (`readCells`) and compares it with `cells`. -/
namespace BoolFn.C18
open BoolFn

/-- the grid: one header row (input names in order, then the result header), then one row per entry
    of the relation, in order, formatted -/
theorem cells_eq_relation (t : Table String) (fi fo : Fmt) :
    cells t fi fo = (t.inputs ++ [resultHeader]) ::
      (t.relation.map fun pr => pr.1.map (formatBool fi) ++ [formatBool fo pr.2]) := by
  simp [cells, headerRow, recordRow, Table.relation, List.map_map, Function.comp_def]

/-- for a well-formed table: exactly `2^n` data rows, row `k` shows domain point `k` -/
theorem cells_rows (t : Table String) (h : t.outputs.length = 2 ^ t.inputs.length) (fi fo : Fmt) :
    (cells t fi fo).length = 2 ^ t.inputs.length + 1 ∧
    ∀ k (hk : k < t.outputs.length),
      (cells t fi fo)[k + 1]? = some ((allPoints t.inputs.length)[k]?.getD [] |>.map (formatBool fi)
        |>.append [formatBool fo t.outputs[k]]) := by
  constructor
  · simp [cells, h]
  · intro k hk
    have hk2 : k < (allPoints t.inputs.length).length := by rw [allPoints_length, ← h]; exact hk
    simp only [cells, List.getElem?_cons_succ, List.getElem?_map, List.getElem?_eq_getElem hk2,
      Option.getD_some, allPoints_getElem]
    rw [List.getElem?_eq_getElem (by simpa using hk)]
    simp [recordRow]

/-- the spellings of the two values differ in every formatting (a rendered cell determines the value) -/
theorem format_injective (f : Fmt) : formatBool f true ≠ formatBool f false := by
  cases f <;> decide

/-- **reading the cells back from the rendering reproduces the grid** (hence, with
    `cells_eq_relation`, the function's relation), in every style and formatting -/
theorem rendering_reads_back (t : Table String) (h : t.outputs.length = 2 ^ t.inputs.length)
    (hn : ∀ n ∈ t.inputs, TidyCell n) (st : Style) (fi fo : Fmt) :
    readCells st (render st (cells t fi fo)) = cells t fi fo := by
  have hrect := cells_rect t h fi fo
  have htidy := cells_tidy t hn fi fo
  have hne : cells t fi fo ≠ [] := by simp [cells]
  cases st with
  | ascii => exact readCells_render_ascii _ hrect (fun r hr s hs => (htidy r hr s hs).framed '|' (Or.inl rfl))
  | modern => exact readCells_render_modern _ hne hrect (fun r hr s hs => (htidy r hr s hs).framed '│' (Or.inr rfl))
  | markdown => exact readCells_render_markdown _ hne hrect (fun r hr s hs => (htidy r hr s hs).framed '|' (Or.inl rfl))
  | empty => exact readCells_render_empty _ hne hrect (fun r hr s hs => (htidy r hr s hs).word)

/-- the plain display form is the frameless style with word formatting: `Display` calls
    `to_string_formatted(Empty, Word, Word)` (compared on the implementation: `display` cases) -/
theorem display_reads_back (t : Table String) (h : t.outputs.length = 2 ^ t.inputs.length)
    (hn : ∀ n ∈ t.inputs, TidyCell n) :
    readCells .empty (render .empty (cells t .word .word)) = cells t .word .word :=
  rendering_reads_back t h hn .empty .word .word

/-- non-vacuity -/
example : (render .markdown (cells ⟨["a"], [true, false]⟩ .number .number)).toList =
    "| a | result |\n|---|--------|\n| 0 | 1      |\n| 1 | 0      |".toList := by decide
example : ∀ n ∈ ["a", "x_10", "é"], TidyCell n := by decide
example : cells ⟨["a", "b"], [false, true, true, false]⟩ .number .word =
    [["a", "b", "result"], ["0", "0", "false"], ["0", "1", "true"], ["1", "0", "true"], ["1", "1", "false"]] := by decide
example : readCells .markdown "| a | result |\n|---|--------|\n| 0 | 1      |\n| 1 | 0      |" =
    [["a", "result"], ["0", "1"], ["1", "0"]] := by decide

end BoolFn.C18
