import BoolFn.Render
import BoolFn.Proofs.Codec
/-! # C18 — Formatted table rendering shows exactly the function's relation

The text rendering of a truth table, in every style and with every Boolean formatting, consists of a
header with the input names in order followed by a result column, and then exactly one row per
domain point in domain order whose cells are the point's values and the function's output in the
requested formatting. Reading the cells back from the rendering reproduces the function's relation,
and the plain display form is the frameless style with word formatting.

What is proved is the *cell grid* the code hands to the `tabled` builder (`cells`); the layout engine
of `tabled` is not modelled: every real rendering is read back by position (`readCells`) and compared
with `cells` in the correspondence check. -/
namespace BoolFn.C18
open BoolFn

/-- the grid: one header row (input names in order, then the result header), then one row per entry
    of the relation, in order, formatted -/
theorem cells_eq_relation (t : Table String) (fi fo : Fmt) :
    cells t fi fo = (t.inputs ++ [resultHeader]) ::
      (t.relation.map fun pr => pr.1.map (formatBool fi) ++ [formatBool fo pr.2]) := by
  simp [cells, headerRow, recordRow, Table.relation, List.map_map, Function.comp_def]

/-- for a well-formed table: exactly `2^n` data rows, row `k` shows domain point `k` -/
theorem cells_rows (t : Table String) (h : t.outputs.length = 2 ^ t.inputs.length) (fi fo : Fmt) :
    (cells t fi fo).length = 2 ^ t.inputs.length + 1 ∧
    ∀ k (hk : k < t.outputs.length),
      (cells t fi fo)[k + 1]? = some ((allPoints t.inputs.length)[k]?.getD [] |>.map (formatBool fi)
        |>.append [formatBool fo t.outputs[k]]) := by
  constructor
  · simp [cells, h]
  · intro k hk
    have hk2 : k < (allPoints t.inputs.length).length := by rw [allPoints_length, ← h]; exact hk
    simp only [cells, List.getElem?_cons_succ, List.getElem?_map, List.getElem?_eq_getElem hk2,
      Option.getD_some, allPoints_getElem]
    rw [List.getElem?_eq_getElem (by simpa using hk)]
    simp [recordRow]

/-- the spellings of the two values differ in every formatting (a rendered cell determines the value) -/
theorem format_injective (f : Fmt) : formatBool f true ≠ formatBool f false := by
  cases f <;> decide

/-- non-vacuity -/
example : cells ⟨["a", "b"], [false, true, true, false]⟩ .number .word =
    [["a", "b", "result"], ["0", "0", "false"], ["0", "1", "true"], ["1", "0", "true"], ["1", "1", "false"]] := by decide
example : readCells .markdown "| a | result |\n|---|--------|\n| 0 | 1      |\n| 1 | 0      |" =
    [["a", "result"], ["0", "1"], ["1", "0"]] := by decide

end BoolFn.C18
