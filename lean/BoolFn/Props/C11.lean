import BoolFn.Proofs.Oracle3
import BoolFn.Proofs.NormalFormShape
import BoolFn.Proofs.NormalFormFixed
/-! # C11 — Normal-form conversions preserve the function and produce the promised shape

Conversion to negation, conjunctive or disjunctive normal form returns an expression denoting the
same function and mentioning no new variables, for every expression tree (it never fails on one).
When the input contains no constants (and no empty conjunction or disjunction), the result satisfies
the library's predicate for that normal form, and each predicate accepts exactly the constant-free
expressions of the corresponding shape: negations only on variables for NNF, additionally no
conjunction below a disjunction for CNF, and no disjunction below a conjunction for DNF.

The model functions are total Lean functions (structural recursion), which is the "never fails"
part: after the `fix:` for empty n-ary nodes there is no `unwrap` left on these paths. -/
namespace BoolFn.C11
open BoolFn BoolFn.Expr BoolFn.Spec
variable {α : Type}

/-- same function -/
theorem nnf_den (e : Expr α) (ρ : α → Bool) : (toNnf e).den ρ = e.den ρ := den_toNnf ρ e
theorem cnf_den (e : Expr α) (ρ : α → Bool) : (toCnf e).den ρ = e.den ρ := den_toCnf ρ e
theorem dnf_den (e : Expr α) (ρ : α → Bool) : (toDnf e).den ρ = e.den ρ := den_toDnf ρ e

/-- no new variables -/
theorem nnf_vars (e : Expr α) : ∀ x ∈ (toNnf e).vars, x ∈ e.vars := by
  intro x hx; rwa [vars_toNnf] at hx
theorem cnf_vars (e : Expr α) : ∀ x ∈ (toCnf e).vars, x ∈ e.vars := by
  intro x hx
  have := mem_vars_cnfN x _ hx
  rwa [vars_toNnf] at this
theorem dnf_vars (e : Expr α) : ∀ x ∈ (toDnf e).vars, x ∈ e.vars := by
  intro x hx
  have := mem_vars_dnfN x _ hx
  rwa [vars_toNnf] at this

/-- promised shape (the hypothesis on empty n-ary nodes of the property is not even needed) -/
theorem nnf_shape (e : Expr α) (h : constFree e = true) : isNnf (toNnf e) = true := isNnf_toNnf e h
theorem cnf_shape (e : Expr α) (h : constFree e = true) : isCnf (toCnf e) = true := isCnf_toCnf e h
theorem dnf_shape (e : Expr α) (h : constFree e = true) : isDnf (toDnf e) = true := isDnf_toDnf e h

/-- the library's predicates are exactly the reference shapes -/
theorem is_nnf_iff_shape (e : Expr α) : isNnf e = shapeNnf e := isNnf_eq_shape e
theorem is_cnf_iff_shape (e : Expr α) : isCnf e = shapeCnf e := isCnf_eq_shape e
theorem is_dnf_iff_shape (e : Expr α) : isDnf e = shapeDnf e := isDnf_eq_shape e

/-- an expression the library already accepts as NNF is returned unchanged by `to_nnf` -/
theorem nnf_fixed_point (e : Expr α) (h : isNnf e = true) : toNnf e = e := toNnf_of_isNnf e h
/-- the predicates are nested: CNF and DNF expressions are NNF expressions, and those are constant-free -/
theorem cnf_is_nnf (e : Expr α) (h : isCnf e = true) : isNnf e = true := isNnf_of_isCnf e h
theorem dnf_is_nnf (e : Expr α) (h : isDnf e = true) : isNnf e = true := isNnf_of_isDnf e h
theorem nnf_is_const_free (e : Expr α) (h : isNnf e = true) : constFree e = true := constFree_of_isNnf e h
/-- hence the CNF/DNF of a constant-free expression is also accepted by `is_nnf`, and a second
    `to_nnf` leaves it as it is -/
theorem cnf_result_is_nnf (e : Expr α) (h : constFree e = true) : isNnf (toCnf e) = true :=
  isNnf_of_isCnf _ (isCnf_toCnf e h)
theorem dnf_result_is_nnf (e : Expr α) (h : constFree e = true) : isNnf (toDnf e) = true :=
  isNnf_of_isDnf _ (isDnf_toDnf e h)
theorem nnf_of_cnf_result (e : Expr α) (h : constFree e = true) : toNnf (toCnf e) = toCnf e :=
  toNnf_of_isNnf _ (cnf_result_is_nnf e h)
theorem nnf_of_dnf_result (e : Expr α) (h : constFree e = true) : toNnf (toDnf e) = toDnf e :=
  toNnf_of_isNnf _ (dnf_result_is_nnf e h)

/-- there is no CNF analogue of `nnf_fixed_point`: `to_cnf` rebuilds a disjunction pairwise, so the
    tree of an accepted CNF changes (same function, still CNF) -/
theorem cnf_not_fixed_point_unary :
    isCnf (Expr.or [.lit "a"]) = true ∧ toCnf (Expr.or [.lit "a"]) ≠ Expr.or [.lit "a"] := by
  refine ⟨by decide, ?_⟩
  simp [toCnf, toNnf, toNnfL, cnfN, cnfNL]
theorem cnf_not_fixed_point_ternary :
    isCnf (Expr.or [.lit "a", .lit "b", .lit "c"]) = true ∧
    toCnf (Expr.or [.lit "a", .lit "b", .lit "c"]) = Expr.or [.or [.lit "a", .lit "b"], .lit "c"] := by
  refine ⟨by decide, ?_⟩
  simp [toCnf, toNnf, toNnfL, cnfN, cnfNL, distributeCnf, distrCnfRight, binaryOr]

/-- the Rust `to_cnf` re-normalises every child of the NNF before recursing; that is the identity,
    so the structural `cnfN` of the model is the function the code computes -/
theorem renormalising_children_is_identity (e : Expr α) : toNnf (toNnf e) = toNnf e := toNnf_toNnf e

/-- the decidable oracle used on the implementation's answers holds of the model's answers -/
theorem spec_holds_of_model (e : Expr String) :
    nfOk .nnf e (toNnf e) = true ∧ nfOk .cnf e (toCnf e) = true ∧ nfOk .dnf e (toDnf e) = true := by
  have hs : ∀ (y : Expr String), (∀ x ∈ y.vars, x ∈ e.vars) → subset (Fn.E y).inputs (Fn.E e).inputs = true := by
    intro y hy
    simp only [subset, Fn.inputs, List.all_eq_true]
    intro x hx
    have hx' : x ∈ y.vars := by simpa using hx
    simpa using hy x hx'
  refine ⟨?_, ?_, ?_⟩
  · simp only [nfOk, Bool.and_eq_true]
    refine ⟨⟨?_, hs _ (nnf_vars e)⟩, ?_⟩
    · simp [agreeOn, nnf_den]
    · cases hc : constFree e <;> simp [NF.shape, ← is_nnf_iff_shape, nnf_shape, hc]
  · simp only [nfOk, Bool.and_eq_true]
    refine ⟨⟨?_, hs _ (cnf_vars e)⟩, ?_⟩
    · simp [agreeOn, cnf_den]
    · cases hc : constFree e <;> simp [NF.shape, ← is_cnf_iff_shape, cnf_shape, hc]
  · simp only [nfOk, Bool.and_eq_true]
    refine ⟨⟨?_, hs _ (dnf_vars e)⟩, ?_⟩
    · simp [agreeOn, dnf_den]
    · cases hc : constFree e <;> simp [NF.shape, ← is_dnf_iff_shape, dnf_shape, hc]

/-- non-vacuity: a constant-free expression with Or-in-And-in-Or nesting and a negation above a connective -/
example : constFree (Expr.or [.and [.lit "a", .or [.lit "b", .not (.and [.lit "a", .lit "c"])]], .lit "c"]) = true := by decide
example : isCnf (toCnf (Expr.or [.and [.lit "a", .or [.lit "b", .not (.and [.lit "a", .lit "c"])]], .lit "c"])) = true := by decide
example : isCnf (Expr.or [.and [.lit "a", .lit "b"], .lit "c"]) = false := by decide

/-- non-vacuity of the fixed-point and nesting theorems -/
example : isNnf (Expr.and [.or [.lit "a", .not (.lit "b")], .lit "c"]) = true := by decide
example : isCnf (Expr.and [.or [.lit "a", .not (.lit "b")], .lit "c"]) = true := by decide
example : isNnf (Expr.or [.and [.lit "a", .lit "b"], .lit "c"]) = true ∧
    isCnf (Expr.or [.and [.lit "a", .lit "b"], .lit "c"]) = false := by decide

end BoolFn.C11
