import BoolFn.Proofs.Oracle
import BoolFn.Proofs.BddOps
import BoolFn.Proofs.TableOps
import BoolFn.Proofs.Inner
import BoolFn.Bdd
/-! # C03 — Logical connectives act pointwise, over the union of the operands' variables

Negation, conjunction, disjunction, exclusive-or, implication and equivalence of function objects
produce a function whose value at every assignment is the corresponding Boolean combination of the
operands' values, also when the operands mention different or only partly overlapping variables. For
tables and decision diagrams the result's inputs are exactly the union of the operands' inputs, and
the by-reference and in-place operator forms give the same result as the by-value forms (in the
model the three Rust forms are one function; that they agree is checked on the implementation). -/
namespace BoolFn.C03
open BoolFn
variable {α : Type}
set_option linter.unusedSectionVars false

/-! ### expressions (all six connectives; `vars` of the result = union) -/
theorem expr_and (a b : Expr α) : (∀ ρ, (Expr.mkAnd a b).den ρ = (a.den ρ && b.den ρ)) ∧
    ∀ x, x ∈ (Expr.mkAnd a b).vars ↔ x ∈ a.vars ∨ x ∈ b.vars :=
  ⟨fun ρ => Expr.den_mkAnd ρ a b, fun x => Expr.mem_vars_mkAnd x a b⟩
theorem expr_or (a b : Expr α) : (∀ ρ, (Expr.mkOr a b).den ρ = (a.den ρ || b.den ρ)) ∧
    ∀ x, x ∈ (Expr.mkOr a b).vars ↔ x ∈ a.vars ∨ x ∈ b.vars :=
  ⟨fun ρ => Expr.den_mkOr ρ a b, fun x => Expr.mem_vars_mkOr x a b⟩
theorem expr_xor (a b : Expr α) : (∀ ρ, (Expr.mkXor a b).den ρ = (a.den ρ != b.den ρ)) ∧
    ∀ x, x ∈ (Expr.mkXor a b).vars ↔ x ∈ a.vars ∨ x ∈ b.vars :=
  ⟨fun ρ => Expr.den_mkXor ρ a b, fun x => Expr.mem_vars_mkXor x a b⟩
theorem expr_imply (a b : Expr α) : (∀ ρ, (Expr.mkImply a b).den ρ = (!(a.den ρ) || b.den ρ)) ∧
    ∀ x, x ∈ (Expr.mkImply a b).vars ↔ x ∈ a.vars ∨ x ∈ b.vars :=
  ⟨fun ρ => Expr.den_mkImply ρ a b, fun x => Expr.mem_vars_mkImply x a b⟩
theorem expr_iff (a b : Expr α) : (∀ ρ, (Expr.mkIff a b).den ρ = (a.den ρ == b.den ρ)) ∧
    ∀ x, x ∈ (Expr.mkIff a b).vars ↔ x ∈ a.vars ∨ x ∈ b.vars :=
  ⟨fun ρ => Expr.den_mkIff ρ a b, fun x => Expr.mem_vars_mkIff x a b⟩
theorem expr_not (a : Expr α) : (∀ ρ, (Expr.not a).den ρ = !(a.den ρ)) ∧ (Expr.not a).vars = a.vars :=
  ⟨fun _ => rfl, rfl⟩

section
variable [DecidableEq α] [Ord α] [Std.TransOrd α] [Std.LawfulEqOrd α]

/-! ### tables -/
theorem table_and (a b : Table α) (ha : a.WF) (hb : b.WF) :
    (Table.mkAnd a b).WF ∧ (Table.mkAnd a b).inputs = unionSorted a.inputs b.inputs ∧
    ∀ ρ, (Table.mkAnd a b).den ρ = (a.den ρ && b.den ρ) := Table.bitCommon_den _ a b ha hb
theorem table_or (a b : Table α) (ha : a.WF) (hb : b.WF) :
    (Table.mkOr a b).WF ∧ (Table.mkOr a b).inputs = unionSorted a.inputs b.inputs ∧
    ∀ ρ, (Table.mkOr a b).den ρ = (a.den ρ || b.den ρ) := Table.bitCommon_den _ a b ha hb
theorem table_xor (a b : Table α) (ha : a.WF) (hb : b.WF) :
    (Table.mkXor a b).WF ∧ (Table.mkXor a b).inputs = unionSorted a.inputs b.inputs ∧
    ∀ ρ, (Table.mkXor a b).den ρ = (a.den ρ != b.den ρ) := Table.bitCommon_den _ a b ha hb
theorem table_not (a : Table α) (ha : a.WF) :
    (Table.not a).WF ∧ (Table.not a).inputs = a.inputs ∧ ∀ ρ, (Table.not a).den ρ = !(a.den ρ) :=
  Table.not_den a ha

/-- the inputs of the result are exactly the union of the operands' inputs -/
theorem inputs_union (a b : Table α) (x : α) : x ∈ unionSorted a.inputs b.inputs ↔ x ∈ a.inputs ∨ x ∈ b.inputs :=
  mem_unionSorted x _ _

/-! ### decision diagrams -/
theorem bdd_not (a : Bdd α) (ha : a.WF) :
    (Bdd.not a).WF ∧ (Bdd.not a).inputs = a.inputs ∧ ∀ ρ, (Bdd.not a).den ρ = !(a.den ρ) := by
  refine ⟨⟨ha.1, ha.2.1, Inner.wf_not _⟩, rfl, ?_⟩
  intro ρ
  exact Inner.eval_not _ _ (by simp [ha.2.1, Bdd.not])

/-- operands over the same inputs: no lifting happens -/
theorem bdd_same_inputs (op : Bool → Bool → Bool) (a b : Bdd α) (ha : a.WF) (_hb : b.WF) (heq : a.inputs = b.inputs) :
    ∃ c, Bdd.bitCommon (Inner.binop op) a b = .ok c ∧ c.WF ∧ c.inputs = a.inputs ∧
      ∀ ρ, c.den ρ = op (a.den ρ) (b.den ρ) := by
  refine ⟨⟨a.inputs, Inner.binop op a.inner b.inner⟩, by simp [Bdd.bitCommon, heq], ⟨ha.1, ha.2.1, Inner.wf_binop _ _ _⟩, rfl, ?_⟩
  intro ρ
  simp only [Bdd.den]
  rw [Inner.eval_binop _ _ _ _ (by simp [ha.2.1]), heq]
end

section
variable [DecidableEq α] [Ord α] [Std.TransOrd α] [Std.LawfulEqOrd α]
/-- **diagrams, any two input sets**: lifting both operands with `extend_bdd_variables` never panics,
    the result is well-formed over the union of the inputs and pointwise -/
theorem bdd_and (a b : Bdd α) (ha : a.WF) (hb : b.WF) :
    ∃ c, Bdd.mkAnd a b = .ok c ∧ c.WF ∧ (∀ x, x ∈ c.inputs ↔ x ∈ a.inputs ∨ x ∈ b.inputs) ∧
      ∀ ρ, c.den ρ = (a.den ρ && b.den ρ) := Bdd.bitCommon_den _ a b ha hb
theorem bdd_or (a b : Bdd α) (ha : a.WF) (hb : b.WF) :
    ∃ c, Bdd.mkOr a b = .ok c ∧ c.WF ∧ (∀ x, x ∈ c.inputs ↔ x ∈ a.inputs ∨ x ∈ b.inputs) ∧
      ∀ ρ, c.den ρ = (a.den ρ || b.den ρ) := Bdd.bitCommon_den _ a b ha hb
theorem bdd_xor (a b : Bdd α) (ha : a.WF) (hb : b.WF) :
    ∃ c, Bdd.mkXor a b = .ok c ∧ c.WF ∧ (∀ x, x ∈ c.inputs ↔ x ∈ a.inputs ∨ x ∈ b.inputs) ∧
      ∀ ρ, c.den ρ = (a.den ρ != b.den ρ) := Bdd.bitCommon_den _ a b ha hb
/-- the lemma that discharges the preconditions of the unsafe lib-bdd calls -/
theorem extend_keeps_function (b : Bdd α) (new : List α) (hb : b.WF) (hnew : StrictSorted new)
    (hsub : ∀ x ∈ b.inputs, x ∈ new) :
    ∃ b', Bdd.extend b new = .ok b' ∧ b'.WF ∧ b'.inputs = new ∧ ∀ ρ, b'.den ρ = b.den ρ :=
  extend_den b new hb hnew hsub
end

section
variable [DecidableEq α] [Ord α] [Std.TransOrd α] [Std.LawfulEqOrd α]
/-! ### operand order does not matter for tables (same inputs, same values) -/

theorem union_comm (xs ys : List α) : unionSorted xs ys = unionSorted ys xs :=
  strictSorted_ext _ _ (strictSorted_sortDedup _) (strictSorted_sortDedup _)
    (fun x => by rw [mem_unionSorted, mem_unionSorted]; exact Or.comm)

theorem table_and_comm (a b : Table α) (ha : a.WF) (hb : b.WF) :
    (Table.mkAnd a b).inputs = (Table.mkAnd b a).inputs ∧
    ∀ ρ, (Table.mkAnd a b).den ρ = (Table.mkAnd b a).den ρ := by
  obtain ⟨_, hi, hd⟩ := table_and a b ha hb
  obtain ⟨_, hi', hd'⟩ := table_and b a hb ha
  exact ⟨by rw [hi, hi', union_comm], fun ρ => by rw [hd, hd', Bool.and_comm]⟩
theorem table_or_comm (a b : Table α) (ha : a.WF) (hb : b.WF) :
    (Table.mkOr a b).inputs = (Table.mkOr b a).inputs ∧
    ∀ ρ, (Table.mkOr a b).den ρ = (Table.mkOr b a).den ρ := by
  obtain ⟨_, hi, hd⟩ := table_or a b ha hb
  obtain ⟨_, hi', hd'⟩ := table_or b a hb ha
  exact ⟨by rw [hi, hi', union_comm], fun ρ => by rw [hd, hd', Bool.or_comm]⟩
theorem table_xor_comm (a b : Table α) (ha : a.WF) (hb : b.WF) :
    (Table.mkXor a b).inputs = (Table.mkXor b a).inputs ∧
    ∀ ρ, (Table.mkXor a b).den ρ = (Table.mkXor b a).den ρ := by
  obtain ⟨_, hi, hd⟩ := table_xor a b ha hb
  obtain ⟨_, hi', hd'⟩ := table_xor b a hb ha
  exact ⟨by rw [hi, hi', union_comm], fun ρ => by rw [hd, hd']; cases Table.den ρ a <;> cases Table.den ρ b <;> rfl⟩
/-! ### … nor for decision diagrams -/

theorem bdd_and_comm (a b : Bdd α) (ha : a.WF) (hb : b.WF) :
    ∃ c c', Bdd.mkAnd a b = .ok c ∧ Bdd.mkAnd b a = .ok c' ∧ c.inputs = c'.inputs ∧
      ∀ ρ, c.den ρ = c'.den ρ := by
  obtain ⟨c, hc, hw, hi, hd⟩ := bdd_and a b ha hb
  obtain ⟨c', hc', hw', hi', hd'⟩ := bdd_and b a hb ha
  exact ⟨c, c', hc, hc', strictSorted_ext _ _ hw.1 hw'.1 (fun x => by rw [hi, hi']; exact Or.comm),
    fun ρ => by rw [hd, hd', Bool.and_comm]⟩
theorem bdd_or_comm (a b : Bdd α) (ha : a.WF) (hb : b.WF) :
    ∃ c c', Bdd.mkOr a b = .ok c ∧ Bdd.mkOr b a = .ok c' ∧ c.inputs = c'.inputs ∧
      ∀ ρ, c.den ρ = c'.den ρ := by
  obtain ⟨c, hc, hw, hi, hd⟩ := bdd_or a b ha hb
  obtain ⟨c', hc', hw', hi', hd'⟩ := bdd_or b a hb ha
  exact ⟨c, c', hc, hc', strictSorted_ext _ _ hw.1 hw'.1 (fun x => by rw [hi, hi']; exact Or.comm),
    fun ρ => by rw [hd, hd', Bool.or_comm]⟩
theorem bdd_xor_comm (a b : Bdd α) (ha : a.WF) (hb : b.WF) :
    ∃ c c', Bdd.mkXor a b = .ok c ∧ Bdd.mkXor b a = .ok c' ∧ c.inputs = c'.inputs ∧
      ∀ ρ, c.den ρ = c'.den ρ := by
  obtain ⟨c, hc, hw, hi, hd⟩ := bdd_xor a b ha hb
  obtain ⟨c', hc', hw', hi', hd'⟩ := bdd_xor b a hb ha
  exact ⟨c, c', hc, hc', strictSorted_ext _ _ hw.1 hw'.1 (fun x => by rw [hi, hi']; exact Or.comm),
    fun ρ => by rw [hd, hd']; cases Bdd.den ρ a <;> cases Bdd.den ρ b <;> rfl⟩
end

/-- non-vacuity: operands with partly overlapping variables -/
example : (Table.mkXor (⟨[1, 2], [false, true, true, false]⟩ : Table Nat) ⟨[2, 3], [false, false, false, true]⟩).inputs = [1, 2, 3] := by decide

end BoolFn.C03
