import BoolFn.Proofs.ElimAll
import BoolFn.Proofs.Oracle
import BoolFn.Proofs.BddQuant
import BoolFn.Proofs.BddOps
import BoolFn.Proofs.QuantET
import BoolFn.Proofs.Lits
import BoolFn.Props.C03
/-! # C06 — Existential and universal quantification eliminate variables one at a time

Existentially (universally) quantifying a set of variables yields the function that is true at x
exactly when the original is true for some (for every) choice of values of those variables, i.e. the
result of replacing F by F[v=0] or F[v=1] (respectively and) for each variable in turn, in any order.
The result has none of the quantified variables among its inputs, and quantifying a variable the
function does not mention, or an empty set, leaves the function unchanged.

The variable set is a `BTreeSet` in the code: a duplicate-free list here (`vs.Nodup`). -/
namespace BoolFn.C06
open BoolFn
variable {α : Type} [DecidableEq α]
set_option linter.unusedSectionVars false

/-! ### expressions -/
theorem expr_exists (vs : List α) (hnd : vs.Nodup) (e : Expr α) (ρ : α → Bool) :
    (e.existsQ vs).den ρ = true ↔ ∃ σ : α → Bool, (∀ y, y ∉ vs → σ y = ρ y) ∧ e.den σ = true := by
  have := foldl_eq_nested (· || ·) Expr.den (Expr.quantStep Expr.mkOr) (fun _ => True) medial_or
    (fun f x h => Expr.quantStep_spec Expr.mkOr _ Expr.den_mkOr f x h) vs hnd e trivial ρ
  rw [Expr.existsQ, this.2, nested_or_iff]

theorem expr_forall (vs : List α) (hnd : vs.Nodup) (e : Expr α) (ρ : α → Bool) :
    (e.forallQ vs).den ρ = true ↔ ∀ σ : α → Bool, (∀ y, y ∉ vs → σ y = ρ y) → e.den σ = true := by
  have := foldl_eq_nested (· && ·) Expr.den (Expr.quantStep Expr.mkAnd) (fun _ => True) medial_and
    (fun f x h => Expr.quantStep_spec Expr.mkAnd _ Expr.den_mkAnd f x h) vs hnd e trivial ρ
  rw [Expr.forallQ, this.2, nested_and_iff]

/-- none of the quantified variables remains, all others are kept -/
theorem expr_eliminated (vs : List α) (e : Expr α) (y : α) :
    (y ∈ (e.existsQ vs).vars ↔ y ∈ e.vars ∧ y ∉ vs) ∧ (y ∈ (e.forallQ vs).vars ↔ y ∈ e.vars ∧ y ∉ vs) :=
  ⟨Expr.mem_vars_foldl_quantStep _ Expr.mem_vars_mkOr vs e y,
   Expr.mem_vars_foldl_quantStep _ Expr.mem_vars_mkAnd vs e y⟩

/-- the empty set leaves the expression unchanged (structurally) -/
theorem expr_empty (e : Expr α) : e.existsQ [] = e ∧ e.forallQ [] = e := ⟨rfl, rfl⟩

/-- **order independence** (any two orders of the same duplicate-free set give the same function) -/
theorem order_independent_expr (vs vs' : List α) (hp : vs.Perm vs') (hnd : vs.Nodup) (e : Expr α) (ρ : α → Bool) :
    (e.existsQ vs).den ρ = (e.existsQ vs').den ρ ∧ (e.forallQ vs).den ρ = (e.forallQ vs').den ρ := by
  have h1 := foldl_eq_nested (α := α) (· || ·) Expr.den (Expr.quantStep Expr.mkOr) (fun _ => True) medial_or
    (fun f x h => Expr.quantStep_spec Expr.mkOr _ Expr.den_mkOr f x h)
  have h2 := foldl_eq_nested (α := α) (· && ·) Expr.den (Expr.quantStep Expr.mkAnd) (fun _ => True) medial_and
    (fun f x h => Expr.quantStep_spec Expr.mkAnd _ Expr.den_mkAnd f x h)
  constructor
  · rw [Expr.existsQ, Expr.existsQ, (h1 vs hnd e trivial ρ).2, (h1 vs' (hp.nodup hnd) e trivial ρ).2]
    exact nested_perm _ _ medial_or hp hnd e ρ
  · rw [Expr.forallQ, Expr.forallQ, (h2 vs hnd e trivial ρ).2, (h2 vs' (hp.nodup hnd) e trivial ρ).2]
    exact nested_perm _ _ medial_and hp hnd e ρ

/-- a variable the expression does not mention changes nothing (semantically) -/
theorem expr_foreign (x : α) (e : Expr α) (hx : x ∉ e.vars) (ρ : α → Bool) :
    (e.existsQ [x]).den ρ = e.den ρ ∧ (e.forallQ [x]).den ρ = e.den ρ := by
  have h0 : e.den (override ρ [(x, false)]) = e.den ρ := Expr.den_congr _ _ e (fun y hy => by
    have : x ≠ y := fun h => hx (h ▸ hy)
    simp [override_single, this])
  have h1 : e.den (override ρ [(x, true)]) = e.den ρ := Expr.den_congr _ _ e (fun y hy => by
    have : x ≠ y := fun h => hx (h ▸ hy)
    simp [override_single, this])
  constructor
  · simp [Expr.existsQ, Expr.den_quantStep _ _ Expr.den_mkOr, h0, h1]
  · simp [Expr.forallQ, Expr.den_quantStep _ _ Expr.den_mkAnd, h0, h1]

section
variable [Ord α] [Std.TransOrd α] [Std.LawfulEqOrd α]

/-! ### tables -/
theorem table_exists (vs : List α) (hnd : vs.Nodup) (t : Table α) (h : t.WF) (ρ : α → Bool) :
    (t.existsQ vs).WF ∧
    ((t.existsQ vs).den ρ = true ↔ ∃ σ : α → Bool, (∀ y, y ∉ vs → σ y = ρ y) ∧ t.den σ = true) := by
  have := foldl_eq_nested (· || ·) Table.den (Table.quantStep (· || ·)) Table.WF medial_or
    (fun f x hf => Table.quantStep_spec _ f x hf) vs hnd t h ρ
  exact ⟨this.1, by rw [Table.existsQ, this.2, nested_or_iff]⟩

theorem table_forall (vs : List α) (hnd : vs.Nodup) (t : Table α) (h : t.WF) (ρ : α → Bool) :
    (t.forallQ vs).WF ∧
    ((t.forallQ vs).den ρ = true ↔ ∀ σ : α → Bool, (∀ y, y ∉ vs → σ y = ρ y) → t.den σ = true) := by
  have := foldl_eq_nested (· && ·) Table.den (Table.quantStep (· && ·)) Table.WF medial_and
    (fun f x hf => Table.quantStep_spec _ f x hf) vs hnd t h ρ
  exact ⟨this.1, by rw [Table.forallQ, this.2, nested_and_iff]⟩

theorem table_eliminated (vs : List α) (t : Table α) (h : t.WF) (y : α) :
    (y ∈ (t.existsQ vs).inputs ↔ y ∈ t.inputs ∧ y ∉ vs) ∧ (y ∈ (t.forallQ vs).inputs ↔ y ∈ t.inputs ∧ y ∉ vs) := by
  constructor
  · rw [Table.existsQ, (Table.foldl_quantStep_inputs _ vs t h).2]; simp
  · rw [Table.forallQ, (Table.foldl_quantStep_inputs _ vs t h).2]; simp

theorem table_empty (t : Table α) : t.existsQ [] = t ∧ t.forallQ [] = t := ⟨rfl, rfl⟩

theorem order_independent_table (vs vs' : List α) (hp : vs.Perm vs') (hnd : vs.Nodup) (t : Table α) (h : t.WF)
    (ρ : α → Bool) :
    (t.existsQ vs).den ρ = (t.existsQ vs').den ρ ∧ (t.forallQ vs).den ρ = (t.forallQ vs').den ρ := by
  have h1 := foldl_eq_nested (α := α) (· || ·) Table.den (Table.quantStep (· || ·)) Table.WF medial_or
    (fun f x hf => Table.quantStep_spec _ f x hf)
  have h2 := foldl_eq_nested (α := α) (· && ·) Table.den (Table.quantStep (· && ·)) Table.WF medial_and
    (fun f x hf => Table.quantStep_spec _ f x hf)
  constructor
  · rw [Table.existsQ, Table.existsQ, (h1 vs hnd t h ρ).2, (h1 vs' (hp.nodup hnd) t h ρ).2]
    exact nested_perm _ _ medial_or hp hnd t ρ
  · rw [Table.forallQ, Table.forallQ, (h2 vs hnd t h ρ).2, (h2 vs' (hp.nodup hnd) t h ρ).2]
    exact nested_perm _ _ medial_and hp hnd t ρ
end

section
variable [Ord α] [Std.TransOrd α] [Std.LawfulEqOrd α]
/-! ### decision diagrams: lib-bdd `exists` / `for_all` on positions + prune -/
theorem bdd_exists (vs : List α) (hnd : vs.Nodup) (b : Bdd α) (hb : b.WF) :
    ∃ b', Bdd.existsQ vs b = .ok b' ∧ b'.WF ∧ (∀ y, y ∈ b'.inputs ↔ y ∈ b.inputs ∧ y ∉ vs) ∧
      ∀ ρ, (b'.den ρ = true ↔ ∃ σ : α → Bool, (∀ y, y ∉ vs → σ y = ρ y) ∧ b.den σ = true) := by
  obtain ⟨b', h1, h2, h3, h4⟩ := Bdd.existsQ_den vs hnd b hb
  refine ⟨b', h1, h2, by intro y; rw [h3]; simp, fun ρ => by rw [h4, nested_or_iff]⟩
theorem bdd_forall (vs : List α) (hnd : vs.Nodup) (b : Bdd α) (hb : b.WF) :
    ∃ b', Bdd.forallQ vs b = .ok b' ∧ b'.WF ∧ (∀ y, y ∈ b'.inputs ↔ y ∈ b.inputs ∧ y ∉ vs) ∧
      ∀ ρ, (b'.den ρ = true ↔ ∀ σ : α → Bool, (∀ y, y ∉ vs → σ y = ρ y) → b.den σ = true) := by
  obtain ⟨b', h1, h2, h3, h4⟩ := Bdd.forallQ_den vs hnd b hb
  refine ⟨b', h1, h2, by intro y; rw [h3]; simp, fun ρ => by rw [h4, nested_and_iff]⟩

theorem filter_not_contains_perm {vs vs' : List α} (hp : vs.Perm vs') (l : List α) :
    l.filter (fun x => !(vs.contains x)) = l.filter (fun x => !(vs'.contains x)) := by
  apply List.filter_congr
  intro x _
  simp only [List.contains_eq_mem, hp.mem_iff]

/-- **in any order**: eliminating the same variables in a different order gives the *same diagram*
    (not merely an equivalent one) -/
theorem order_independent_bdd (vs vs' : List α) (hp : vs.Perm vs') (hnd : vs.Nodup) (b : Bdd α) (hb : b.WF)
    (c c' : Bdd α) :
    (Bdd.existsQ vs b = .ok c → Bdd.existsQ vs' b = .ok c' → c = c') ∧
    (Bdd.forallQ vs b = .ok c → Bdd.forallQ vs' b = .ok c' → c = c') := by
  constructor
  · intro h1 h2
    obtain ⟨d, hd, hdw, hdi, hdd⟩ := Bdd.existsQ_den vs hnd b hb
    obtain ⟨d', hd', hdw', hdi', hdd'⟩ := Bdd.existsQ_den vs' (hp.nodup hnd) b hb
    rw [h1] at hd; cases hd
    rw [h2] at hd'; cases hd'
    apply Bdd.eq_of_den _ _ hdw hdw' (by rw [hdi, hdi', filter_not_contains_perm hp])
    intro ρ
    rw [hdd, hdd']
    exact nested_perm _ _ medial_or hp hnd b ρ
  · intro h1 h2
    obtain ⟨d, hd, hdw, hdi, hdd⟩ := Bdd.forallQ_den vs hnd b hb
    obtain ⟨d', hd', hdw', hdi', hdd'⟩ := Bdd.forallQ_den vs' (hp.nodup hnd) b hb
    rw [h1] at hd; cases hd
    rw [h2] at hd'; cases hd'
    apply Bdd.eq_of_den _ _ hdw hdw' (by rw [hdi, hdi', filter_not_contains_perm hp])
    intro ρ
    rw [hdd, hdd']
    exact nested_perm _ _ medial_and hp hnd b ρ

/-- quantifying nothing, or only variables the diagram does not declare, returns the diagram itself -/
theorem bdd_foreign_or_empty (vs : List α) (hnd : vs.Nodup) (b : Bdd α) (hb : b.WF)
    (hf : ∀ x ∈ vs, x ∉ b.inputs) (c : Bdd α) (h : Bdd.existsQ vs b = .ok c ∨ Bdd.forallQ vs b = .ok c) : c = b := by
  have hfil : b.inputs.filter (fun x => !(vs.contains x)) = b.inputs := by
    rw [List.filter_eq_self]
    intro x hx
    simp only [List.contains_eq_mem, Bool.not_eq_true', decide_eq_false_iff_not]
    exact fun hxv => hf x hxv hx
  have hcongr : ∀ (bop : Bool → Bool → Bool) (hid : ∀ a, bop a a = a) ρ, nested bop Bdd.den vs b ρ = b.den ρ := by
    intro bop hid
    apply nested_foreign bop hid
    intro x hx ρ v
    apply Bdd.den_congr
    intro y hy
    have : x ≠ y := fun e => hf x hx (e ▸ hy)
    simp [upd, this]
  rcases h with h | h
  · obtain ⟨d, hd, hdw, hdi, hdd⟩ := Bdd.existsQ_den vs hnd b hb
    rw [h] at hd; cases hd
    exact Bdd.eq_of_den _ _ hdw hb (by rw [hdi, hfil]) (fun ρ => by rw [hdd, hcongr (· || ·) (by intro a; cases a <;> rfl)])
  · obtain ⟨d, hd, hdw, hdi, hdd⟩ := Bdd.forallQ_den vs hnd b hb
    rw [h] at hd; cases hd
    exact Bdd.eq_of_den _ _ hdw hb (by rw [hdi, hfil]) (fun ρ => by rw [hdd, hcongr (· && ·) (by intro a; cases a <;> rfl)])
end

section
variable [Ord α] [Std.TransOrd α] [Std.LawfulEqOrd α]
/-- quantifying *every* input away leaves the constant "satisfiable" (∃) / "tautology" (∀), read off the weight -/
theorem bdd_exists_all_inputs (b : Bdd α) (h : b.WF) :
    ∃ c, Bdd.existsQ b.inputs b = .ok c ∧ c.inputs = [] ∧ ∀ ρ, c.den ρ = decide (0 < b.weight) :=
  C10.bdd_exists_all b h
theorem bdd_forall_all_inputs (b : Bdd α) (h : b.WF) :
    ∃ c, Bdd.forallQ b.inputs b = .ok c ∧ c.inputs = [] ∧ ∀ ρ, c.den ρ = decide (b.weight = 2 ^ b.inputs.length) :=
  C10.bdd_forall_all b h
end


/-! ### consequences: ∀ below the function below ∃; duality; more variables, weaker ∃ / stronger ∀ -/
theorem expr_sandwich (vs : List α) (hnd : vs.Nodup) (e : Expr α) (ρ : α → Bool) :
    ((e.forallQ vs).den ρ = true → e.den ρ = true) ∧ (e.den ρ = true → (e.existsQ vs).den ρ = true) :=
  ⟨fun h => (expr_forall vs hnd e ρ).mp h ρ (fun _ _ => rfl),
   fun h => (expr_exists vs hnd e ρ).mpr ⟨ρ, fun _ _ => rfl, h⟩⟩

theorem expr_duality (vs : List α) (hnd : vs.Nodup) (e : Expr α) (ρ : α → Bool) :
    (e.existsQ vs).den ρ = !(((Expr.not e).forallQ vs).den ρ) := by
  apply Bool.eq_iff_iff.mpr
  rw [expr_exists vs hnd, Bool.not_eq_true', ← Bool.not_eq_true, expr_forall vs hnd]
  constructor
  · intro ⟨σ, h₁, h₂⟩ h
    have := h σ h₁
    simp [Expr.den, h₂] at this
  · intro h
    apply Classical.byContradiction
    intro hn
    apply h
    intro σ hσ
    cases hd : e.den σ
    · simp [Expr.den, hd]
    · exact absurd ⟨σ, hσ, hd⟩ hn

theorem expr_exists_mono (vs vs' : List α) (hnd : vs.Nodup) (hnd' : vs'.Nodup) (hsub : ∀ x ∈ vs, x ∈ vs')
    (e : Expr α) (ρ : α → Bool) (h : (e.existsQ vs).den ρ = true) : (e.existsQ vs').den ρ = true := by
  obtain ⟨σ, h₁, h₂⟩ := (expr_exists vs hnd e ρ).mp h
  exact (expr_exists vs' hnd' e ρ).mpr ⟨σ, fun y hy => h₁ y (fun hv => hy (hsub y hv)), h₂⟩

theorem expr_forall_anti (vs vs' : List α) (hnd : vs.Nodup) (hnd' : vs'.Nodup) (hsub : ∀ x ∈ vs, x ∈ vs')
    (e : Expr α) (ρ : α → Bool) (h : (e.forallQ vs').den ρ = true) : (e.forallQ vs).den ρ = true := by
  rw [expr_forall vs hnd]
  intro σ hσ
  exact (expr_forall vs' hnd' e ρ).mp h σ (fun y hy => hσ y (fun hv => hy (hsub y hv)))

section
variable [Ord α] [Std.TransOrd α] [Std.LawfulEqOrd α]
theorem table_sandwich (vs : List α) (hnd : vs.Nodup) (t : Table α) (ht : t.WF) (ρ : α → Bool) :
    ((t.forallQ vs).den ρ = true → t.den ρ = true) ∧ (t.den ρ = true → (t.existsQ vs).den ρ = true) :=
  ⟨fun h => (table_forall vs hnd t ht ρ).2.mp h ρ (fun _ _ => rfl),
   fun h => (table_exists vs hnd t ht ρ).2.mpr ⟨ρ, fun _ _ => rfl, h⟩⟩

theorem table_exists_mono (vs vs' : List α) (hnd : vs.Nodup) (hnd' : vs'.Nodup) (hsub : ∀ x ∈ vs, x ∈ vs')
    (t : Table α) (ht : t.WF) (ρ : α → Bool) (h : (t.existsQ vs).den ρ = true) : (t.existsQ vs').den ρ = true := by
  obtain ⟨σ, h₁, h₂⟩ := (table_exists vs hnd t ht ρ).2.mp h
  exact (table_exists vs' hnd' t ht ρ).2.mpr ⟨σ, fun y hy => h₁ y (fun hv => hy (hsub y hv)), h₂⟩

theorem table_forall_anti (vs vs' : List α) (hnd : vs.Nodup) (hnd' : vs'.Nodup) (hsub : ∀ x ∈ vs, x ∈ vs')
    (t : Table α) (ht : t.WF) (ρ : α → Bool) (h : (t.forallQ vs').den ρ = true) : (t.forallQ vs).den ρ = true := by
  rw [(table_forall vs hnd t ht ρ).2]
  intro σ hσ
  exact (table_forall vs' hnd' t ht ρ).2.mp h σ (fun y hy => hσ y (fun hv => hy (hsub y hv)))
end

section
variable [Ord α] [Std.TransOrd α] [Std.LawfulEqOrd α]

/-- diagrams: `∀V.f ≤ f ≤ ∃V.f`, with both eliminations succeeding -/
theorem bdd_sandwich (vs : List α) (hnd : vs.Nodup) (b : Bdd α) (hb : b.WF) :
    ∃ lo hi, Bdd.forallQ vs b = .ok lo ∧ Bdd.existsQ vs b = .ok hi ∧
      ∀ ρ, (lo.den ρ = true → b.den ρ = true) ∧ (b.den ρ = true → hi.den ρ = true) := by
  obtain ⟨lo, h1, _, _, h4⟩ := bdd_forall vs hnd b hb
  obtain ⟨hi, g1, _, _, g4⟩ := bdd_exists vs hnd b hb
  exact ⟨lo, hi, h1, g1, fun ρ => ⟨fun h => (h4 ρ).mp h ρ (fun _ _ => rfl),
    fun h => (g4 ρ).mpr ⟨ρ, fun _ _ => rfl, h⟩⟩⟩

/-- the three representations quantify alike -/
theorem exists_agree (vs : List α) (hnd : vs.Nodup) (e : Expr α) (t : Table α) (b : Bdd α)
    (ht : t.WF) (hb : b.WF) (het : ∀ ρ, e.den ρ = t.den ρ) (heb : ∀ ρ, e.den ρ = b.den ρ) :
    ∃ b', Bdd.existsQ vs b = .ok b' ∧
      ∀ ρ, (e.existsQ vs).den ρ = (t.existsQ vs).den ρ ∧ (e.existsQ vs).den ρ = b'.den ρ := by
  obtain ⟨b', g1, _, _, g4⟩ := bdd_exists vs hnd b hb
  refine ⟨b', g1, fun ρ => ⟨?_, ?_⟩⟩
  · apply Bool.eq_iff_iff.mpr
    rw [expr_exists vs hnd, (table_exists vs hnd t ht ρ).2]
    simp only [het]
  · apply Bool.eq_iff_iff.mpr
    rw [expr_exists vs hnd, g4]
    simp only [heb]
theorem forall_agree (vs : List α) (hnd : vs.Nodup) (e : Expr α) (t : Table α) (b : Bdd α)
    (ht : t.WF) (hb : b.WF) (het : ∀ ρ, e.den ρ = t.den ρ) (heb : ∀ ρ, e.den ρ = b.den ρ) :
    ∃ b', Bdd.forallQ vs b = .ok b' ∧
      ∀ ρ, (e.forallQ vs).den ρ = (t.forallQ vs).den ρ ∧ (e.forallQ vs).den ρ = b'.den ρ := by
  obtain ⟨b', g1, _, _, g4⟩ := bdd_forall vs hnd b hb
  refine ⟨b', g1, fun ρ => ⟨?_, ?_⟩⟩
  · apply Bool.eq_iff_iff.mpr
    rw [expr_forall vs hnd, (table_forall vs hnd t ht ρ).2]
    simp only [het]
  · apply Bool.eq_iff_iff.mpr
    rw [expr_forall vs hnd, g4]
    simp only [heb]
end

section
variable [Ord α] [Std.TransOrd α] [Std.LawfulEqOrd α]

/-- diagrams: `∃V.f = ¬∀V.¬f`, all three operations succeeding -/
theorem bdd_duality (vs : List α) (hnd : vs.Nodup) (b : Bdd α) (hb : b.WF) :
    ∃ hi lo, Bdd.existsQ vs b = .ok hi ∧ Bdd.forallQ vs (Bdd.not b) = .ok lo ∧
      ∀ ρ, hi.den ρ = !(lo.den ρ) := by
  obtain ⟨hnw, _, hnd'⟩ := C03.bdd_not b hb
  obtain ⟨hi, g1, _, _, g4⟩ := bdd_exists vs hnd b hb
  obtain ⟨lo, h1, _, _, h4⟩ := bdd_forall vs hnd (Bdd.not b) hnw
  refine ⟨hi, lo, g1, h1, fun ρ => ?_⟩
  apply Bool.eq_iff_iff.mpr
  rw [g4, Bool.not_eq_true', ← Bool.not_eq_true, h4]
  constructor
  · intro ⟨σ, s₁, s₂⟩ h
    have := h σ s₁
    rw [hnd', s₂] at this
    cases this
  · intro h
    apply Classical.byContradiction
    intro hn
    apply h
    intro σ hσ
    rw [hnd']
    cases hd : b.den σ
    · rfl
    · exact absurd ⟨σ, hσ, hd⟩ hn
end

/-- the pre-repair definition `F[all=0] ∘ F[all=1]`, written out, is wrong for two variables:
    `∃{0,1}. x0 xor x1` would be false -/
theorem all0_all1_wrong :
    let e : Expr Nat := Expr.mkXor (.lit 0) (.lit 1)
    let old := Expr.mkOr (e.restrict [(0, false), (1, false)]) (e.restrict [(0, true), (1, true)])
    old.den (fun _ => false) = false ∧ (e.existsQ [0, 1]).den (fun _ => false) = true := by decide

end BoolFn.C06

/-! ## Many eliminated inputs of a wide node of literals

`law.forall.many` / `law.exists.many` (correspondence, sizes beyond the executable model) eliminate all
literals but one of a wide disjunction / conjunction over distinct names, together with any number of
names the expression does not mention. What must be left is proved here, for every width and every
set of extra names. -/
namespace BoolFn.C06
open BoolFn
variable {α : Type} [DecidableEq α]

/-- hypotheses shared by the four laws: distinct names, the kept literal `k` is one of the literals,
    every other literal's name is eliminated, `k`'s name is not -/
structure ManyElim (lits : List (α × Bool)) (k : α × Bool) (vs : List α) : Prop where
  nodup : (lits.map (·.1)).Nodup
  mem : k ∈ lits
  vsNodup : vs.Nodup
  kept : k.1 ∉ vs
  others : ∀ p ∈ lits, p ≠ k → p.1 ∈ vs

omit [DecidableEq α] in
theorem ManyElim.name_ne {lits : List (α × Bool)} {k : α × Bool} {vs : List α} (h : ManyElim lits k vs)
    (p : α × Bool) (hp : p ∈ lits) (hne : p ≠ k) : p.1 ≠ k.1 := by
  intro he
  exact h.kept (he ▸ h.others p hp hne)

/-- the assignment that gives every literal other than `k` the value `b` and agrees with `ρ` elsewhere -/
def othersTo (lits : List (α × Bool)) (k : α × Bool) (b : Bool) (ρ : α → Bool) : α → Bool :=
  force (lits.filter (· ≠ k)) b ρ

theorem othersTo_outside {lits : List (α × Bool)} {k : α × Bool} {vs : List α} (h : ManyElim lits k vs)
    (b : Bool) (ρ : α → Bool) (y : α) (hy : y ∉ vs) : othersTo lits k b ρ y = ρ y := by
  apply force_outside
  intro p hp he
  obtain ⟨hpl, hpk⟩ := List.mem_filter.mp hp
  exact hy (he ▸ h.others p hpl (by simpa using hpk))

theorem othersTo_kept {lits : List (α × Bool)} {k : α × Bool} {vs : List α} (h : ManyElim lits k vs)
    (b : Bool) (ρ : α → Bool) : othersTo lits k b ρ k.1 = ρ k.1 :=
  othersTo_outside h b ρ k.1 h.kept

theorem othersTo_other {lits : List (α × Bool)} {k : α × Bool} {vs : List α} (h : ManyElim lits k vs)
    (b : Bool) (ρ : α → Bool) (p : α × Bool) (hp : p ∈ lits) (hne : p ≠ k) :
    (othersTo lits k b ρ p.1 == p.2) = b := by
  apply force_inside
  · exact (List.Sublist.map _ List.filter_sublist).nodup h.nodup
  · exact List.mem_filter.mpr ⟨hp, by simpa using hne⟩

/-- **∀ over a wide disjunction**: what is left is the kept literal -/
theorem forall_many_or {lits : List (α × Bool)} {k : α × Bool} {vs : List α} (h : ManyElim lits k vs)
    (ρ : α → Bool) : ((Expr.or (lits.map litE)).forallQ vs).den ρ = (ρ k.1 == k.2) := by
  rw [Bool.eq_iff_iff, expr_forall vs h.vsNodup]
  simp only [Expr.den, denAny_lits, List.any_eq_true]
  constructor
  · intro hall
    obtain ⟨p, hp, hv⟩ := hall (othersTo lits k false ρ) (fun y hy => othersTo_outside h false ρ y hy)
    by_cases hpk : p = k
    · subst hpk; rwa [othersTo_kept h] at hv
    · rw [othersTo_other h false ρ p hp hpk] at hv; cases hv
  · intro hk σ hσ
    exact ⟨k, h.mem, by rw [hσ k.1 h.kept]; exact hk⟩

/-- **∃ over a wide conjunction**: what is left is the kept literal -/
theorem exists_many_and {lits : List (α × Bool)} {k : α × Bool} {vs : List α} (h : ManyElim lits k vs)
    (ρ : α → Bool) : ((Expr.and (lits.map litE)).existsQ vs).den ρ = (ρ k.1 == k.2) := by
  rw [Bool.eq_iff_iff, expr_exists vs h.vsNodup]
  simp only [Expr.den, denAll_lits, List.all_eq_true]
  constructor
  · rintro ⟨σ, hσ, hall⟩
    have := hall k h.mem
    rwa [hσ k.1 h.kept] at this
  · intro hk
    refine ⟨othersTo lits k true ρ, fun y hy => othersTo_outside h true ρ y hy, fun p hp => ?_⟩
    by_cases hpk : p = k
    · subst hpk; rwa [othersTo_kept h]
    · exact othersTo_other h true ρ p hp hpk

/-- **∀ over a wide conjunction** with at least one other literal: the constant false -/
theorem forall_many_and {lits : List (α × Bool)} {k : α × Bool} {vs : List α} (h : ManyElim lits k vs)
    (q : α × Bool) (hq : q ∈ lits) (hqk : q ≠ k) (ρ : α → Bool) :
    ((Expr.and (lits.map litE)).forallQ vs).den ρ = false := by
  rw [Bool.eq_false_iff]
  intro htrue
  rw [expr_forall vs h.vsNodup] at htrue
  have := htrue (othersTo lits k false ρ) (fun y hy => othersTo_outside h false ρ y hy)
  simp only [Expr.den, denAll_lits, List.all_eq_true] at this
  have hv := this q hq
  rw [othersTo_other h false ρ q hq hqk] at hv
  cases hv

/-- **∃ over a wide disjunction** with at least one other literal: the constant true -/
theorem exists_many_or {lits : List (α × Bool)} {k : α × Bool} {vs : List α} (h : ManyElim lits k vs)
    (q : α × Bool) (hq : q ∈ lits) (hqk : q ≠ k) (ρ : α → Bool) :
    ((Expr.or (lits.map litE)).existsQ vs).den ρ = true := by
  rw [expr_exists vs h.vsNodup]
  refine ⟨othersTo lits k true ρ, fun y hy => othersTo_outside h true ρ y hy, ?_⟩
  simp only [Expr.den, denAny_lits, List.any_eq_true]
  exact ⟨q, hq, othersTo_other h true ρ q hq hqk⟩

/-- non-vacuity: `x | !y | z` with `y`, `z` and two foreign names eliminated -/
example : ManyElim [("x", true), ("y", false), ("z", true)] ("x", true) ["u0", "y", "u1", "z"] :=
  ⟨by decide, by decide, by decide, by decide, by decide⟩

end BoolFn.C06
