import BoolFn.Props.C01
import BoolFn.Props.C08
import BoolFn.Props.C16
import BoolFn.Props.C03
import BoolFn.Proofs.QuantET
import BoolFn.Proofs.BddQuant
import BoolFn.Proofs.BddOps
/-! # C15 — Objects stay well-formed through every sequence of operations

After any sequence of public operations starting from the public constructors, every truth table
(other than the explicitly empty one read from empty CSV text) has exactly 2^n outputs for its n
distinct, sorted inputs, and every decision diagram is a structurally sound reduced ordered diagram
whose internal variable count equals the number of its declared, sorted inputs. Every semantic
observation on a derived object (values, inputs, enumerations, comparisons, node count) equals the
same observation on a freshly built object denoting the same function over the same inputs.

`ReachT` is the closure of the table constructors under the table operations; `table_inv` is the
invariant by induction over it. Canonicity: a well-formed table (and, in the semantic model of
lib-bdd, a well-formed diagram) is determined by its inputs and its function. -/
namespace BoolFn.C15
open BoolFn
variable {α : Type} [DecidableEq α] [Ord α] [Std.TransOrd α] [Std.LawfulEqOrd α]
set_option linter.unusedSectionVars false

/-- tables reachable through the public API -/
inductive ReachT : Table α → Prop where
  | ofExpr (e : Expr α) : ReachT (exprToTable e)
  | ofBdd (b : Bdd α) (h : b.WF) : ReachT (bddToTable b)
  | not {t} : ReachT t → ReachT (Table.not t)
  | bit (op : Bool → Bool → Bool) {a b} : ReachT a → ReachT b → ReachT (Table.bitCommon op a b)
  | restrict (v : PVal α) {t} : ReachT t → ReachT (Table.restrict v t)
  | substitute (m : List (α × Table α)) {t} : (m.map (·.1)).Nodup → (∀ kv ∈ m, ReachT kv.2) → ReachT t →
      ReachT (Table.substitute m t)
  | existsQ (vs : List α) {t} : ReachT t → ReachT (Table.existsQ vs t)
  | forallQ (vs : List α) {t} : ReachT t → ReachT (Table.forallQ vs t)
  | derivative (vs : List α) {t} : ReachT t → ReachT (Table.derivative vs t)

/-- **the table invariant holds after every history** -/
theorem table_inv {t : Table α} (h : ReachT t) : t.WF := by
  induction h with
  | ofExpr e => exact (C01.exprToTable_den e).1
  | ofBdd b hb => exact (C01.bddToTable_den b hb).1
  | not _ ih => exact (Table.not_den _ ih).1
  | bit op _ _ iha ihb => exact (Table.bitCommon_den op _ _ iha ihb).1
  | restrict v _ ih => exact (Table.restrict_den v _ ih).1
  | substitute m hk _ _ ihm ih => exact (C08.table_substitute m hk ihm _ ih).1
  | existsQ vs _ ih => exact (Table.foldl_quantStep_inputs _ vs _ ih).1
  | forallQ vs _ ih => exact (Table.foldl_quantStep_inputs _ vs _ ih).1
  | derivative vs _ ih => exact (Table.foldl_quantStep_inputs _ vs _ ih).1

/-- diagrams reachable through the public API (substitution with the documented precondition: no
    replacement mentions the variable it replaces) -/
inductive ReachB : Bdd α → Prop where
  | mkConst (v : Bool) : ReachB (Bdd.mkConst v)
  | mkLiteral (x : α) (v : Bool) : ReachB (Bdd.mkLiteral x v)
  | ofExpr (e : Expr α) (b : Bdd α) : exprToBdd e = .ok (.ok b) → ReachB b
  | ofTable (t : Table α) (b : Bdd α) : ReachT t → tableToBdd t = .ok b → ReachB b
  | not {b} : ReachB b → ReachB (Bdd.not b)
  | bit (op : Bool → Bool → Bool) {a b c} : ReachB a → ReachB b → Bdd.bitCommon (Inner.binop op) a b = .ok c → ReachB c
  | restrict (v : PVal α) {b c} : (v.map (·.1)).Nodup → ReachB b → Bdd.restrict v b = .ok c → ReachB c
  | existsQ (vs : List α) {b c} : vs.Nodup → ReachB b → Bdd.existsQ vs b = .ok c → ReachB c
  | forallQ (vs : List α) {b c} : vs.Nodup → ReachB b → Bdd.forallQ vs b = .ok c → ReachB c
  | derivative (vs : List α) {b c} : vs.Nodup → ReachB b → Bdd.derivative vs b = .ok c → ReachB c
  | substitute (m : List (α × Bdd α)) {b c} : (m.map (·.1)).Nodup → (∀ kv ∈ m, ReachB kv.2) → ReachB b →
      Bdd.substitute m b = .ok c → ReachB c

/-- **the diagram invariant holds after every history**: sorted duplicate-free inputs, as many
    lib-bdd variables as inputs, a truth table of the right size -/
theorem bdd_inv {b : Bdd α} (h : ReachB b) : b.WF := by
  induction h with
  | mkConst v => exact ⟨by simp [Bdd.mkConst, StrictSorted], rfl, Inner.wf_mkConst _ _⟩
  | mkLiteral x v => exact ⟨by simp [Bdd.mkLiteral, StrictSorted], rfl, Inner.wf_ofFn _ _⟩
  | ofExpr e b hb =>
    by_cases hsm : e.inputs.length ≤ maxBddVars
    · obtain ⟨b', hb', hwf, _⟩ := C01.exprToBdd_den e hsm
      rw [hb] at hb'; cases hb'; exact hwf
    · simp only [exprToBdd] at hb
      rw [if_pos (by omega)] at hb; cases hb
  | ofTable t b ht hb =>
    have htw := table_inv ht
    have hins : Table.gatherLiterals t = t.inputs := Table.gatherLiterals_of_WF t htw
    simp only [tableToBdd, hins] at hb
    split at hb
    · cases hb
    · cases hb; exact ⟨htw.1, by simp [Inner.mkDnf], Inner.wf_ofFn _ _⟩
  | not _ ih => exact ⟨ih.1, ih.2.1, Inner.wf_not _⟩
  | bit op _ _ hc iha ihb =>
    obtain ⟨c', hc', hwf, _⟩ := Bdd.bitCommon_den op _ _ iha ihb
    rw [hc] at hc'; cases hc'; exact hwf
  | restrict v hv _ hc ih =>
    obtain ⟨c', hc', hwf, _⟩ := Bdd.restrict_den v hv _ ih
    rw [hc] at hc'; cases hc'; exact hwf
  | existsQ vs hvs _ hc ih =>
    obtain ⟨c', hc', hwf, _⟩ := Bdd.existsQ_den vs hvs _ ih
    rw [hc] at hc'; cases hc'; exact hwf
  | forallQ vs hvs _ hc ih =>
    obtain ⟨c', hc', hwf, _⟩ := Bdd.forallQ_den vs hvs _ ih
    rw [hc] at hc'; cases hc'; exact hwf
  | derivative vs hvs _ hc ih =>
    obtain ⟨c', hc', hwf, _⟩ := Bdd.derivative_den vs hvs _ ih
    rw [hc] at hc'; cases hc'; exact hwf
  | substitute m hk _ _ hc ihm ih =>
    by_cases hself : ∃ kv ∈ m, kv.1 ∈ kv.2.inputs
    · obtain ⟨site, hp⟩ := (C08.bdd_refuses_iff_self_reference m hk ihm _ ih).mpr hself
      rw [hc] at hp; cases hp
    · obtain ⟨c', hc', hwf, _⟩ := C08.bdd_substitute m hk ihm _ ih (fun kv hkv hin => hself ⟨kv, hkv, hin⟩)
      rw [hc] at hc'; cases hc'; exact hwf

/-- … and none of these operations panics on a reachable diagram (the `expect`s, the `debug_assert!`
    of prune, and lib-bdd's assertions in `set_num_vars` / `rename_variables` never fire) -/
theorem bdd_ops_never_panic {a b : Bdd α} (ha : ReachB a) (hb : ReachB b) (op : Bool → Bool → Bool)
    (v : PVal α) (hv : (v.map (·.1)).Nodup) (vs : List α) (hvs : vs.Nodup) :
    (∃ c, Bdd.bitCommon (Inner.binop op) a b = .ok c) ∧ (∃ c, Bdd.restrict v a = .ok c) ∧
    (∃ c, Bdd.existsQ vs a = .ok c) ∧ (∃ c, Bdd.forallQ vs a = .ok c) ∧ (∃ c, Bdd.derivative vs a = .ok c) ∧
    (∃ r, Bdd.isEquivalent a b = .ok r) ∧ (∃ r, Bdd.isImpliedBy a b = .ok r) := by
  have wa := bdd_inv ha
  have wb := bdd_inv hb
  refine ⟨?_, ?_, ?_, ?_, ?_, ?_, ?_⟩
  · obtain ⟨c, hc, _⟩ := Bdd.bitCommon_den op a b wa wb; exact ⟨c, hc⟩
  · obtain ⟨c, hc, _⟩ := Bdd.restrict_den v hv a wa; exact ⟨c, hc⟩
  · obtain ⟨c, hc, _⟩ := Bdd.existsQ_den vs hvs a wa; exact ⟨c, hc⟩
  · obtain ⟨c, hc, _⟩ := Bdd.forallQ_den vs hvs a wa; exact ⟨c, hc⟩
  · obtain ⟨c, hc, _⟩ := Bdd.derivative_den vs hvs a wa; exact ⟨c, hc⟩
  · obtain ⟨r, hr, _⟩ := Bdd.isEquivalent_iff a b wa wb; exact ⟨r, hr⟩
  · obtain ⟨r, hr, _⟩ := Bdd.isImpliedBy_iff a b wa wb; exact ⟨r, hr⟩

/-- the CSV importer produces well-formed tables too (the explicitly empty table of empty text is
    the one exception the property names; it is produced by `fromCsvString ""` only) -/
theorem csv_import_wf (count : Nat) (first : List String) (rest : List (List String)) (t : Table String)
    (h : fromCsvCommon count (first :: rest) = .ok t) : t.WF := by
  obtain ⟨hlen, hin, _, _⟩ := C16.faithful count first rest t h
  refine ⟨?_, hlen⟩
  rw [hin]
  -- the column map lists the sorted keys
  simp only [colsOf, sortByName]
  have hs := strictSorted_sortDedup ((namesOf first).zipIdx.map (·.1))
  refine List.Pairwise.sublist ?_ hs
  generalize sortDedup ((namesOf first).zipIdx.map (·.1)) = keys
  induction keys with
  | nil => simp
  | cons k ks ih =>
    simp only [List.filterMap_cons]
    cases hf : (namesOf first).zipIdx.find? (fun p => p.1 == k) with
    | none => exact List.Sublist.cons _ ih
    | some p =>
      have : p.1 = k := by simpa using List.find?_some hf
      simp only [List.map_cons, this]
      exact List.Sublist.cons_cons _ ih

/-- **canonicity of tables**: same inputs and same function ⇒ structurally equal, hence every
    observation agrees -/
theorem canonical_table (x y : Table α) (hx : x.WF) (hy : y.WF) (hin : x.inputs = y.inputs)
    (hden : ∀ ρ, x.den ρ = y.den ρ) : x = y := by
  cases x with | mk xi xo =>
  cases y with | mk yi yo =>
  simp only at hin; subst hin
  simp only [Table.mk.injEq, true_and]
  have hnd := hx.1.nodup
  apply List.ext_getElem (by rw [hx.2, hy.2])
  intro k h1 h2
  have hk : k < 2 ^ xi.length := by rw [← hx.2]; exact h1
  -- an assignment whose point is row k
  obtain ⟨p, hp⟩ : ∃ p, p = rowIndexToPoint k xi.length := ⟨_, rfl⟩
  have hpl : p.length = xi.length := by rw [hp]; exact rowIndexToPoint_length k _ hk
  have := hden (complete (xi.zip p) false)
  simp only [Table.den] at this
  rw [map_complete_zip xi p hpl hnd, hp, valMsb_rowIndexToPoint] at this
  rw [List.getD_eq_getElem?_getD, List.getD_eq_getElem?_getD, List.getElem?_eq_getElem h1,
    List.getElem?_eq_getElem h2] at this
  simpa using this

/-- **canonicity of diagrams in the model**: same inputs and same function ⇒ equal, hence equal
    `num_vars`, truth table, support, weight and node count (the node count of the model is a function
    of the truth table). The implementation's `size()` is compared with this canonical size on every
    BDD the harness sees. -/
theorem canonical_bdd (x y : Bdd α) (hx : x.WF) (hy : y.WF) (hin : x.inputs = y.inputs)
    (hden : ∀ ρ, x.den ρ = y.den ρ) : x = y ∧ x.nodeCount = y.nodeCount := by
  have hnd := hx.1.nodup
  have hn : x.inner.n = y.inner.n := by rw [hx.2.1, hy.2.1, hin]
  have : x.inner = y.inner := by
    apply Inner.ext_of_eval _ _ hx.2.2 hy.2.2 hn
    intro p hp
    have hpl : p.length = x.inputs.length := by rw [hp, hx.2.1]
    have := hden (complete (x.inputs.zip p) false)
    simp only [Bdd.den] at this
    rw [← hin, map_complete_zip x.inputs p hpl hnd] at this
    exact this
  cases x; cases y
  simp only at hin this
  subst hin; subst this
  exact ⟨rfl, rfl⟩

/-- well-formedness of the diagram constructors -/
theorem mkConst_wf (v : Bool) : (Bdd.mkConst v : Bdd α).WF :=
  ⟨by simp [Bdd.mkConst, StrictSorted], rfl, Inner.wf_mkConst _ _⟩
theorem mkLiteral_wf (x : α) (v : Bool) : (Bdd.mkLiteral x v).WF :=
  ⟨by simp [Bdd.mkLiteral, StrictSorted], rfl, Inner.wf_ofFn _ _⟩


/-- canonicity at work: swapping the operands of a table operator gives the identical table value -/
theorem table_and_comm_eq (a b : Table α) (ha : a.WF) (hb : b.WF) : Table.mkAnd a b = Table.mkAnd b a :=
  canonical_table _ _ (C03.table_and a b ha hb).1 (C03.table_and b a hb ha).1
    (C03.table_and_comm a b ha hb).1 (C03.table_and_comm a b ha hb).2
theorem table_or_comm_eq (a b : Table α) (ha : a.WF) (hb : b.WF) : Table.mkOr a b = Table.mkOr b a :=
  canonical_table _ _ (C03.table_or a b ha hb).1 (C03.table_or b a hb ha).1
    (C03.table_or_comm a b ha hb).1 (C03.table_or_comm a b ha hb).2
theorem table_xor_comm_eq (a b : Table α) (ha : a.WF) (hb : b.WF) : Table.mkXor a b = Table.mkXor b a :=
  canonical_table _ _ (C03.table_xor a b ha hb).1 (C03.table_xor b a hb ha).1
    (C03.table_xor_comm a b ha hb).1 (C03.table_xor_comm a b ha hb).2

/-- non-vacuity: a table reached through a three-step history -/
example : ReachT (Table.restrict [(2, true)] (Table.bitCommon (· != ·)
    (exprToTable (Expr.and [.lit 1, .lit 2])) (exprToTable (Expr.or [.lit 2, .lit 3] : Expr Nat)))) :=
  .restrict _ (.bit _ (.ofExpr _) (.ofExpr _))

end BoolFn.C15
