import BoolFn.Expr
/-! Model of `src/table` (struct, evaluation, operators, BooleanFunction impl, iterators,
    `to_expression_trivial`), with the `fix:` commits for restrict / substitute / quantifiers. -/
namespace BoolFn

/-- `TruthTable<T>`: `inputs: Vec<T>` (sorted) and `outputs: Vec<bool>` (length `2^n`). -/
structure Table (α : Type) where
  inputs : List α
  outputs : List Bool
deriving Repr, Inhabited, DecidableEq

variable {α : Type}

namespace Table

/-- representation invariant (C15) -/
def WF [Ord α] (t : Table α) : Prop :=
  StrictSorted t.inputs ∧ t.outputs.length = 2 ^ t.inputs.length

def isWF [Ord α] (t : Table α) : Bool :=
  isStrictSorted t.inputs && t.outputs.length == 2 ^ t.inputs.length

/-- specification: the table's value under a total assignment -/
def den (ρ : α → Bool) (t : Table α) : Bool :=
  t.outputs.getD (valMsb (t.inputs.map ρ)) false

def rowCount (t : Table α) : Nat := 2 ^ t.inputs.length

/-- `Not for &TruthTable` -/
def not (t : Table α) : Table α := ⟨t.inputs, t.outputs.map (!·)⟩

/-! #### `restrict` (bit-mask row filter, `boolean_function.rs:57-92`) -/

/-- the per-row test: `fixed` lists (bit position, required value);
    a row is dropped when `should_be_1 != (row & (1 << j) == (1 << j))` for some fixed input -/
def keepRow (fixed : List (Nat × Bool)) (row : Nat) : Bool :=
  fixed.all fun p => ((row &&& (1 <<< p.1)) == (1 <<< p.1)) == p.2

/-- positions and values of the fixed inputs: inputs reversed and enumerated, as in the source.
    `spec[i]` is `valuation.get(inputs[i])`. -/
def fixedBits (spec : List (Option Bool)) : List (Nat × Bool) :=
  spec.reverse.zipIdx.filterMap fun x => x.1.map fun b => (x.2, b)

def restrictOutputs (spec : List (Option Bool)) (outputs : List Bool) : List Bool :=
  (outputs.zipIdx.filter fun x => keepRow (fixedBits spec) x.2).map (·.1)

section
variable [DecidableEq α]

/-- `evaluate_with_default`: `self.outputs[index]` (in bounds under `WF`, see `Proofs`) -/
def eval (v : PVal α) (d : Bool) (t : Table α) : Bool :=
  t.outputs.getD (valuesToRowIndex t.inputs v d) false

/-- `evaluate_checked` -/
def evalChecked (v : PVal α) (t : Table α) : Except (List α) Bool :=
  match valuesToRowIndexChecked t.inputs v with
  | .ok i => .ok (t.outputs.getD i false)
  | .error m => .error m

def restrict (v : PVal α) (t : Table α) : Table α :=
  ⟨t.inputs.filter fun x => (PVal.get? v x).isNone,
   restrictOutputs (t.inputs.map (PVal.get? v)) t.outputs⟩

variable [Ord α]

/-- `gather_literals()` = `inputs()` -/
def gatherLiterals (t : Table α) : List α := sortDedup t.inputs

/-- `bit_common` (`src/table/traits/bit/mod.rs`) -/
def bitCommon (op : Bool → Bool → Bool) (me other : Table α) : Table α :=
  let sv := gatherLiterals me
  let ov := gatherLiterals other
  if sv = ov then
    ⟨me.inputs, (me.outputs.zip other.outputs).map fun p => op p.1 p.2⟩
  else
    let ins := unionSorted sv ov
    ⟨ins, (allPoints ins.length).map fun p =>
      let v := ins.zip p
      op (eval v false me) (eval v false other)⟩

def mkAnd (a b : Table α) : Table α := bitCommon (· && ·) a b
def mkOr (a b : Table α) : Table α := bitCommon (· || ·) a b
def mkXor (a b : Table α) : Table α := bitCommon (· != ·) a b

/-- repaired `substitute`: every key takes the value of its substitute at the *original* point -/
def substitute (m : List (α × Table α)) (t : Table α) : Table α :=
  let substituted := sortDedup (m.map (·.1))
  let substituting := sortDedup (m.flatMap fun p => gatherLiterals p.2)
  let finalInputs := unionSorted ((gatherLiterals t).filter fun x => !(substituted.contains x)) substituting
  ⟨finalInputs, (allPoints finalInputs.length).map fun p =>
    let orig : PVal α := finalInputs.zip p
    let fin : PVal α := m.foldl (fun acc kv => (kv.1, eval orig false kv.2) :: acc) orig
    eval fin false t⟩

def quantStep (op : Bool → Bool → Bool) (acc : Table α) (x : α) : Table α :=
  bitCommon op (restrict [(x, false)] acc) (restrict [(x, true)] acc)
def existsQ (vs : List α) (t : Table α) : Table α := vs.foldl (quantStep (· || ·)) t
def forallQ (vs : List α) (t : Table α) : Table α := vs.foldl (quantStep (· && ·)) t
def derivative (vs : List α) (t : Table α) : Table α := vs.foldl (quantStep (· != ·)) t

def semanticEq (a b : Table α) : Bool :=
  (powerSet (unionSorted (gatherLiterals a) (gatherLiterals b))).all fun v => eval v false a == eval v false b

def isImpliedBy (self other : Table α) : Bool :=
  (powerSet (unionSorted (gatherLiterals self) (gatherLiterals other))).all fun v =>
    !(eval v false other) || eval v false self

/-- `essential_inputs`: scan row pairs differing in the variable's bit -/
def essentialInputs (t : Table α) : List α :=
  sortDedup <| ((gatherLiterals t).reverse.zipIdx.filter fun x =>
    (List.range t.rowCount).any fun r =>
      (r &&& (1 <<< x.2)) == 0 && (t.outputs.getD r false != t.outputs.getD (r ^^^ (1 <<< x.2)) false)).map (·.1)

def degree (t : Table α) : Nat := (gatherLiterals t).length
def essentialDegree (t : Table α) : Nat := (essentialInputs t).length
end

/-! iterators -/
def domain (t : Table α) : List (List Bool) := allPoints t.inputs.length
def image (t : Table α) : List Bool := t.outputs
def relation (t : Table α) : List (List Bool × Bool) :=
  t.outputs.zipIdx.map fun x => (rowIndexToPoint x.2 t.inputs.length, x.1)
def support (t : Table α) : List (List Bool) :=
  (t.outputs.zipIdx.filter (·.1)).map fun x => rowIndexToPoint x.2 t.inputs.length
def weight (t : Table α) : Nat := (support t).length
def satPoint (t : Table α) : Option (List Bool) := (support t).head?

/-- `to_expression_trivial` -/
def toExpressionTrivial (t : Table α) : Expr α :=
  match (if t.inputs.length = 0 then t.outputs.head? else none) with
  | some v => .const v
  | none =>
    let rows := (t.outputs.zipIdx.filter (·.1)).map (·.2)
    if rows.isEmpty then .const false
    else if rows.length = t.outputs.length then .const true
    else .or (rows.map fun r =>
      .and ((t.inputs.zip (rowIndexToPoint r t.inputs.length)).map fun c =>
        if c.2 then Expr.lit c.1 else Expr.not (Expr.lit c.1)))

end Table
end BoolFn
