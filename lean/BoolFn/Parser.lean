import BoolFn.Expr
import BoolFn.Generated.Tables
/-! Faithful model of `src/parser` (tokenizer + precedence parser) on `List Char`, and of
    `Display for Expression`. The pattern table and the peek-buffer size come from
    `Generated.Tables`, regenerated from the compiled crate on every run. -/
namespace BoolFn

inductive Tok where
  | and | or | not | tt | ff
  | lit (name : List Char)
  | paren (inner : List Tok)
deriving Repr, BEq, Inhabited

inductive Kind where
  | and | or | not | tt | ff | parenStart | parenEnd | braceStart | braceEnd | invalid
deriving Repr, BEq, DecidableEq

def Kind.ofString : String → Kind
  | "and" => .and | "or" => .or | "not" => .not | "true" => .tt | "false" => .ff
  | "lparen" => .parenStart | "rparen" => .parenEnd | "lbrace" => .braceStart | "rbrace" => .braceEnd
  | _ => .invalid

structure Pat where
  text : List Char
  kind : Kind
  identLike : Bool       -- LITERAL_IDENTIFIER.is_match(pattern): needs the boundary lookahead
deriving Repr, DecidableEq

def patterns : List Pat :=
  Generated.patternTable.map fun x => ⟨x.1.map Char.ofNat, Kind.ofString x.2.1, x.2.2⟩
def takeSize : Nat := Generated.takeSize

/-- regex class `[-_a-zA-Z0-9]` -/
def isIdentChar (c : Char) : Bool := c == '-' || c == '_' || c.isAlphanum
/-- Rust `char::is_whitespace` (Unicode White_Space, 25 code points) -/
def isWs (c : Char) : Bool :=
  let n := c.toNat
  (0x9 ≤ n && n ≤ 0xD) || n == 0x20 || n == 0x85 || n == 0xA0 || n == 0x1680 ||
  (0x2000 ≤ n && n ≤ 0x200A) || n == 0x2028 || n == 0x2029 || n == 0x202F || n == 0x205F || n == 0x3000
/-- regex `(?i)` (Unicode simple case folding) on one pattern character: ASCII case, plus
    U+017F for `s` and U+212A for `k` -/
def foldEq (p c : Char) : Bool :=
  c.toLower == p.toLower || (p.toLower == 's' && c.toNat == 0x17F) || (p.toLower == 'k' && c.toNat == 0x212A)

def prefixFold : List Char → List Char → Bool
  | [], _ => true
  | _ :: _, [] => false
  | p :: ps, c :: cs => foldEq p c && prefixFold ps cs

/-- `([^-_a-zA-Z0-9]|$)`: the text after the pattern is empty or starts with a non-identifier character -/
def boundaryOk : List Char → Bool
  | [] => true
  | c :: _ => !isIdentChar c

/-- `(?i)^pattern([^-_a-zA-Z0-9]|$)?` against the peek buffer -/
def matchPat (buf : List Char) (p : Pat) : Bool :=
  prefixFold p.text buf && (!p.identLike || boundaryOk (buf.drop p.text.length))

/-- `IntermediateToken::try_from`: first matching pattern of the ordered set -/
def firstMatch (buf : List Char) : Option Pat := patterns.find? (matchPat buf)

inductive TokErr where
  | unexpectedClosingParenthesis | missingClosingParenthesis | unexpectedClosingCurlyBrace
  | missingClosingCurlyBrace | emptyLiteralName | unknownSymbol | outOfFuel | invalidPattern
deriving Repr, BEq, DecidableEq

/-- `trim_whitespace_left` -/
def trimWs : List Char → List Char
  | [] => []
  | c :: cs => if isWs c then trimWs cs else c :: cs

/-- `consume_while_literal`: maximal run of identifier characters -/
def spanIdent : List Char → List Char × List Char
  | [] => ([], [])
  | c :: cs => if isIdentChar c then let r := spanIdent cs; (c :: r.1, r.2) else ([], c :: cs)

/-- `consume_until_brace` after the opening brace: name and rest after `}` -/
def untilBrace : List Char → Option (List Char × List Char)
  | [] => none
  | c :: cs => if c == '}' then some ([], cs) else (untilBrace cs).map fun r => (c :: r.1, r.2)

/-- `tokenize_level` over a token recogniser `m` (the code's recogniser is `bufMatch`: first match of
    the ordered pattern set on the 6-character peek buffer); `acc` is `result`, returned with the
    unconsumed input (for nested levels). -/
def tokenizeLevelW (m : List Char → Option Pat) :
    Nat → List Char → Bool → List Tok → Except TokErr (List Tok × List Char)
  | 0, _, _, _ => .error .outOfFuel
  | fuel + 1, inp, top, acc =>
    match trimWs inp with
    | [] => if top then .ok (acc, []) else .error .missingClosingParenthesis
    | c :: cs =>
      let inp' := c :: cs
      match m inp' with
      | none =>
        let r := spanIdent inp'
        if r.1.isEmpty then .error .unknownSymbol
        else tokenizeLevelW m fuel r.2 top (acc ++ [.lit r.1])
      | some p =>
        match p.kind with
        | .and => tokenizeLevelW m fuel (inp'.drop p.text.length) top (acc ++ [.and])
        | .or => tokenizeLevelW m fuel (inp'.drop p.text.length) top (acc ++ [.or])
        | .not => tokenizeLevelW m fuel (inp'.drop p.text.length) top (acc ++ [.not])
        | .tt => tokenizeLevelW m fuel (inp'.drop p.text.length) top (acc ++ [.tt])
        | .ff => tokenizeLevelW m fuel (inp'.drop p.text.length) top (acc ++ [.ff])
        | .parenStart =>
          match tokenizeLevelW m fuel (inp'.drop 1) false [] with
          | .error e => .error e
          | .ok (inner, rest) => tokenizeLevelW m fuel rest top (acc ++ [.paren inner])
        | .parenEnd =>
          if top then .error .unexpectedClosingParenthesis else .ok (acc, inp'.drop 1)
        | .braceStart =>
          match untilBrace (inp'.drop 1) with
          | none => .error .missingClosingCurlyBrace
          | some (name, rest) =>
            if name.isEmpty then .error .emptyLiteralName
            else tokenizeLevelW m fuel rest top (acc ++ [.lit name])
        | .braceEnd => .error .unexpectedClosingCurlyBrace
        | .invalid => .error .invalidPattern   -- the `panic!` arm of `IntermediateToken::from`

/-- the code's recogniser: `peek_until_n(take_size)` then `IntermediateToken::try_from(buffer)` -/
def bufMatch (inp : List Char) : Option Pat := firstMatch (inp.take takeSize)

def tokenizeLevel := tokenizeLevelW bufMatch

/-- `tokenize` -/
def tokenize (s : List Char) : Except TokErr (List Tok) :=
  match tokenizeLevel (s.length + 1) s true [] with
  | .ok r => .ok r.1
  | .error e => .error e

/-! parse.rs -/
inductive ParseErr where
  | emptySideOfOperator | unexpectedLiteralsGroup | tok (e : TokErr) | unreachable | outOfFuel
deriving Repr, BEq, DecidableEq

def Tok.isOr : Tok → Bool | .or => true | _ => false
def Tok.isAnd : Tok → Bool | .and => true | _ => false

/-- `slice::split(|t| t == &FinalToken::Or)` (resp. `And`): `sep` recognises the separator variant -/
def splitOnTok (sep : Tok → Bool) : List Tok → List (List Tok)
  | [] => [[]]
  | t :: ts => if sep t then [] :: splitOnTok sep ts
               else match splitOnTok sep ts with
                    | [] => [[t]]           -- impossible
                    | g :: gs => (t :: g) :: gs

def mapMExcept {ε β γ : Type} (f : β → Except ε γ) : List β → Except ε (List γ)
  | [] => .ok []
  | x :: xs => match f x with
    | .error e => .error e
    | .ok y => match mapMExcept f xs with
      | .error e => .error e
      | .ok ys => .ok (y :: ys)

mutual
/-- `priority_0_parse_or` -/
def parseTokensF : Nat → List Tok → Except ParseErr (Expr String)
  | 0, _ => .error .outOfFuel
  | fuel + 1, ts =>
    match mapMExcept (parseAndF fuel) (splitOnTok Tok.isOr ts) with
    | .error e => .error e
    | .ok [] => .error .emptySideOfOperator
    | .ok [e] => .ok e
    | .ok es => .ok (.or es)
/-- `priority_1_parse_and` -/
def parseAndF : Nat → List Tok → Except ParseErr (Expr String)
  | 0, _ => .error .outOfFuel
  | fuel + 1, ts =>
    match mapMExcept (parseTermF fuel) (splitOnTok Tok.isAnd ts) with
    | .error e => .error e
    | .ok [] => .error .emptySideOfOperator
    | .ok [e] => .ok e
    | .ok es => .ok (.and es)
/-- `priority_2_terminal` -/
def parseTermF : Nat → List Tok → Except ParseErr (Expr String)
  | 0, _ => .error .outOfFuel
  | _ + 1, [] => .error .emptySideOfOperator
  | fuel + 1, .not :: rest => match parseTermF fuel rest with
    | .ok e => .ok (.not e)
    | .error e => .error e
  | _ + 1, _ :: _ :: _ => .error .unexpectedLiteralsGroup
  | _ + 1, [.tt] => .ok (.const true)
  | _ + 1, [.ff] => .ok (.const false)
  | _ + 1, [.lit n] => .ok (.lit (String.ofList n))
  | fuel + 1, [.paren inner] => parseTokensF fuel inner
  | _ + 1, [_] => .error .unreachable
end

mutual
def tokSize : Tok → Nat
  | .paren ts => 1 + toksSize ts
  | _ => 1
def toksSize : List Tok → Nat
  | [] => 0
  | t :: ts => tokSize t + toksSize ts
end

def parseTokens (ts : List Tok) : Except ParseErr (Expr String) := parseTokensF (3 * toksSize ts + 3) ts

/-- `Expression::<String>::from_str` -/
def parse (s : String) : Except ParseErr (Expr String) :=
  match tokenize s.toList with
  | .error e => .error (.tok e)
  | .ok ts => parseTokens ts

/-! Display -/
mutual
def printE : Expr String → String
  | .const b => if b then "true" else "false"
  | .lit n => n
  | .not e => "!(" ++ printE e ++ ")"
  | .and es => "(" ++ printL " & " es ++ ")"
  | .or es => "(" ++ printL " | " es ++ ")"
def printL (sep : String) : List (Expr String) → String
  | [] => ""
  | [e] => printE e
  | e :: es => printE e ++ sep ++ printL sep es
end

end BoolFn
