import BoolFn.Expr
/-! Model of `to_nnf`, `to_cnf`, `to_dnf`, `is_nnf`, `is_cnf`, `is_dnf`
    (`src/expressions/structs/expression.rs:70-191`, with the `fix:` for empty n-ary nodes). -/
namespace BoolFn
namespace Expr
variable {α : Type}

mutual
/-- `to_nnf`. The Rust code recurses on `Expression::negate(e).to_nnf()`, which is the function
    `toNnfNeg e` here (structural on `e`). -/
def toNnf : Expr α → Expr α
  | lit a => lit a
  | const b => const b
  | not e => toNnfNeg e
  | and es => and (toNnfL es)
  | or es => or (toNnfL es)
/-- `Expression::negate(e).to_nnf()` -/
def toNnfNeg : Expr α → Expr α
  | lit a => not (lit a)
  | const b => not (const b)
  | not e => toNnf e
  | and es => or (toNnfNegL es)
  | or es => and (toNnfNegL es)
def toNnfL : List (Expr α) → List (Expr α)
  | [] => []
  | e :: es => toNnf e :: toNnfL es
def toNnfNegL : List (Expr α) → List (Expr α)
  | [] => []
  | e :: es => toNnfNeg e :: toNnfNegL es
end

mutual
/-- `is_nnf` -/
def isNnf : Expr α → Bool
  | lit _ => true
  | const _ => false
  | not e => match e with | lit _ => true | _ => false
  | and es => isNnfL es
  | or es => isNnfL es
def isNnfL : List (Expr α) → Bool
  | [] => true
  | e :: es => isNnf e && isNnfL es
end

/-! ### CNF -/
mutual
/-- `distribute_cnf(first, second)` when `first` is not an `And` -/
def distrCnfRight (first : Expr α) : Expr α → Expr α
  | and es => and (distrCnfRightL first es)
  | s => binaryOr first s
def distrCnfRightL (first : Expr α) : List (Expr α) → List (Expr α)
  | [] => []
  | e :: es => distrCnfRight first e :: distrCnfRightL first es
end

mutual
/-- `distribute_cnf` -/
def distributeCnf : Expr α → Expr α → Expr α
  | and es, second => and (distributeCnfL es second)
  | first, second => distrCnfRight first second
def distributeCnfL : List (Expr α) → Expr α → List (Expr α)
  | [], _ => []
  | e :: es, second => distributeCnf e second :: distributeCnfL es second
end

mutual
/-- body of `to_cnf` after `let nnf = self.to_nnf()`, applied to an expression that is already
    in the range of `toNnf` (the Rust code re-normalises each child, which is the identity there:
    `toNnf_toNnf`). -/
def cnfN : Expr α → Expr α
  | or es => match cnfNL es with
    | [] => or []                          -- `unwrap_or_else(|| nnf.clone())`
    | c :: cs => cs.foldl distributeCnf c   -- `reduce`
  | and es => and (cnfNL es)
  | e => e
def cnfNL : List (Expr α) → List (Expr α)
  | [] => []
  | e :: es => cnfN e :: cnfNL es
end

/-- `to_cnf` -/
def toCnf (e : Expr α) : Expr α := cnfN (toNnf e)

mutual
/-- `is_cnf` -/
def isCnf : Expr α → Bool
  | lit _ => true
  | const _ => false
  | not e => match e with | lit _ => true | _ => false
  | and es => isCnfL es
  | or es => !(es.any isAnd) && isCnfL es
def isCnfL : List (Expr α) → Bool
  | [] => true
  | e :: es => isCnf e && isCnfL es
end

/-! ### DNF (dual) -/
mutual
def distrDnfRight (first : Expr α) : Expr α → Expr α
  | or es => or (distrDnfRightL first es)
  | s => binaryAnd first s
def distrDnfRightL (first : Expr α) : List (Expr α) → List (Expr α)
  | [] => []
  | e :: es => distrDnfRight first e :: distrDnfRightL first es
end

mutual
def distributeDnf : Expr α → Expr α → Expr α
  | or es, second => or (distributeDnfL es second)
  | first, second => distrDnfRight first second
def distributeDnfL : List (Expr α) → Expr α → List (Expr α)
  | [], _ => []
  | e :: es, second => distributeDnf e second :: distributeDnfL es second
end

mutual
def dnfN : Expr α → Expr α
  | and es => match dnfNL es with
    | [] => and []
    | c :: cs => cs.foldl distributeDnf c
  | or es => or (dnfNL es)
  | e => e
def dnfNL : List (Expr α) → List (Expr α)
  | [] => []
  | e :: es => dnfN e :: dnfNL es
end

/-- `to_dnf` -/
def toDnf (e : Expr α) : Expr α := dnfN (toNnf e)

mutual
/-- `is_dnf` -/
def isDnf : Expr α → Bool
  | lit _ => true
  | const _ => false
  | not e => match e with | lit _ => true | _ => false
  | or es => isDnfL es
  | and es => !(es.any isOr) && isDnfL es
def isDnfL : List (Expr α) → Bool
  | [] => true
  | e :: es => isDnf e && isDnfL es
end

end Expr
end BoolFn
