import Driver.Sexp
import BoolFn.Spec.Check
import BoolFn.Spec.Recipe
/-! Judging *law instances*: observations of the implementation on functions too large for the
    executable model (17 … 70 variables), checked against the conclusions of the model's theorems:

    * connectives (C03 `bitCommon_den`, `Bdd.bitCommon_den`): inputs = sorted union, as many lib-bdd
      variables as inputs, pointwise values;
    * restriction (C05 `restrict_den`), quantifiers and derivative (C06/C07: nested expansion over the
      eliminated variables): inputs and values;
    * essential inputs (C09 `*_essential_iff`): subset of the inputs, a flip that changes the value
      names an essential input, a merely declared variable is not essential;
    * weight (C10 `weight_complement`, `weight_incl_excl`): exact integer identities;
    * conversions (C01): same inputs, same values.

    There is no model answer for these cases (the model cannot execute them): `agree` repeats the verdict. -/
namespace Driver
open BoolFn Sexp

def bitsAll (l : List (List Bool)) (f : List Bool → Bool) : Bool :=
  match l with
  | [] => true
  | first :: _ => (List.range first.length).all fun i => f (l.map fun bs => bs.getD i false)

def sameLen (l : List (List Bool)) : Bool :=
  match l with
  | [] => true
  | first :: rest => !first.isEmpty && rest.all fun x => x.length == first.length

/-- the shape clauses shared by every law: stored inputs strictly sorted, variable count, validity -/
def shapeOk (kind : String) (names : List String) (nv : Nat) (valid : Bool) : Bool :=
  isStrictSorted names && valid && (kind == "E" || nv == names.length)

/-! the recipe (a DNF given by its clauses) evaluated by the driver: the independent reference -/
def decClauses : Sexp → List Clause
  | list (atom "C" :: cls) => cls.map fun
    | list lits => lits.map fun
      | list [n, p] => (decName n, decBool p)
      | _ => ("?", false)
    | _ => []
  | _ => []

def recipeVars (cs : List Clause) : List String := sortDedup (cs.flatMap fun c => c.map (·.1))

/-- the assignment that satisfies exactly clause `j` (every other clause is falsified through its first literal) -/
def onlyClause (cs : List Clause) (j : Nat) : String → Option Bool := fun v =>
  match cs[j]? with
  | none => none
  | some cj =>
    match cj.find? (·.1 == v) with
    | some (_, p) => some p
    | none =>
      match (cs.filter fun c => (c.head?.map (·.1)) == some v).head? with
      | some c => c.head?.map fun l => !l.2
      | none => some false

def missingVar (v : String) : Bool :=
  v != "zz" && ((v.drop 1).toString.toNat?.map (· % 5 == 0)).getD false

def lawJudge (op : String) (args : List Sexp) (impl : Sexp) : Bool × String :=
  let kind := match args with | atom k :: _ => k | _ => "?"
  match op, impl with
  | "law.and", list [atom "L", nr, nv, vd, na, nb, br, ba, bb]
  | "law.or", list [atom "L", nr, nv, vd, na, nb, br, ba, bb]
  | "law.xor", list [atom "L", nr, nv, vd, na, nb, br, ba, bb] =>
    let f : Bool → Bool → Bool := if op == "law.and" then (· && ·) else if op == "law.or" then (· || ·) else (· != ·)
    let names := decNames nr
    if !shapeOk kind names (decNat nv) (decBool vd) then (false, "law:shape")
    else if names != unionSorted (decNames na) (decNames nb) then (false, "law:inputs-are-the-sorted-union")
    else if !sameLen [decBits br, decBits ba, decBits bb] then (false, "law:samples")
    else (bitsAll [decBits br, decBits ba, decBits bb] fun
      | [r, a, b] => r == f a b
      | _ => false, "law:pointwise")
  | "law.not", list [atom "L", nr, nv, vd, na, br, ba] =>
    if !shapeOk kind (decNames nr) (decNat nv) (decBool vd) then (false, "law:shape")
    else if decNames nr != decNames na then (false, "law:inputs-kept")
    else if !sameLen [decBits br, decBits ba] then (false, "law:samples")
    else (bitsAll [decBits br, decBits ba] fun | [r, a] => r == !a | _ => false, "law:pointwise")
  | "law.restrict", list [atom "L", nr, nv, vd, na, r, br, ba] =>
    let dom := (decPVal r).map (·.1)
    if !shapeOk kind (decNames nr) (decNat nv) (decBool vd) then (false, "law:shape")
    else if decNames nr != (decNames na).filter (fun x => !dom.contains x) then (false, "law:restricted-inputs-removed")
    else if !sameLen [decBits br, decBits ba] then (false, "law:samples")
    else (decBits br == decBits ba, "law:value-at-overridden-assignment")
  | "law.exists", list [atom "L", nr, nv, vd, na, vs, br, c00, c01, c10, c11]
  | "law.forall", list [atom "L", nr, nv, vd, na, vs, br, c00, c01, c10, c11]
  | "law.deriv", list [atom "L", nr, nv, vd, na, vs, br, c00, c01, c10, c11] =>
    let elim := decSet vs
    let f : List Bool → Bool :=
      if op == "law.exists" then (·.any id) else if op == "law.forall" then (·.all id)
      else fun l => l.foldl (· != ·) false
    if !shapeOk kind (decNames nr) (decNat nv) (decBool vd) then (false, "law:shape")
    else if decNames nr != (decNames na).filter (fun x => !elim.contains x) then (false, "law:eliminated-inputs-removed")
    else if !sameLen [decBits br, decBits c00, decBits c01, decBits c10, decBits c11] then (false, "law:samples")
    else (bitsAll [decBits br, decBits c00, decBits c01, decBits c10, decBits c11] fun
      | r :: cs => r == f cs
      | _ => false, "law:nested-expansion")
  | "law.elimall", list [atom "L", deg, w, ex, fa, de] =>
    -- C06 / C07 (`bdd_exists_all`, `bdd_forall_all`, `bdd_derivative_all`): no inputs are left and
    -- the constant is "satisfiable" / "tautology" / "odd weight"
    let weight := decNat w
    let ok (o : Sexp) (expected : Bool) : Bool := match o with
      | list [names, nv, v] => (decNames names).isEmpty && decNat nv == 0 && decBool v == expected
      | _ => false
    if !ok ex (decide (0 < weight)) then (false, "law:exists-all-inputs-is-satisfiability")
    else if !ok fa (decide (weight = 2 ^ decNat deg)) then (false, "law:forall-all-inputs-is-validity")
    else (ok de (decide (weight % 2 = 1)), "law:derivative-by-all-inputs-is-parity-of-weight")
  | "law.forall.many", list [atom "L", cls, isOr, keep, ins, v0, v1, foreign]
  | "law.exists.many", list [atom "L", cls, isOr, keep, ins, v0, v1, foreign]
  | "law.deriv.many", list [atom "L", cls, isOr, keep, ins, v0, v1, foreign] =>
    -- C06 on a wide disjunction / conjunction of literals with all but one of them (and any number of
    -- foreign names) eliminated: what is left is a function of the kept variable, computed here from the
    -- literal's polarity — `C06.forall_many_or`, `forall_many_and`, `exists_many_or`, `exists_many_and`;
    -- C07 with a foreign name in the set: `C07.expr_derivative_foreign`
    let lits := (decClauses cls).head?.getD []
    let k := decName keep
    let pol := ((lits.find? (·.1 == k)).map (·.2)).getD true
    let disj := decBool isOr
    -- the other literals can be made all false (disjunction) / all true (conjunction) or not
    let value (b : Bool) : Bool :=
      let litv := b == pol
      if op == "law.forall.many" then (if disj then litv else false)
      else if op == "law.exists.many" then (if disj then true else litv)
      -- C07: the derivative is the parity over the assignments of the eliminated inputs; one input the
      -- function does not mention makes it the constant false (`C07.*_foreign`); otherwise all
      -- assignments but one agree, so the parity is that of the single exceptional assignment
      else if decBool foreign then false
      else (if disj then !litv else litv)
    if !((decNames ins).all (· == k)) then (false, "law:eliminated-inputs-removed")
    else (decBool v0 == value false && decBool v1 == value true, "law:many-eliminated-inputs")
  | "law.weight", list [atom "L", da, wa, wna, wb, wand, wor, n, wwo, wnwo] =>
    let d := decNat da
    if decNat wa + decNat wna != 2 ^ d then (false, "law:weight-complement")
    else if decNat wor + decNat wand != decNat wa + decNat wb then (false, "law:weight-inclusion-exclusion")
    else (decNat wwo + decNat wnwo == 2 ^ decNat n, "law:weight-complement-wide")
  | "law.essential", list [atom "L", ins, ess, d, flips, isConst] =>
    let inputs := decNames ins
    let essential := decNames ess
    let dummy := decName d
    if !(essential.all inputs.contains) then (false, "law:essential-subset-of-inputs")
    else if !inputs.contains dummy || essential.contains dummy then (false, "law:declared-only-is-not-essential")
    else if decBool isConst && !essential.isEmpty then (false, "law:constant-function-has-no-essential-input")
    else ((decList flips).all fun
      | list [u, diff] => !decBool diff || essential.contains (decName u)
      | _ => false, "law:flip-names-essential")
  | "law.eval", list [atom "L", cls, uni, list rows, vfull, vdef1, vdef0, list cks, list sparse, sd1, sd0] =>
    -- C02: the three evaluation modes against the recipe evaluated here
    let cs := decClauses cls
    let names := decNames uni
    let looks : List (String → Option Bool) := rows.map fun r =>
      let bits := decBits r
      fun v => (names.zip bits).lookup v
    let full := looks.map fun l => evalRecipe cs l false
    let part (d : Bool) := looks.map fun l => evalRecipe cs (fun v => if missingVar v then none else l v) d
    let missing := (recipeVars cs).filter missingVar
    if rows.isEmpty || decBits vfull != full then (false, "law:evaluate")
    else if decBits vdef1 != part true then (false, "law:evaluate-with-default-true")
    else if decBits vdef0 != part false then (false, "law:evaluate-with-default-false")
    else if decBits sd1 != sparse.map (fun s => evalRecipe cs (fun v => (decPVal s).lookup v) true) then
      (false, "law:evaluate-sparse-assignment-default-true")
    else if decBits sd0 != sparse.map (fun s => evalRecipe cs (fun v => (decPVal s).lookup v) false) then
      (false, "law:evaluate-sparse-assignment-default-false")
    else ((cks.zip full).all fun
      | (list [c1, c2], b) =>
        c1 == encBool b &&
        (if missing.isEmpty then true else c2 == list (atom "m" :: missing.map encName))
      | _ => false, "law:evaluate-checked")
  | "law.cmp", list [atom "L", ca, rev, cg, widest, e1, e2, i1, i2, e3] =>
    -- C04: the answers forced by the clause structure
    let a := decClauses ca
    let g := decClauses cg
    let w := decNat widest
    let wit := onlyClause a w
    let differs := evalRecipe a wit false != evalRecipe g wit false
    let other := (List.range a.length).find? fun j => j != w
    if !(sameClauseSet a (decClauses rev)) then (false, "law:recipe")
    else if !decBool e1 then (false, "law:equivalent-to-reordered-clauses")
    else if differs && decBool e2 then (false, "law:not-equivalent-when-a-witness-differs")
    else if !decBool i1 then (false, "law:clause-implies-dnf")
    else if (match other with
        | some j =>
          let w' := onlyClause a j
          evalRecipe a w' false && !(evalRecipe [a[w]?.getD []] w' false) && decBool i2
        | none => false) then (false, "law:dnf-does-not-imply-clause")
    else (decBool e3, "law:declared-only-input-keeps-equivalence")
  | "law.subst.many", list [atom "L", nr, nv, vd, na, br, ba] =>
    -- C08 with every input a key (a rotation of the inputs): simultaneous composition; every input is
    -- mentioned by some replacement, so tables and diagrams keep exactly the same inputs
    if !shapeOk kind (decNames nr) (decNat nv) (decBool vd) then (false, "law:shape")
    else if kind != "E" && decNames nr != decNames na then (false, "law:substituted-inputs")
    else if kind == "E" && !((decNames nr).all (decNames na).contains) then (false, "law:substituted-inputs")
    else if !sameLen [decBits br, decBits ba] then (false, "law:samples")
    else (decBits br == decBits ba, "law:value-at-composed-assignment")
  | "law.subst", list [atom "L", nr, nv, vd, na, key, other, br, ba] =>
    let k := decName key
    let expected := sortDedup (((decNames na).filter (· != k)) ++ [decName other])
    if !shapeOk kind (decNames nr) (decNat nv) (decBool vd) then (false, "law:shape")
    else if kind != "E" && decNames nr != expected then (false, "law:substituted-inputs")
    else if kind == "E" && !((decNames nr).all expected.contains) then (false, "law:substituted-inputs")
    else if !sameLen [decBits br, decBits ba] then (false, "law:samples")
    else (decBits br == decBits ba, "law:value-at-composed-assignment")
  | "law.csv", list [atom "L", ins, cols, vd, list obs] =>
    -- C16 (`faithful`): the table's inputs are the column names, sorted; every sampled record's output
    -- is the table's value at that record's input combination
    if decNames ins != sortDedup (decNames cols) then (false, "law:csv-inputs-are-the-sorted-column-names")
    else if !decBool vd then (false, "law:csv-table-complete")
    else (!obs.isEmpty && obs.all fun
      | list [o, v] => decBool o == decBool v
      | _ => false, "law:csv-record-disagrees-with-table")
  | "law.nnf", list [atom "L", r, na, br, ba]
  | "law.cnf", list [atom "L", r, na, br, ba]
  | "law.dnf", list [atom "L", r, na, br, ba] =>
    -- wide n-ary nodes (C11): promised shape (the sources are constant-free, without empty nodes),
    -- no new variables, same value on the assignments around which a wide node changes its value
    let y := decExpr r
    let shape := if op == "law.nnf" then Spec.shapeNnf y else if op == "law.cnf" then Spec.shapeCnf y else Spec.shapeDnf y
    if !shape then (false, "law:promised-shape")
    else if !((sortDedup y.vars).all (decNames na).contains) then (false, "law:no-new-variables")
    else if !sameLen [decBits br, decBits ba] then (false, "law:samples")
    else (decBits br == decBits ba, "law:same-function")
  | _, list [atom "L", nr, nv, vd, na, br, ba] =>
    -- conversions: law.conv.<dir>
    if !op.startsWith "law.conv." then (false, "law:unknown") else
    let target := (op.drop 10).toString
    let names := decNames nr
    if !shapeOk target names (decNat nv) (decBool vd) then (false, "law:shape")
    else if target != "E" && names != decNames na then (false, "law:inputs-kept")
    else if target == "E" && !(names.all (decNames na).contains) then (false, "law:no-new-variables")
    else if !sameLen [decBits br, decBits ba] then (false, "law:samples")
    else (decBits br == decBits ba, "law:same-function")
  | _, _ => (false, "law:malformed-or-panic")

end Driver
