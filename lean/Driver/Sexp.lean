import BoolFn.Convert
import BoolFn.Parser
import BoolFn.Csv
import BoolFn.Render
/-! Wire format of the correspondence protocol: S-expressions (DESIGN.md Appendix B). -/
namespace Driver
open BoolFn

inductive Sexp where
  | atom : String → Sexp
  | list : List Sexp → Sexp
deriving Inhabited, BEq, Repr

namespace Sexp
partial def toStr : Sexp → String
  | atom s => s
  | list l => "(" ++ " ".intercalate (l.map toStr) ++ ")"

/-- tokens: `(`, `)`, atoms -/
def tokenize (s : String) : List String := Id.run do
  let mut out : Array String := #[]
  let mut cur : String := ""
  for c in s.toList do
    if c == '(' || c == ')' then
      if !cur.isEmpty then out := out.push cur; cur := ""
      out := out.push (String.singleton c)
    else if c == ' ' || c == '\n' || c == '\t' || c == '\r' then
      if !cur.isEmpty then out := out.push cur; cur := ""
    else cur := cur.push c
  if !cur.isEmpty then out := out.push cur
  return out.toList

/-- parse a sequence of S-expressions until `)` or the end; returns the rest after `)` -/
partial def parseSeq (toks : List String) (acc : Array Sexp) : Array Sexp × List String :=
  match toks with
  | [] => (acc, [])
  | ")" :: rest => (acc, rest)
  | "(" :: rest =>
    let (inner, rest') := parseSeq rest #[]
    parseSeq rest' (acc.push (list inner.toList))
  | a :: rest => parseSeq rest (acc.push (atom a))

def parseLine (s : String) : List Sexp := (parseSeq (tokenize s) #[]).1.toList
end Sexp

open Sexp

/-! ### hex names -/
def hexDigit (c : Char) : Nat :=
  if c.isDigit then c.toNat - '0'.toNat else if 'a' ≤ c && c ≤ 'f' then c.toNat - 'a'.toNat + 10 else 0

def hexToBytes : List Char → List UInt8
  | a :: b :: rest => UInt8.ofNat (hexDigit a * 16 + hexDigit b) :: hexToBytes rest
  | _ => []

def decodeHex (s : String) : String :=
  match String.fromUTF8? (ByteArray.mk (hexToBytes s.toList).toArray) with
  | some r => r
  | none => "�"

def hexOfNat (n : Nat) : Char := if n < 10 then Char.ofNat (n + 48) else Char.ofNat (n - 10 + 97)
def encodeHex (s : String) : String :=
  String.ofList (s.toUTF8.toList.flatMap fun b => [hexOfNat (b.toNat / 16), hexOfNat (b.toNat % 16)])

/-- `n<hex>` -/
def decName (x : Sexp) : String := match x with
  | atom s => decodeHex (s.drop 1).toString
  | _ => "?"
def encName (s : String) : Sexp := atom ("n" ++ encodeHex s)
def decStr (x : Sexp) : String := decName x
def encStr (s : String) : Sexp := atom ("x" ++ encodeHex s)

def decBits (x : Sexp) : List Bool := match x with
  | atom s => (s.drop 1).toString.toList.map (· == '1')
  | _ => []
def encBits (l : List Bool) : Sexp := atom ("b" ++ String.ofList (l.map fun b => if b then '1' else '0'))
def decBool (x : Sexp) : Bool := match x with | atom "1" => true | _ => false
def encBool (b : Bool) : Sexp := atom (if b then "1" else "0")
def decNat (x : Sexp) : Nat := match x with | atom s => s.toNat! | _ => 0
def encNat (n : Nat) : Sexp := atom (toString n)

partial def decExpr : Sexp → Expr String
  | list [atom "l", n] => .lit (decName n)
  | list [atom "c", b] => .const (decBool b)
  | list [atom "!", e] => .not (decExpr e)
  | list (atom "&" :: es) => .and (es.map decExpr)
  | list (atom "|" :: es) => .or (es.map decExpr)
  | _ => .const false

mutual
def encExpr : Expr String → Sexp
  | .lit n => list [atom "l", encName n]
  | .const b => list [atom "c", encBool b]
  | .not e => list [atom "!", encExpr e]
  | .and es => list (atom "&" :: encExprL es)
  | .or es => list (atom "|" :: encExprL es)
def encExprL : List (Expr String) → List Sexp
  | [] => []
  | e :: es => encExpr e :: encExprL es
end

def decNames (x : Sexp) : List String := match x with
  | list l => l.map decName
  | _ => []
def encNames (l : List String) : Sexp := list (l.map encName)

def decTable : Sexp → Table String
  | list [atom "T", ns, bits] => ⟨decNames ns, decBits bits⟩
  | _ => ⟨[], []⟩
def encTable (t : Table String) : Sexp := list [atom "T", encNames t.inputs, encBits t.outputs]

/-- a BDD on the wire: raw inputs, truth table over `num_vars`, `num_vars`, `size()`, `validate()` -/
structure WBdd where
  b : Bdd String
  size : Nat
  valid : Bool
deriving Inhabited

def decBdd : Sexp → WBdd
  | list [atom "B", ns, bits, nv, sz, valid] => ⟨⟨decNames ns, ⟨decNat nv, decBits bits⟩⟩, decNat sz, decBool valid⟩
  | _ => default
def encBdd (b : Bdd String) : Sexp :=
  list [atom "B", encNames b.inputs, encBits b.inner.tt, encNat b.inner.n, encNat b.inner.size, encBool true]

def decPVal : Sexp → PVal String
  | list (atom "V" :: kvs) => kvs.map fun
    | list [k, b] => (decName k, decBool b)
    | _ => ("?", false)
  | _ => []
def decSet : Sexp → List String
  | list (atom "S" :: ks) => ks.map decName
  | _ => []
def encSet (l : List String) : Sexp := list (atom "S" :: l.map encName)
def decMap {β : Type} (f : Sexp → β) : Sexp → List (String × β)
  | list (atom "M" :: kvs) => kvs.filterMap fun
    | list [k, v] => some (decName k, f v)
    | _ => none
  | _ => []
def decList : Sexp → List Sexp
  | list (atom "L" :: l) => l
  | _ => []
def encList (l : List Sexp) : Sexp := list (atom "L" :: l)
def sOk (x : Sexp) : Sexp := list [atom "ok", x]
def sErr (k : String) : Sexp := list [atom "err", atom k]
def sPanic : Sexp := atom "panic"
def sNone : Sexp := atom "none"
def sSome (x : Sexp) : Sexp := list [atom "some", x]

end Driver
