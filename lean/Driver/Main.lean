import Driver.Sexp
import Driver.Laws
import BoolFn.RenderText
import BoolFn.Spec.Check
import BoolFn.Spec.Grammar
/-! Correspondence driver: one request per line
      `<prop> <op> <arg>… => <implementation's answer>`
    answered by
      `agree|differ <model answer> holds|fails:<clause>`. -/
namespace Driver
open BoolFn BoolFn.Spec Sexp

/-- function values on the wire -/
def decFn : Sexp → Fn
  | x@(list (atom "T" :: _)) => .T (decTable x)
  | x@(list (atom "B" :: _)) => .B (decBdd x).b
  | x => .E (decExpr x)

def encOutcomeBdd : Outcome (Bdd String) → Sexp
  | .ok b => encBdd b
  | .panic _ => sPanic

/-- structural side conditions of a BDD answer that are not part of `Fn` (lib-bdd's own view):
    `validate()` passed and `size()` is the canonical size of the function -/
def bddWireOk : Sexp → Bool
  | x@(list (atom "B" :: _)) => let w := decBdd x; w.valid && w.size == w.b.inner.size && w.b.isWF
  | _ => true

/-- compare a BDD answer with the model: inputs, variable count, truth table, node count -/
def sameBdd (impl : Sexp) (m : Bdd String) : Bool :=
  let w := decBdd impl
  w.b.inputs == m.inputs && w.b.inner.n == m.inner.n && w.b.inner.tt == m.inner.tt && w.size == m.inner.size

def verdict (b : Bool) (clause : String) : String := if b then "holds" else "fails:" ++ clause

structure Reply where
  agree : Bool
  model : Sexp
  holds : Bool
  clause : String := "spec"

def fmtOf : Sexp → Fmt
  | atom "Number" => .number | atom "Character" => .character | atom "Word" => .word | _ => .capitalizedWord
def styleOf : Sexp → Style
  | atom "Ascii" => .ascii | atom "Modern" => .modern | atom "Markdown" => .markdown | _ => .empty

def decPoint (x : Sexp) : List Bool := decBits x
def encPoint (p : List Bool) : Sexp := encBits p

def decEnum (x : Sexp) : Enum :=
  match decList x with
  | [d, i, r, s, w, sp] =>
    { domain := (decList d).map decPoint, image := decBits i,
      relation := (decList r).map fun pr => match pr with
        | list [p, b] => (decPoint p, decBool b)
        | _ => ([], false),
      support := (decList s).map decPoint, weight := decNat w,
      satPoint := match sp with | list [atom "some", p] => some (decPoint p) | _ => none }
  | _ => { domain := [], image := [], relation := [], support := [], weight := 0, satPoint := none }

def encEnumOf (dom : List (List Bool)) (img : List Bool) (rel : List (List Bool × Bool))
    (sup : List (List Bool)) (w : Nat) (sp : Option (List Bool)) : Sexp :=
  encList [encList (dom.map encPoint), encBits img,
    encList (rel.map fun pr => list [encPoint pr.1, encBool pr.2]),
    encList (sup.map encPoint), encNat w,
    match sp with | some p => sSome (encPoint p) | none => sNone]

def sortPts (l : List (List Bool)) : List (List Bool) :=
  (l.map pointToRowIndex |>.toArray.qsort (· < ·)).toList.map fun i => rowIndexToPoint i (l.headD []).length

def tokErrName : TokErr → String
  | .unexpectedClosingParenthesis => "UnexpectedClosingParenthesis"
  | .missingClosingParenthesis => "MissingClosingParenthesis"
  | .unexpectedClosingCurlyBrace => "UnexpectedClosingCurlyBrace"
  | .missingClosingCurlyBrace => "MissingClosingCurlyBrace"
  | .emptyLiteralName => "EmptyLiteralName"
  | .unknownSymbol => "UnknownSymbolError"
  | .outOfFuel => "MODEL-OUT-OF-FUEL"
  | .invalidPattern => "PANIC-invalid-pattern"

def parseErrName : ParseErr → String
  | .emptySideOfOperator => "EmptySideOfOperator"
  | .unexpectedLiteralsGroup => "UnexpectedLiteralsGroup"
  | .tok e => tokErrName e
  | .unreachable => "PANIC-unreachable"
  | .outOfFuel => "MODEL-OUT-OF-FUEL"

partial def encTok : Tok → Sexp
  | .and => atom "and" | .or => atom "or" | .not => atom "not" | .tt => atom "true" | .ff => atom "false"
  | .lit n => list [atom "lit", encName (String.ofList n)]
  | .paren inner => list (atom "paren" :: inner.map encTok)

/-! the character sweep (C13): the same classes as `sweep_classes` in the harness -/
partial def tokShape : Tok → Char × List Char
  | .and => ('a', []) | .or => ('o', []) | .not => ('n', []) | .tt => ('t', []) | .ff => ('f', [])
  | .lit n => ('l', n)
  | .paren inner => ('p', inner.map fun t => (tokShape t).1)

def sweepText (tmpl : Nat) (c : Char) : List Char × List Char :=
  match tmpl with
  | 0 => (['q', c], ['q', c])
  | 1 => (['a', c, 'b'], ['a', c, 'b'])
  | 2 => (['{', 'a', c, 'b', '}'], ['a', c, 'b'])
  | 3 => ([c], [c])
  | 4 => (['{', c, '}'], [c])
  | _ => (['{', c, '}', '&', 'b'], [c])

def sweepClass (lex : List Char → Option (List Tok)) (tmpl : Nat) (blank : Option (List (Char × List Char))) (c : Char) : String :=
  let (text, name) := sweepText tmpl c
  let r := (lex text).map fun ts => ts.map tokShape
  match r with
  | none => "E"
  | some ts =>
    if ts.head? == some ('l', name) && ts.length == (if tmpl == 5 then 3 else 1) then "I"
    else if r == blank then "W"
    else "O" ++ String.ofList (ts.map (·.1))

partial def sweepRuns (lex : List Char → Option (List Tok)) (tmpl lo hi stride : Nat) : String :=
  let blank := (lex (sweepText tmpl ' ').1).map fun ts => ts.map tokShape
  let rec go (cp : Nat) (cur : Option (String × Nat)) (acc : List String) : List String :=
    if cp ≥ hi then
      (match cur with | some (k, n) => (s!"{k}*{n}") :: acc | none => acc)
    else if (0xD800 ≤ cp && cp ≤ 0xDFFF) || cp > 0x10FFFF then go (cp + stride) cur acc
    else
      let k := sweepClass lex tmpl blank (Char.ofNat cp)
      match cur with
      | some (k', n) => if k' == k then go (cp + stride) (some (k', n + 1)) acc
                        else go (cp + stride) (some (k, 1)) ((s!"{k'}*{n}") :: acc)
      | none => go (cp + stride) (some (k, 1)) acc
  let runs := (go lo none []).reverse
  if runs.isEmpty then "none" else ",".intercalate runs

def csvErrName : CsvErr → String
  | .duplicateVariableName => "DuplicateVariableName" | .unexpectedEof => "UnexpectedEof"
  | .recordDifferentSize => "RecordDifferentSizeThanHeader" | .nonBooleanCell => "NonBooleanCellValue"
  | .noOutputColumn => "NoOutputColumn" | .mismatchedCount => "MismatchedRecordCountAndVariableCount"
  | .duplicateRow => "DuplicateRow" | .tooManyVariables => "TooManyVariables" | .unequalLengths => "ParsingError"

def isOkS : Sexp → Bool | list [atom "ok", _] => true | _ => false
def isErrS : Sexp → Bool | list (atom "err" :: _) => true | _ => false
def okArg : Sexp → Sexp | list [atom "ok", x] => x | x => x

/-- the C16 oracle on an import answer -/
def csvImportOk (text : String) (impl : Sexp) : Bool × String :=
  if impl == sPanic then (false, "panic") else
  let cs := text.toList
  if text.isEmpty then (isOkS impl && decTable (okArg impl) == ⟨[], []⟩, "empty-text") else
  match csvRecordsAny cs with
  | none => (true, "unmodelled-dialect")
  | some recs =>
  -- independent reading of the file
  match recs with
  | [] => (isErrS impl, "no-records")
  | first :: rest =>
    let header := !(isBoolString (first.getLast?.getD ""))
    let names := if header then first.dropLast else (List.range (first.length - 1)).map fun i => s!"x_{i}"
    let dataRecs := if header then rest else first :: rest
    let ragged := recs.any fun r => r.length != first.length
    let nonBool := dataRecs.any fun r => r.any fun c => (stringToBool c).isNone
    let dupNames := hasDup names
    let blankInside := (splitOnChar '\n' (trimBoth cs)).any fun l => l.isEmpty
    let combos := dataRecs.map fun r => r.dropLast.map stringToBool
    let complete := !hasDup combos && combos.length == 2 ^ names.length
    let faulty := ragged || nonBool || dupNames || !complete || blankInside
    if isOkS impl then
      let t := decTable (okArg impl)
      if faulty then (false, "faulty-text-accepted") else
      let okNames := t.inputs == sortDedup names && t.isWF
      let okRows := dataRecs.all fun r =>
        let v : PVal String := (names.zip (r.dropLast)).map fun kc => (kc.1, (stringToBool kc.2).getD false)
        (match Table.evalChecked v t with
         | .ok b => b == (stringToBool (r.getLast?.getD "")).getD false
         | .error _ => false)
      (okNames && okRows, if okNames then "record-disagrees" else "names-or-shape")
    else if isErrS impl then
      -- the property does not promise that every complete table is accepted; this clause only flags
      -- the rejection of a text whose `\n`-separated lines are exactly its records (no white-space-only
      -- first or last line and no bare `\r` terminator, which the importer's `trim().split('\n')` line
      -- count treats differently from the reader)
      let lineCountAmbiguous := fileRowCount cs != recs.length
      (faulty || names.length ≥ 64 || lineCountAmbiguous, "complete-table-rejected")
    else (false, "bad-answer")

def handle (prop op : String) (args : List Sexp) (impl : Sexp) : Reply :=
  let structural (m : Sexp) (holds : Bool) (clause : String := "spec") : Reply :=
    ⟨m == impl, m, holds, clause⟩
  -- the same operation over another literal type must correspond to the `String` instance
  if op.startsWith "typed." then
    ⟨impl == atom "same", atom "same", impl == atom "same", "independent-of-the-literal-type"⟩
  else
  -- law instances (sizes beyond the executable model): the verdict is the law itself
  if op.startsWith "law." then
    let r := lawJudge op args impl
    ⟨r.1, atom "law-instance", r.1, r.2⟩
  else
  match op, args with
  -- C01 conversions ------------------------------------------------------------------------
  | "conv.ET", [e] =>
    let x := decExpr e; let m := exprToTable x
    structural (encTable m) (convOk (.E x) (decFn impl))
  | "conv.TE", [t] =>
    let x := decTable t; let m := tableToExpr x
    structural (encExpr m) (convOk (.T x) (decFn impl))
  | "conv.EB", [e] =>
    let x := decExpr e
    match exprToBdd x with
    | .error _ => structural (sErr "TooManyVariables") (isErrS impl && (Expr.inputs x).length > maxBddVars)
    | .ok (.panic _) => structural sPanic false "panic"
    | .ok (.ok b) => ⟨isOkS impl && sameBdd (okArg impl) b, sOk (encBdd b),
        isOkS impl && convOk (.E x) (decFn (okArg impl)) && bddWireOk (okArg impl), "spec"⟩
  | "conv.TB", [t] =>
    let x := decTable t
    match tableToBdd x with
    | .error _ => structural (sErr "TooManyVariables") (isErrS impl)
    | .ok b => ⟨isOkS impl && sameBdd (okArg impl) b, sOk (encBdd b),
        isOkS impl && convOk (.T x) (decFn (okArg impl)) && bddWireOk (okArg impl), "table_to_bdd"⟩
  | "conv.BT", [b] =>
    let x := (decBdd b).b; let m := bddToTable x
    structural (encTable m) (convOk (.B x) (decFn impl))
  | "conv.BE", [b] =>
    let x := (decBdd b).b
    let m := (bddToExprWith x.inner.mintermDnf x).getD (.const false)
    let y := decExpr impl
    -- semantic correspondence: lib-bdd chooses the clause list
    ⟨agreeOn (union x.inputs (Fn.E y).inputs) x.den y.den, encExpr m, convOk (.B x) (.E y), "spec"⟩
  -- C02 evaluation --------------------------------------------------------------------------
  | "eval", [f, v, d] =>
    let x := decFn f; let pv := decPVal v; let dd := decBool d
    let m := match x with
      | .E e => e.eval pv dd | .T t => t.eval pv dd | .B b => b.eval pv dd
    structural (encBool m) (evalDefaultOk x pv dd (decBool impl))
  | "eval0", [f, v] =>
    let x := decFn f; let pv := decPVal v
    let m := match x with
      | .E e => e.eval pv false | .T t => t.eval pv false | .B b => b.eval pv false
    structural (encBool m) (evalDefaultOk x pv false (decBool impl))
  | "evalc", [f, v] =>
    let x := decFn f; let pv := decPVal v
    let m := match x with
      | .E e => e.evalChecked pv | .T t => t.evalChecked pv | .B b => b.evalChecked pv
    let enc (r : Except (List String) Bool) : Sexp := match r with
      | .ok b => sOk (encBool b)
      | .error s => list [atom "err", encSet (sortDedup s)]
    let implR : Except (List String) Bool := match impl with
      | list [atom "ok", b] => .ok (decBool b)
      | list [atom "err", s] => .error (decSet s)
      | _ => .error []
    ⟨enc m == enc implR, enc m, impl != sPanic && evalCheckedOk x pv implR, "spec"⟩
  | "evalc.own", [e, v] =>
    -- the result of checked evaluation (with its full error list) is a function of the tree, not of which
    -- of its nodes are shared; and it is the model's at the level of values / sets of missing inputs
    let x := Fn.E (decExpr e); let pv := decPVal v
    (match impl with
     | list [p, q] | list [atom "L", p, q] =>
       let same := p == q
       ⟨same, p, same && impl != sPanic && (decExpr e).vars.length ≥ 0 && (x.inputs.all (fun n => pv.keys.contains n) || !(decStr p).startsWith "Ok"), "result-independent-of-node-sharing"⟩
     | _ => ⟨false, atom "bad-answer", false, "result-independent-of-node-sharing"⟩)
  | "eval.of", [e, _, v, d] =>
    -- the conversions keep the function and the inputs (C01), so the converted object must evaluate
    -- like the expression in all three modes
    let x := Fn.E (decExpr e); let pv := decPVal v; let dd := decBool d
    let enc (r : Except (List String) Bool) : Sexp := match r with
      | .ok b => sOk (encBool b)
      | .error s => list [atom "err", encSet (sortDedup s)]
    let m := list [atom "L", encBool ((decExpr e).eval pv dd), encBool ((decExpr e).eval pv false), enc ((decExpr e).evalChecked pv)]
    (match impl with
     | list [atom "L", r1, r2, r3] =>
       let implR : Except (List String) Bool := match r3 with
         | list [atom "ok", b] => .ok (decBool b)
         | list [atom "err", s] => .error (decSet s)
         | _ => .error []
       let ok := evalDefaultOk x pv dd (decBool r1) && evalDefaultOk x pv false (decBool r2) && evalCheckedOk x pv implR
       ⟨ok, m, ok, "converted-form-evaluates-like-the-expression"⟩
     | _ => ⟨false, m, false, "converted-form-evaluates-like-the-expression"⟩)
  -- C03 connectives ---------------------------------------------------------------------------
  | "probe", [_, _] =>
    -- a sentence of the language (a tower or a chain) parsed in a child process: it must come back
    ⟨impl == atom "ok", atom "ok", impl == atom "ok", "terminates-without-exhausting-the-stack"⟩
  | "and.shared", [x, y, z, m] => sharedOp x y z m (· && ·) Expr.mkAnd
  | "or.shared", [x, y, z, m] => sharedOp x y z m (· || ·) Expr.mkOr
  | "xor.shared", [x, y, z, m] => sharedOp x y z m (· != ·) Expr.mkXor
  | "imply.shared", [x, y, z, m] => sharedOp x y z m (fun p q => !p || q) Expr.mkImply
  | "iff.shared", [x, y, z, m] => sharedOp x y z m (· == ·) Expr.mkIff
  | "and.own", [a, b] => own a b (· && ·) Expr.mkAnd
  | "or.own", [a, b] => own a b (· || ·) Expr.mkOr
  | "xor.own", [a, b] => own a b (· != ·) Expr.mkXor
  | "imply.own", [a, b] => own a b (fun p q => !p || q) Expr.mkImply
  | "iff.own", [a, b] => own a b (· == ·) Expr.mkIff
  | "and.self", [a] => bin a a (· && ·) Expr.mkAnd Table.mkAnd Bdd.mkAnd
  | "or.self", [a] => bin a a (· || ·) Expr.mkOr Table.mkOr Bdd.mkOr
  | "xor.self", [a] => bin a a (· != ·) Expr.mkXor Table.mkXor Bdd.mkXor
  | "and", [a, b] => bin a b (· && ·) Expr.mkAnd Table.mkAnd Bdd.mkAnd
  | "or", [a, b] => bin a b (· || ·) Expr.mkOr Table.mkOr Bdd.mkOr
  | "xor", [a, b] => bin a b (· != ·) Expr.mkXor Table.mkXor Bdd.mkXor
  | "imply", [a, b] =>
    let m := Expr.mkImply (decExpr a) (decExpr b)
    structural (encExpr m) (connectiveOk (fun x y => !x || y) (decFn a) (decFn b) (decFn impl))
  | "iff", [a, b] =>
    let m := Expr.mkIff (decExpr a) (decExpr b)
    structural (encExpr m) (connectiveOk (· == ·) (decFn a) (decFn b) (decFn impl))
  | "not", [a] =>
    (match decFn a with
     | .E e => structural (encExpr (.not e)) (notOk (.E e) (decFn impl))
     | .T t => structural (encTable t.not) (notOk (.T t) (decFn impl))
     | .B b => ⟨sameBdd impl b.not, encBdd b.not, impl != sPanic && notOk (.B b) (decFn impl) && bddWireOk impl, "spec"⟩)
  | "limit", [n] =>
    -- E -> B of a conjunction of n distinct literals: `ok<inputs>`, `err` or `panic`
    let k := decNat n
    let m := if k > maxBddVars then atom "err"
      else if k ≥ libBddPanicsFrom then atom "panic" else atom s!"ok{k}"
    ⟨m == impl, m, impl == atom "err" || impl == atom s!"ok{k}", "conversion-limit"⟩
  | "forms", _ => structural (encBool true) (decBool impl) "operator-forms-differ"
  -- C04 ---------------------------------------------------------------------------------------
  | "equiv", [a, b] =>
    let m := match decFn a, decFn b with
      | .E x, .E y => some (Expr.semanticEq x y) | .T x, .T y => some (Table.semanticEq x y)
      | .B x, .B y => (match Bdd.isEquivalent x y with | .ok r => some r | .panic _ => none)
      | _, _ => none
    structural (match m with | some r => encBool r | none => sPanic)
      (impl != sPanic && equivOk (decFn a) (decFn b) (decBool impl))
  | "semeq", [a, b] =>
    let m := match decFn a, decFn b with
      | .E x, .E y => Expr.semanticEq x y | .T x, .T y => Table.semanticEq x y | _, _ => false
    structural (encBool m) (impl != sPanic && equivOk (decFn a) (decFn b) (decBool impl))
  | "semne", [a, b] =>
    let m := match decFn a, decFn b with
      | .E x, .E y => !(Expr.semanticEq x y) | .T x, .T y => !(Table.semanticEq x y) | _, _ => false
    structural (encBool m) (impl != sPanic && equivOk (decFn a) (decFn b) (!(decBool impl)))
  | "implied", [a, b] =>
    let m := match decFn a, decFn b with
      | .E x, .E y => some (Expr.isImpliedBy x y) | .T x, .T y => some (Table.isImpliedBy x y)
      | .B x, .B y => (match Bdd.isImpliedBy x y with | .ok r => some r | .panic _ => none)
      | _, _ => none
    structural (match m with | some r => encBool r | none => sPanic)
      (impl != sPanic && impliedOk (decFn a) (decFn b) (decBool impl))
  -- C05–C08 ------------------------------------------------------------------------------------
  | "restrict", [f, v] =>
    let pv := decPVal v
    un f impl (fun e => e.restrict pv) (fun t => t.restrict pv) (fun b => b.restrict pv)
      (fun x y => restrictOk x pv y)
  | "exists", [f, s] =>
    let vs := decSet s
    un f impl (fun e => e.existsQ vs) (fun t => t.existsQ vs) (fun b => b.existsQ vs) (fun x y => existsOk x vs y)
  | "forall", [f, s] =>
    let vs := decSet s
    un f impl (fun e => e.forallQ vs) (fun t => t.forallQ vs) (fun b => b.forallQ vs) (fun x y => forallOk x vs y)
  | "deriv", [f, s] =>
    let vs := decSet s
    un f impl (fun e => e.derivative vs) (fun t => t.derivative vs) (fun b => b.derivative vs)
      (fun x y => derivativeOk x vs y)
  | "subst", [f, m] =>
    let x := decFn f
    let mf := decMap decFn m
    let allowed := substitutePanicAllowed x mf
    let spec (y : Sexp) : Bool := if y == sPanic then allowed else !allowed && substituteOk x mf (decFn y) && bddWireOk y
    (match x with
     | .E e => structural (encExpr (e.substitute (decMap decExpr m))) (spec impl)
     | .T t => structural (encTable (t.substitute (decMap decTable m))) (spec impl)
     | .B b =>
       let r := b.substitute (decMap (fun s => (decBdd s).b) m)
       ⟨(match r with | .ok mb => impl != sPanic && sameBdd impl mb | .panic _ => impl == sPanic),
        encOutcomeBdd r, spec impl, "spec"⟩)
  -- C09 -----------------------------------------------------------------------------------------
  | "inputs", [f] =>
    let m := match decFn f with
      | .E e => Expr.inputs e | .T t => t.gatherLiterals | .B b => b.inputsSet
    structural (encSet m) (decSet impl == sortDedup (decFn f).inputs)
  | "essential", [f] =>
    let m := match decFn f with
      | .E e => some (Expr.essentialInputs e) | .T t => some t.essentialInputs
      | .B b => (match b.essentialInputs with | .ok l => some l | .panic _ => none)
    structural (match m with | some l => encSet l | none => sPanic)
      (impl != sPanic && essentialOk (decFn f) (decSet impl) && isStrictSorted (decSet impl) &&
       subset (decSet impl) (decFn f).inputs)
  | "degree", [f] =>
    let m := match decFn f with
      | .E e => Expr.degree e | .T t => t.degree | .B b => b.degree
    structural (encNat m) (decNat impl == (sortDedup (decFn f).inputs).length)
  | "essdegree", [f] =>
    let m := match decFn f with
      | .E e => Expr.essentialDegree e | .T t => t.essentialDegree | .B b => b.essentialDegree
    structural (encNat m) (decNat impl == (essentialRef (decFn f)).length)
  -- C10 -----------------------------------------------------------------------------------------
  | "enum", [f] =>
    let x := decFn f
    let r := decEnum impl
    (match x with
     | .E e => structural (encEnumOf e.domain e.image e.relation e.support e.weight e.satPoint) (enumOk x r)
     | .T t => structural (encEnumOf t.domain t.image t.relation t.support t.weight t.satPoint) (enumOk x r)
     | .B b =>
       -- support order and the chosen sat point are lib-bdd's: compared as a set / by membership
       let m := encEnumOf b.domain b.image b.relation (sortPts b.support) b.weight r.satPoint
       let implCanon := encEnumOf r.domain r.image r.relation (sortPts r.support) r.weight r.satPoint
       ⟨m == implCanon && b.isSatPoint r.satPoint, m, enumOk x r, "spec"⟩)
  -- C11 -----------------------------------------------------------------------------------------
  | "nnf", [e] => structural (encExpr (decExpr e).toNnf) (nfOk .nnf (decExpr e) (decExpr impl) && impl != sPanic)
  | "cnf", [e] => structural (encExpr (decExpr e).toCnf) (nfOk .cnf (decExpr e) (decExpr impl) && impl != sPanic)
  | "dnf", [e] => structural (encExpr (decExpr e).toDnf) (nfOk .dnf (decExpr e) (decExpr impl) && impl != sPanic)
  | "isnnf", [e] => structural (encBool (decExpr e).isNnf) (nfPredOk .nnf (decExpr e) (decBool impl))
  | "iscnf", [e] => structural (encBool (decExpr e).isCnf) (nfPredOk .cnf (decExpr e) (decBool impl))
  | "isdnf", [e] => structural (encBool (decExpr e).isDnf) (nfPredOk .dnf (decExpr e) (decBool impl))
  -- C12 / C13 / C14 -------------------------------------------------------------------------------
  | "tokens", [s] =>
    let text := decStr s
    let m := match tokenize text.toList with
      | .ok ts => sOk (list (ts.map encTok))
      | .error e => sErr (tokErrName e)
    let ref := match refLex text.toList with
      | some ts => sOk (list (ts.map encTok))
      | none => atom "reject"
    -- agreement at Ok/Err granularity plus the exact token stream
    ⟨(isOkS m && m == impl) || (isErrS m && isErrS impl), m,
     (isOkS impl && impl == ref) || (isErrS impl && ref == atom "reject"), "lexer"⟩
  | "sweep", [atom t, atom lo, atom hi, atom st] =>
    let tm := t.toNat?.getD 0; let l := lo.toNat?.getD 0; let h := hi.toNat?.getD 0; let sd := max 1 (st.toNat?.getD 1)
    let m := sweepRuns (fun cs => match tokenize cs with | .ok ts => some ts | .error _ => none) tm l h sd
    let r := sweepRuns refLex tm l h sd
    ⟨impl == atom m, atom m, impl == atom r, "every-character-read-as-the-grammar-says"⟩
  | "parse", [s] =>
    let text := decStr s
    let m := match parse text with
      | .ok e => sOk (encExpr e)
      | .error e => sErr (parseErrName e)
    let ref := match refParse text with
      | some e => sOk (encExpr e)
      | none => atom "reject"
    ⟨(isOkS m && m == impl) || (isErrS m && isErrS impl), m,
     (isOkS impl && impl == ref) || (isErrS impl && ref == atom "reject"), "reference-reading"⟩
  | "print", [e] => structural (encStr (printE (decExpr e))) true
  | "roundtrip", [e] =>
    -- impl = (L <printed> <parse result>)
    let x := decExpr e
    let text := printE x
    let m := encList [encStr text, match parse text with | .ok e' => sOk (encExpr e') | .error er => sErr (parseErrName er)]
    let ok := match decList impl with
      | [_, list [atom "ok", e']] =>
        let y := decExpr e'
        agreeOn (union (Fn.E x).inputs (Fn.E y).inputs) x.den y.den && sameSet (Fn.E x).inputs (Fn.E y).inputs &&
        (!(arityAtLeast2 x) || encExpr y == e)
      | _ => false
    structural m ok
  -- C16 / C17 / C18 ----------------------------------------------------------------------------------
  | "csv.from", [s] =>
    let text := decStr s
    match fromCsvStringAny text with
    | none => ⟨true, atom "unmodelled", impl != sPanic, "panic"⟩
    | some res =>
      let m := match res with
        | .ok t => sOk (encTable t)
        | .error e => sErr (csvErrName e)
      let r := csvImportOk text impl
      -- the two readers of the model must agree wherever both apply (quote-free text)
      let readersAgree := !simpleDialect text.toList || csvRecordsQ text.toList == some (csvRecords text.toList)
      if !readersAgree then ⟨false, atom "model-readers-disagree", r.1, r.2⟩ else
      ⟨(isOkS m && m == impl) || (isErrS m && isErrS impl), m, r.1, r.2⟩
  | "csv.to", [t, fi, fo] =>
    let x := decTable t
    let text := toCsvFormatted x (fmtOf fi) (fmtOf fo)
    -- layout clause: header line, then one line per domain point in domain order
    let lines := (splitOnChar '\n' (decStr impl).toList).map fun l => (splitOnChar ',' l).map String.ofList
    structural (encStr text) (lines == cells x (fmtOf fi) (fmtOf fo) || (x.inputs.isEmpty && x.outputs.isEmpty))
  | "csv.round", [t, _, _] =>
    structural (sOk t) (impl == sOk t) "roundtrip"
  | "render", [t, st, fi, fo] =>
    let x := decTable t
    let grid := cells x (fmtOf fi) (fmtOf fo)
    let got := readCells (styleOf st) (decStr impl)
    -- the modelled text (`tabled` layout for cells one column wide per character) must be the real one
    if grid.all (·.all narrowText) then
      let text := render (styleOf st) grid
      ⟨text == decStr impl, encStr text, got == grid, "cells"⟩
    else
      ⟨got == grid, encList (grid.map fun r => encList (r.map encStr)), got == grid, "cells"⟩
  | "render.typed", [_, st, _, _] =>
    -- a table over numbers: `impl` = (text, the grid computed from inputs() and relation())
    (match impl with
     | list [atom "L", text, list rows] =>
       let grid := rows.map fun r => match r with | list cs => cs.map decStr | _ => []
       let got := readCells (styleOf st) (decStr text)
       ⟨got == grid, text, got == grid, "cells"⟩
     | _ => ⟨false, atom "bad-answer", false, "cells"⟩)
  | "display", [t, rendered] =>
    -- impl = to_string(); `rendered` = to_string_formatted(Empty, Word, Word) from the implementation
    let x := decTable t
    let got := readCells .empty (decStr impl)
    ⟨got == cells x .word .word, rendered, impl == rendered && got == cells x .word .word, "display"⟩
  | _, _ => ⟨false, atom "unknown-op", false, "unknown-op"⟩
where
  sharedOp (x y z m : Sexp) (op : Bool → Bool → Bool) (fe : Expr String → Expr String → Expr String) : Reply :=
    -- values are immutable in the model: that the two operands share a node cannot matter
    let mode := (match m with | atom t => t.toList | _ => [])
    let e := decExpr x
    let neg (c : Char) : Bool := mode.getD 2 'N' == c || mode.getD 2 'N' == 'B'
    let xl := if neg 'L' then Expr.not e else e
    let xr := if neg 'R' then Expr.not e else e
    let left := if mode.getD 0 'o' == 'o' then Expr.mkOr xl (decExpr y) else Expr.mkAnd xl (decExpr y)
    let right := if mode.getD 1 'o' == 'o' then Expr.mkOr xr (decExpr z) else Expr.mkAnd xr (decExpr z)
    let mdl := encExpr (fe left right)
    ⟨mdl == impl, mdl, impl != sPanic && connectiveOk op (.E left) (.E right) (decFn impl), "spec"⟩
  own (a b : Sexp) (op : Bool → Bool → Bool) (fe : Expr String → Expr String → Expr String) : Reply :=
    -- the result must not depend on who else holds the operands: all three ownership variants are the
    -- model's (structurally) and satisfy the connective's specification
    let m := encExpr (fe (decExpr a) (decExpr b))
    match impl with
    | list [atom "L", r1, r2, r3] =>
      ⟨r1 == m && r2 == m && r3 == m, m,
       [r1, r2, r3].all (fun r => connectiveOk op (decFn a) (decFn b) (decFn r)), "spec"⟩
    | _ => ⟨false, m, false, "spec"⟩
  bin (a b : Sexp) (op : Bool → Bool → Bool)
      (fe : Expr String → Expr String → Expr String)
      (ft : Table String → Table String → Table String)
      (fb : Bdd String → Bdd String → Outcome (Bdd String)) : Reply :=
    let spec := impl != sPanic && connectiveOk op (decFn a) (decFn b) (decFn impl) && bddWireOk impl
    match decFn a, decFn b with
    | .E x, .E y => let m := encExpr (fe x y); ⟨m == impl, m, spec, "spec"⟩
    | .T x, .T y => let m := encTable (ft x y); ⟨m == impl, m, spec, "spec"⟩
    | .B x, .B y =>
      let r := fb x y
      ⟨(match r with | .ok mb => impl != sPanic && sameBdd impl mb | .panic _ => impl == sPanic), encOutcomeBdd r, spec, "spec"⟩
    | _, _ => ⟨false, atom "mixed", false, "mixed"⟩
  un (f impl : Sexp) (fe : Expr String → Expr String) (ft : Table String → Table String)
      (fb : Bdd String → Outcome (Bdd String)) (spec : Fn → Fn → Bool) : Reply :=
    let x := decFn f
    let holds := impl != sPanic && spec x (decFn impl) && bddWireOk impl
    match x with
    | .E e => let m := encExpr (fe e); ⟨m == impl, m, holds, "spec"⟩
    | .T t => let m := encTable (ft t); ⟨m == impl, m, holds, "spec"⟩
    | .B b =>
      let r := fb b
      ⟨(match r with | .ok mb => impl != sPanic && sameBdd impl mb | .panic _ => impl == sPanic), encOutcomeBdd r, holds, "spec"⟩
  arityAtLeast2 : Expr String → Bool
    | .lit _ => true
    | .const _ => true
    | .not e => arityAtLeast2 e
    | .and es => es.length ≥ 2 && arityL es
    | .or es => es.length ≥ 2 && arityL es
  arityL : List (Expr String) → Bool
    | [] => true
    | e :: es => arityAtLeast2 e && arityL es

/-- C15 wraps any op: the result must be well-formed and *equal* to the model's (canonical) -/
def handleLine (line : String) : String :=
  if line.startsWith "#" then "skipped" else
  match Sexp.parseLine line with
  | atom prop :: atom op0 :: rest =>
    let op := if op0 == "csv.file" then "csv.from" else op0
    let idx := rest.findIdx? (· == atom "=>")
    (match idx with
     | some i =>
       let args := rest.take i
       let impl := (rest.drop (i + 1)).headD (atom "missing")
       let r := handle prop op args impl
       let holds := if prop == "C15" then r.holds && r.agree else r.holds
       s!"{if r.agree then "agree" else "differ"} {r.model.toStr} {verdict holds r.clause}"
     | none => "bad-request")
  | _ => "bad-request"

partial def loop (h : IO.FS.Stream) (out : IO.FS.Stream) : IO Unit := do
  let line ← h.getLine
  if line.isEmpty then return ()
  out.putStrLn (handleLine line)
  loop h out

end Driver

def main : IO Unit := do
  let stdin ← IO.getStdin
  let stdout ← IO.getStdout
  Driver.loop stdin stdout
