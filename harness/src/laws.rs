//! Law instances at sizes the executable Lean model cannot reach (17 … 70 variables).
//!
//! The functions are built from a recipe `(n, seed)` (read-once DNFs over `v000 … v{n-1}`, so that the
//! diagrams stay small), the operation is run on the real crate, and the *observations* are printed:
//! raw input vectors, `num_vars`, structural validity, and the values of the operands and of the
//! result on a fixed set of sampled assignments. The driver (Lean) judges the observations with the
//! conclusions of the corresponding theorems (inputs = sorted union, pointwise semantics, …).
use crate::gen::Rng;
use crate::wire::*;
use crate::{B, E, T};
use biodivine_boolean_functions::bdd::Bdd;
use biodivine_boolean_functions::expressions::{Expression, ExpressionNode};
use biodivine_boolean_functions::table::TruthTable;
use biodivine_boolean_functions::traits::{BooleanFunction, Evaluate};
use std::collections::{BTreeMap, BTreeSet};

const SAMPLES: usize = 40;

fn var(i: usize) -> String {
    format!("v{:03}", i)
}
fn lit(i: usize, positive: bool) -> E {
    nlit(&var(i), positive)
}
fn nlit(name: &str, positive: bool) -> E {
    let l: E = ExpressionNode::Literal(name.to_string()).into();
    if positive {
        l
    } else {
        !l
    }
}

pub type Clauses = Vec<Vec<(String, bool)>>;

/// read-once DNF over the variables `lo .. hi`: consecutive groups (so that the diagram stays linear
/// in the variable order) of 2–4 and, now and then, 6–17 variables, random polarities
pub fn recipe_clauses(rng: &mut Rng, lo: usize, hi: usize) -> Clauses {
    recipe_over(rng, &(lo..hi).map(var).collect::<Vec<_>>())
}
/// the same over an explicit (sorted) list of names
pub fn recipe_over(rng: &mut Rng, names: &[String]) -> Clauses {
    let widths = [2usize, 3, 3, 4, 2, 6, 7, 10, 17];
    let mut clauses: Clauses = vec![];
    let mut k = 0;
    while k < names.len() {
        let len = widths[rng.below(widths.len())].min(names.len() - k);
        clauses.push(names[k..k + len].iter().map(|v| (v.clone(), rng.below(3) != 0)).collect());
        k += len;
    }
    clauses
}
pub fn clauses_expr(clauses: &Clauses) -> E {
    let mut cs: Vec<E> = clauses
        .iter()
        .map(|c| {
            let lits: Vec<E> = c.iter().map(|(v, p)| nlit(v, *p)).collect();
            if lits.len() == 1 {
                lits[0].clone()
            } else {
                Expression::n_ary_and(&lits)
            }
        })
        .collect();
    if cs.len() == 1 {
        cs.pop().unwrap()
    } else {
        Expression::n_ary_or(&cs)
    }
}
pub fn recipe(rng: &mut Rng, lo: usize, hi: usize) -> E {
    clauses_expr(&recipe_clauses(rng, lo, hi))
}

fn as_kind(kind: &str, e: &E) -> Val {
    match kind {
        "B" => Val::B(Bdd::try_from(e.clone()).expect("HARNESS: bdd of recipe")),
        "T" => Val::T(TruthTable::from(e.clone())),
        _ => Val::E(e.clone()),
    }
}

/// sampled assignments: all-false, all-true, random ones, and for every clause of the given recipes
/// the assignment that satisfies exactly that clause together with its single flips inside the clause
/// (on these the value of a read-once DNF hinges on each variable of the clause)
fn samples(rng: &mut Rng, universe: &[String], recipes: &[&Clauses]) -> Vec<BTreeMap<String, bool>> {
    let mut out = vec![];
    for k in 0..SAMPLES {
        let mut m = BTreeMap::new();
        for name in universe {
            let b = match k {
                0 => false,
                1 => true,
                _ => rng.coin(),
            };
            m.insert(name.clone(), b);
        }
        m.insert("zz".to_string(), rng.coin());
        out.push(m);
    }
    for cl in recipes {
        for (j, clause) in cl.iter().enumerate() {
            // falsify every clause through its first literal, satisfy clause j
            let mut base: BTreeMap<String, bool> = universe.iter().map(|i| (i.clone(), rng.coin())).collect();
            base.insert("zz".to_string(), false);
            for (jj, c) in cl.iter().enumerate() {
                if jj == j {
                    for (v, p) in c {
                        base.insert(v.clone(), *p);
                    }
                } else {
                    base.insert(c[0].0.clone(), !c[0].1);
                }
            }
            out.push(base.clone());
            if clause.len() >= 5 {
                for (v, p) in clause {
                    let mut f = base.clone();
                    f.insert(v.clone(), !*p);
                    out.push(f);
                }
            }
        }
    }
    out
}

fn eval(v: &Val, a: &BTreeMap<String, bool>) -> bool {
    match v {
        Val::E(x) => x.evaluate(a),
        Val::T(x) => x.evaluate(a),
        Val::B(x) => x.evaluate(a),
    }
}
fn evals(v: &Val, s: &[BTreeMap<String, bool>]) -> String {
    enc_bits(&s.iter().map(|a| eval(v, a)).collect::<Vec<_>>())
}

/// `(names-as-stored) num_vars valid` of an object (expressions: sorted inputs, 0, 1)
fn shape(v: &Val) -> String {
    match v {
        Val::E(x) => format!("{} 0 1", enc_names(x.inputs().iter())),
        Val::T(x) => {
            let (ins, outs) = x.verif_raw();
            // valid = the output vector has 2^n entries
            format!("{} {} {}", enc_names(ins.iter()), ins.len(), enc_bool(outs.len() == 1usize << ins.len()))
        }
        Val::B(x) => format!(
            "{} {} {}",
            enc_names(x.verif_raw_inputs().iter()),
            x.inner().num_vars(),
            enc_bool(x.inner().validate().is_ok())
        ),
    }
}
fn names_of(v: &Val) -> String {
    match v {
        Val::E(x) => enc_names(x.inputs().iter()),
        Val::T(x) => enc_names(x.inputs().iter()),
        Val::B(x) => enc_names(x.inputs().iter()),
    }
}

fn binop(op: &str, a: &Val, b: &Val) -> Val {
    match (a, b) {
        (Val::E(x), Val::E(y)) => Val::E(match op {
            "and" => x.clone() & y.clone(),
            "or" => x.clone() | y.clone(),
            _ => x.clone() ^ y.clone(),
        }),
        (Val::T(x), Val::T(y)) => Val::T(match op {
            "and" => x.clone() & y.clone(),
            "or" => x.clone() | y.clone(),
            _ => x.clone() ^ y.clone(),
        }),
        (Val::B(x), Val::B(y)) => Val::B(match op {
            "and" => x.clone() & y.clone(),
            "or" => x.clone() | y.clone(),
            _ => x.clone() ^ y.clone(),
        }),
        _ => panic!("HARNESS: mixed kinds"),
    }
}

fn enc_clauses(c: &Clauses) -> String {
    let mut s = String::from("(C");
    for cl in c {
        s.push_str(" (");
        for (i, (v, p)) in cl.iter().enumerate() {
            if i > 0 {
                s.push(' ');
            }
            s.push_str(&format!("({} {})", enc_name(v), enc_bool(*p)));
        }
        s.push(')');
    }
    s.push(')');
    s
}

fn over(a: &BTreeMap<String, bool>, r: &BTreeMap<String, bool>) -> BTreeMap<String, bool> {
    let mut m = a.clone();
    for (k, v) in r {
        m.insert(k.clone(), *v);
    }
    m
}

/// runs one law instance; `args` = [kind, n, seed]
pub fn run_law(op: &str, args: &[String]) -> String {
    let kind = args[0].as_str();
    let n: usize = args[1].parse().expect("HARNESS: law n");
    let seed: u64 = args[2].parse().expect("HARNESS: law seed");
    let mut rng = Rng::new(seed ^ 0x5eed);
    let ca = recipe_clauses(&mut rng, 0, n);
    let ea = clauses_expr(&ca);
    // the second operand shares the upper half of the first one's variables, adds new variables that
    // sort between shared ones (`v010x` after `v010`), one that sorts before everything, and a tail
    let mut names_b: Vec<String> = vec!["a0".to_string()];
    for i in n / 2..n {
        names_b.push(var(i));
        if i % 3 == 0 {
            names_b.push(format!("{}x", var(i)));
        }
    }
    for i in n..n + n / 4 + 1 {
        names_b.push(var(i));
    }
    let cb = recipe_over(&mut rng, &names_b);
    let eb = clauses_expr(&cb);
    let mut universe: Vec<String> = (0..n).map(var).collect();
    universe.extend(names_b.iter().cloned());
    universe.sort();
    universe.dedup();
    let smp = samples(&mut rng, &universe, &[&ca, &cb]);
    let a = as_kind(kind, &ea);
    match op {
        "law.and" | "law.or" | "law.xor" => {
            let b = as_kind(kind, &eb);
            let r = binop(&op[4..], &a, &b);
            format!("(L {} {} {} {} {} {})", shape(&r), names_of(&a), names_of(&b), evals(&r, &smp), evals(&a, &smp), evals(&b, &smp))
        }
        "law.not" => {
            let r = match &a {
                Val::E(x) => Val::E(!x.clone()),
                Val::T(x) => Val::T(!x.clone()),
                Val::B(x) => Val::B(!x.clone()),
            };
            format!("(L {} {} {} {})", shape(&r), names_of(&a), evals(&r, &smp), evals(&a, &smp))
        }
        "law.restrict" => {
            // fixes the first input, a few random ones, and a foreign name
            let mut r: BTreeMap<String, bool> = BTreeMap::new();
            r.insert(var(0), true);
            r.insert(var(1), false);
            for _ in 0..(n / 5) {
                r.insert(var(rng.below(n)), rng.coin());
            }
            r.insert("zz".to_string(), true);
            // long assignments (a whole network state): 63, 64, 65 and 100 keys in every other case
            if seed % 2 == 1 {
                let total = [63usize, 64, 65, 100, 128, 129, 256, 1000][((seed / 4) % 8) as usize];
                let mut i = 0;
                while r.len() < total {
                    r.insert(format!("k{:03}", i), rng.coin());
                    i += 1;
                }
            }
            let res = match &a {
                Val::E(x) => Val::E(x.restrict(&r)),
                Val::T(x) => Val::T(x.restrict(&r)),
                Val::B(x) => Val::B(x.restrict(&r)),
            };
            let a_over: Vec<bool> = smp.iter().map(|s| eval(&a, &over(s, &r))).collect();
            format!("(L {} {} {} {} {})", shape(&res), names_of(&a), enc_pval(&r), evals(&res, &smp), enc_bits(&a_over))
        }
        "law.exists" | "law.forall" | "law.deriv" => {
            // two variables: the first input and a random later one
            let v1 = var(0);
            let v2 = var(1 + rng.below(n - 1));
            // two foreign names in front of the first input, two between the first and the second one
            let mut vs: BTreeSet<String> = [v1.clone(), v2.clone()].into_iter().collect();
            // (not for the derivative: differentiating by a variable the function does not mention
            // yields the constant false, which the four cofactors printed below do not describe)
            if op != "law.deriv" {
                for f in ["a0", "a1", "v000x", "v000y"] {
                    vs.insert(f.to_string());
                }
            }
            let res = match (&a, &op[4..]) {
                (Val::E(x), "exists") => Val::E(x.existential_quantification(vs.clone())),
                (Val::E(x), "forall") => Val::E(x.universal_quantification(vs.clone())),
                (Val::E(x), _) => Val::E(x.derivative(vs.clone())),
                (Val::T(x), "exists") => Val::T(x.existential_quantification(vs.clone())),
                (Val::T(x), "forall") => Val::T(x.universal_quantification(vs.clone())),
                (Val::T(x), _) => Val::T(x.derivative(vs.clone())),
                (Val::B(x), "exists") => Val::B(x.existential_quantification(vs.clone())),
                (Val::B(x), "forall") => Val::B(x.universal_quantification(vs.clone())),
                (Val::B(x), _) => Val::B(x.derivative(vs.clone())),
            };
            let mut cof = vec![];
            for (b1, b2) in [(false, false), (false, true), (true, false), (true, true)] {
                let r: BTreeMap<String, bool> = [(v1.clone(), b1), (v2.clone(), b2)].into_iter().collect();
                let bits: Vec<bool> = smp.iter().map(|s| eval(&a, &over(s, &r))).collect();
                cof.push(enc_bits(&bits));
            }
            format!("(L {} {} {} {} {})", shape(&res), names_of(&a), enc_set(vs.iter()), evals(&res, &smp), cof.join(" "))
        }
        "law.elimall" => {
            // ∃ / ∀ / derivative by *all* inputs: a constant that is a function of the weight
            // (kind B only; `which` = 0 wide disjunction, 1 recipe, 2 wide conjunction, 3 parity)
            let which = seed % 4;
            let b: Bdd<String> = match which {
                0 => Bdd::try_from(Expression::n_ary_or(&(0..n).map(|i| lit(i, true)).collect::<Vec<_>>())).expect("HARNESS: bdd"),
                2 => Bdd::try_from(Expression::n_ary_and(&(0..n).map(|i| lit(i, i % 3 != 0)).collect::<Vec<_>>())).expect("HARNESS: bdd"),
                // parity: exclusive-or of literal diagrams (as an expression it would be exponential)
                3 => (1..n).fold(Bdd::mk_literal(var(0), true), |acc, i| acc ^ Bdd::mk_literal(var(i), true)),
                _ => Bdd::try_from(ea.clone()).expect("HARNESS: bdd"),
            };
            let all: BTreeSet<String> = b.inputs();
            let empty: BTreeMap<String, bool> = BTreeMap::new();
            let obs = |r: &Bdd<String>| -> String {
                format!("({} {} {})", enc_names(r.verif_raw_inputs().iter()), r.inner().num_vars(), enc_bool(r.evaluate(&empty)))
            };
            format!(
                "(L {} {} {} {} {})",
                b.degree(), b.weight(),
                obs(&b.existential_quantification(all.clone())),
                obs(&b.universal_quantification(all.clone())),
                obs(&b.derivative(all.clone()))
            )
        }
        "law.forall.many" | "law.exists.many" | "law.deriv.many" => {
            // an expression over 12 variables with 11 of them eliminated (the trees double per variable);
            // for n > 12: two literals, one of them eliminated together with n - 1 foreign names (the
            // number of *eliminated* names is what the cost of the fold depends on)
            // (the expression derivative quadruples the tree per variable: two literals and n - 1 foreign
            // names at every size)
            let wide_elim = n > 12 || op == "law.deriv.many";
            let k = if wide_elim { 2usize } else { 12usize };
            let lits: Vec<E> = (0..k).map(|i| lit(i, (seed >> i) & 1 == 0)).collect();
            let e: E = if seed % 2 == 0 { Expression::n_ary_or(&lits) } else { Expression::n_ary_and(&lits) };
            let keep = (seed as usize / 2) % k;
            let mut vs: BTreeSet<String> = (0..k).filter(|i| *i != keep).map(var).collect();
            if wide_elim {
                for i in 0..n - 1 {
                    // foreign names in front of, between and behind the two inputs
                    vs.insert(match i % 3 { 0 => format!("u{:02}", i), 1 => format!("v000_{:02}", i), _ => format!("w{:02}", i) });
                }
            }
            let r = if op == "law.forall.many" { e.universal_quantification(vs.clone()) } else if op == "law.exists.many" { e.existential_quantification(vs.clone()) } else { e.derivative(vs.clone()) };
            // the result depends on the kept variable only: both of its values
            let at = |b: bool| -> bool { r.evaluate(&[(var(keep), b)].into_iter().collect()) };
            let src_clause: Clauses = vec![(0..k).map(|i| (var(i), (seed >> i) & 1 == 0)).collect()];
            format!("(L {} {} {} {} {} {} {})", enc_clauses(&src_clause), enc_bool(seed % 2 == 0), enc_name(&var(keep)), enc_names(r.inputs().iter()), enc_bool(at(false)), enc_bool(at(true)), enc_bool(wide_elim))
        }
        "law.weight" => {
            // complement law and inclusion-exclusion, on exact big integers; both operands over the
            // same n variables
            let eb2 = recipe(&mut rng, 0, n);
            let b = as_kind(kind, &eb2);
            let w = |v: &Val| -> String {
                match v {
                    Val::E(x) => x.weight().to_string(),
                    Val::T(x) => x.weight().to_string(),
                    Val::B(x) => x.weight().to_string(),
                }
            };
            let neg = |v: &Val| -> Val {
                match v {
                    Val::E(x) => Val::E(!x.clone()),
                    Val::T(x) => Val::T(!x.clone()),
                    Val::B(x) => Val::B(!x.clone()),
                }
            };
            let deg = match &a {
                Val::E(x) => x.degree(),
                Val::T(x) => x.degree(),
                Val::B(x) => x.degree(),
            };
            let and = binop("and", &a, &b);
            let or = binop("or", &a, &b);
            // the wide disjunction of all n variables and its complement
            let all: Vec<E> = (0..n).map(|i| lit(i, true)).collect();
            let wide_or = as_kind(kind, &Expression::n_ary_or(&all));
            format!(
                "(L {} {} {} {} {} {} {} {} {})",
                deg, w(&a), w(&neg(&a)), w(&b), w(&and), w(&or), n, w(&wide_or), w(&neg(&wide_or))
            )
        }
        "law.essential" => {
            // f = recipe & (d | !d): d is declared, not essential
            let d = var(n);
            let dl: E = ExpressionNode::Literal(d.clone()).into();
            // seed % 3: 0 = a harmless declared-only operand; 1 = an operand that declares d and is
            // constantly false under a conjunction; 2 = constantly true under a disjunction (then the
            // whole function is constant and nothing is essential)
            let e = match seed % 3 {
                0 => ea.clone() & (dl.clone() | !dl),
                1 => Expression::n_ary_and(&[ea.clone(), !(dl.clone() | !dl)]),
                _ => Expression::n_ary_or(&[ea.clone(), !(dl.clone() & !dl)]),
            };
            let f = as_kind(kind, &e);
            let (ins, ess): (BTreeSet<String>, BTreeSet<String>) = match &f {
                Val::E(x) => (x.inputs(), x.essential_inputs()),
                Val::T(x) => (x.inputs(), x.essential_inputs()),
                Val::B(x) => (x.inputs(), x.essential_inputs()),
            };
            // sampled flips: (variable, differs?)
            let mut flips = String::from("(");
            for (k, s) in smp.iter().enumerate() {
                let u = var((k * 7 + 3) % n);
                let f0 = eval(&f, &over(s, &[(u.clone(), false)].into_iter().collect()));
                let f1 = eval(&f, &over(s, &[(u.clone(), true)].into_iter().collect()));
                if k > 0 {
                    flips.push(' ');
                }
                flips.push_str(&format!("({} {})", enc_name(&u), enc_bool(f0 != f1)));
            }
            flips.push(')');
            format!("(L {} {} {} {} {})", enc_names(ins.iter()), enc_names(ess.iter()), enc_name(&d), flips, enc_bool(seed % 3 != 0))
        }
        "law.conv.EB" | "law.conv.BE" | "law.conv.ET" | "law.conv.TE" | "law.conv.BT" => {
            let dir = &op[9..];
            // every third instance of B -> E uses a diagram whose DNF is large: the parity of 12
            // variables (2048 clauses) or a conjunction of 11 two-literal disjunctions (2048 clauses)
            let big: Option<E> = if dir == "BE" && seed % 3 == 0 {
                Some((1..12).fold(lit(0, true), |acc, i| acc ^ lit(i, true)))
            } else if dir == "BE" && seed % 3 == 1 {
                Some(Expression::n_ary_and(&(0..11).map(|i| Expression::n_ary_or(&[lit(2 * i, true), lit(2 * i + 1, i % 2 == 0)])).collect::<Vec<_>>()))
            } else {
                None
            };
            let ea = big.unwrap_or(ea);
            let src = as_kind(&dir[0..1], &ea);
            let res = match (dir, &src) {
                ("EB", Val::E(x)) => Val::B(Bdd::try_from(x.clone()).expect("HARNESS: conv")),
                ("BE", Val::B(x)) => Val::E(Expression::from(x.clone())),
                ("ET", Val::E(x)) => Val::T(TruthTable::from(x.clone())),
                ("TE", Val::T(x)) => Val::E(x.to_expression_trivial()),
                ("BT", Val::B(x)) => Val::T(TruthTable::from(x.clone())),
                _ => panic!("HARNESS: conv kind"),
            };
            format!("(L {} {} {} {})", shape(&res), names_of(&src), evals(&res, &smp), evals(&src, &smp))
        }
        "law.eval" => {
            // the three evaluation modes against the recipe itself (the driver evaluates the clauses)
            let uni: Vec<String> = {
                let mut u: Vec<String> = (0..n).map(var).collect();
                u.push("zz".to_string());
                u
            };
            let rows: Vec<String> = smp
                .iter()
                .map(|a| enc_bits(&uni.iter().map(|k| *a.get(k).unwrap_or(&false)).collect::<Vec<_>>()))
                .collect();
            let v_full = evals(&a, &smp);
            // partial assignments: every fifth variable is missing
            let partial: Vec<BTreeMap<String, bool>> = smp
                .iter()
                .map(|a| a.iter().filter(|(k, _)| k.as_str() == "zz" || k[1..].parse::<usize>().map(|i| i % 5 != 0).unwrap_or(true)).map(|(k, v)| (k.clone(), *v)).collect())
                .collect();
            let dflt = |v: &Val, a: &BTreeMap<String, bool>, d: bool| -> bool {
                match v {
                    Val::E(x) => x.evaluate_with_default(a, d),
                    Val::T(x) => x.evaluate_with_default(a, d),
                    Val::B(x) => x.evaluate_with_default(a, d),
                }
            };
            let v_def1: Vec<bool> = partial.iter().map(|p| dflt(&a, p, true)).collect();
            let v_def0: Vec<bool> = partial.iter().map(|p| dflt(&a, p, false)).collect();
            // sparse assignments: two to four entries (a foreign one among them now and then), the rest
            // is read from the default
            let sparse: Vec<BTreeMap<String, bool>> = smp
                .iter()
                .enumerate()
                .map(|(i, a)| {
                    let mut m = BTreeMap::new();
                    for j in 0..(2 + i % 3) {
                        let k = var((i * 7 + j * 13 + 3) % n);
                        m.insert(k.clone(), *a.get(&k).unwrap_or(&false));
                    }
                    if i % 4 == 0 {
                        m.insert("zz".to_string(), true);
                    }
                    if i % 5 == 0 {
                        m.insert("a0".to_string(), false);
                    }
                    m
                })
                .collect();
            let s_def1: Vec<bool> = sparse.iter().map(|p| dflt(&a, p, true)).collect();
            let s_def0: Vec<bool> = sparse.iter().map(|p| dflt(&a, p, false)).collect();
            let sparse_enc: Vec<String> = sparse.iter().map(enc_pval).collect();
            let checked = |v: &Val, a: &BTreeMap<String, bool>| -> Result<bool, Vec<String>> {
                match v {
                    Val::E(x) => x.evaluate_checked(a),
                    Val::T(x) => x.evaluate_checked(a),
                    Val::B(x) => x.evaluate_checked(a),
                }
            };
            let mut ck = String::from("(");
            for (i, (s_full, s_part)) in smp.iter().zip(partial.iter()).take(12).enumerate() {
                if i > 0 {
                    ck.push(' ');
                }
                let c1 = match checked(&a, s_full) {
                    Ok(b) => enc_bool(b),
                    Err(m) => format!("(m {})", m.iter().map(|x| enc_name(x)).collect::<Vec<_>>().join(" ")),
                };
                let c2 = match checked(&a, s_part) {
                    Ok(b) => enc_bool(b),
                    Err(mut m) => {
                        m.sort();
                        format!("(m {})", m.iter().map(|x| enc_name(x)).collect::<Vec<_>>().join(" "))
                    }
                };
                ck.push_str(&format!("({} {})", c1, c2));
            }
            ck.push(')');
            format!(
                "(L {} {} ({}) {} {} {} {} ({}) {} {})",
                enc_clauses(&ca), enc_names(uni.iter()), rows.join(" "), v_full, enc_bits(&v_def1), enc_bits(&v_def0), ck,
                sparse_enc.join(" "), enc_bits(&s_def1), enc_bits(&s_def0)
            )
        }
        "law.cmp" if kind == "E" && n >= 20 => {
            // at the cost wall of the enumerating comparison (2^n assignment maps): literals are small
            // integers, which keeps the maps affordable; the variant with one more declared input is left out
            let clauses8 = |cs: &Clauses| -> Expression<u8> {
                let mut xs: Vec<Expression<u8>> = cs
                    .iter()
                    .map(|c| {
                        let lits: Vec<Expression<u8>> = c
                            .iter()
                            .map(|(v, p)| {
                                let l: Expression<u8> = ExpressionNode::Literal(v[1..].parse::<u8>().expect("HARNESS: var index")).into();
                                if *p { l } else { !l }
                            })
                            .collect();
                        if lits.len() == 1 { lits[0].clone() } else { Expression::n_ary_and(&lits) }
                    })
                    .collect();
                if xs.len() == 1 { xs.pop().unwrap() } else { Expression::n_ary_or(&xs) }
            };
            let mut rev = ca.clone();
            rev.reverse();
            let widest = (0..ca.len()).max_by_key(|i| ca[*i].len()).unwrap();
            let mut cg = ca.clone();
            let last = cg[widest].len() - 1;
            cg[widest][last].1 = !cg[widest][last].1;
            let (a8, f8, g8, c8) = (clauses8(&ca), clauses8(&rev), clauses8(&cg), clauses8(&vec![ca[widest].clone()]));
            format!(
                "(L {} {} {} {} {} {} {} {} {})",
                enc_clauses(&ca), enc_clauses(&rev), enc_clauses(&cg), widest,
                enc_bool(a8.is_equivalent(&f8)), enc_bool(a8.is_equivalent(&g8)), enc_bool(a8.is_implied_by(&c8)), enc_bool(c8.is_implied_by(&a8)), enc_bool(true)
            )
        }
        "law.cmp" => {
            // equivalence / implication against variants whose relation to f is known from the clauses
            let mut rev = ca.clone();
            rev.reverse();
            let f2 = as_kind(kind, &clauses_expr(&rev));
            // flip one literal of the widest clause: a different function (read-once), witness = the
            // assignment satisfying exactly that clause
            let widest = (0..ca.len()).max_by_key(|i| ca[*i].len()).unwrap();
            let mut cg = ca.clone();
            let last = cg[widest].len() - 1;
            cg[widest][last].1 = !cg[widest][last].1;
            let g = as_kind(kind, &clauses_expr(&cg));
            let c = as_kind(kind, &clauses_expr(&vec![ca[widest].clone()]));
            let d = var(n);
            let dl: E = ExpressionNode::Literal(d).into();
            let fd = as_kind(kind, &(ea.clone() & (dl.clone() | !dl)));
            let eqv = |x: &Val, y: &Val| -> bool {
                match (x, y) {
                    (Val::E(p), Val::E(q)) => p.is_equivalent(q),
                    (Val::T(p), Val::T(q)) => p.is_equivalent(q),
                    (Val::B(p), Val::B(q)) => p.is_equivalent(q),
                    _ => panic!("HARNESS: kinds"),
                }
            };
            let imp = |x: &Val, y: &Val| -> bool {
                match (x, y) {
                    (Val::E(p), Val::E(q)) => p.is_implied_by(q),
                    (Val::T(p), Val::T(q)) => p.is_implied_by(q),
                    (Val::B(p), Val::B(q)) => p.is_implied_by(q),
                    _ => panic!("HARNESS: kinds"),
                }
            };
            format!(
                "(L {} {} {} {} {} {} {} {} {})",
                enc_clauses(&ca), enc_clauses(&rev), enc_clauses(&cg), widest,
                enc_bool(eqv(&a, &f2)), enc_bool(eqv(&a, &g)), enc_bool(imp(&a, &c)), enc_bool(imp(&c, &a)), enc_bool(eqv(&a, &fd))
            )
        }
        "law.subst" => {
            // one key inside the widest clause, replaced by a literal over another variable, its
            // negation, or a fresh variable
            let widest = (0..ca.len()).max_by_key(|i| ca[*i].len()).unwrap();
            let key = ca[widest][ca[widest].len() / 2].0.clone();
            let other = match rng.below(3) {
                0 => var((n / 2 + 1) % n),
                1 => var(0),
                _ => "zz".to_string(),
            };
            let other = if other == key { "zz".to_string() } else { other };
            let pos = rng.coin();
            let ge = nlit(&other, pos);
            let res = match &a {
                Val::E(x) => Val::E(x.substitute(&[(key.clone(), ge.clone())].into_iter().collect())),
                Val::T(x) => Val::T(x.substitute(&[(key.clone(), TruthTable::from(ge.clone()))].into_iter().collect())),
                Val::B(x) => Val::B(x.substitute(&[(key.clone(), Bdd::try_from(ge.clone()).expect("HARNESS: literal bdd"))].into_iter().collect())),
            };
            let a_over: Vec<bool> = smp
                .iter()
                .map(|s| {
                    let gv = *s.get(&other).unwrap_or(&false) == pos;
                    eval(&a, &over(s, &[(key.clone(), gv)].into_iter().collect()))
                })
                .collect();
            format!("(L {} {} {} {} {} {})", shape(&res), names_of(&a), enc_name(&key), enc_name(&other), evals(&res, &smp), enc_bits(&a_over))
        }
        "law.subst.many" => {
            // every input is a key: v_i := (not) v_{i+1 mod n} — a rotation, so that substituting one key
            // after the other gives a different function than the simultaneous substitution
            let ins: Vec<String> = match &a {
                Val::E(x) => x.inputs().into_iter().collect(),
                Val::T(x) => x.inputs().into_iter().collect(),
                Val::B(x) => x.inputs().into_iter().collect(),
            };
            let m = ins.len();
            let pos: Vec<bool> = (0..m).map(|_| rng.coin()).collect();
            let target = |i: usize| ins[(i + 1) % m].clone();
            let res = match &a {
                Val::E(x) => Val::E(x.substitute(&(0..m).map(|i| (ins[i].clone(), nlit(&target(i), pos[i]))).collect())),
                Val::T(x) => Val::T(x.substitute(&(0..m).map(|i| (ins[i].clone(), TruthTable::from(nlit(&target(i), pos[i])))).collect())),
                Val::B(x) => Val::B(x.substitute(&(0..m).map(|i| (ins[i].clone(), Bdd::try_from(nlit(&target(i), pos[i])).expect("HARNESS: literal bdd"))).collect())),
            };
            let a_over: Vec<bool> = smp
                .iter()
                .map(|s| {
                    let composed: BTreeMap<String, bool> = (0..m).map(|i| (ins[i].clone(), *s.get(&target(i)).unwrap_or(&false) == pos[i])).collect();
                    eval(&a, &over(s, &composed))
                })
                .collect();
            format!("(L {} {} {} {})", shape(&res), names_of(&a), evals(&res, &smp), enc_bits(&a_over))
        }
        "law.csv" => {
            // a complete CSV file of n input columns (2^n records), without a header (`N`), with the
            // header x_0.. spelled out (`H`) or with shuffled distinct names (`S`); rows in a shuffled
            // order; the output is a recipe over the *columns*
            let cols: Vec<String> = match kind {
                "S" => {
                    let mut v: Vec<String> = (0..n).map(|i| format!("c{}", (i * 7 + 3) % n)).collect();
                    v.dedup();
                    if v.iter().collect::<BTreeSet<_>>().len() != n {
                        v = (0..n).map(|i| format!("c{}", n - 1 - i)).collect();
                    }
                    v
                }
                _ => (0..n).map(|i| format!("x_{}", i)).collect(),
            };
            let col_clauses: Clauses = recipe_over(&mut rng, &cols);
            let value = |bits: &Vec<bool>| -> bool {
                col_clauses.iter().any(|c| c.iter().all(|(v, p)| bits[cols.iter().position(|x| x == v).unwrap()] == *p))
            };
            let mut rows: Vec<usize> = (0..(1usize << n)).collect();
            for i in (1..rows.len()).rev() {
                let j = rng.below(i + 1);
                rows.swap(i, j);
            }
            let mut text = String::new();
            if kind != "N" {
                text.push_str(&cols.join(","));
                text.push_str(",out\n");
            }
            let mut records: Vec<(Vec<bool>, bool)> = vec![];
            for r in &rows {
                let bits: Vec<bool> = (0..n).map(|k| (r >> (n - 1 - k)) & 1 == 1).collect();
                let out = value(&bits);
                let cells: Vec<&str> = bits.iter().map(|b| if *b { "1" } else { "0" }).collect();
                text.push_str(&cells.join(","));
                text.push_str(if out { ",T\n" } else { ",F\n" });
                records.push((bits, out));
            }
            match TruthTable::<String>::from_csv_string(&text) {
                Err(e) => format!("(L err {:?})", e).replace(' ', "_").replace("(L_err_", "(L err "),
                Ok(t) => {
                    let mut obs = String::from("(");
                    for k in 0..SAMPLES.min(records.len()) {
                        let (bits, out) = &records[(k * 37 + 11) % records.len()];
                        let a: BTreeMap<String, bool> = cols.iter().cloned().zip(bits.iter().cloned()).collect();
                        if k > 0 {
                            obs.push(' ');
                        }
                        obs.push_str(&format!("({} {})", enc_bool(*out), enc_bool(t.evaluate(&a))));
                    }
                    obs.push(')');
                    let (ins, outs) = t.verif_raw();
                    format!("(L {} {} {} {})", enc_names(ins.iter()), enc_names(cols.iter()), enc_bool(outs.len() == 1usize << ins.len()), obs)
                }
            }
        }
        "law.nnf" | "law.cnf" | "law.dnf" => {
            // wide n-ary nodes: `kind` is the shape, `n` the arity
            let k = n;
            let pol: Vec<bool> = (0..k).map(|_| rng.below(3) != 0).collect();
            let lits: Vec<E> = (0..k).map(|i| lit(i, pol[i])).collect();
            let pair_or = Expression::n_ary_or(&[lit(k, true), lit(k + 1, false)]);
            let pair_and = Expression::n_ary_and(&[lit(k, true), lit(k + 1, false)]);
            let e: E = match kind {
                "A" => Expression::n_ary_and(&lits),
                "O" => Expression::n_ary_or(&lits),
                "AO" => {
                    let mut l = lits.clone();
                    l.insert(k / 2, pair_or);
                    Expression::n_ary_and(&l)
                }
                "OA" => {
                    let mut l = lits.clone();
                    l.insert(k / 2, pair_and);
                    Expression::n_ary_or(&l)
                }
                "NA" => !Expression::n_ary_and(&lits),
                // a complementary pair makes the wide node a contradiction / a tautology over k variables
                "AC" => {
                    let mut l = lits.clone();
                    l.push(lit(k / 3, !pol[k / 3]));
                    Expression::n_ary_and(&l)
                }
                "OT" => {
                    let mut l = lits.clone();
                    l.insert(k / 2, lit(k - 1, !pol[k - 1]));
                    Expression::n_ary_or(&l)
                }
                _ => !Expression::n_ary_or(&lits),
            };
            let r = match op {
                "law.nnf" => e.to_nnf(),
                "law.cnf" => e.to_cnf(),
                _ => e.to_dnf(),
            };
            // all literals true / all false, and every single flip of both
            let mut smp2: Vec<BTreeMap<String, bool>> = vec![];
            for base_true in [true, false] {
                let mut base: BTreeMap<String, bool> = (0..k).map(|i| (var(i), pol[i] == base_true)).collect();
                base.insert(var(k), base_true);
                base.insert(var(k + 1), !base_true);
                smp2.push(base.clone());
                for i in 0..k + 2 {
                    let mut f = base.clone();
                    let cur = f[&var(i)];
                    f.insert(var(i), !cur);
                    smp2.push(f);
                }
            }
            let (ve, vr) = (Val::E(e.clone()), Val::E(r.clone()));
            format!("(L {} {} {} {})", enc_expr(&r), enc_names(e.inputs().iter()), evals(&vr, &smp2), evals(&ve, &smp2))
        }
        _ => panic!("HARNESS: unknown law {}", op),
    }
}

/// which laws belong to which property, and at which sizes per representation
pub fn gen_laws(cx: &mut crate::gen::Ctx, prop: &str) {
    let ops: &[&str] = match prop {
        "C01" => &["law.conv.EB", "law.conv.BE", "law.conv.ET", "law.conv.TE", "law.conv.BT"],
        "C02" => &["law.eval"],
        "C03" => &["law.and", "law.or", "law.xor", "law.not"],
        "C04" => &["law.cmp"],
        "C08" => &["law.subst", "law.subst.many"],
        "C05" => &["law.restrict"],
        "C06" => &["law.exists", "law.forall", "law.elimall", "law.forall.many", "law.exists.many"],
        "C07" => &["law.deriv", "law.elimall", "law.deriv.many"],
        "C09" => &["law.essential"],
        "C10" => &["law.weight"],
        "C11" => &["law.nnf", "law.cnf", "law.dnf"],
        _ => &[],
    };
    if prop == "C16" {
        let sizes: &[usize] = if cx.thorough { &[10, 11, 12] } else { &[11] };
        for kind in ["N", "H", "S"] {
            for n in sizes {
                let seed = cx.rng.next() % 100000;
                cx.emit(prop, "law.csv", &[Arg::A(kind.to_string()), Arg::A(n.to_string()), Arg::A(seed.to_string())], true);
            }
        }
        return;
    }
    if prop == "C11" {
        let arities: &[usize] = if cx.thorough { &[5, 8, 12, 13, 14, 15, 16, 17, 18, 24, 31, 32, 33, 40, 47, 48, 49, 64, 65] } else { &[5, 12, 13, 16, 17, 18, 31, 32, 33, 40] };
        for op in ops {
            for shape in ["A", "O", "AO", "OA", "NA", "NO", "AC", "OT"] {
                for k in arities {
                    let seed = cx.rng.next() % 100000;
                    cx.emit(prop, op, &[Arg::A(shape.to_string()), Arg::A(k.to_string()), Arg::A(seed.to_string())], true);
                }
            }
        }
        return;
    }
    let seeds: usize = if cx.thorough { 6 } else { 2 };
    for op in ops {
        let kinds: Vec<(&str, Vec<usize>)> = if op.starts_with("law.conv.") {
            // the source kind is fixed by the direction; tables are exponential in n
            let dir = &op[9..];
            // tables: up to the cost wall of the enumerating conversions (2^n assignment maps for E -> T)
            let sizes: Vec<usize> = if dir.contains('T') {
                if cx.thorough && dir != "TE" { vec![6, 7, 8, 9, 10, 12, 16, 17, 20, 21] } else { vec![6, 7, 8, 9, 10, 12, 16, 17] }
            } else {
                vec![8, 16, 17, 32, 33, 54, 64, 65, 128, 129, 257]
            };
            vec![("-", sizes)]
        } else {
            vec![
                ("E", if *op == "law.weight" || *op == "law.essential" { if cx.thorough { vec![6, 9, 12, 16, 17, 20, 21] } else { vec![6, 9, 12, 16, 17] } } else if *op == "law.cmp" { if cx.thorough { vec![6, 9, 12, 16, 17, 20, 21, 22] } else { vec![6, 9, 12, 16, 17, 21] } } else { vec![8, 16, 17, 32, 33, 40] }),
                // tables are exponential in the inputs: 16 and 17 inputs only for the unary operations
                ("T", if ["law.restrict", "law.exists", "law.forall", "law.deriv", "law.eval"].contains(op) { if cx.thorough { vec![5, 6, 7, 8, 9, 10, 11, 12, 14, 16, 17] } else { vec![6, 7, 8, 9, 10, 12, 16] } } else { vec![6, 7, 8, 9, 10, 12] }),
                ("B", if cx.thorough { vec![8, 16, 17, 31, 32, 33, 53, 54, 63, 64, 65, 90, 127, 128, 129, 130, 200, 255, 256, 257, 300] } else { vec![8, 16, 17, 32, 33, 54, 64, 65, 128, 129, 257] }),
            ]
        };
        let kinds: Vec<(&str, Vec<usize>)> = if *op == "law.elimall" {
            vec![("B", vec![17, 54, 65, 130])]
        } else if *op == "law.deriv.many" {
            vec![("E", if cx.thorough { vec![3, 6, 9, 10, 11, 12] } else { vec![6, 9, 11] })]
        } else if op.ends_with(".many") && *op != "law.subst.many" {
            vec![("E", if cx.thorough { vec![12, 20, 21, 22] } else { vec![12, 21] })]
        } else {
            kinds
        };
        let seeds = if *op == "law.elimall" { 4 } else if *op == "law.conv.BE" { 3 } else { seeds };
        for (kind, sizes) in kinds {
            for n in sizes {
                // expression quantification doubles the tree per variable; keep it small there
                if kind == "E" && !op.ends_with(".many") && (op.starts_with("law.ex") || op.starts_with("law.fo") || op.starts_with("law.de")) && n > 17 {
                    continue;
                }
                // one instance only at the cost wall of the enumerating algorithms
                let seeds = if n >= 20 && (kind == "E" || (kind == "-" && n <= 21)) { 1 } else { seeds };
                for k in 0..seeds {
                    // consecutive seeds, so that every residue class the recipes switch on occurs
                    let seed = (cx.rng.next() % 25000) * 4 + k as u64;
                    cx.emit(prop, op, &[Arg::A(kind.to_string()), Arg::A(n.to_string()), Arg::A(seed.to_string())], true);
                }
            }
        }
    }
}

#[allow(dead_code)]
fn unused(_: &B, _: &T) {}
