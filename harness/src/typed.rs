//! The literal type is a parameter of the crate (`Expression<T>`, `TruthTable<T>`, `Bdd<T>`); every other
//! request of the harness uses `String`, for which the order of the literals and the order of their
//! text forms coincide. This module runs an operation twice — over `String` names and over `u32`
//! literals whose numeric order differs from the order of their decimal text (2 < 9 < 10 < 100 but
//! "10" < "100" < "2" < "9") — with an order-preserving correspondence between the two literal sets,
//! and reports whether the results correspond. The `String` side is what all other requests tie to
//! the model; equality transfers that to the other literal type.
use crate::wire::*;
use biodivine_boolean_functions::bdd::Bdd;
use biodivine_boolean_functions::expressions::{Expression, ExpressionNode};
use biodivine_boolean_functions::table::TruthTable;
use biodivine_boolean_functions::traits::{BooleanFunction, Evaluate};
use std::collections::{BTreeMap, BTreeSet};
use std::fmt::{Debug, Display};

/// names of the requests (sorted) -> numbers in the same order whose decimal texts sort differently
const NUMBERS: [u32; 8] = [2, 9, 10, 100, 101, 1000, 2000, 30000];

fn number_of(universe: &[String], name: &str) -> u32 {
    NUMBERS[universe.iter().position(|n| n == name).expect("HARNESS: name outside the universe")]
}

fn map_expr<T: Debug + Clone + Eq + Ord, F: Fn(&str) -> T>(e: &Expression<String>, f: &F) -> Expression<T> {
    match e.node() {
        ExpressionNode::Literal(n) => ExpressionNode::Literal(f(n)).into(),
        ExpressionNode::Constant(b) => ExpressionNode::Constant(*b).into(),
        ExpressionNode::Not(x) => ExpressionNode::Not(map_expr(x, f)).into(),
        ExpressionNode::And(xs) => ExpressionNode::And(xs.iter().map(|x| map_expr(x, f)).collect()).into(),
        ExpressionNode::Or(xs) => ExpressionNode::Or(xs.iter().map(|x| map_expr(x, f)).collect()).into(),
    }
}

fn show_expr<T: Debug + Clone + Eq + Ord, F: Fn(&T) -> String>(e: &Expression<T>, f: &F) -> String {
    match e.node() {
        ExpressionNode::Literal(n) => format!("l{}", f(n)),
        ExpressionNode::Constant(b) => format!("c{}", *b as u8),
        ExpressionNode::Not(x) => format!("!({})", show_expr(x, f)),
        ExpressionNode::And(xs) => format!("&[{}]", xs.iter().map(|x| show_expr(x, f)).collect::<Vec<_>>().join(",")),
        ExpressionNode::Or(xs) => format!("|[{}]", xs.iter().map(|x| show_expr(x, f)).collect::<Vec<_>>().join(",")),
    }
}

fn show_fn<T: Debug + Clone + Eq + Ord, X: BooleanFunction<T>, F: Fn(&T) -> String>(x: &X, f: &F) -> String {
    let ins: Vec<String> = x.inputs().iter().map(f).collect();
    let ess: Vec<String> = x.essential_inputs().iter().map(f).collect();
    let img: String = x.image().map(|b| if b { '1' } else { '0' }).collect();
    let dom: Vec<String> = x.domain().map(|p| p.iter().map(|b| if *b { '1' } else { '0' }).collect()).collect();
    let mut sup: Vec<String> = x.support().map(|p| p.iter().map(|b| if *b { '1' } else { '0' }).collect()).collect();
    sup.sort();
    format!("in={} ess={} img={} dom={} sup={} w={}", ins.join(","), ess.join(","), img, dom.join(","), sup.join(","), x.weight())
}

/// everything the operation `op` produces for one literal type, as text over the *common* names
fn run_typed<T, N, S>(op: &str, e: &Expression<String>, y: &Expression<String>, set: &BTreeSet<String>, val: &BTreeMap<String, bool>, to_t: &N, show: &S) -> String
where
    T: Debug + Clone + Eq + Ord + Display + 'static,
    N: Fn(&str) -> T,
    S: Fn(&T) -> String,
{
    let ex: Expression<T> = map_expr(e, to_t);
    let ey: Expression<T> = map_expr(y, to_t);
    let tx = TruthTable::from(&ex);
    let ty = TruthTable::from(&ey);
    let bx = Bdd::try_from(ex.clone()).expect("HARNESS: bdd");
    let by = Bdd::try_from(ey.clone()).expect("HARNESS: bdd");
    let vs: BTreeSet<T> = set.iter().map(|n| to_t(n)).collect();
    let v: BTreeMap<T, bool> = val.iter().map(|(k, b)| (to_t(k), *b)).collect();
    let mut out: Vec<String> = vec![];
    match op {
        "conv" => {
            out.push(show_fn(&tx, show));
            out.push(show_fn(&bx, show));
            out.push(show_expr(&tx.to_expression_trivial(), show));
            out.push(show_fn(&TruthTable::from(bx.clone()), show));
            out.push(show_fn(&TruthTable::from(&Expression::from(bx.clone())), show));
        }
        "bin" => {
            out.push(show_expr(&(ex.clone() & ey.clone()), show));
            out.push(show_expr(&(ex.clone() | ey.clone()), show));
            out.push(show_fn(&(&tx & &ty), show));
            out.push(show_fn(&(&tx | &ty), show));
            out.push(show_fn(&(&tx ^ &ty), show));
            out.push(show_fn(&(&bx & &by), show));
            out.push(show_fn(&(&bx | &by), show));
            out.push(show_fn(&(&bx ^ &by), show));
            out.push(format!("{} {} {}", ex.is_equivalent(&ey), tx.is_implied_by(&ty), bx.is_equivalent(&by)));
        }
        "restrict" => {
            out.push(show_expr(&ex.restrict(&v), show));
            out.push(show_fn(&tx.restrict(&v), show));
            out.push(show_fn(&bx.restrict(&v), show));
            out.push(format!("{} {} {}", ex.evaluate_with_default(&v, true), tx.evaluate(&v), bx.evaluate_with_default(&v, false)));
            out.push(format!("{:?}", tx.evaluate_checked(&v).map_err(|m| m.iter().map(show).collect::<Vec<_>>())));
            out.push(format!("{:?}", bx.evaluate_checked(&v).map_err(|m| m.iter().map(show).collect::<Vec<_>>())));
        }
        "quant" => {
            out.push(show_fn(&tx.existential_quantification(vs.clone()), show));
            out.push(show_fn(&tx.universal_quantification(vs.clone()), show));
            out.push(show_fn(&tx.derivative(vs.clone()), show));
            out.push(show_fn(&bx.existential_quantification(vs.clone()), show));
            out.push(show_fn(&bx.universal_quantification(vs.clone()), show));
            out.push(show_fn(&bx.derivative(vs.clone()), show));
            if vs.len() <= 2 {
                out.push(show_expr(&ex.existential_quantification(vs.clone()), show));
                out.push(show_expr(&ex.universal_quantification(vs.clone()), show));
            }
        }
        "subst" => {
            // the first name of the set is replaced by `y`
            if let Some(k) = vs.iter().next() {
                let self_ref = by.inputs().contains(k);
                out.push(show_expr(&ex.substitute(&[(k.clone(), ey.clone())].into_iter().collect()), show));
                out.push(show_fn(&tx.substitute(&[(k.clone(), ty.clone())].into_iter().collect()), show));
                if !self_ref {
                    out.push(show_fn(&bx.substitute(&[(k.clone(), by.clone())].into_iter().collect()), show));
                }
            }
        }
        "nf" => {
            out.push(show_expr(&ex.to_nnf(), show));
            out.push(show_expr(&ex.to_cnf(), show));
            out.push(show_expr(&ex.to_dnf(), show));
            out.push(show_fn(&ex, show));
        }
        _ => panic!("HARNESS: typed op"),
    }
    out.join(" ; ")
}

/// `typed <op> <e> <y> <set> <valuation>`: `same`, or the first position where the two literal types part
pub fn run(op: &str, a: &[Arg]) -> String {
    let e = match &a[0] { Arg::F(Val::E(e)) => e.clone(), _ => panic!("HARNESS: kind") };
    let y = match &a[1] { Arg::F(Val::E(e)) => e.clone(), _ => panic!("HARNESS: kind") };
    let set = match &a[2] { Arg::S(s) => s.clone(), _ => panic!("HARNESS: set") };
    let val = match &a[3] { Arg::V(v) => v.clone(), _ => panic!("HARNESS: valuation") };
    let mut universe: BTreeSet<String> = e.inputs();
    universe.extend(y.inputs());
    universe.extend(set.iter().cloned());
    universe.extend(val.keys().cloned());
    let universe: Vec<String> = universe.into_iter().collect();
    if universe.len() > NUMBERS.len() {
        return "same".to_string();
    }
    // common names: the position in the universe
    let u2 = universe.clone();
    let as_string = run_typed::<String, _, _>(op, &e, &y, &set, &val, &|n: &str| n.to_string(), &move |n: &String| format!("#{}", u2.iter().position(|x| x == n).unwrap()));
    let u3 = universe.clone();
    let as_number = run_typed::<u32, _, _>(op, &e, &y, &set, &val, &move |n: &str| number_of(&u3, n), &|n: &u32| format!("#{}", NUMBERS.iter().position(|x| x == n).unwrap()));
    if as_string == as_number {
        "same".to_string()
    } else {
        let at = as_string.chars().zip(as_number.chars()).take_while(|(p, q)| p == q).count();
        let cut = |s: &str| s.chars().skip(at.saturating_sub(20)).take(60).collect::<String>().replace([' ', '(', ')'], "_");
        format!("differ:{}:{}", cut(&as_string), cut(&as_number))
    }
}

/// rendering of a table over numbers: the text, and the cell grid it must show (header = the inputs
/// in order, then one row per relation entry), computed from `inputs()` and `relation()`
pub fn render(a: &[Arg]) -> String {
    let e = match &a[0] { Arg::F(Val::E(e)) => e.clone(), _ => panic!("HARNESS: kind") };
    let style = match &a[1] { Arg::A(s) => s.clone(), _ => panic!("HARNESS") };
    let fi = match &a[2] { Arg::A(s) => s.clone(), _ => panic!("HARNESS") };
    let fo = match &a[3] { Arg::A(s) => s.clone(), _ => panic!("HARNESS") };
    let universe: Vec<String> = e.inputs().into_iter().collect();
    if universe.len() > NUMBERS.len() {
        return "(L x x)".to_string();
    }
    let ex: Expression<u32> = map_expr(&e, &|n: &str| number_of(&universe, n));
    let t = TruthTable::from(&ex);
    let text = t.to_string_formatted(crate::ops::style_of(&style), crate::ops::fmt_of(&fi), crate::ops::fmt_of(&fo));
    let fmt_i = crate::ops::fmt_of(&fi);
    let fmt_o = crate::ops::fmt_of(&fo);
    let mut grid: Vec<Vec<String>> = vec![t.inputs().iter().map(|n| n.to_string()).chain(["result".to_string()]).collect()];
    for (p, b) in t.relation() {
        let mut row: Vec<String> = p.iter().map(|x| fmt_i.format_bool(x)).collect();
        row.push(fmt_o.format_bool(&b));
        grid.push(row);
    }
    let grid_s = grid.iter().map(|r| format!("({})", r.iter().map(|c| enc_str(c)).collect::<Vec<_>>().join(" "))).collect::<Vec<_>>().join(" ");
    format!("(L {} ({}))", enc_str(&text), grid_s)
}
