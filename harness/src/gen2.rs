//! Generators for the parser (C12–C14), histories (C15), CSV and rendering (C16–C18),
//! determinism digests (C20), the reflection translator and runtime probes.
use crate::gen::*;
use crate::wire::*;
use biodivine_boolean_functions::bdd::Bdd;
use biodivine_boolean_functions::expressions::Expression;
use biodivine_boolean_functions::table::TruthTable;
use biodivine_boolean_functions::traits::BooleanFunction;
use std::collections::{BTreeMap, BTreeSet};
use std::io::Write;
use std::str::FromStr;

// ================================================================================================
// C12 / C13: the parser

/// token alphabet: every spelling in lower / upper / mixed case, keyword-like identifiers,
/// brace names, parentheses, unknown symbols
fn token_alphabet(full: bool) -> Vec<String> {
    let table = biodivine_boolean_functions::parser::verif::pattern_table();
    let mut v: Vec<String> = vec![];
    for (pat, _, _) in &table {
        v.push(pat.to_string());
        if full {
            let up = pat.to_uppercase();
            if up != *pat {
                v.push(up);
            }
            let mixed: String = pat
                .chars()
                .enumerate()
                .map(|(i, c)| if i % 2 == 0 { c.to_ascii_uppercase() } else { c })
                .collect();
            if mixed != *pat && mixed != pat.to_uppercase() {
                v.push(mixed);
            }
        }
    }
    let extra = [
        "a", "b", "x_10", "nota", "andy", "tv", "v1", "true_", "f-", "1a", "10", "falſe", "ſ", "{a b}", "{a&b}",
        "{}", "{", "@", "$", "é", "{naïve_x}", "{TNF-α}", "{gènes et al}", "{ééééééé}",
    ];
    for e in extra.iter().take(if full { extra.len() } else { 12 }) {
        v.push(e.to_string());
    }
    // brace-quoted names longer than the peek buffer with multi-byte characters at its start
    for e in ["{naïve_x}", "{TNF-α}", "{ééééééé}"] {
        v.push(e.to_string());
    }
    v.sort();
    v.dedup();
    v
}

fn is_keywordish(tok: &str) -> bool {
    tok.chars().all(|c| c.is_ascii_alphanumeric() || c == '_' || c == '-') && tok.len() > 1
}

/// identifier names of every length 1..=16 (and 24, 40) with one non-letter character (or an upper
/// case letter) at every position: a name's length and the place of `-`, `_` or a digit in it are
/// input dimensions of the tokenizer (look-ahead windows, anchored patterns)
pub fn name_grid() -> Vec<String> {
    let mut v = vec![];
    // every identifier character alone, first, last and in the middle of a name
    for c in ('a'..='z').chain('A'..='Z').chain('0'..='9').chain(['-', '_']) {
        for name in [format!("{}", c), format!("x{}", c), format!("{}x", c), format!("x{}x", c), format!("{}{}", c, c)] {
            // the one-letter and digit constants and operators of the language are not names
            if !["t", "T", "f", "F", "v", "V", "0", "1"].contains(&name.as_str()) {
                v.push(name);
            }
        }
    }
    for len in (1..=16usize).chain([24, 40, 63, 64, 65, 255, 256, 257, 1000]) {
        for pos in 0..len {
            if len > 16 && pos % (if len > 40 { 61 } else { 5 }) != 0 && pos != len - 1 {
                continue;
            }
            for special in ['-', '_', '7', 'Q'] {
                let name: String = (0..len).map(|i| if i == pos { special } else { (b'a' + ((i * 7 + len) % 26) as u8) as char }).collect();
                v.push(name);
            }
        }
    }
    v
}

/// `arity` distinct names of exactly `len` characters (`len >= 2` for more than 13 names); every other
/// name carries its index in front, the others at the end (so that names share long prefixes / suffixes)
pub fn sized_names(arity: usize, len: usize) -> Vec<String> {
    let letters: Vec<char> = "abcdeghijklmnopq".chars().collect();
    let mut v: Vec<String> = (0..arity)
        .map(|i| {
            if len == 1 {
                letters[i % letters.len()].to_string()
            } else if len == 2 {
                format!("{}{}", letters[i % letters.len()], i % 10)
            } else {
                let idx = format!("{:02}", i);
                let fill = "Nuclear_factor_kappa_light_chain_enhancer_of_activated_B_cells_and_more_text_to_fill_up_two_hundred_characters_of_a_single_variable_name_which_nobody_would_type_but_a_tool_could_generate_from_an_ontology_term";
                if i % 2 == 0 {
                    format!("{}{}", &fill[..len - 2], idx)
                } else {
                    format!("g{}{}", idx, &fill[..len - 3])
                }
            }
        })
        .collect();
    v.sort();
    v.dedup();
    v
}

fn emit_text(cx: &mut Ctx, prop: &str, text: &str, nt: bool) {
    cx.emit(prop, "tokens", &[Arg::X(text.to_string())], nt);
    cx.emit(prop, "parse", &[Arg::X(text.to_string())], nt);
}

fn sentence(rng: &mut Rng, depth: usize, names: &[&str]) -> String {
    let ands = ["&", "&&", "and", "AND", "∧", "^", "*"];
    let ors = ["|", "||", "or", "Or", "∨", "v", "+"];
    let nots = ["!", "~", "not ", "NOT ", "¬"];
    let atom = |rng: &mut Rng| -> String {
        match rng.below(10) {
            0 => rng.pick(&["true", "TRUE", "t", "1", "T"]).to_string(),
            1 => rng.pick(&["false", "False", "f", "0", "F"]).to_string(),
            2 => format!("{{{}}}", rng.pick(&["a b", "x&y", "q", "not", "(z)", "naïve_x", "TNF-α", "gènes", "ǆǆǆǆǆǆ|x"])),
            _ => rng.pick(names).to_string(),
        }
    };
    if depth == 0 {
        return atom(rng);
    }
    match rng.below(7) {
        0 => atom(rng),
        1 => format!("{}{}", rng.pick(&nots), sentence(rng, depth - 1, names)),
        2 => format!("({})", sentence(rng, depth - 1, names)),
        3 | 4 => {
            let k = 2 + rng.below(2);
            let sep = if rng.coin() { " " } else { "  " };
            (0..k)
                .map(|_| sentence(rng, depth - 1, names))
                .collect::<Vec<_>>()
                .join(&format!("{}{}{}", sep, rng.pick(&ands), sep))
        }
        _ => {
            let k = 2 + rng.below(2);
            (0..k)
                .map(|_| sentence(rng, depth - 1, names))
                .collect::<Vec<_>>()
                .join(&format!(" {} ", rng.pick(&ors)))
        }
    }
}

fn mutate(rng: &mut Rng, s: &str) -> String {
    let mut chars: Vec<char> = s.chars().collect();
    let junk = ['(', ')', '{', '}', '&', '|', '!', ' ', 'a', 'v', 't', '@', '\t', 'ſ', '1', '-'];
    for _ in 0..1 + rng.below(2) {
        let pos = rng.below(chars.len() + 1);
        match rng.below(3) {
            0 if !chars.is_empty() => {
                chars.remove(pos.min(chars.len() - 1));
            }
            1 => chars.insert(pos, *rng.pick(&junk)),
            _ if !chars.is_empty() => {
                let p = pos.min(chars.len() - 1);
                chars[p] = *rng.pick(&junk);
            }
            _ => {}
        }
    }
    chars.into_iter().collect()
}

pub fn gen_c12(cx: &mut Ctx, prop: &str) {
    let full = token_alphabet(true);
    let small = token_alphabet(false);
    let spacings: [&str; 5] = ["", " ", " \u{2003}\t", "\n", " \r\n"];
    // length 1 and 2 over the full alphabet under three spacings
    for a in &full {
        emit_text(cx, prop, a, is_keywordish(a));
        for sp in spacings {
            emit_text(cx, prop, &format!("{}{}", sp, a), is_keywordish(a));
        }
        for b in &full {
            for sp in spacings {
                emit_text(cx, prop, &format!("{}{}{}", a, sp, b), is_keywordish(a) || is_keywordish(b));
            }
        }
    }
    // length 3 (and 4 when thorough) over the reduced alphabet, single space and no space
    let alpha3: Vec<&String> = if cx.thorough { full.iter().collect() } else { small.iter().collect() };
    for a in &alpha3 {
        for b in &alpha3 {
            for c in &alpha3 {
                let nt = [a, b, c].iter().any(|t| is_keywordish(t));
                emit_text(cx, prop, &format!("{} {} {}", a, b, c), nt);
                if !cx.thorough && cx.rng.below(4) != 0 {
                    continue;
                }
                emit_text(cx, prop, &format!("{}{}{}", a, b, c), nt);
            }
        }
    }
    // names of every length with a special character at every position, bare and in contexts
    for n in name_grid() {
        for text in [n.clone(), format!("!{}", n), format!("({})", n), format!("{}&a", n), format!("a|{}", n), format!("{} ^ a", n), format!("true^{}", n), format!("not {} or {}", n, n)] {
            emit_text(cx, prop, &text, true);
        }
    }
    // brace-quoted names of 1..7 characters with a 2-, 3- or 4-byte character at every position, alone and
    // with significant characters glued behind the closing brace (byte offsets vs character counts)
    for len in 1..=7usize {
        for pos in 0..len {
            for wide in ['é', '名', '😀'] {
                let name: String = (0..len).map(|i| if i == pos { wide } else { (b'a' + (i as u8 % 3)) as char }).collect();
                for text in [
                    format!("{{{}}}", name), format!("({{{}}})", name), format!("{{{}}}&b", name), format!("!{{{}}}|{{{}}}", name, name),
                    format!("{{{}}})", name), format!("{{{}}}}}", name), format!("{{{}}}b", name), format!("a & ({{{}}})", name), format!("{{{}}} & b", name),
                    format!("{{{}}}@", name), format!("{{{}}}&", name),
                ] {
                    emit_text(cx, prop, &text, true);
                }
            }
        }
    }
    // brace-quoted names with every printable ASCII character first, last and in the middle (escape-like
    // and bracket-like characters next to the closing brace)
    for code in 0x20u8..0x7f {
        let ch = code as char;
        if ch == '}' {
            continue;
        }
        for name in [format!("{}", ch), format!("a{}", ch), format!("{}a", ch), format!("a{}a", ch), format!("C:{}dir{}", ch, ch)] {
            for text in [format!("{{{}}}", name), format!("{{{}}} & {{b}}", name), format!("x | !{{{}}}", name), format!("{{p{}}} | q & {{r}}", name)] {
                emit_text(cx, prop, &text, true);
            }
        }
    }
    // pairs of special characters inside a brace-quoted name (a rewrite of the raw text that targets a
    // two-character sequence, such as CR LF, reaches into names)
    {
        let specials = ['\r', '\n', '\t', ' ', '\\', '{', '"', '\u{a0}', '\u{2028}'];
        for x in specials {
            for y in specials {
                let name = format!("a{}{}b", x, y);
                for text in [format!("{{{}}}", name), format!("{{{}}} & !{{a{}b}}", name, y), format!("x | {{{}}}\r\n", name)] {
                    emit_text(cx, prop, &text, true);
                }
            }
        }
    }
    // every constant spelling directly in front of / behind every operator spelling, with and without a gap
    {
        let consts = ["true", "TRUE", "True", "t", "T", "1", "false", "FALSE", "False", "f", "F", "0"];
        let opers = ["&", "&&", "and", "AND", "∧", "^", "*", "|", "||", "or", "OR", "∨", "v", "V", "+"];
        for c in consts {
            for o in opers {
                for gap in ["", " "] {
                    emit_text(cx, prop, &format!("{}{}{}{}a", c, gap, o, gap), true);
                    emit_text(cx, prop, &format!("a{}{}{}{}", gap, o, gap, c), true);
                    emit_text(cx, prop, &format!("(b | !{}{}{}{}a) & c", c, gap, o, gap), true);
                }
            }
        }
    }
    let names = ["a", "b", "x_10", "nota", "tv", "orb", "f-1", "andy", "T1", "signal-1", "receptor-alpha", "abcdef-g", "NF-kB_active"];
    for _ in 0..cx.scale * if cx.thorough { 200000 } else { 6000 } {
        let d = 1 + cx.rng.below(4);
        let s = sentence(&mut cx.rng, d, &names);
        emit_text(cx, prop, &s, true);
        // the same sentence over several lines: every blank, or one of them, replaced by a line break
        if cx.rng.below(4) == 0 {
            emit_text(cx, prop, &s.replace(' ', "\n"), true);
            emit_text(cx, prop, &format!("{}\n", s), true);
            if let Some(pos) = s.rfind(' ') {
                let mut t = s.clone();
                t.replace_range(pos..pos + 1, "\n");
                emit_text(cx, prop, &t, true);
            }
        }
        if cx.rng.coin() {
            let m = mutate(&mut cx.rng, &s);
            emit_text(cx, prop, &m, true);
        }
    }
}

pub fn gen_c13(cx: &mut Ctx) {
    gen_c12(cx, "C13");
    // every scalar value in five template texts (thorough: all of them; quick: the whole Basic
    // Multilingual Plane and every 17th value beyond)
    for tmpl in 0..6usize {
        let mut lo = 0u32;
        while lo < 0x110000 {
            let hi = lo + 0x1000;
            let stride = if cx.thorough || lo < 0x10000 { 1 } else { 17 };
            let args = [Arg::A(tmpl.to_string()), Arg::A(lo.to_string()), Arg::A(hi.to_string()), Arg::A(stride.to_string())];
            cx.emit("C13", "sweep", &args, true);
            lo = hi;
        }
    }
    // stack probes, each in its own process: nesting depth and the width of one operator chain
    for (shape, n) in [("paren", 300usize), ("paren", 600), ("not", 600), ("negparen", 600), ("orchain", 5000), ("orchain", 50000), ("andchain", 20000), ("mixchain", 30000)] {
        let ans = run_probe(shape, n);
        writeln!(cx.out, "C13 probe {} {} => {} ;nt", shape, n, ans).unwrap();
        cx.count += 1;
    }
    // nesting depth: balanced and unbalanced towers of parentheses and negations
    for depth in [100usize, 254, 255, 256, 257, 300, 600] {
        let open = "(".repeat(depth);
        let close = ")".repeat(depth);
        emit_text(cx, "C13", &format!("{}a{}", open, close), true);
        emit_text(cx, "C13", &format!("{}a{}", open, ")".repeat(depth - 1)), true);
        emit_text(cx, "C13", &format!("{}a | b{} & c", "!(".repeat(depth), close), true);
    }
    // byte / Unicode soup
    let soup: Vec<char> = "ab01tfv ()()(){}{}&|!~^*+-_\t\n\u{a0}\u{2003}\u{17f}\u{212a}∧∨¬é$@#".chars().collect();
    for _ in 0..cx.scale * if cx.thorough { 200000 } else { 5000 } {
        let len = cx.rng.below(14);
        let s: String = (0..len).map(|_| *cx.rng.pick(&soup)).collect();
        emit_text(cx, "C13", &s, true);
    }
    // deep nesting, each shape in a child process with a 2 MiB main-thread-equivalent stack
    let exe = std::env::current_exe().unwrap();
    let depths: &[usize] = if cx.thorough { &[100, 300, 500, 800] } else { &[300, 500] };
    for shape in ["paren", "not", "notparen"] {
        for d in depths {
            let start = std::time::Instant::now();
            let out = std::process::Command::new(&exe).arg("depth").arg(shape).arg(d.to_string()).output();
            let ok = match out {
                Ok(o) => o.status.success() && String::from_utf8_lossy(&o.stdout).trim() == "ok",
                Err(_) => false,
            };
            let fast = start.elapsed().as_secs_f64() < 5.0;
            writeln!(
                cx.out,
                "C13 forms (depth {} {}) => {} ;nt",
                shape,
                d,
                enc_bool(ok && fast)
            )
            .unwrap();
            cx.count += 1;
        }
    }
}

/// `(((…a…)))`, `!!!…a`, `!(!(…a…))` parsed on a thread with a 2 MiB stack
/// runs one probe in a child process and reports `ok`, `fail` or `abort` (killed by a signal, e.g. a
/// stack overflow, which cannot be caught in-process)
pub fn run_probe(shape: &str, n: usize) -> String {
    let exe = std::env::current_exe().expect("HARNESS: current_exe");
    match std::process::Command::new(exe).args(["depth", shape, &n.to_string()]).output() {
        Ok(out) => {
            if out.status.success() {
                String::from_utf8_lossy(&out.stdout).trim().to_string()
            } else {
                "abort".to_string()
            }
        }
        Err(_) => "abort".to_string(),
    }
}

pub fn depth_probe(shape: &str, n: usize) {
    let text = match shape {
        "paren" => format!("{}a{}", "(".repeat(n), ")".repeat(n)),
        "not" => format!("{}a", "!".repeat(n)),
        "orchain" => vec!["a"; n].join(" | "),
        "andchain" => format!("({})", vec!["a"; n].join(" & ")),
        "mixchain" => (0..n).map(|i| if i % 3 == 0 { "a & b" } else { "!c" }).collect::<Vec<_>>().join(" | "),
        _ => format!("{}a{}", "!(".repeat(n), ")".repeat(n)),
    };
    let handle = std::thread::Builder::new()
        .stack_size(2 << 20)
        .spawn(move || {
            let r = Expression::from_str(&text);
            match r {
                Ok(e) => {
                    // the result must still be the variable under n negations / groups
                    let v = BTreeMap::from([("a".to_string(), true)]);
                    use biodivine_boolean_functions::traits::Evaluate;
                    let expect = if text.contains('|') && text.contains('!') { true } else if shape_is_neg(&text) { n % 2 == 0 } else { true };
                    // drop iteratively-unsafe deep tree on this thread as well
                    let ok = e.evaluate(&v) == expect;
                    std::mem::forget(e);
                    ok
                }
                Err(_) => false,
            }
        })
        .unwrap();
    match handle.join() {
        Ok(true) => println!("ok"),
        _ => println!("fail"),
    }
}
fn shape_is_neg(text: &str) -> bool {
    text.starts_with('!')
}

// ================================================================================================
// C14: print / parse round trip

pub fn gen_c14(cx: &mut Ctx) {
    // names that are plain identifiers but start like a reserved word or a digit constant
    let tricky = ["10", "1a", "0_x", "01", "t1", "f0", "v2", "or_", "and1", "nota", "True1", "falsey", "T-", "_", "9"];
    for n in tricky.iter() {
        for e in [lit(n), !lit(n), lit(n) & lit("a"), lit("a") | lit(n), !(lit(n) & lit(n))] {
            cx.emit("C14", "roundtrip", &[Arg::F(Val::E(e.clone()))], true);
            cx.emit("C14", "print", &[Arg::F(Val::E(e))], true);
        }
    }
    // names of every length with `-`, `_`, a digit or an upper case letter at every position
    for n in name_grid() {
        for e in [lit(&n), !lit(&n), lit(&n) & lit("a"), lit("a") | !lit(&n)] {
            cx.emit("C14", "roundtrip", &[Arg::F(Val::E(e))], true);
        }
    }
    for e in crate::gen::wide_exprs(&mut cx.rng, &names(&["a", "b", "x_10"]), true) {
        cx.emit("C14", "roundtrip", &[Arg::F(Val::E(e.clone()))], true);
        cx.emit("C14", "print", &[Arg::F(Val::E(e))], true);
    }
    for e in crate::gen::shared_exprs() {
        cx.emit("C14", "roundtrip", &[Arg::F(Val::E(e.clone()))], true);
        cx.emit("C14", "print", &[Arg::F(Val::E(e))], true);
    }
    // deep trees: negation towers and alternating combs around the 8-bit boundary and beyond
    for depth in [100usize, 254, 255, 256, 257, 300, 600] {
        let mut tower = lit("a");
        let mut comb = lit("a");
        for k in 0..depth {
            tower = !tower;
            comb = if k % 2 == 0 { comb & lit("b") } else { comb | lit("x_10") };
        }
        for e in [tower, comb] {
            cx.emit("C14", "roundtrip", &[Arg::F(Val::E(e))], true);
        }
    }
    let leaves = vec![lit("a"), lit("x_10"), lit("-"), cst(true), cst(false)];
    for e in trees_up_to(if cx.thorough { 5 } else { 4 }, &leaves, 3, 1) {
        let nt = e.to_string().contains('&') && e.to_string().contains('|');
        cx.emit("C14", "roundtrip", &[Arg::F(Val::E(e.clone()))], nt);
        cx.emit("C14", "print", &[Arg::F(Val::E(e))], nt);
    }
    // realistic (long, hyphenated) names; a small pool, since the oracle enumerates the assignments
    let real = names(&["p53", "NF-kB", "signal-1", "receptor-alpha", "Cdc25-P", "ERK1_2", "Epidermal_growth_factor_receptor-active", "abcdef-g"]);
    for _ in 0..cx.scale * if cx.thorough { 10000 } else { 1000 } {
        let depth = 2 + cx.rng.below(4);
        let e = random_tree(&mut cx.rng, depth, &real, true, 2);
        if e.to_string().len() <= 4000 {
            cx.emit("C14", "roundtrip", &[Arg::F(Val::E(e))], true);
        }
    }
    let ns = names(&["a", "b", "x_10", "-", "nota", "v1", "T_", "9", "10", "1a", "0_x", "t1", "f0", "or_", "and1"]);
    for _ in 0..cx.scale * if cx.thorough { 50000 } else { 4000 } {
        let depth = 2 + cx.rng.below(if cx.thorough { 10 } else { 5 });
        let min_arity = if cx.rng.below(3) == 0 { 1 } else { 2 };
        let e = random_tree(&mut cx.rng, depth, &ns, true, min_arity);
        let txt = e.to_string();
        if txt.len() > 4000 {
            continue;
        }
        let nt = txt.contains('&') && txt.contains('|') && txt.contains('!');
        cx.emit("C14", "roundtrip", &[Arg::F(Val::E(e))], nt);
    }
}

// ================================================================================================
// C15: histories

fn pool_pick(cx: &mut Ctx, pool: &[Val], kind: usize) -> Option<Val> {
    let c: Vec<&Val> = pool
        .iter()
        .filter(|v| matches!((v, kind), (Val::E(_), 0) | (Val::T(_), 1) | (Val::B(_), 2)))
        .collect();
    if c.is_empty() {
        None
    } else {
        Some((*cx.rng.pick(&c)).clone())
    }
}

fn decode_answer(op: &str, kind: usize, ans: &str) -> Option<Val> {
    // rebuild the result object from the implementation's *own* answer is not what we want:
    // histories must keep the original objects. This is only used for expressions (values).
    let _ = (op, kind);
    let sx = parse_sexps(ans);
    sx.first().map(dec_val)
}

/// apply an operation directly (keeping the real object), mirroring `ops::run`
fn apply(op: &str, a: &[Arg]) -> Option<Val> {
    use biodivine_boolean_functions::traits::{Equality, Implication};
    std::panic::catch_unwind(std::panic::AssertUnwindSafe(|| -> Option<Val> {
        let f = |i: usize| -> Val {
            match &a[i] {
                Arg::F(v) => v.clone(),
                _ => panic!("HARNESS"),
            }
        };
        let pv = |i: usize| match &a[i] {
            Arg::V(v) => v.clone(),
            _ => panic!("HARNESS"),
        };
        let st = |i: usize| match &a[i] {
            Arg::S(v) => v.clone(),
            _ => panic!("HARNESS"),
        };
        Some(match (op, f(0)) {
            ("and", Val::E(x)) => match f(1) { Val::E(y) => Val::E(x & y), _ => return None },
            ("or", Val::E(x)) => match f(1) { Val::E(y) => Val::E(x | y), _ => return None },
            ("xor", Val::E(x)) => match f(1) { Val::E(y) => Val::E(x ^ y), _ => return None },
            ("imply", Val::E(x)) => match f(1) { Val::E(y) => Val::E(x.imply(y)), _ => return None },
            ("iff", Val::E(x)) => match f(1) { Val::E(y) => Val::E(x.iff(y)), _ => return None },
            ("and", Val::T(x)) => match f(1) { Val::T(y) => Val::T(x & y), _ => return None },
            ("or", Val::T(x)) => match f(1) { Val::T(y) => Val::T(x | y), _ => return None },
            ("xor", Val::T(x)) => match f(1) { Val::T(y) => Val::T(x ^ y), _ => return None },
            ("and", Val::B(x)) => match f(1) { Val::B(y) => Val::B(x & y), _ => return None },
            ("or", Val::B(x)) => match f(1) { Val::B(y) => Val::B(x | y), _ => return None },
            ("xor", Val::B(x)) => match f(1) { Val::B(y) => Val::B(x ^ y), _ => return None },
            ("not", Val::E(x)) => Val::E(!x),
            ("not", Val::T(x)) => Val::T(!x),
            ("not", Val::B(x)) => Val::B(!x),
            ("restrict", Val::E(x)) => Val::E(x.restrict(&pv(1))),
            ("restrict", Val::T(x)) => Val::T(x.restrict(&pv(1))),
            ("restrict", Val::B(x)) => Val::B(x.restrict(&pv(1))),
            ("exists", Val::E(x)) => Val::E(x.existential_quantification(st(1))),
            ("exists", Val::T(x)) => Val::T(x.existential_quantification(st(1))),
            ("exists", Val::B(x)) => Val::B(x.existential_quantification(st(1))),
            ("forall", Val::E(x)) => Val::E(x.universal_quantification(st(1))),
            ("forall", Val::T(x)) => Val::T(x.universal_quantification(st(1))),
            ("forall", Val::B(x)) => Val::B(x.universal_quantification(st(1))),
            ("deriv", Val::E(x)) => Val::E(x.derivative(st(1))),
            ("deriv", Val::T(x)) => Val::T(x.derivative(st(1))),
            ("deriv", Val::B(x)) => Val::B(x.derivative(st(1))),
            ("nnf", Val::E(x)) => Val::E(x.to_nnf()),
            ("cnf", Val::E(x)) => Val::E(x.to_cnf()),
            ("dnf", Val::E(x)) => Val::E(x.to_dnf()),
            ("subst", x) => {
                let m = match &a[1] {
                    Arg::M(m) => m.clone(),
                    _ => return None,
                };
                match x {
                    Val::E(x) => Val::E(x.substitute(&m.into_iter().filter_map(|(k, v)| match v { Val::E(e) => Some((k, e)), _ => None }).collect())),
                    Val::T(x) => Val::T(x.substitute(&m.into_iter().filter_map(|(k, v)| match v { Val::T(e) => Some((k, e)), _ => None }).collect())),
                    Val::B(x) => Val::B(x.substitute(&m.into_iter().filter_map(|(k, v)| match v { Val::B(e) => Some((k, e)), _ => None }).collect())),
                }
            }
            (d, v) if d.starts_with("conv.") => return run_conv(d, &v),
            _ => return None,
        })
    }))
    .ok()
    .flatten()
}

fn val_size(v: &Val) -> usize {
    match v {
        Val::E(e) => e.to_string().len(),
        Val::T(t) => t.verif_raw().1.len(),
        Val::B(b) => 1usize << b.verif_raw_inputs().len().min(20),
    }
}

pub fn gen_c15(cx: &mut Ctx) {
    let programs = cx.scale * if cx.thorough { 3000 } else { 250 };
    let steps = if cx.thorough { 50 } else { 25 };
    let universe = if cx.thorough { names(&["a", "b", "c", "d", "e", "zz"]) } else { names(&["a", "b", "c", "d", "zz"]) };
    for _ in 0..programs {
        let mut pool: Vec<Val> = vec![];
        // constructors
        for kind in 0..3 {
            let ns = random_subset(&mut cx.rng, &universe[..universe.len() - 1], 4);
            let bits = random_bits(&mut cx.rng, ns.len());
            pool.push(fn_as(kind, &ns, &bits));
        }
        pool.push(Val::E(random_tree(&mut cx.rng, 3, &universe[..3], true, 0)));
        pool.push(Val::B(Bdd::mk_const(cx.rng.coin())));
        pool.push(Val::B(Bdd::mk_literal(cx.rng.pick(&universe).clone(), cx.rng.coin())));
        if let Ok(e) = Expression::from_str(*cx.rng.pick(&["a & !b | c", "(a v b) ^ !zz", "true", "b"])) {
            pool.push(Val::E(e));
        }
        for _ in 0..steps {
            let kind = cx.rng.below(3);
            let x = match pool_pick(cx, &pool, kind) {
                Some(x) => x,
                None => continue,
            };
            let choice = cx.rng.below(12);
            let (op, args): (String, Vec<Arg>) = match choice {
                0 | 1 | 2 => {
                    let y = match pool_pick(cx, &pool, kind) {
                        Some(y) => y,
                        None => continue,
                    };
                    (s(*cx.rng.pick(&["and", "or", "xor"])), vec![Arg::F(x), Arg::F(y)])
                }
                3 => (s("not"), vec![Arg::F(x)]),
                4 => {
                    let mut v = BTreeMap::new();
                    for n in &universe {
                        if cx.rng.below(3) == 0 {
                            v.insert(n.clone(), cx.rng.coin());
                        }
                    }
                    (s("restrict"), vec![Arg::F(x), Arg::V(v)])
                }
                5 | 6 | 7 => {
                    let mut vs: BTreeSet<String> = universe.iter().filter(|_| cx.rng.below(3) == 0).cloned().collect();
                    if kind == 0 {
                        vs = vs.into_iter().take(1).collect();
                    }
                    (s(["exists", "forall", "deriv"][choice - 5]), vec![Arg::F(x), Arg::S(vs)])
                }
                8 => {
                    let mut m = BTreeMap::new();
                    for _ in 0..1 + cx.rng.below(2) {
                        let k = cx.rng.pick(&universe).clone();
                        if let Some(v) = pool_pick(cx, &pool, kind) {
                            // avoid the documented refusal most of the time
                            let mentions = match &v {
                                Val::B(b) => b.inputs().contains(&k),
                                _ => false,
                            };
                            if !mentions || cx.rng.below(10) == 0 {
                                m.insert(k, v);
                            }
                        }
                    }
                    (s("subst"), vec![Arg::F(x), Arg::M(m)])
                }
                9 => {
                    if kind == 0 {
                        (s(*cx.rng.pick(&["nnf", "cnf", "dnf"])), vec![Arg::F(x)])
                    } else {
                        (s("not"), vec![Arg::F(x)])
                    }
                }
                _ => {
                    let dirs: &[&str] = match kind {
                        0 => &["conv.ET", "conv.EB"],
                        1 => &["conv.TE", "conv.TB"],
                        _ => &["conv.BE", "conv.BT"],
                    };
                    (s(*cx.rng.pick(dirs)), vec![Arg::F(x)])
                }
            };
            // keep objects small: expressions grow quickly under xor / derivative, and the normal forms
            // of a large tree are exponential
            if args.iter().any(|a| matches!(a, Arg::F(v) if val_size(v) > 600)) {
                continue;
            }
            if matches!(op.as_str(), "cnf" | "dnf" | "nnf") && args.iter().any(|a| matches!(a, Arg::F(v) if val_size(v) > 60)) {
                continue;
            }
            let nt = match (&args[0], args.get(1)) {
                (Arg::F(a), Some(Arg::F(b))) => bits_of(a).0 != bits_of(b).0,
                (_, Some(Arg::V(v))) => !v.is_empty(),
                (_, Some(Arg::S(v))) => !v.is_empty(),
                _ => false,
            };
            cx.emit("C15", &op, &args, nt);
            if let Some(r) = apply(&op, &args) {
                if val_size(&r) <= 2000 {
                    // every semantic observation on the derived object must be that of a fresh object of
                    // the same function: the driver computes them from the function the wire carries
                    if cx.rng.below(3) == 0 && val_size(&r) <= 300 {
                        for obs in ["inputs", "essential", "degree", "essdegree", "enum"] {
                            cx.emit("C15", obs, &[Arg::F(r.clone())], true);
                        }
                        cx.emit("C15", "equiv", &[Arg::F(r.clone()), Arg::F(r.clone())], true);
                        // compared with, and evaluated like, any object of the same kind
                        let k = match &r { Val::E(_) => 0, Val::T(_) => 1, Val::B(_) => 2 };
                        if let Some(other) = pool_pick(cx, &pool, k) {
                            cx.emit("C15", "equiv", &[Arg::F(r.clone()), Arg::F(other.clone())], true);
                            cx.emit("C15", "implied", &[Arg::F(r.clone()), Arg::F(other.clone())], true);
                            cx.emit("C15", "implied", &[Arg::F(other), Arg::F(r.clone())], true);
                        }
                        let mut v = BTreeMap::new();
                        for n in &universe {
                            if cx.rng.below(2) == 0 {
                                v.insert(n.clone(), cx.rng.coin());
                            }
                        }
                        let dflt = cx.rng.coin();
                        cx.emit("C15", "eval", &[Arg::F(r.clone()), Arg::V(v.clone()), Arg::O(dflt)], true);
                        cx.emit("C15", "evalc", &[Arg::F(r.clone()), Arg::V(v)], true);
                    }
                    pool.push(r);
                }
            }
        }
    }
    let _ = decode_answer;
}

// ================================================================================================
// C16 – C18

const FMTS: [&str; 4] = ["Number", "Character", "Word", "CapitalizedWord"];
const STYLES: [&str; 4] = ["Ascii", "Modern", "Markdown", "Empty"];

fn spell(rng: &mut Rng, b: bool, scheme: usize) -> &'static str {
    let t = ["1", "T", "true", "True"];
    let f = ["0", "F", "false", "False"];
    let i = if scheme < 4 { scheme } else { rng.below(4) };
    if b {
        t[i]
    } else {
        f[i]
    }
}

fn permutations(n: usize) -> Vec<Vec<usize>> {
    if n == 0 {
        return vec![vec![]];
    }
    let mut out = vec![];
    for p in permutations(n - 1) {
        for pos in 0..=p.len() {
            let mut q = p.clone();
            q.insert(pos, n - 1);
            out.push(q);
        }
    }
    out
}

/// CSV text of the table `bits` over `ns` with the given column / row order
fn csv_text(rng: &mut Rng, ns: &[String], bits: &[bool], cols: &[usize], rows: &[usize], header: bool, scheme: usize) -> String {
    let n = ns.len();
    let mut lines: Vec<String> = vec![];
    if header {
        let mut h: Vec<String> = cols.iter().map(|c| ns[*c].clone()).collect();
        h.push(s("out"));
        lines.push(h.join(","));
    }
    for r in rows {
        let mut cells: Vec<String> = cols
            .iter()
            .map(|c| s(spell(rng, (r >> (n - 1 - c)) & 1 == 1, scheme)))
            .collect();
        cells.push(s(spell(rng, bits[*r], scheme)));
        lines.push(cells.join(","));
    }
    lines.join("\n") + if rng.coin() { "\n" } else { "" }
}

fn emit_csv(cx: &mut Ctx, text: &str, nt: bool) {
    cx.emit("C16", "csv.from", &[Arg::X(text.to_string())], nt);
    cx.emit("C16", "csv.file", &[Arg::X(text.to_string())], nt);
}

pub fn gen_c16(cx: &mut Ctx) {
    let mut bases: Vec<String> = vec![];
    for ns in [names(&[]), names(&["a"]), names(&["b", "a"]), names(&["x_1", "x_0"])] {
        let n = ns.len();
        let mut sorted = ns.clone();
        sorted.sort();
        for bits in all_functions(n) {
            for cols in permutations(n) {
                for rows in permutations(1 << n) {
                    for header in [true, false] {
                        for scheme in 0..5 {
                            if scheme >= 1 && cx.rng.below(3) != 0 {
                                continue;
                            }
                            let text = csv_text(&mut cx.rng, &ns, &bits, &cols, &rows, header, scheme);
                            let permuted = cols.windows(2).any(|w| w[0] > w[1]) || rows.windows(2).any(|w| w[0] > w[1]);
                            let nt = permuted && bits[rows[0]];
                            emit_csv(cx, &text, nt);
                            if bases.len() < 200 && cx.rng.below(20) == 0 {
                                bases.push(text);
                            }
                        }
                    }
                }
            }
        }
    }
    // the quoted dialect: every cell quoted; names with a delimiter, a line break or an (escaped) quote
    // inside; and the same with as many data records removed as there are embedded line breaks (the
    // importer counts lines of the raw text)
    for ns in [names(&["a"]), names(&["a", "b"]), names(&["c", "a", "b"])] {
        let n = ns.len();
        for _ in 0..if cx.thorough { 40 } else { 8 } {
            let bits = random_bits(&mut cx.rng, n);
            let q = |x: &str| format!("\"{}\"", x.replace('"', "\"\""));
            let row = |r: usize, quoted: bool| -> String {
                let mut cells: Vec<String> = (0..n).map(|c| if (r >> (n - 1 - c)) & 1 == 1 { s("1") } else { s("0") }).collect();
                cells.push(if bits[r] { s("1") } else { s("0") });
                if quoted { cells.iter().map(|c| q(c)).collect::<Vec<_>>().join(",") } else { cells.join(",") }
            };
            let rows_all: Vec<usize> = (0..1usize << n).collect();
            for special in ["", ",", "\n", "\r\n", "\"", "\n\n", " "] {
                let mut hdr: Vec<String> = ns.iter().map(|x| x.clone()).collect();
                hdr[0] = format!("{}{}x", hdr[0], special);
                let header_q = hdr.iter().map(|x| q(x)).chain([q("out")]).collect::<Vec<_>>().join(",");
                let breaks = special.matches('\n').count();
                for drop in [0usize, breaks] {
                    for quote_rows in [false, true] {
                        let kept: Vec<usize> = rows_all.iter().cloned().skip(drop.min(rows_all.len())).collect();
                        let mut text = header_q.clone();
                        for r in &kept {
                            text.push('\n');
                            text.push_str(&row(*r, quote_rows));
                        }
                        emit_csv(cx, &text, true);
                        emit_csv(cx, &format!("{}\n", text), true);
                    }
                }
            }
            // an unterminated quote (outside the model: no panic)
            emit_csv(cx, &format!("\"{}\n{}", ns[0], row(0, false)), true);
        }
    }
    // headers made of the importer's own default names, in other columns
    for ns in [names(&["x_1", "x_2"]), names(&["x_1", "y"]), names(&["p", "x_3", "x_4", "z"]), names(&["x_2", "x_0", "x_1"]),
               names(&["x", "x_"]), names(&["_a", "a"]), names(&["n", "n-"]), names(&["_", "__"]), names(&["-a", "a", "a-"])] {
        let bits = random_bits(&mut cx.rng, ns.len());
        let cols: Vec<usize> = (0..ns.len()).collect();
        let rows: Vec<usize> = (0..1usize << ns.len()).collect();
        let text = csv_text(&mut cx.rng, &ns, &bits, &cols, &rows, true, 0);
        emit_csv(cx, &text, true);
    }
    // names that differ only in letter case are different names
    for ns in [names(&["A", "a"]), names(&["X1", "b", "x1"]), names(&["p53", "P53"]), names(&["É", "é"])] {
        let bits = random_bits(&mut cx.rng, ns.len());
        let cols: Vec<usize> = (0..ns.len()).collect();
        let rows: Vec<usize> = (0..1usize << ns.len()).collect();
        let text = csv_text(&mut cx.rng, &ns, &bits, &cols, &rows, true, 0);
        emit_csv(cx, &text, true);
    }
    // arity x name length: headers of long names on wide files
    for (arity, len) in [(1usize, 13usize), (3, 13), (3, 40), (6, 12), (6, 13), (6, 40), (8, 13), (9, 12), (9, 13), (9, 14), (10, 20)] {
        let ns = sized_names(arity, len);
        let bits = random_bits(&mut cx.rng, ns.len());
        let cols: Vec<usize> = (0..ns.len()).rev().collect();
        let rows: Vec<usize> = (0..1usize << ns.len()).collect();
        for header in [true, false] {
            let text = csv_text(&mut cx.rng, &ns, &bits, &cols, &rows, header, 0);
            emit_csv(cx, &text, true);
        }
    }
    // three variables: sampled permutations
    let ns3 = names(&["c", "a", "b"]);
    for _ in 0..cx.scale * if cx.thorough { 20000 } else { 1200 } {
        let bits = random_bits(&mut cx.rng, 3);
        let mut cols: Vec<usize> = (0..3).collect();
        let mut rows: Vec<usize> = (0..8).collect();
        for i in (1..3).rev() {
            cols.swap(i, cx.rng.below(i + 1));
        }
        for i in (1..8).rev() {
            rows.swap(i, cx.rng.below(i + 1));
        }
        let header = cx.rng.coin();
        let scheme = cx.rng.below(5);
        let text = csv_text(&mut cx.rng, &ns3, &bits, &cols, &rows, header, scheme);
        emit_csv(cx, &text, bits[rows[0]]);
        if bases.len() < 400 && cx.rng.below(4) == 0 {
            bases.push(text);
        }
    }
    // single-fault mutations of base files
    let bases2 = bases.clone();
    for base in bases2.iter().take(if cx.thorough { 400 } else { 200 }) {
        let lines: Vec<&str> = base.trim_end_matches('\n').split('\n').collect();
        let mut variants: Vec<String> = vec![];
        for i in 0..lines.len() {
            // drop a line, duplicate a line, blank line before it
            let mut l = lines.clone();
            l.remove(i);
            variants.push(l.join("\n"));
            let mut l = lines.clone();
            l.insert(i, lines[i]);
            variants.push(l.join("\n"));
            let mut l = lines.clone();
            l.insert(i, "");
            variants.push(l.join("\n"));
            // drop / add / corrupt a cell
            let cells: Vec<&str> = lines[i].split(',').collect();
            if cells.len() > 1 {
                let mut c = cells.clone();
                c.remove(cx.rng.below(cells.len()));
                let mut l: Vec<String> = lines.iter().map(|x| x.to_string()).collect();
                l[i] = c.join(",");
                variants.push(l.join("\n"));
            }
            let mut c = cells.clone();
            c.push("1");
            let mut l: Vec<String> = lines.iter().map(|x| x.to_string()).collect();
            l[i] = c.join(",");
            variants.push(l.join("\n"));
            let mut c: Vec<String> = cells.iter().map(|x| x.to_string()).collect();
            let k = cx.rng.below(c.len());
            c[k] = s(*cx.rng.pick(&["2", "x", "TRUE", "", " 1", "t", "yes"]));
            let mut l: Vec<String> = lines.iter().map(|x| x.to_string()).collect();
            l[i] = c.join(",");
            variants.push(l.join("\n"));
        }
        // move a character across a comma inside one record: the record keeps its length and its
        // characters, two cells stop being Boolean spellings (`0,1` -> `,01` / `01,`)
        for i in 0..lines.len() {
            let cells: Vec<&str> = lines[i].split(',').collect();
            for k in 0..cells.len().saturating_sub(1) {
                for left in [true, false] {
                    let mut c: Vec<String> = cells.iter().map(|x| x.to_string()).collect();
                    if left {
                        let moved = c[k + 1].clone();
                        c[k].push_str(&moved);
                        c[k + 1].clear();
                    } else {
                        let moved = c[k].clone();
                        c[k + 1] = format!("{}{}", moved, c[k + 1]);
                        c[k].clear();
                    }
                    let mut l: Vec<String> = lines.iter().map(|x| x.to_string()).collect();
                    l[i] = c.join(",");
                    variants.push(l.join("\n"));
                }
            }
        }
        // replace one data row by a copy of another (count stays right, a combination is missing)
        if lines.len() >= 3 {
            let mut l = lines.clone();
            let last = l.len() - 1;
            l[last] = lines[last - 1];
            variants.push(l.join("\n"));
        }
        // two faults that cancel in the line count: a data row dropped, a blank line added
        if lines.len() >= 3 {
            let mut l = lines.clone();
            l.remove(l.len() - 1);
            l.insert(1, "");
            variants.push(l.join("\n"));
            let mut l = lines.clone();
            l.remove(1);
            l.insert(l.len() - 1, "");
            variants.push(l.join("\n"));
        }
        // record terminators: CRLF everywhere, one bare CR, a CR at the very end
        variants.push(lines.join("\r\n"));
        variants.push(format!("{}\r\n", lines.join("\r\n")));
        if lines.len() >= 2 {
            let k = 1 + cx.rng.below(lines.len() - 1);
            let mut t = lines[..k].join("\n");
            t.push('\r');
            t.push_str(&lines[k..].join("\n"));
            variants.push(t);
        }
        variants.push(format!("{}\r", lines.join("\n")));
        // a surplus record hidden behind a bare CR (the `\n` line count stays right): a copy of
        // another data row, and a copy of the same row
        if lines.len() >= 2 {
            let i = lines.len() - 1 - cx.rng.below(lines.len() - 1);
            let j = lines.len() - 1 - cx.rng.below(lines.len() - 1);
            let mut l: Vec<String> = lines.iter().map(|x| x.to_string()).collect();
            l[i] = format!("{}\r{}", lines[i], lines[j]);
            variants.push(l.join("\n"));
            let mut l: Vec<String> = lines.iter().map(|x| x.to_string()).collect();
            l[i] = format!("{}\r{}", lines[j], lines[i]);
            variants.push(l.join("\n"));
        }
        variants.push(format!("\n{}", base));
        variants.push(format!("{}\n\n", base.trim_end_matches('\n')));
        variants.push(format!("{}\n \n", base.trim_end_matches('\n')));
        // the output column labelled like one of the inputs (a legal header: only input names must differ)
        {
            let h: Vec<&str> = lines[0].split(',').collect();
            if h.len() >= 2 && h.iter().any(|c| !["0", "1", "T", "F", "true", "false", "True", "False"].contains(c)) {
                let mut h2 = h.clone();
                let last = h2.len() - 1;
                h2[last] = h[cx.rng.below(last)];
                let mut l: Vec<String> = lines.iter().map(|x| x.to_string()).collect();
                l[0] = h2.join(",");
                variants.push(l.join("\n"));
            }
        }
        // duplicate a header name
        let first: Vec<&str> = lines[0].split(',').collect();
        if first.len() >= 3 {
            let mut h = first.clone();
            h[1] = h[0];
            let mut l: Vec<String> = lines.iter().map(|x| x.to_string()).collect();
            l[0] = h.join(",");
            variants.push(l.join("\n"));
        }
        for v in variants {
            emit_csv(cx, &v, true);
        }
    }
    // 64 and more columns
    for cols in [63usize, 64, 65, 70] {
        let header: Vec<String> = (0..cols).map(|i| format!("v{}", i)).chain(std::iter::once(s("r"))).collect();
        let row: Vec<String> = (0..=cols).map(|_| s("0")).collect();
        emit_csv(cx, &format!("{}\n{}\n", header.join(","), row.join(",")), true);
        emit_csv(cx, &format!("{}\n", row.join(",")), true);
    }
    // random text, inside and outside the modelled dialect
    let soup: Vec<char> = "01TFtruefals,,,,\n\n\n ab_x\"\r;\t".chars().collect();
    for _ in 0..cx.scale * if cx.thorough { 40000 } else { 2000 } {
        let len = cx.rng.below(24);
        let t: String = (0..len).map(|_| *cx.rng.pick(&soup)).collect();
        emit_csv(cx, &t, true);
    }
    emit_csv(cx, "", false);
}

fn table_name_sets(thorough: bool) -> Vec<Vec<String>> {
    let mut v = vec![names(&[]), names(&["a"]), names(&["a", "b"]), names(&["a", "b", "c"])];
    if thorough {
        v.push(names(&["a", "b", "c", "d"]));
    }
    v
}

pub fn gen_c17(cx: &mut Ctx) {
    for ns in table_name_sets(cx.thorough) {
        for bits in all_functions(ns.len()) {
            if ns.len() >= 4 && cx.rng.below(32) != 0 {
                continue;
            }
            let t = fn_as(1, &ns, &bits);
            let nt = !is_constant(&bits);
            for fi in FMTS {
                for fo in FMTS {
                    cx.emit("C17", "csv.to", &[Arg::F(t.clone()), Arg::A(s(fi)), Arg::A(s(fo))], nt);
                    cx.emit("C17", "csv.round", &[Arg::F(t.clone()), Arg::A(s(fi)), Arg::A(s(fo))], nt);
                }
            }
        }
    }
    // every arity from 0 to 9 (a size ladder with holes misses "exactly 64 rows")
    for n in 0..=9usize {
        let ns: Vec<String> = (0..n).map(|i| format!("w{}", i)).collect();
        for _ in 0..3 {
            let bits = random_bits(&mut cx.rng, n);
            let t = fn_as(1, &ns, &bits);
            let fi = *cx.rng.pick(&FMTS);
            let fo = *cx.rng.pick(&FMTS);
            cx.emit("C17", "csv.to", &[Arg::F(t.clone()), Arg::A(s(fi)), Arg::A(s(fo))], true);
            cx.emit("C17", "csv.round", &[Arg::F(t), Arg::A(s(fi)), Arg::A(s(fo))], true);
        }
    }
    // arity x name length (either alone is covered above; a header helper may treat wide tables or
    // long names specially)
    for arity in [1usize, 2, 3, 6, 8, 9, 10] {
        for len in [1usize, 6, 7, 11, 12, 13, 14, 20, 40] {
            let ns = sized_names(arity, len);
            let bits = random_bits(&mut cx.rng, ns.len());
            let t = fn_as(1, &ns, &bits);
            let fi = *cx.rng.pick(&FMTS);
            let fo = *cx.rng.pick(&FMTS);
            cx.emit("C17", "csv.to", &[Arg::F(t.clone()), Arg::A(s(fi)), Arg::A(s(fo))], true);
            cx.emit("C17", "csv.round", &[Arg::F(t), Arg::A(s(fi)), Arg::A(s(fo))], true);
        }
    }
    // other identifier names
    for ns in [
        names(&["A", "a"]), names(&["X1", "b", "x1"]), names(&["Cdc20", "cdc20", "p53", "P53"]), names(&["É", "é"]), names(&["ß", "SS", "ss"]),
        names(&["x_1", "x_2"]), names(&["x_1", "y"]), names(&["p", "x_3", "x_4", "z"]), names(&["x_2", "x_1", "x_0"]), names(&["x_5", "y"]),
        // names with white space at their edges (the text is trimmed for counting lines; the reader must
        // still see it as written), and with quotes / backslashes
        names(&[" a"]), names(&[" a", "b"]), names(&["\ta", "b"]), names(&["\u{a0}b"]), names(&["a ", "b"]), names(&["b", "z "]),
        names(&["x", "x'"]), names(&["a\\b", "c"]),
        // names that differ only in leading / trailing punctuation, or are punctuation only
        names(&["x", "x_"]), names(&["_a", "a"]), names(&["n", "n-"]), names(&["_", "__"]), names(&["-a", "a", "a-", "a_"]), names(&["-", "--", "_-"]),
        names(&["x_0", "x_1", "x_10", "x_2", "x_3", "x_4", "x_5", "x_6", "x_7", "x_8", "x_9"]),
        names(&["x_0", "x_1"]), names(&["B", "aa", "é"]), names(&["out", "result"]),
        names(&["F"]), names(&["T", "a"]), names(&["0", "1"]), names(&["False", "true", "z"]), names(&["a", "f"]),
        names(&["p", "q", "r", "s", "t"]), names(&["v1", "v2", "v3", "v4", "v5", "v6", "v7"]),
    ] {
        for _ in 0..20 {
            let bits = random_bits(&mut cx.rng, ns.len());
            let mut sorted = ns.clone();
            sorted.sort();
            let t = fn_as(1, &sorted, &bits);
            let fi = *cx.rng.pick(&FMTS);
            let fo = *cx.rng.pick(&FMTS);
            cx.emit("C17", "csv.to", &[Arg::F(t.clone()), Arg::A(s(fi)), Arg::A(s(fo))], true);
            cx.emit("C17", "csv.round", &[Arg::F(t), Arg::A(s(fi)), Arg::A(s(fo))], true);
        }
    }
}

pub fn gen_c18(cx: &mut Ctx) {
    gen_c18_wide(cx);
    // tables over numbers: the header follows the order of the inputs, not of their text
    {
        let ns = names(&["a", "b", "c", "d"]);
        for _ in 0..40 {
            let e = random_tree(&mut cx.rng, 3, &ns, false, 1);
            for st in STYLES {
                let fi = *cx.rng.pick(&FMTS);
                let fo = *cx.rng.pick(&FMTS);
                cx.emit("C18", "render.typed", &[Arg::F(Val::E(e.clone())), Arg::A(s(st)), Arg::A(s(fi)), Arg::A(s(fo))], true);
            }
        }
    }
    let mut sets = table_name_sets(cx.thorough);
    sets.push(names(&["averyveryverylongname", "x_10", "é"]));
    sets.push(names(&["B", "aa"]));
    sets.push(names(&["x", "x'"]));
    sets.push(names(&["a\"b", "c"]));
    sets.push(names(&["a\\b"]));
    sets.push(names(&["e\u{301}", "f"]));
    sets.push(names(&["alpha", "žár"]));
    sets.push(names(&["abcdef", "日本"]));
    sets.push(names(&["abcde", "éé"]));
    sets.push(names(&["résultat", "ab"]));
    sets.push(names(&["long_name", "ñ", "x"]));
    sets.push(names(&["true"]));
    sets.push(names(&["false", "x"]));
    sets.push(names(&["False", "True"]));
    sets.push(names(&["F", "T"]));
    sets.push(names(&["0", "1"]));
    sets.push(names(&["result"]));
    sets.push(names(&["A", "a"]));
    sets.push(names(&["変数", "ｘ"]));
    sets.push(names(&["e\u{301}", "遺伝子ａ"]));
    sets.push(names(&["p", "q", "r", "s"]));
    sets.push(names(&["p", "q", "r", "s", "t"]));
    sets.push(names(&["p", "q", "r", "s", "t", "u"]));
    for ns in sets {
        let mut sorted = ns.clone();
        sorted.sort();
        // every function up to three inputs (a quarter of them at three), a few random ones above
        let functions: Vec<Vec<bool>> = if sorted.len() <= 3 {
            all_functions(sorted.len())
        } else {
            (0..4).map(|_| random_bits(&mut cx.rng, sorted.len())).collect()
        };
        for bits in functions {
            if sorted.len() == 3 && cx.rng.below(4) != 0 {
                continue;
            }
            let t = fn_as(1, &sorted, &bits);
            let nt = !is_constant(&bits);
            for st in STYLES {
                for fi in FMTS {
                    for fo in FMTS {
                        cx.emit("C18", "render", &[Arg::F(t.clone()), Arg::A(s(st)), Arg::A(s(fi)), Arg::A(s(fo))], nt);
                    }
                }
            }
            // Display == Empty / Word / Word
            if let Val::T(tt) = &t {
                let rendered = tt.to_string_formatted(
                    crate::ops::style_of("Empty"),
                    crate::ops::fmt_of("Word"),
                    crate::ops::fmt_of("Word"),
                );
                cx.emit("C18", "display", &[Arg::F(t.clone()), Arg::X(rendered)], nt);
            }
        }
    }
}

/// arity x name length: the total width of a rendering (framed styles may fold or clip wide tables)
fn gen_c18_wide(cx: &mut Ctx) {
    let grid: &[(usize, usize)] = if cx.thorough {
        &[(1, 188), (1, 200), (2, 100), (3, 70), (6, 30), (6, 34), (6, 40), (9, 13), (9, 22), (10, 20), (13, 13), (13, 14)]
    } else {
        &[(1, 200), (3, 70), (6, 34), (6, 40), (9, 13), (10, 20), (13, 13)]
    };
    for (arity, len) in grid {
        let ns = sized_names(*arity, *len);
        let bits = random_bits(&mut cx.rng, ns.len());
        let t = fn_as(1, &ns, &bits);
        for st in STYLES {
            for (fi, fo) in [("Number", "Word"), ("CapitalizedWord", "Character")] {
                cx.emit("C18", "render", &[Arg::F(t.clone()), Arg::A(s(st)), Arg::A(s(fi)), Arg::A(s(fo))], true);
            }
        }
    }
}

// ================================================================================================
// C20: determinism digests. Prints `<case head> => <fnv of the full observable result>`.

pub fn gen_c20(cx: &mut Ctx) {
    // a fixed corpus of calls; the order of independent calls is shuffled by the seed (VERIF_ORDER)
    let order_seed: u64 = std::env::var("VERIF_ORDER").ok().and_then(|s| s.parse().ok()).unwrap_or(0);
    let universe = names(&["a", "b", "c", "d"]);
    let mut calls: Vec<(String, Vec<Arg>)> = vec![];
    let mut rng = Rng::new(20200);
    let wide = names(&["k", "p1", "p2", "q", "r_1", "s", "t9", "u", "w"]);
    for round in 0..cx.scale * if cx.thorough { 3000 } else { 600 } {
        let kind = rng.below(3);
        // every sixth round works over nine names (hash orders of larger sets differ far more often)
        let big = round % 6 == 5;
        let universe = if big { wide.clone() } else { universe.clone() };
        let na = if big { let mut x = random_subset(&mut rng, &universe, 9); if x.len() < 6 { x = universe.clone(); } x } else { random_subset(&mut rng, &universe, 4) };
        let ba = random_bits(&mut rng, na.len());
        let x = fn_as(kind, &na, &ba);
        let nb = random_subset(&mut rng, &universe, 3);
        let bb = random_bits(&mut rng, nb.len());
        let y = fn_as(kind, &nb, &bb);
        let vs: BTreeSet<String> = universe.iter().filter(|_| rng.below(3) == 0).take(if kind == 0 { 1 } else { 4 }).cloned().collect();
        // operations the other families do not reach: normal forms and the parser on a random tree,
        // implication, the remaining conversions, CSV and rendering
        let tree = random_tree(&mut rng, if big { 5 } else { 3 }, &universe, false, 1);
        if tree.to_string().len() < 600 {
            calls.push((s(*rng.pick(&["nnf", "cnf", "dnf"])), vec![Arg::F(Val::E(tree.clone()))]));
            calls.push((s("parse"), vec![Arg::X(tree.to_string())]));
            calls.push((s("essential"), vec![Arg::F(Val::E(tree.clone()))]));
        }
        calls.push((s("implied"), vec![Arg::F(x.clone()), Arg::F(y.clone())]));
        // shared nodes and sparse assignments: equal arguments, equal results (error payloads included)
        if round % 3 == 2 {
            let sh = crate::gen::shared_exprs();
            let e = rng.pick(&sh).clone();
            let mut v = BTreeMap::new();
            for n in ["a", "b", "c", "d"] {
                if rng.below(2) == 0 {
                    v.insert(s(n), rng.coin());
                }
            }
            calls.push((s("evalc.own"), vec![Arg::F(Val::E(e)), Arg::V(v)]));
        }
        // near-identical texts (layout, letter case, inside and outside braces): a memo with a lossy key
        // answers one of them with the other's result, depending on which came first
        if round % 4 == 1 {
            let group: &[&str] = *rng.pick(&[
                &["{cell cycle} & b", "{cell  cycle} & b", "{cell   cycle} & b", "{cell\tcycle} & b", " {cell cycle} & b ", "{cell cycle}  &  b"][..],
                &["{a b}", "{a  b}", "{A b}", "{a b }", "{ a b}", "{a\u{a0}b}"][..],
                &["a & b", "a  &  b", "A & b", "a&b", "a AND b", "a and b", " a & b"][..],
                &["x_1 | !y", "x_1|!y", "X_1 | !y", "x_1 | ! y", "x_1 | NOT y", "x_1 | !Y"][..],
                &["{p-q} | {P-q}", "{p-q}  |  {P-q}", "{p -q} | {P-q}", "{P-q} | {p-q}"][..],
            ]);
            for t in group {
                calls.push((s("parse"), vec![Arg::X(t.to_string())]));
                calls.push((s("tokens"), vec![Arg::X(t.to_string())]));
            }
        }
        // the by-value connectives under different ownership of the operand handles (who else holds the
        // operand is not part of its value): operands with every kind of root
        {
            let t1 = random_tree(&mut rng, 2, &universe, true, 2);
            let t2 = random_tree(&mut rng, 2, &universe, true, 2);
            let both = *rng.pick(&["and.own", "or.own", "xor.own", "imply.own", "iff.own"]);
            if t1.to_string().len() + t2.to_string().len() < 600 {
                calls.push((s(both), vec![Arg::F(Val::E(t1)), Arg::F(Val::E(t2))]));
            }
            let pick2 = |rng: &mut Rng| -> Vec<crate::E> { let mut v = vec![]; for _ in 0..2 + rng.below(2) { v.push(lit(rng.pick(&universe[..]).as_str())); } v };
            let (l, r) = (pick2(&mut rng), pick2(&mut rng));
            let (l, r) = if rng.coin() { (Expression::n_ary_and(&l), Expression::n_ary_and(&r)) } else { (Expression::n_ary_or(&l), Expression::n_ary_or(&r)) };
            calls.push((s(*rng.pick(&["and.own", "or.own", "xor.own"])), vec![Arg::F(Val::E(l)), Arg::F(Val::E(r))]));
        }
        // enumerations that are consumed only partly leave whatever they cache behind them
        if kind == 1 {
            for _ in 0..3 {
                calls.push((s("row"), vec![Arg::F(if rng.coin() { x.clone() } else { y.clone() }), Arg::A(rng.below(5).to_string())]));
            }
        }
        calls.push((s("satpoint"), vec![Arg::F(x.clone())]));
        calls.push((s("satpoint"), vec![Arg::F(y.clone())]));
        calls.push((s("dom.first"), vec![Arg::F(x.clone()), Arg::A((1 + rng.below(3)).to_string())]));
        calls.push((s("rel.nth"), vec![Arg::F(y.clone()), Arg::A(rng.below(4).to_string())]));
        calls.push((s("rel.nth"), vec![Arg::F(x.clone()), Arg::A(rng.below(5).to_string())]));
        // error values are results too: several repeated header names, several missing inputs,
        // several faults in one text
        if round % 3 == 0 {
            let hdr = *rng.pick(&["a,b,b,a,out", "c,a,b,c,a,b,r", "x,y,z,y,x,z,w,w,out", "q,q,p,p"]);
            calls.push((s("csv.from"), vec![Arg::X(format!("{}\n{}\n", hdr, hdr.split(',').map(|_| "0").collect::<Vec<_>>().join(",")))]));
            calls.push((s("csv.from"), vec![Arg::X(s(*rng.pick(&["a,r\n0,1\n0,0\n", "a,b,r\n1,x,0\n", "0,1\n0,0\n1\n", "a,a\n"])))]));
            // several different faults in ONE record / line: which one is reported must not depend on anything
            calls.push((s("csv.from"), vec![Arg::X(s(*rng.pick(&[
                "a,b,r\nyes,no,0\n0,1,1\n1,0,1\n1,1,0\n", "x,y,z,out\nmaybe,1,nope,0\n", "c,b,a,r\nTRUE,FALSE,tru,0\n", "p,q,r,s,t,out\n0,on,off,2,3,1\n",
                "b,a,r\n0,0,0\n0,1,1\nja,nein,1\n1,1,0\n", "a,b,c,d,e,f,g,out\nA,B,C,D,E,F,G,1\n",
            ])))]));
            calls.push((s("parse"), vec![Arg::X(s(*rng.pick(&["a & ", "(a | b", "a b c", "{} | {}", "a ) ( b", "$ & #"])))]));
            let e5 = random_tree(&mut rng, 3, &wide, false, 2);
            calls.push((s("evalc"), vec![Arg::F(Val::E(e5)), Arg::V(BTreeMap::new())]));
        }
        if kind == 1 {
            calls.push((s("conv.TE"), vec![Arg::F(x.clone())]));
            calls.push((s("csv.to"), vec![Arg::F(x.clone()), Arg::A(s("Word")), Arg::A(s("Number"))]));
            if !big {
                calls.push((s("render"), vec![Arg::F(x.clone()), Arg::A(s(*rng.pick(&["Ascii", "Modern", "Markdown", "Empty"]))), Arg::A(s("Character")), Arg::A(s("CapitalizedWord"))]));
            }
        }
        if kind == 0 && !big {
            calls.push((s("conv.ET"), vec![Arg::F(x.clone())]));
        }
        let mut v = BTreeMap::new();
        for n in &universe {
            if rng.below(3) == 0 {
                v.insert(n.clone(), rng.coin());
            }
        }
        calls.push((s("enum"), vec![Arg::F(x.clone())]));
        calls.push((s(*rng.pick(&["and", "or", "xor"])), vec![Arg::F(x.clone()), Arg::F(y.clone())]));
        calls.push((s("restrict"), vec![Arg::F(x.clone()), Arg::V(v)]));
        calls.push((s(*rng.pick(&["exists", "forall", "deriv"])), vec![Arg::F(x.clone()), Arg::S(vs)]));
        calls.push((s("essential"), vec![Arg::F(x.clone())]));
        calls.push((s("equiv"), vec![Arg::F(x.clone()), Arg::F(y.clone())]));
        if kind == 2 {
            calls.push((s("conv.BE"), vec![Arg::F(x.clone())]));
            calls.push((s("conv.BT"), vec![Arg::F(x.clone())]));
        }
        if kind == 0 {
            calls.push((s("conv.EB"), vec![Arg::F(x.clone())]));
            calls.push((s("print"), vec![Arg::F(x.clone())]));
        }
        if kind == 1 {
            calls.push((s("display"), vec![Arg::F(x.clone())]));
        }
        let mut m = BTreeMap::new();
        m.insert(s("a"), y.clone());
        if !matches!(&y, Val::B(b) if b.inputs().contains("a")) {
            calls.push((s("subst"), vec![Arg::F(x.clone()), Arg::M(m.clone())]));
            // two keys whose replacements mention each other's key: the order in which an implementation
            // walks the keys must not show
            let mut m2 = m.clone();
            m2.insert(s("b"), fn_as(kind, &names(&["a"]), &[false, true]));
            calls.push((s("subst"), vec![Arg::F(x.clone()), Arg::M(m2)]));
        }
        {
            let mut swap = BTreeMap::new();
            swap.insert(s("a"), fn_as(kind, &names(&["b"]), &[false, true]));
            swap.insert(s("b"), fn_as(kind, &names(&["a"]), &[false, true]));
            calls.push((s("subst"), vec![Arg::F(x), Arg::M(swap)]));
        }
    }
    // shuffle the order of the (independent) calls
    let mut idx: Vec<usize> = (0..calls.len()).collect();
    if order_seed != 0 {
        let mut r2 = Rng::new(order_seed);
        for i in (1..idx.len()).rev() {
            idx.swap(i, r2.below(i + 1));
        }
    }
    let mut results: Vec<(usize, String)> = vec![];
    for i in idx {
        let (op, args) = &calls[i];
        // every other call runs bare, directly after whatever the shuffled order put before it: observing
        // the operands first would bring any hidden per-thread state into the same condition every time
        let watched = i % 2 == 0;
        let before: Vec<String> = if watched { args.iter().map(observe).collect() } else { vec![] };
        let r1 = crate::ops::run(op, args);
        let r1d = if watched { format!("{}|{}", r1, debug_of(op, args)) } else { r1.clone() };
        let r2 = crate::ops::run(op, args);
        let r2d = if watched { format!("{}|{}", r2, debug_of(op, args)) } else { r2.clone() };
        let after: Vec<String> = if watched { args.iter().map(observe).collect() } else { vec![] };
        // equal arguments, equal results: the three ownership variants of one call must coincide
        let variants_equal = if op == "evalc.own" {
            match (&args[0], &args[1]) {
                (Arg::F(Val::E(x)), Arg::V(v)) => {
                    let [p, q] = crate::ops::evalc_own(x, v);
                    p == q
                }
                _ => true,
            }
        } else if op.ends_with(".own") {
            match (&args[0], &args[1]) {
                (Arg::F(Val::E(x)), Arg::F(Val::E(y))) => {
                    let [a, b, c] = crate::ops::own_variants(op, x, y);
                    let t = |e: &crate::E| format!("{:?}|{}", e, e);
                    t(&a) == t(&b) && t(&b) == t(&c)
                }
                _ => true,
            }
        } else {
            true
        };
        let pure = before == after && r1d == r2d && variants_equal;
        results.push((i, format!("{} {}", fnv(&r1d), enc_bool(pure))));
    }
    results.sort();
    for (i, r) in results {
        let (op, args) = &calls[i];
        let head: Vec<String> = args.iter().map(enc_arg).collect();
        let nt = true;
        writeln!(cx.out, "C20 digest {} {} {} => {} ;{}", i, op, fnv(&head.join(" ")), r, if nt { "nt" } else { "tr" }).unwrap();
        cx.count += 1;
    }
}

/// everything observable on an argument (Debug text of the real object included)
fn observe(a: &Arg) -> String {
    match a {
        Arg::F(Val::E(e)) => format!("{:?}|{}", e, e),
        Arg::F(Val::T(t)) => format!("{:?}|{}", t, t),
        Arg::F(Val::B(b)) => format!("{:?}|{}", b, enc_bdd(b)),
        other => enc_arg(other),
    }
}

/// Debug rendering of the result object itself (node order of BDDs included)
fn debug_of(op: &str, args: &[Arg]) -> String {
    // results that are not function objects: the full Debug / Display text of the real value, so that
    // the payload of an error (a name, a list of missing inputs and its order) is observed too
    let text = |i: usize| -> String {
        match &args[i] {
            Arg::X(t) | Arg::A(t) => t.clone(),
            _ => String::new(),
        }
    };
    match op {
        "csv.from" => {
            let r = std::panic::catch_unwind(|| {
                let r = biodivine_boolean_functions::table::TruthTable::<String>::from_csv_string(&text(0));
                match r {
                    Ok(t) => format!("{:?}", t),
                    Err(e) => format!("{:?}|{}", e, e),
                }
            });
            return r.unwrap_or_else(|_| "panic".to_string());
        }
        "parse" => {
            let r = std::panic::catch_unwind(|| format!("{:?}", biodivine_boolean_functions::expressions::Expression::<String>::from_str(&text(0))));
            return r.unwrap_or_else(|_| "panic".to_string());
        }
        "evalc" => {
            use biodivine_boolean_functions::traits::Evaluate;
            if let (Arg::F(f), Arg::V(v)) = (&args[0], &args[1]) {
                let r = std::panic::catch_unwind(std::panic::AssertUnwindSafe(|| match f {
                    Val::E(x) => format!("{:?}", x.evaluate_checked(v)),
                    Val::T(x) => format!("{:?}", x.evaluate_checked(v)),
                    Val::B(x) => format!("{:?}", x.evaluate_checked(v)),
                }));
                return r.unwrap_or_else(|_| "panic".to_string());
            }
            return String::new();
        }
        _ => {}
    }
    match apply(op, args) {
        Some(Val::E(e)) => format!("{:?}", e),
        Some(Val::T(t)) => format!("{:?}", t),
        Some(Val::B(b)) => format!("{:?}|{:?}", b, b.sat_point()),
        None => String::new(),
    }
}

pub fn fnv(s: &str) -> String {
    let mut h: u64 = 0xcbf29ce484222325;
    for b in s.bytes() {
        h ^= b as u64;
        h = h.wrapping_mul(0x100000001b3);
    }
    format!("{:016x}", h)
}

// ================================================================================================
// reflection translator

fn cps(s: &str) -> String {
    format!("[{}]", s.chars().map(|c| (c as u32).to_string()).collect::<Vec<_>>().join(", "))
}

pub fn dump_tables() {
    use biodivine_boolean_functions::parser::verif;
    use biodivine_boolean_functions::table::csv::verif_string_to_bool;
    use biodivine_boolean_functions::table::display_formatted::ALL_BOOL_STRINGS;
    let code = |o: Option<bool>| match o {
        Some(false) => 0,
        Some(true) => 1,
        None => 2,
    };
    let mut o = String::new();
    o.push_str("-- GENERATED by `harness dump-tables` from the compiled crate (feature `verif`); do not edit.\n");
    o.push_str("namespace BoolFn.Generated\n");
    o.push_str("/-- `ALL_TOKEN_PATTERNS_FROM_LONGEST` in order: (code points, kind assigned by `IntermediateToken::from`, identifier-boundary flag) -/\n");
    o.push_str("def patternTable : List (List Nat × String × Bool) := [\n");
    let table = verif::pattern_table();
    let rows: Vec<String> = table.iter().map(|(p, k, b)| format!("  ({}, \"{}\", {})", cps(p), k, b)).collect();
    o.push_str(&rows.join(",\n"));
    o.push_str("\n]\n/-- `LONGEST_TOKEN_LEN + 1` -/\n");
    o.push_str(&format!("def takeSize : Nat := {}\n", verif::take_size()));
    o.push_str("/-- `ALL_BOOL_STRINGS` with `string_to_bool` of each: (code points, 0 = Some(false), 1 = Some(true), 2 = None) -/\n");
    o.push_str("def boolStrings : List (List Nat × Nat) := [\n");
    let rows: Vec<String> = ALL_BOOL_STRINGS.iter().map(|sx| format!("  ({}, {})", cps(sx), code(verif_string_to_bool(sx)))).collect();
    o.push_str(&rows.join(",\n"));
    o.push_str("\n]\n/-- `TableBooleanFormatting::format_bool`: (formatting, value, code points) -/\n");
    o.push_str("def formatBool : List (String × Bool × List Nat) := [\n");
    let mut rows = vec![];
    for f in FMTS {
        for b in [false, true] {
            rows.push(format!("  (\"{}\", {}, {})", f, b, cps(&crate::ops::fmt_of(f).format_bool(&b))));
        }
    }
    o.push_str(&rows.join(",\n"));
    o.push_str("\n]\n/-- the last header cell of a rendered / exported table -/\n");
    let t = TruthTable::verif_from_raw(Vec::<String>::new(), vec![true]);
    let csv = t.to_csv();
    let header = csv.lines().next().unwrap_or("");
    o.push_str(&format!("def resultHeader : List Nat := {}\n", cps(header)));
    o.push_str("/-- `string_to_bool` on probe strings that are no member of `ALL_BOOL_STRINGS` (must all be None = 2) -/\n");
    o.push_str("def nonBoolProbes : List (List Nat × Nat) := [\n");
    let probes = ["", "result", "t", "f", "TRUE", "FALSE", " 1", "1 ", "2", "x_0"];
    let rows: Vec<String> = probes.iter().map(|p| format!("  ({}, {})", cps(p), code(verif_string_to_bool(p)))).collect();
    o.push_str(&rows.join(",\n"));
    o.push_str("\n]\nend BoolFn.Generated\n");
    print!("{}", o);
}

/// character classes of `std` / `regex` over all scalar values, as ranges, for comparison with the
/// hand-written Lean predicates
pub fn char_classes() {
    use biodivine_boolean_functions::parser::verif;
    let mut ws = vec![];
    let mut ident = vec![];
    for cp in 0u32..=0x10FFFF {
        if let Some(c) = char::from_u32(cp) {
            if c.is_whitespace() {
                ws.push(cp);
            }
            // identifier characters: a one-character text lexes as a literal (or a keyword-like token)
            let t = format!("q{}", c);
            if let Ok(toks) = verif::tokenize(&t) {
                if toks.len() == 1 {
                    ident.push(cp);
                }
            }
        }
    }
    println!("ws {:?}", ws);
    println!("ident {:?}", ident);
    // case folding of every pattern letter: which scalar values match it
    let table = verif::pattern_table();
    let mut letters: BTreeSet<char> = BTreeSet::new();
    for (p, _, flag) in &table {
        if *flag {
            letters.extend(p.chars());
        }
    }
    for l in letters {
        // `l` alone is a pattern iff it is in the table; use the word patterns instead: replace one letter
        let mut hits = vec![];
        for (p, _, flag) in &table {
            if !*flag || !p.contains(l) {
                continue;
            }
            for cp in 0u32..=0x10FFFF {
                if let Some(c) = char::from_u32(cp) {
                    let text: String = p.chars().map(|x| if x == l { c } else { x }).collect();
                    if let Ok(toks) = verif::tokenize(&text) {
                        if toks.len() == 1 && !matches!(toks[0], verif::Token::Literal(_)) {
                            hits.push(cp);
                        }
                    }
                }
            }
            break;
        }
        println!("fold {} {:?}", l as u32, hits);
    }
}
