//! Correspondence harness: runs the real crate (built from /repo's working tree with feature
//! `verif`) on generated cases and prints one case line per call, with the implementation's
//! answer attached, for the Lean driver.
mod gen;
mod gen2;
mod laws;
mod ops;
mod ops19;
mod typed;
mod wire;

use biodivine_boolean_functions::bdd::Bdd;
use biodivine_boolean_functions::expressions::Expression;
use biodivine_boolean_functions::table::TruthTable;
use std::io::{BufRead, Write};

pub type E = Expression<String>;
pub type T = TruthTable<String>;
pub type B = Bdd<String>;

fn main() {
    // silent panic hook: panics of the crate under test are caught and reported as `panic`
    // (set VERIF_DEBUG to see them, e.g. to find a panic of the harness itself)
    if std::env::var("VERIF_DEBUG").is_ok() {
        std::panic::set_hook(Box::new(|info| eprintln!("PANIC {}", info)));
    } else {
        std::panic::set_hook(Box::new(|_| {}));
    }
    let args: Vec<String> = std::env::args().collect();
    let cmd = args.get(1).map(|s| s.as_str()).unwrap_or("");
    match cmd {
        "gen" => {
            let prop = args[2].clone();
            let thorough = args.get(3).map(|s| s == "thorough").unwrap_or(false);
            let seed: u64 = args.get(4).and_then(|s| s.parse().ok()).unwrap_or(1);
            let scale: usize = args.get(5).and_then(|s| s.parse().ok()).unwrap_or(1);
            let mut cx = gen::Ctx {
                out: std::io::BufWriter::new(std::io::stdout()),
                rng: gen::Rng::new(seed),
                thorough,
                scale,
                count: 0,
            };
            // law instances at sizes beyond the executable model (see laws.rs) come first
            laws::gen_laws(&mut cx, prop.as_str());
            match prop.as_str() {
                "C01" => gen::gen_c01(&mut cx),
                "C02" => gen::gen_c02(&mut cx),
                "C03" => gen::gen_c03(&mut cx),
                "C04" => gen::gen_c04(&mut cx),
                "C05" => gen::gen_c05(&mut cx),
                "C06" => gen::gen_c06(&mut cx),
                "C07" => gen::gen_c07(&mut cx),
                "C08" => gen::gen_c08(&mut cx),
                "C09" => gen::gen_c09(&mut cx),
                "C10" => gen::gen_c10(&mut cx),
                "C11" => gen::gen_c11(&mut cx),
                "C12" => gen2::gen_c12(&mut cx, "C12"),
                "C13" => gen2::gen_c13(&mut cx),
                "C14" => gen2::gen_c14(&mut cx),
                "C15" => gen2::gen_c15(&mut cx),
                "C16" => gen2::gen_c16(&mut cx),
                "C17" => gen2::gen_c17(&mut cx),
                "C18" => gen2::gen_c18(&mut cx),
                "C20" => gen2::gen_c20(&mut cx),
                _ => {
                    eprintln!("unknown property {}", prop);
                    std::process::exit(2);
                }
            }
            cx.out.flush().unwrap();
        }
        // re-run requests `<prop> <op> <args…>` (anything from `=>` on is ignored) on the current tree
        "exec" => {
            let stdin = std::io::stdin();
            let mut out = std::io::BufWriter::new(std::io::stdout());
            for line in stdin.lock().lines() {
                let line = line.unwrap();
                let head = line.split(" => ").next().unwrap_or("");
                let mut parts = head.splitn(3, ' ');
                let prop = parts.next().unwrap_or("");
                let op = parts.next().unwrap_or("");
                let rest = parts.next().unwrap_or("");
                if prop.is_empty() || op.is_empty() {
                    continue;
                }
                let sexps = wire::parse_sexps(rest);
                let a: Vec<wire::Arg> = sexps.iter().map(wire::dec_arg).collect();
                writeln!(out, "{}", ops::case_line(prop, op, &a, true)).unwrap();
            }
            out.flush().unwrap();
        }
        // C19: requests answered through the Rust API with observable renderings only
        "exec19" => {
            let stdin = std::io::stdin();
            let mut out = std::io::BufWriter::new(std::io::stdout());
            for line in stdin.lock().lines() {
                let line = line.unwrap();
                let head = line.split(" => ").next().unwrap_or("");
                let mut parts = head.splitn(3, ' ');
                let _prop = parts.next().unwrap_or("");
                let op = parts.next().unwrap_or("");
                let rest = parts.next().unwrap_or("");
                let sexps = wire::parse_sexps(rest);
                let a: Vec<wire::Arg> = sexps.iter().map(wire::dec_arg).collect();
                writeln!(out, "{}", ops19::run19(op, &a)).unwrap();
            }
            out.flush().unwrap();
        }
        "dump-tables" => gen2::dump_tables(),
        "depth" => gen2::depth_probe(&args[2], args[3].parse().unwrap()),
        "charclasses" => gen2::char_classes(),
        _ => {
            eprintln!("usage: harness gen <PROP> <quick|thorough> <seed> [scale] | exec | dump-tables | depth <shape> <n> | charclasses");
            std::process::exit(2);
        }
    }
}
