//! C19: the same requests executed through the Rust API, answers rendered with the *observable*
//! API only (text forms, sets, numbers), so that the Python extension can be compared value for value.
use crate::wire::*;
use biodivine_boolean_functions::bdd::Bdd;
use biodivine_boolean_functions::expressions::{Expression, ExpressionNode};
use biodivine_boolean_functions::table::TruthTable;
use biodivine_boolean_functions::traits::{BooleanFunction, Evaluate, GatherLiterals, SemanticEq};
use std::collections::BTreeSet;
use std::panic::{catch_unwind, AssertUnwindSafe};
use std::str::FromStr;

pub fn obs(v: &Val) -> String {
    match v {
        Val::E(e) => format!("E|{}", e),
        Val::T(t) => format!("T|{}", t),
        Val::B(b) => format!("B|{:?}", b),
    }
}
fn set(s: BTreeSet<String>) -> String {
    format!("{{{}}}", s.into_iter().collect::<Vec<_>>().join(","))
}
fn pt(p: &[bool]) -> String {
    p.iter().map(|b| if *b { '1' } else { '0' }).collect()
}
fn f(a: &Arg) -> Val {
    match a {
        Arg::F(v) => v.clone(),
        _ => panic!("HARNESS: function expected"),
    }
}

macro_rules! each {
    ($v:expr, $x:ident => $body:expr) => {
        match $v {
            Val::E($x) => $body,
            Val::T($x) => $body,
            Val::B($x) => $body,
        }
    };
}

fn enum_text<F: BooleanFunction<String>>(x: &F) -> String {
    let dom: Vec<String> = x.domain().map(|p| pt(&p)).collect();
    let img: String = x.image().map(|b| if b { '1' } else { '0' }).collect();
    let rel: Vec<String> = x.relation().map(|(p, b)| format!("{}:{}", pt(&p), b as u8)).collect();
    let mut sup: Vec<String> = x.support().map(|p| pt(&p)).collect();
    sup.sort();
    let sp = x.sat_point().map(|p| pt(&p)).unwrap_or("None".into());
    format!("dom={} img={} rel={} sup={} w={} sat={}", dom.join(","), img, rel.join(","), sup.join(","), x.weight(), sp)
}

fn run19_inner(op: &str, a: &[Arg]) -> String {
    let pv = |i: usize| match &a[i] {
        Arg::V(v) => v.clone(),
        _ => panic!("HARNESS"),
    };
    let st = |i: usize| match &a[i] {
        Arg::S(v) => v.clone(),
        _ => panic!("HARNESS"),
    };
    let xs = |i: usize| match &a[i] {
        Arg::X(v) => v.clone(),
        Arg::A(v) => v.clone(),
        _ => panic!("HARNESS"),
    };
    let ob = |i: usize| match &a[i] {
        Arg::O(v) => *v,
        _ => panic!("HARNESS"),
    };
    match op {
        "str" => obs(&f(&a[0])),
        "repr" => match f(&a[0]) {
            Val::E(e) => format!("PythonExpression(\"{}\")", e),
            Val::T(t) => format!("PythonTruthTable(\n{})", t),
            Val::B(b) => format!("{:?}", b),
        },
        "nnf" | "cnf" | "dnf" => match f(&a[0]) {
            Val::E(e) => obs(&Val::E(match op {
                "nnf" => e.to_nnf(),
                "cnf" => e.to_cnf(),
                _ => e.to_dnf(),
            })),
            _ => panic!("HARNESS"),
        },
        "isnnf" | "iscnf" | "isdnf" | "is.literal" | "is.constant" | "is.not" | "is.and" | "is.or" => match f(&a[0]) {
            Val::E(e) => (match op {
                "isnnf" => e.is_nnf(),
                "iscnf" => e.is_cnf(),
                "isdnf" => e.is_dnf(),
                "is.literal" => e.is_literal(),
                "is.constant" => e.is_constant(),
                "is.not" => e.is_not(),
                "is.and" => e.is_and(),
                _ => e.is_or(),
            })
            .to_string(),
            _ => panic!("HARNESS"),
        },
        "evalc" => each!(f(&a[0]), x => match x.evaluate_checked(&pv(1)) {
            Ok(b) => b.to_string(),
            Err(_) => "EXC:KeyError".to_string(),
        }),
        "eval0" => each!(f(&a[0]), x => x.evaluate(&pv(1)).to_string()),
        "eval" => each!(f(&a[0]), x => x.evaluate_with_default(&pv(1), ob(2)).to_string()),
        "inputs" => each!(f(&a[0]), x => set(x.inputs())),
        "literals" => each!(f(&a[0]), x => set(x.gather_literals())),
        "essential" => each!(f(&a[0]), x => set(x.essential_inputs())),
        "degree" => each!(f(&a[0]), x => x.degree().to_string()),
        "essdegree" => each!(f(&a[0]), x => x.essential_degree().to_string()),
        "enum" => each!(f(&a[0]), x => enum_text(&x)),
        "semeq" => match (f(&a[0]), f(&a[1])) {
            (Val::E(x), Val::E(y)) => x.semantic_eq(&y).to_string(),
            (Val::T(x), Val::T(y)) => x.semantic_eq(&y).to_string(),
            _ => panic!("HARNESS"),
        },
        "equiv" => match (f(&a[0]), f(&a[1])) {
            (Val::E(x), Val::E(y)) => x.is_equivalent(&y).to_string(),
            (Val::T(x), Val::T(y)) => x.is_equivalent(&y).to_string(),
            (Val::B(x), Val::B(y)) => x.is_equivalent(&y).to_string(),
            _ => panic!("HARNESS"),
        },
        "implied" => match (f(&a[0]), f(&a[1])) {
            (Val::E(x), Val::E(y)) => x.is_implied_by(&y).to_string(),
            (Val::T(x), Val::T(y)) => x.is_implied_by(&y).to_string(),
            (Val::B(x), Val::B(y)) => x.is_implied_by(&y).to_string(),
            _ => panic!("HARNESS"),
        },
        // Python's `&`, `|`, `~` on expressions are the *binary* constructors (no flattening)
        "and" | "or" | "xor" => match (f(&a[0]), f(&a[1])) {
            (Val::E(x), Val::E(y)) => obs(&Val::E(match op {
                "and" => Expression::binary_and(&x, &y),
                "or" => Expression::binary_or(&x, &y),
                _ => return "SKIP".to_string(),
            })),
            (Val::T(x), Val::T(y)) => obs(&Val::T(match op {
                "and" => &x & &y,
                "or" => &x | &y,
                _ => &x ^ &y,
            })),
            (Val::B(x), Val::B(y)) => obs(&Val::B(match op {
                "and" => &x & &y,
                "or" => &x | &y,
                _ => &x ^ &y,
            })),
            _ => panic!("HARNESS"),
        },
        "not" => match f(&a[0]) {
            Val::E(x) => obs(&Val::E(Expression::negate(&x))),
            Val::T(x) => obs(&Val::T(!&x)),
            Val::B(x) => obs(&Val::B(!&x)),
        },
        "nary" => {
            // (nary and|or e…)
            let es: Vec<Expression<String>> = a[1..]
                .iter()
                .map(|x| match f(x) {
                    Val::E(e) => e,
                    _ => panic!("HARNESS"),
                })
                .collect();
            obs(&Val::E(if xs(0) == "and" { Expression::n_ary_and(&es) } else { Expression::n_ary_or(&es) }))
        }
        "restrict" => match f(&a[0]) {
            Val::E(x) => obs(&Val::E(x.restrict(&pv(1)))),
            Val::T(x) => obs(&Val::T(x.restrict(&pv(1)))),
            Val::B(x) => obs(&Val::B(x.restrict(&pv(1)))),
        },
        "exists" => match f(&a[0]) {
            Val::E(x) => obs(&Val::E(x.existential_quantification(st(1)))),
            Val::T(x) => obs(&Val::T(x.existential_quantification(st(1)))),
            Val::B(x) => obs(&Val::B(x.existential_quantification(st(1)))),
        },
        "forall" => match f(&a[0]) {
            Val::E(x) => obs(&Val::E(x.universal_quantification(st(1)))),
            Val::T(x) => obs(&Val::T(x.universal_quantification(st(1)))),
            Val::B(x) => obs(&Val::B(x.universal_quantification(st(1)))),
        },
        "deriv" => match f(&a[0]) {
            Val::E(x) => obs(&Val::E(x.derivative(st(1)))),
            Val::T(x) => obs(&Val::T(x.derivative(st(1)))),
            Val::B(x) => obs(&Val::B(x.derivative(st(1)))),
        },
        "subst" => {
            let m = match &a[1] {
                Arg::M(m) => m.clone(),
                _ => panic!("HARNESS"),
            };
            match f(&a[0]) {
                Val::E(x) => obs(&Val::E(x.substitute(&m.into_iter().filter_map(|(k, v)| match v { Val::E(e) => Some((k, e)), _ => None }).collect()))),
                Val::T(x) => obs(&Val::T(x.substitute(&m.into_iter().filter_map(|(k, v)| match v { Val::T(e) => Some((k, e)), _ => None }).collect()))),
                Val::B(x) => obs(&Val::B(x.substitute(&m.into_iter().filter_map(|(k, v)| match v { Val::B(e) => Some((k, e)), _ => None }).collect()))),
            }
        }
        // observations on an object that is the *result* of an operation (never re-decoded from text):
        // the wrapper must hand the derived object on unchanged
        "after.restrict" | "after.exists" | "after.forall" | "after.deriv" | "after.not" => {
            let x = f(&a[0]);
            let r: Val = match (&x, op) {
                (Val::E(x), "after.restrict") => Val::E(x.restrict(&pv(1))),
                (Val::T(x), "after.restrict") => Val::T(x.restrict(&pv(1))),
                (Val::B(x), "after.restrict") => Val::B(x.restrict(&pv(1))),
                (Val::E(x), "after.exists") => Val::E(x.existential_quantification(st(1))),
                (Val::T(x), "after.exists") => Val::T(x.existential_quantification(st(1))),
                (Val::B(x), "after.exists") => Val::B(x.existential_quantification(st(1))),
                (Val::E(x), "after.forall") => Val::E(x.universal_quantification(st(1))),
                (Val::T(x), "after.forall") => Val::T(x.universal_quantification(st(1))),
                (Val::B(x), "after.forall") => Val::B(x.universal_quantification(st(1))),
                (Val::E(x), "after.deriv") => Val::E(x.derivative(st(1))),
                (Val::T(x), "after.deriv") => Val::T(x.derivative(st(1))),
                (Val::B(x), "after.deriv") => Val::B(x.derivative(st(1))),
                (Val::E(x), _) => Val::E(Expression::negate(x)),
                (Val::T(x), _) => Val::T(!x),
                (Val::B(x), _) => Val::B(!x),
            };
            // the same function built another way
            let rb: Val = match &r {
                Val::E(e) => Val::E(TruthTable::from(e).to_expression_trivial()),
                Val::T(t) => Val::T(TruthTable::from(&t.to_expression_trivial())),
                Val::B(b) => Val::B(Bdd::try_from(Expression::from(b.clone())).expect("HARNESS: rebuild")),
            };
            let cmp = |p: &Val, q: &Val| -> String {
                match (p, q) {
                    (Val::E(p), Val::E(q)) => format!("{},{}", p.is_equivalent(q), p.is_implied_by(q)),
                    (Val::T(p), Val::T(q)) => format!("{},{}", p.is_equivalent(q), p.is_implied_by(q)),
                    (Val::B(p), Val::B(q)) => format!("{},{}", p.is_equivalent(q), p.is_implied_by(q)),
                    _ => panic!("HARNESS"),
                }
            };
            let small = each!(&r, y => y.degree()) <= 5;
            format!(
                "inputs={} ess={} enum={} rebuilt={};{} self={} orig={};{}",
                each!(&r, y => set(y.inputs())),
                each!(&r, y => set(y.essential_inputs())),
                if small { each!(&r, y => enum_text(y)) } else { "-".to_string() },
                cmp(&r, &rb), cmp(&rb, &r), cmp(&r, &r), cmp(&r, &x), cmp(&x, &r)
            )
        }
        "conv.ET" => match f(&a[0]) { Val::E(e) => obs(&Val::T(TruthTable::from(&e))), _ => panic!("HARNESS") },
        "conv.TE" => match f(&a[0]) { Val::T(t) => obs(&Val::E(t.to_expression_trivial())), _ => panic!("HARNESS") },
        // conversion of a conjunction of n distinct variables: only the outcome kind is compared
        "limit" => {
            let n: usize = match &a[0] { Arg::A(x) | Arg::X(x) => x.parse().expect("HARNESS: limit"), _ => panic!("HARNESS") };
            let lits: Vec<Expression<String>> = (0..n)
                .map(|i| biodivine_boolean_functions::expressions::ExpressionNode::Literal(format!("v{}", i)).into())
                .collect();
            match Bdd::try_from(Expression::n_ary_and(&lits)) {
                Ok(b) => format!("ok{}", b.inputs().len()),
                Err(_) => "EXC:RuntimeError".into(),
            }
        }
        "conv.EB" => match f(&a[0]) {
            Val::E(e) => match Bdd::try_from(e) { Ok(b) => obs(&Val::B(b)), Err(_) => "EXC:RuntimeError".into() },
            _ => panic!("HARNESS"),
        },
        "conv.TB" => match f(&a[0]) {
            Val::T(t) => match Bdd::try_from(t) { Ok(b) => obs(&Val::B(b)), Err(_) => "EXC:RuntimeError".into() },
            _ => panic!("HARNESS"),
        },
        "conv.BT" => match f(&a[0]) { Val::B(b) => obs(&Val::T(TruthTable::from(b))), _ => panic!("HARNESS") },
        "conv.BE" => match f(&a[0]) { Val::B(b) => obs(&Val::E(Expression::from(b))), _ => panic!("HARNESS") },
        // the exception carries the error's own text (`PyRuntimeError::new_err(err.to_string())`)
        "parse" => match Expression::from_str(&xs(0)) {
            Ok(e) => obs(&Val::E(e)),
            Err(e) => format!("EXC:RuntimeError:{}", e),
        },
        "ctor.bad" => "EXC:TypeError".to_string(),
        "csv.from" => match TruthTable::from_csv_string(&xs(0)) {
            Ok(t) => obs(&Val::T(t)),
            // the documented exception kinds (src/table/csv/error.rs)
            Err(e) => {
                use biodivine_boolean_functions::table::csv::error::TruthTableFromCsvError as Er;
                match e {
                    Er::UnexpectedEof => "EXC:EOFError",
                    Er::NonBooleanCellValue { .. } => "EXC:TypeError",
                    Er::IOError(_) => "EXC:OSError",
                    _ => "EXC:RuntimeError",
                }
                .to_string()
            }
        },
        // the file entry point; the argument is the hex of the raw bytes (`-` = no such file)
        "csv.filebytes" => {
            let arg = match &a[0] { Arg::A(x) | Arg::X(x) => x.clone(), _ => panic!("HARNESS") };
            let dir = std::env::var("VERIF_TMP").unwrap_or_else(|_| "/verif/.build/tmp".to_string());
            let _ = std::fs::create_dir_all(&dir);
            let path = format!("{}/c19-{}.csv", dir, std::process::id());
            let _ = std::fs::remove_file(&path);
            if arg != "-" {
                let arg = arg.trim_start_matches('h').to_string();
                let bytes: Vec<u8> = (0..arg.len() / 2).map(|i| u8::from_str_radix(&arg[2 * i..2 * i + 2], 16).unwrap_or(b'?')).collect();
                std::fs::write(&path, bytes).expect("HARNESS: write");
            }
            let r = TruthTable::from_csv_file(&path);
            let _ = std::fs::remove_file(&path);
            match r {
                Ok(t) => obs(&Val::T(t)),
                Err(e) => {
                    use biodivine_boolean_functions::table::csv::error::TruthTableFromCsvError as Er;
                    match e {
                        Er::UnexpectedEof => "EXC:EOFError",
                        Er::NonBooleanCellValue { .. } => "EXC:TypeError",
                        Er::IOError(_) => "EXC:OSError",
                        _ => "EXC:RuntimeError",
                    }
                    .to_string()
                }
            }
        }
        "csv.to0" => match f(&a[0]) { Val::T(t) => t.to_csv(), _ => panic!("HARNESS") },
        "render" => match f(&a[0]) {
            // the Python method takes one formatting for inputs and outputs
            Val::T(t) => t.to_string_formatted(crate::ops::style_of(&xs(1)), crate::ops::fmt_of(&xs(2)), crate::ops::fmt_of(&xs(2))),
            _ => panic!("HARNESS"),
        },
        "row" => match f(&a[0]) {
            Val::T(t) => pt(&t.row(xs(1).parse().unwrap_or(0))),
            _ => panic!("HARNESS"),
        },
        "nodecount" => match f(&a[0]) { Val::B(b) => b.node_count().to_string(), _ => panic!("HARNESS") },
        "mk.const" => obs(&Val::B(Bdd::mk_const(ob(0)))),
        "mk.literal" => obs(&Val::B(Bdd::mk_literal(xs(0), ob(1)))),
        "var" => obs(&Val::E(ExpressionNode::Literal(xs(0)).into())),
        "bool" => obs(&Val::E(ExpressionNode::Constant(ob(0)).into())),
        _ => "SKIP".to_string(),
    }
}

pub fn run19(op: &str, args: &[Arg]) -> String {
    match catch_unwind(AssertUnwindSafe(|| run19_inner(op, args))) {
        Ok(s) => s.replace('\n', "\\n"),
        Err(p) => {
            let msg = if let Some(s) = p.downcast_ref::<String>() { s.clone() } else if let Some(s) = p.downcast_ref::<&str>() { s.to_string() } else { String::new() };
            if msg.starts_with("HARNESS") {
                "SKIP".to_string()
            } else {
                "EXC:PanicException".to_string()
            }
        }
    }
}
