//! Runs one operation of the real crate on wire-level arguments and renders the answer.
use crate::wire::*;
use crate::{B, E, T};
use biodivine_boolean_functions::bdd::Bdd;
use biodivine_boolean_functions::expressions::Expression;
use biodivine_boolean_functions::table::display_formatted::{TableBooleanFormatting, TableStyle};
use biodivine_boolean_functions::table::TruthTable;
use biodivine_boolean_functions::traits::{
    BooleanFunction, Equality, Evaluate, Implication, SemanticEq,
};
use std::collections::{BTreeMap, BTreeSet};
use std::panic::{catch_unwind, AssertUnwindSafe};
use std::str::FromStr;

pub fn fmt_of(s: &str) -> TableBooleanFormatting {
    match s {
        "Number" => TableBooleanFormatting::Number,
        "Character" => TableBooleanFormatting::Character,
        "Word" => TableBooleanFormatting::Word,
        _ => TableBooleanFormatting::CapitalizedWord,
    }
}
pub fn style_of(s: &str) -> TableStyle {
    match s {
        "Ascii" => TableStyle::Ascii,
        "Modern" => TableStyle::Modern,
        "Markdown" => TableStyle::Markdown,
        _ => TableStyle::Empty,
    }
}

fn f(a: &Arg) -> &Val {
    match a {
        Arg::F(v) => v,
        _ => panic!("HARNESS: expected function argument"),
    }
}
fn pv(a: &Arg) -> &BTreeMap<String, bool> {
    match a {
        Arg::V(v) => v,
        _ => panic!("HARNESS: expected valuation"),
    }
}
fn st(a: &Arg) -> BTreeSet<String> {
    match a {
        Arg::S(v) => v.clone(),
        _ => panic!("HARNESS: expected set"),
    }
}
fn xs(a: &Arg) -> &str {
    match a {
        Arg::X(v) => v,
        Arg::A(v) => v,
        _ => panic!("HARNESS: expected string"),
    }
}
fn ob(a: &Arg) -> bool {
    match a {
        Arg::O(v) => *v,
        _ => panic!("HARNESS: expected bool"),
    }
}

fn enc_checked(r: Result<bool, Vec<String>>) -> String {
    match r {
        Ok(b) => format!("(ok {})", enc_bool(b)),
        Err(names) => {
            let set: BTreeSet<String> = names.into_iter().collect();
            format!("(err {})", enc_set(set.iter()))
        }
    }
}

fn enc_enum<F: BooleanFunction<String>>(x: &F) -> String {
    let dom: Vec<String> = x.domain().map(|p| enc_point(&p)).collect();
    let img: Vec<bool> = x.image().collect();
    let rel: Vec<String> = x
        .relation()
        .map(|(p, b)| format!("({} {})", enc_point(&p), enc_bool(b)))
        .collect();
    let sup: Vec<String> = x.support().map(|p| enc_point(&p)).collect();
    let w = x.weight();
    let sp = match x.sat_point() {
        Some(p) => format!("(some {})", enc_point(&p)),
        None => "none".to_string(),
    };
    format!(
        "(L (L {}) {} (L {}) (L {}) {} {})",
        dom.join(" "),
        enc_bits(&img),
        rel.join(" "),
        sup.join(" "),
        w,
        sp
    )
}

macro_rules! per_rep {
    ($v:expr, $x:ident => $body:expr) => {
        match $v {
            Val::E($x) => $body,
            Val::T($x) => $body,
            Val::B($x) => $body,
        }
    };
}

fn same_kind_map(m: &BTreeMap<String, Val>) -> (BTreeMap<String, E>, BTreeMap<String, T>, BTreeMap<String, B>) {
    let mut me = BTreeMap::new();
    let mut mt = BTreeMap::new();
    let mut mb = BTreeMap::new();
    for (k, v) in m {
        match v {
            Val::E(e) => {
                me.insert(k.clone(), e.clone());
            }
            Val::T(t) => {
                mt.insert(k.clone(), t.clone());
            }
            Val::B(b) => {
                mb.insert(k.clone(), b.clone());
            }
        }
    }
    (me, mt, mb)
}

/// the answer of the implementation, as wire text; panics are caught by the caller
/// the same tree with every node freshly allocated (no handle is shared with anything else)
/// one by-value connective under three ownership situations of the operand handles: (fresh, shared),
/// (shared, fresh), (fresh, fresh); "shared" = a clone of an object that is still alive elsewhere
pub fn own_variants(op: &str, x: &E, y: &E) -> [E; 3] {
    use biodivine_boolean_functions::traits::{Equality, Implication};
    let go = |l: E, r: E| -> E {
        match op {
            "and.own" => l & r,
            "or.own" => l | r,
            "xor.own" => l ^ r,
            "imply.own" => l.imply(r),
            _ => l.iff(r),
        }
    };
    let keep_x = x.clone();
    let keep_y = y.clone();
    let r1 = go(rebuild_expr(x), keep_y.clone());
    let r2 = go(keep_x.clone(), rebuild_expr(y));
    let r3 = go(rebuild_expr(x), rebuild_expr(y));
    drop((keep_x, keep_y));
    [r1, r2, r3]
}

pub fn evalc_own(x: &E, v: &BTreeMap<String, bool>) -> [String; 2] {
    use biodivine_boolean_functions::traits::Evaluate;
    let fresh = rebuild_expr(x);
    [format!("{:?}", x.evaluate_checked(v)), format!("{:?}", fresh.evaluate_checked(v))]
}

pub fn rebuild_expr(e: &E) -> E {
    use biodivine_boolean_functions::expressions::ExpressionNode as N;
    match e.node() {
        N::Literal(n) => N::Literal(n.clone()).into(),
        N::Constant(b) => N::Constant(*b).into(),
        N::Not(x) => N::Not(rebuild_expr(x)).into(),
        N::And(xs) => N::And(xs.iter().map(rebuild_expr).collect()).into(),
        N::Or(xs) => N::Or(xs.iter().map(rebuild_expr).collect()).into(),
    }
}

fn run_inner(op: &str, a: &[Arg]) -> String {
    if op.starts_with("law.") {
        let args: Vec<String> = a.iter().map(|x| xs(x).to_string()).collect();
        return crate::laws::run_law(op, &args);
    }
    if let Some(rest) = op.strip_prefix("typed.") {
        return crate::typed::run(rest, a);
    }
    if op == "render.typed" {
        return crate::typed::render(a);
    }
    match op {
        // ---- conversions
        "conv.ET" => match f(&a[0]) {
            Val::E(e) => enc_table(&TruthTable::from(e)),
            _ => panic!("HARNESS: kind"),
        },
        "conv.TE" => match f(&a[0]) {
            Val::T(t) => enc_expr(&t.to_expression_trivial()),
            _ => panic!("HARNESS: kind"),
        },
        // E -> B of the conjunction of n distinct literals (the variable-count limit)
        "limit" => {
            let n: usize = xs(&a[0]).parse().expect("HARNESS: limit count");
            let e: E = biodivine_boolean_functions::expressions::Expression::n_ary_and(
                &(0..n)
                    .map(|i| biodivine_boolean_functions::expressions::ExpressionNode::Literal(format!("v{}", i)).into())
                    .collect::<Vec<E>>(),
            );
            match Bdd::try_from(e) {
                Ok(b) => format!("ok{}", b.inputs().len()),
                Err(_) => "err".to_string(),
            }
        }
        "conv.EB" => match f(&a[0]) {
            Val::E(e) => match Bdd::try_from(e.clone()) {
                Ok(b) => format!("(ok {})", enc_bdd(&b)),
                Err(_) => "(err TooManyVariables)".to_string(),
            },
            _ => panic!("HARNESS: kind"),
        },
        "conv.TB" => match f(&a[0]) {
            Val::T(t) => match Bdd::try_from(t.clone()) {
                Ok(b) => format!("(ok {})", enc_bdd(&b)),
                Err(_) => "(err TooManyVariables)".to_string(),
            },
            _ => panic!("HARNESS: kind"),
        },
        "conv.BT" => match f(&a[0]) {
            Val::B(b) => enc_table(&TruthTable::from(b.clone())),
            _ => panic!("HARNESS: kind"),
        },
        "conv.BE" => match f(&a[0]) {
            Val::B(b) => enc_expr(&Expression::from(b.clone())),
            _ => panic!("HARNESS: kind"),
        },
        // ---- evaluation
        "eval" => per_rep!(f(&a[0]), x => enc_bool(x.evaluate_with_default(pv(&a[1]), ob(&a[2])))),
        "eval0" => per_rep!(f(&a[0]), x => enc_bool(x.evaluate(pv(&a[1])))),
        "evalc" => per_rep!(f(&a[0]), x => enc_checked(x.evaluate_checked(pv(&a[1])))),
        // checked evaluation of an expression as given (its nodes may be shared) and of the same tree rebuilt
        // node by node (nothing shared): the full results, error lists with their repetitions included
        "evalc.own" => match f(&a[0]) {
            Val::E(x) => {
                let [p, q] = evalc_own(x, pv(&a[1]));
                format!("(L {} {})", enc_str(&p), enc_str(&q))
            }
            _ => panic!("HARNESS: kind"),
        },
        // the table / diagram form *of an expression* (built by the crate's own conversion), evaluated
        // in the three modes; judged against the expression's meaning
        "eval.of" => match f(&a[0]) {
            Val::E(e) => {
                let v = pv(&a[2]);
                let d = ob(&a[3]);
                match xs(&a[1]) {
                    "T" => {
                        let x = TruthTable::from(e);
                        format!("(L {} {} {})", enc_bool(x.evaluate_with_default(v, d)), enc_bool(x.evaluate(v)), enc_checked(x.evaluate_checked(v)))
                    }
                    _ => match Bdd::try_from(e.clone()) {
                        Ok(x) => format!("(L {} {} {})", enc_bool(x.evaluate_with_default(v, d)), enc_bool(x.evaluate(v)), enc_checked(x.evaluate_checked(v))),
                        Err(_) => "(err TooManyVariables)".to_string(),
                    },
                }
            }
            _ => panic!("HARNESS: kind"),
        },
        // ---- connectives (by value)
        "and" | "or" | "xor" => match (f(&a[0]), f(&a[1])) {
            (Val::E(x), Val::E(y)) => enc_expr(&match op {
                "and" => x.clone() & y.clone(),
                "or" => x.clone() | y.clone(),
                _ => x.clone() ^ y.clone(),
            }),
            (Val::T(x), Val::T(y)) => enc_table(&match op {
                "and" => x.clone() & y.clone(),
                "or" => x.clone() | y.clone(),
                _ => x.clone() ^ y.clone(),
            }),
            (Val::B(x), Val::B(y)) => enc_bdd(&match op {
                "and" => x.clone() & y.clone(),
                "or" => x.clone() | y.clone(),
                _ => x.clone() ^ y.clone(),
            }),
            _ => panic!("HARNESS: mixed kinds"),
        },
        // expression connectives with every combination of uniquely owned (rebuilt node by node) and
        // shared (a clone of a kept object) operand handles: (unique, shared), (shared, unique), (unique, unique)
        "probe" => crate::gen2::run_probe(xs(&a[0]), xs(&a[1]).parse().expect("HARNESS: n")),
        // both operands are built around ONE handle of `x` (cloned, so the two sides share the node):
        // left = x' (l) y, right = x'' (r) z with x', x'' = x or !x as the mode says
        "and.shared" | "or.shared" | "xor.shared" | "imply.shared" | "iff.shared" => match (f(&a[0]), f(&a[1]), f(&a[2])) {
            (Val::E(x), Val::E(y), Val::E(z)) => {
                use biodivine_boolean_functions::traits::{Equality, Implication};
                let mode: Vec<char> = xs(&a[3]).chars().collect();
                let x = rebuild_expr(x);
                let xl = if mode[2] == 'L' || mode[2] == 'B' { !x.clone() } else { x.clone() };
                let xr = if mode[2] == 'R' || mode[2] == 'B' { !x.clone() } else { x.clone() };
                let left = if mode[0] == 'o' { xl | rebuild_expr(y) } else { xl & rebuild_expr(y) };
                let right = if mode[1] == 'o' { xr | rebuild_expr(z) } else { xr & rebuild_expr(z) };
                let r = match op {
                    "and.shared" => left & right,
                    "or.shared" => left | right,
                    "xor.shared" => left ^ right,
                    "imply.shared" => left.imply(right),
                    _ => left.iff(right),
                };
                drop(x);
                enc_expr(&r)
            }
            _ => panic!("HARNESS: kind"),
        },
        "and.own" | "or.own" | "xor.own" | "imply.own" | "iff.own" => match (f(&a[0]), f(&a[1])) {
            (Val::E(x), Val::E(y)) => {
                let [r1, r2, r3] = own_variants(op, x, y);
                format!("(L {} {} {})", enc_expr(&r1), enc_expr(&r2), enc_expr(&r3))
            }
            _ => panic!("HARNESS: kind"),
        },
        "and.self" | "or.self" | "xor.self" => match f(&a[0]) {
            Val::E(x) => enc_expr(&match op {
                "and.self" => x.clone() & x.clone(),
                "or.self" => x.clone() | x.clone(),
                _ => x.clone() ^ x.clone(),
            }),
            Val::T(x) => enc_table(&match op {
                "and.self" => x & x,
                "or.self" => x | x,
                _ => x ^ x,
            }),
            Val::B(x) => enc_bdd(&match op {
                "and.self" => x & x,
                "or.self" => x | x,
                _ => x ^ x,
            }),
        },
        "row" => {
            let k: usize = xs(&a[1]).parse().expect("HARNESS: k");
            match f(&a[0]) {
                Val::T(x) => {
                    if k < x.row_count() {
                        enc_point(&x.row(k))
                    } else {
                        "none".to_string()
                    }
                }
                _ => "none".to_string(),
            }
        }
        // enumerations consumed only partly
        "satpoint" => {
            let p = match f(&a[0]) {
                Val::E(x) => x.sat_point(),
                Val::T(x) => x.sat_point(),
                Val::B(x) => x.sat_point(),
            };
            match p {
                Some(p) => format!("(some {})", enc_point(&p)),
                None => "none".to_string(),
            }
        }
        "dom.first" => {
            let k: usize = xs(&a[1]).parse().expect("HARNESS: k");
            let pts: Vec<Vec<bool>> = match f(&a[0]) {
                Val::E(x) => x.domain().take(k).collect(),
                Val::T(x) => x.domain().take(k).collect(),
                Val::B(x) => x.domain().take(k).collect(),
            };
            format!("({})", pts.iter().map(|p| enc_point(p)).collect::<Vec<_>>().join(" "))
        }
        "rel.nth" => {
            let k: usize = xs(&a[1]).parse().expect("HARNESS: k");
            let r = match f(&a[0]) {
                Val::E(x) => x.relation().nth(k),
                Val::T(x) => x.relation().nth(k),
                Val::B(x) => x.relation().nth(k),
            };
            match r {
                Some((p, b)) => format!("(some {} {})", enc_point(&p), enc_bool(b)),
                None => "none".to_string(),
            }
        }
        "imply" => match (f(&a[0]), f(&a[1])) {
            (Val::E(x), Val::E(y)) => enc_expr(&x.clone().imply(y.clone())),
            _ => panic!("HARNESS: kind"),
        },
        "iff" => match (f(&a[0]), f(&a[1])) {
            (Val::E(x), Val::E(y)) => enc_expr(&x.clone().iff(y.clone())),
            _ => panic!("HARNESS: kind"),
        },
        "not" => match f(&a[0]) {
            Val::E(x) => enc_expr(&!x.clone()),
            Val::T(x) => enc_table(&!x.clone()),
            Val::B(x) => enc_bdd(&!x.clone()),
        },
        // by-reference and in-place forms agree with the by-value form (structurally)
        "forms" => {
            let which = xs(&a[0]).to_string();
            match (f(&a[1]), f(&a[2])) {
                (Val::T(x), Val::T(y)) => {
                    let (v, r) = match which.as_str() {
                        "and" => (x.clone() & y.clone(), x & y),
                        "or" => (x.clone() | y.clone(), x | y),
                        "xor" => (x.clone() ^ y.clone(), x ^ y),
                        _ => (!x.clone(), !x),
                    };
                    enc_bool(v == r)
                }
                (Val::B(x), Val::B(y)) => {
                    let mut z = x.clone();
                    let (v, r) = match which.as_str() {
                        "and" => {
                            z &= y.clone();
                            (x.clone() & y.clone(), x & y)
                        }
                        "or" => {
                            z |= y.clone();
                            (x.clone() | y.clone(), x | y)
                        }
                        "xor" => {
                            z ^= y.clone();
                            (x.clone() ^ y.clone(), x ^ y)
                        }
                        _ => {
                            z = !x;
                            (!x.clone(), !x)
                        }
                    };
                    enc_bool(enc_bdd(&v) == enc_bdd(&r) && enc_bdd(&v) == enc_bdd(&z))
                }
                _ => panic!("HARNESS: kind"),
            }
        }
        // ---- comparisons
        "equiv" => match (f(&a[0]), f(&a[1])) {
            (Val::E(x), Val::E(y)) => enc_bool(x.is_equivalent(y)),
            (Val::T(x), Val::T(y)) => enc_bool(x.is_equivalent(y)),
            (Val::B(x), Val::B(y)) => enc_bool(x.is_equivalent(y)),
            _ => panic!("HARNESS: mixed kinds"),
        },
        "implied" => match (f(&a[0]), f(&a[1])) {
            (Val::E(x), Val::E(y)) => enc_bool(x.is_implied_by(y)),
            (Val::T(x), Val::T(y)) => enc_bool(x.is_implied_by(y)),
            (Val::B(x), Val::B(y)) => enc_bool(x.is_implied_by(y)),
            _ => panic!("HARNESS: mixed kinds"),
        },
        "semeq" | "semne" => match (f(&a[0]), f(&a[1])) {
            (Val::E(x), Val::E(y)) => enc_bool(if op == "semeq" { x.semantic_eq(y) } else { x.semantic_ne(y) }),
            (Val::T(x), Val::T(y)) => enc_bool(if op == "semeq" { x.semantic_eq(y) } else { x.semantic_ne(y) }),
            _ => panic!("HARNESS: kind"),
        },
        // ---- restrict / quantifiers / derivative / substitute
        "restrict" => match f(&a[0]) {
            Val::E(x) => enc_expr(&x.restrict(pv(&a[1]))),
            Val::T(x) => enc_table(&x.restrict(pv(&a[1]))),
            Val::B(x) => enc_bdd(&x.restrict(pv(&a[1]))),
        },
        "exists" => match f(&a[0]) {
            Val::E(x) => enc_expr(&x.existential_quantification(st(&a[1]))),
            Val::T(x) => enc_table(&x.existential_quantification(st(&a[1]))),
            Val::B(x) => enc_bdd(&x.existential_quantification(st(&a[1]))),
        },
        "forall" => match f(&a[0]) {
            Val::E(x) => enc_expr(&x.universal_quantification(st(&a[1]))),
            Val::T(x) => enc_table(&x.universal_quantification(st(&a[1]))),
            Val::B(x) => enc_bdd(&x.universal_quantification(st(&a[1]))),
        },
        "deriv" => match f(&a[0]) {
            Val::E(x) => enc_expr(&x.derivative(st(&a[1]))),
            Val::T(x) => enc_table(&x.derivative(st(&a[1]))),
            Val::B(x) => enc_bdd(&x.derivative(st(&a[1]))),
        },
        "subst" => {
            let m = match &a[1] {
                Arg::M(m) => m,
                _ => panic!("HARNESS: expected map"),
            };
            let (me, mt, mb) = same_kind_map(m);
            match f(&a[0]) {
                Val::E(x) => enc_expr(&x.substitute(&me)),
                Val::T(x) => enc_table(&x.substitute(&mt)),
                Val::B(x) => enc_bdd(&x.substitute(&mb)),
            }
        }
        // ---- inputs
        "inputs" => per_rep!(f(&a[0]), x => enc_set(x.inputs().iter())),
        "essential" => per_rep!(f(&a[0]), x => enc_set(x.essential_inputs().iter())),
        "degree" => per_rep!(f(&a[0]), x => x.degree().to_string()),
        "essdegree" => per_rep!(f(&a[0]), x => x.essential_degree().to_string()),
        // ---- enumerations
        "enum" => per_rep!(f(&a[0]), x => enc_enum(x)),
        // ---- normal forms
        "nnf" | "cnf" | "dnf" | "isnnf" | "iscnf" | "isdnf" => match f(&a[0]) {
            Val::E(x) => match op {
                "nnf" => enc_expr(&x.to_nnf()),
                "cnf" => enc_expr(&x.to_cnf()),
                "dnf" => enc_expr(&x.to_dnf()),
                "isnnf" => enc_bool(x.is_nnf()),
                "iscnf" => enc_bool(x.is_cnf()),
                _ => enc_bool(x.is_dnf()),
            },
            _ => panic!("HARNESS: kind"),
        },
        // ---- parser
        "tokens" => match biodivine_boolean_functions::parser::verif::tokenize(xs(&a[0])) {
            Ok(toks) => format!("(ok ({}))", toks.iter().map(enc_tok).collect::<Vec<_>>().join(" ")),
            Err(e) => format!("(err {})", parse_err_name(&e)),
        },
        // one template text per scalar value of a range: what the tokenizer makes of the character, as a
        // run-length encoded string of classes (`I` part of the name, `W` separates like a blank, `E` error,
        // `O…` anything else)
        "sweep" => {
            let tmpl: usize = xs(&a[0]).parse().expect("HARNESS: template");
            let lo: u32 = xs(&a[1]).parse().expect("HARNESS: lo");
            let hi: u32 = xs(&a[2]).parse().expect("HARNESS: hi");
            let stride: u32 = xs(&a[3]).parse().expect("HARNESS: stride");
            sweep_classes(tmpl, lo, hi, stride, |text| {
                biodivine_boolean_functions::parser::verif::tokenize(text).ok().map(|ts| ts.iter().map(tok_shape).collect::<Vec<_>>())
            })
        }
        "parse" => match Expression::from_str(xs(&a[0])) {
            Ok(e) => format!("(ok {})", enc_expr(&e)),
            Err(e) => format!("(err {})", parse_err_name(&e)),
        },
        "print" => match f(&a[0]) {
            Val::E(x) => enc_str(&x.to_string()),
            _ => panic!("HARNESS: kind"),
        },
        "roundtrip" => match f(&a[0]) {
            Val::E(x) => {
                let text = x.to_string();
                let parsed = match Expression::from_str(&text) {
                    Ok(e) => format!("(ok {})", enc_expr(&e)),
                    Err(e) => format!("(err {})", parse_err_name(&e)),
                };
                format!("(L {} {})", enc_str(&text), parsed)
            }
            _ => panic!("HARNESS: kind"),
        },
        // ---- csv / rendering
        "csv.from" => enc_csv_result(TruthTable::from_csv_string(xs(&a[0]))),
        "csv.file" => {
            let dir = std::env::var("VERIF_TMP").unwrap_or_else(|_| "/verif/.build/tmp".to_string());
            let _ = std::fs::create_dir_all(&dir);
            let path = format!("{}/csv-{}-{:?}.csv", dir, std::process::id(), std::thread::current().id());
            std::fs::write(&path, xs(&a[0])).expect("HARNESS: write temp file");
            let r = catch_unwind(AssertUnwindSafe(|| TruthTable::from_csv_file(&path)));
            let _ = std::fs::remove_file(&path);
            match r {
                Ok(r) => enc_csv_result(r),
                Err(_) => "panic".to_string(),
            }
        }
        "csv.to" => match f(&a[0]) {
            Val::T(t) => enc_str(&t.to_csv_formatted(',', fmt_of(xs(&a[1])), fmt_of(xs(&a[2])))),
            _ => panic!("HARNESS: kind"),
        },
        "csv.to0" => match f(&a[0]) {
            Val::T(t) => enc_str(&t.to_csv()),
            _ => panic!("HARNESS: kind"),
        },
        "csv.round" => match f(&a[0]) {
            Val::T(t) => {
                let text = t.to_csv_formatted(',', fmt_of(xs(&a[1])), fmt_of(xs(&a[2])));
                enc_csv_result(TruthTable::from_csv_string(&text))
            }
            _ => panic!("HARNESS: kind"),
        },
        "render" => match f(&a[0]) {
            Val::T(t) => enc_str(&t.to_string_formatted(style_of(xs(&a[1])), fmt_of(xs(&a[2])), fmt_of(xs(&a[3])))),
            _ => panic!("HARNESS: kind"),
        },
        "display" => match f(&a[0]) {
            Val::T(t) => enc_str(&t.to_string()),
            _ => panic!("HARNESS: kind"),
        },
        _ => panic!("HARNESS: unknown op {}", op),
    }
}

fn enc_csv_result(
    r: Result<T, biodivine_boolean_functions::table::csv::error::TruthTableFromCsvError>,
) -> String {
    use biodivine_boolean_functions::table::csv::error::TruthTableFromCsvError as Er;
    match r {
        Ok(t) => format!("(ok {})", enc_table(&t)),
        Err(e) => {
            let k = match e {
                Er::DuplicateVariableName { .. } => "DuplicateVariableName",
                Er::UnexpectedEof => "UnexpectedEof",
                Er::RecordDifferentSizeThanHeader { .. } => "RecordDifferentSizeThanHeader",
                Er::NonBooleanCellValue { .. } => "NonBooleanCellValue",
                Er::NoOutputColumn => "NoOutputColumn",
                Er::MismatchedRecordCountAndVariableCount { .. } => "MismatchedRecordCountAndVariableCount",
                Er::NoDelimiterFound => "NoDelimiterFound",
                Er::ParsingError(_) => "ParsingError",
                Er::IOError(_) => "IOError",
                #[allow(unreachable_patterns)]
                _ => "Other",
            };
            format!("(err {})", k)
        }
    }
}

/// the shape of a token: kind letters, literal names kept
pub fn tok_shape(t: &biodivine_boolean_functions::parser::verif::Token) -> (char, String) {
    use biodivine_boolean_functions::parser::verif::Token as K;
    match t {
        K::And => ('a', String::new()),
        K::Or => ('o', String::new()),
        K::Not => ('n', String::new()),
        K::True => ('t', String::new()),
        K::False => ('f', String::new()),
        K::Literal(n) => ('l', n.clone()),
        K::Parentheses(inner) => ('p', inner.iter().map(|x| tok_shape(x).0).collect()),
    }
}

/// texts of the sweep templates and the name the character is expected to become part of
pub fn sweep_text(tmpl: usize, c: char) -> (String, String) {
    match tmpl {
        0 => (format!("q{}", c), format!("q{}", c)),
        1 => (format!("a{}b", c), format!("a{}b", c)),
        2 => (format!("{{a{}b}}", c), format!("a{}b", c)),
        3 => (format!("{}", c), format!("{}", c)),
        4 => (format!("{{{}}}", c), format!("{}", c)),
        _ => (format!("{{{}}}&b", c), format!("{}", c)),
    }
}

pub fn sweep_classes<F: Fn(&str) -> Option<Vec<(char, String)>>>(tmpl: usize, lo: u32, hi: u32, stride: u32, lex: F) -> String {
    let blank = lex(&sweep_text(tmpl, ' ').0);
    let mut runs: Vec<(String, usize)> = vec![];
    let mut cp = lo;
    while cp < hi {
        if let Some(c) = char::from_u32(cp) {
            let (text, name) = sweep_text(tmpl, c);
            let r = lex(&text);
            let class = match &r {
                None => "E".to_string(),
                Some(ts) if ts.len() >= 1 && ts[0] == ('l', name.clone()) && ts.len() == (if tmpl == 5 { 3 } else { 1 }) => "I".to_string(),
                Some(_) if r == blank => "W".to_string(),
                Some(ts) => format!("O{}", ts.iter().map(|t| t.0).collect::<String>()),
            };
            match runs.last_mut() {
                Some((k, n)) if *k == class => *n += 1,
                _ => runs.push((class, 1)),
            }
        }
        cp += stride;
    }
    let body: Vec<String> = runs.iter().map(|(k, n)| format!("{}*{}", k, n)).collect();
    if body.is_empty() { "none".to_string() } else { body.join(",") }
}

fn enc_tok(t: &biodivine_boolean_functions::parser::verif::Token) -> String {
    use biodivine_boolean_functions::parser::verif::Token as K;
    match t {
        K::And => "and".into(),
        K::Or => "or".into(),
        K::Not => "not".into(),
        K::True => "true".into(),
        K::False => "false".into(),
        K::Literal(n) => format!("(lit {})", enc_name(n)),
        K::Parentheses(inner) => {
            let mut s = String::from("(paren");
            for x in inner {
                s.push(' ');
                s.push_str(&enc_tok(x));
            }
            s.push(')');
            s
        }
    }
}

fn parse_err_name(e: &biodivine_boolean_functions::parser::ParseError) -> String {
    // kind only: the Debug form starts with the variant names
    let d = format!("{:?}", e);
    let inner = d
        .trim_start_matches("TokenizingError(")
        .trim_start_matches("ParsingError(");
    inner
        .chars()
        .take_while(|c| c.is_ascii_alphanumeric())
        .collect()
}

/// Runs the implementation under `catch_unwind`; a panic inside the crate is `panic`,
/// a panic of the harness itself (message starting with HARNESS) aborts.
pub fn run(op: &str, args: &[Arg]) -> String {
    match catch_unwind(AssertUnwindSafe(|| run_inner(op, args))) {
        Ok(s) => s,
        Err(p) => {
            let msg = if let Some(s) = p.downcast_ref::<String>() {
                s.clone()
            } else if let Some(s) = p.downcast_ref::<&str>() {
                s.to_string()
            } else {
                String::new()
            };
            if msg.starts_with("HARNESS") {
                eprintln!("{}", msg);
                std::process::exit(3);
            }
            "panic".to_string()
        }
    }
}

pub fn case_line(prop: &str, op: &str, args: &[Arg], nontrivial: bool) -> String {
    let ans = run(op, args);
    let mut s = format!("{} {}", prop, op);
    for a in args {
        s.push(' ');
        s.push_str(&enc_arg(a));
    }
    s.push_str(" => ");
    s.push_str(&ans);
    s.push_str(if nontrivial { " ;nt" } else { " ;tr" });
    s
}
