//! Wire format (S-expressions) shared with the Lean driver; see DESIGN.md Appendix B.
use crate::{B, E, T};
use biodivine_boolean_functions::expressions::ExpressionNode;
use biodivine_boolean_functions::table::TruthTable;
use biodivine_boolean_functions::bdd::Bdd;
use biodivine_lib_bdd::BddValuation;
use std::collections::{BTreeMap, BTreeSet};

#[derive(Clone, Debug)]
pub enum Val {
    E(E),
    T(T),
    B(B),
}

#[derive(Clone, Debug)]
pub enum Arg {
    F(Val),
    V(BTreeMap<String, bool>),
    S(BTreeSet<String>),
    M(BTreeMap<String, Val>),
    X(String),
    O(bool),
    A(String),
}

pub fn hex(s: &str) -> String {
    s.bytes().map(|b| format!("{:02x}", b)).collect()
}
pub fn unhex(s: &str) -> String {
    let bytes: Vec<u8> = (0..s.len() / 2)
        .map(|i| u8::from_str_radix(&s[2 * i..2 * i + 2], 16).unwrap_or(b'?'))
        .collect();
    String::from_utf8_lossy(&bytes).to_string()
}
pub fn enc_name(s: &str) -> String {
    format!("n{}", hex(s))
}
pub fn enc_str(s: &str) -> String {
    format!("x{}", hex(s))
}
pub fn enc_bits(bits: &[bool]) -> String {
    let mut s = String::with_capacity(bits.len() + 1);
    s.push('b');
    for b in bits {
        s.push(if *b { '1' } else { '0' });
    }
    s
}
pub fn enc_bool(b: bool) -> String {
    (if b { "1" } else { "0" }).to_string()
}

pub fn enc_expr(e: &E) -> String {
    match e.node() {
        ExpressionNode::Literal(n) => format!("(l {})", enc_name(n)),
        ExpressionNode::Constant(b) => format!("(c {})", enc_bool(*b)),
        ExpressionNode::Not(x) => format!("(! {})", enc_expr(x)),
        ExpressionNode::And(es) => {
            let mut s = String::from("(&");
            for x in es {
                s.push(' ');
                s.push_str(&enc_expr(x));
            }
            s.push(')');
            s
        }
        ExpressionNode::Or(es) => {
            let mut s = String::from("(|");
            for x in es {
                s.push(' ');
                s.push_str(&enc_expr(x));
            }
            s.push(')');
            s
        }
    }
}

pub fn enc_names<'a>(names: impl Iterator<Item = &'a String>) -> String {
    format!("({})", names.map(|n| enc_name(n)).collect::<Vec<_>>().join(" "))
}

pub fn enc_table(t: &T) -> String {
    let (ins, outs) = t.verif_raw();
    format!("(T {} {})", enc_names(ins.iter()), enc_bits(outs))
}

/// All points of length `n` in row order (most significant first).
pub fn all_points(n: usize) -> Vec<Vec<bool>> {
    (0..(1usize << n))
        .map(|i| (0..n).map(|k| (i >> (n - 1 - k)) & 1 == 1).collect())
        .collect()
}

/// Raw inputs, truth table of the inner diagram over its own `num_vars`, `num_vars`, `size()`,
/// and a structural validity flag (lib-bdd `validate()` plus reducedness: no node with equal
/// children, no duplicate node).
pub fn enc_bdd(b: &B) -> String {
    let inner = b.inner();
    let nv = inner.num_vars() as usize;
    let bits: Vec<bool> = if nv <= 12 {
        all_points(nv)
            .into_iter()
            .map(|p| inner.eval_in(&BddValuation::new(p)))
            .collect()
    } else {
        vec![]
    };
    let mut valid = inner.validate().is_ok();
    let nodes: Vec<_> = inner.clone().to_nodes();
    let mut seen = std::collections::HashSet::new();
    for (i, node) in nodes.iter().enumerate().skip(2) {
        let _ = i;
        if node.low_link == node.high_link {
            valid = false;
        }
        if !seen.insert((node.var, node.low_link, node.high_link)) {
            valid = false;
        }
    }
    format!(
        "(B {} {} {} {} {})",
        enc_names(b.verif_raw_inputs().iter()),
        enc_bits(&bits),
        nv,
        b.node_count(),
        enc_bool(valid)
    )
}

pub fn enc_val(v: &Val) -> String {
    match v {
        Val::E(e) => enc_expr(e),
        Val::T(t) => enc_table(t),
        Val::B(b) => enc_bdd(b),
    }
}

pub fn enc_pval(v: &BTreeMap<String, bool>) -> String {
    let mut s = String::from("(V");
    for (k, b) in v {
        s.push_str(&format!(" ({} {})", enc_name(k), enc_bool(*b)));
    }
    s.push(')');
    s
}
pub fn enc_set<'a>(v: impl Iterator<Item = &'a String>) -> String {
    let mut s = String::from("(S");
    for k in v {
        s.push(' ');
        s.push_str(&enc_name(k));
    }
    s.push(')');
    s
}
pub fn enc_map(m: &BTreeMap<String, Val>) -> String {
    let mut s = String::from("(M");
    for (k, v) in m {
        s.push_str(&format!(" ({} {})", enc_name(k), enc_val(v)));
    }
    s.push(')');
    s
}
pub fn enc_point(p: &[bool]) -> String {
    enc_bits(p)
}

pub fn enc_arg(a: &Arg) -> String {
    match a {
        Arg::F(v) => enc_val(v),
        Arg::V(v) => enc_pval(v),
        Arg::S(s) => enc_set(s.iter()),
        Arg::M(m) => enc_map(m),
        Arg::X(s) => enc_str(s),
        Arg::O(b) => enc_bool(*b),
        Arg::A(s) => s.clone(),
    }
}

// ---------------------------------------------------------------------------------------------
// decoding (used by `exec`: replay and shrinking)

#[derive(Clone, Debug, PartialEq)]
pub enum Sexp {
    Atom(String),
    List(Vec<Sexp>),
}

pub fn parse_sexps(s: &str) -> Vec<Sexp> {
    let mut toks: Vec<String> = vec![];
    let mut cur = String::new();
    for c in s.chars() {
        if c == '(' || c == ')' {
            if !cur.is_empty() {
                toks.push(std::mem::take(&mut cur));
            }
            toks.push(c.to_string());
        } else if c.is_whitespace() {
            if !cur.is_empty() {
                toks.push(std::mem::take(&mut cur));
            }
        } else {
            cur.push(c);
        }
    }
    if !cur.is_empty() {
        toks.push(cur);
    }
    fn seq(toks: &[String], pos: &mut usize) -> Vec<Sexp> {
        let mut out = vec![];
        while *pos < toks.len() {
            let t = &toks[*pos];
            *pos += 1;
            if t == ")" {
                return out;
            } else if t == "(" {
                out.push(Sexp::List(seq(toks, pos)));
            } else {
                out.push(Sexp::Atom(t.clone()));
            }
        }
        out
    }
    let mut pos = 0;
    seq(&toks, &mut pos)
}

fn atom(s: &Sexp) -> &str {
    match s {
        Sexp::Atom(a) => a,
        _ => "",
    }
}
fn dec_name(s: &Sexp) -> String {
    let a = atom(s);
    if a.is_empty() {
        String::new()
    } else {
        unhex(&a[1..])
    }
}
fn dec_bits(s: &Sexp) -> Vec<bool> {
    atom(s).chars().skip(1).map(|c| c == '1').collect()
}

pub fn dec_expr(s: &Sexp) -> E {
    match s {
        Sexp::List(l) if !l.is_empty() => match atom(&l[0]) {
            "l" => ExpressionNode::Literal(dec_name(&l[1])).into(),
            "c" => ExpressionNode::Constant(atom(&l[1]) == "1").into(),
            "!" => ExpressionNode::Not(dec_expr(&l[1])).into(),
            "&" => ExpressionNode::And(l[1..].iter().map(dec_expr).collect()).into(),
            "|" => ExpressionNode::Or(l[1..].iter().map(dec_expr).collect()).into(),
            _ => ExpressionNode::Constant(false).into(),
        },
        _ => ExpressionNode::Constant(false).into(),
    }
}

/// An expression with the given truth table over exactly the given (sorted) names:
/// `And([Or(minterms)] ++ [Or(v, !v) for v])`, so every name occurs.
pub fn expr_of_bits(names: &[String], bits: &[bool]) -> E {
    let n = names.len();
    let lit = |i: usize, pos: bool| -> E {
        let l: E = ExpressionNode::Literal(names[i].clone()).into();
        if pos {
            l
        } else {
            ExpressionNode::Not(l).into()
        }
    };
    let minterms: Vec<E> = bits
        .iter()
        .enumerate()
        .filter(|(_, b)| **b)
        .map(|(row, _)| {
            ExpressionNode::And((0..n).map(|k| lit(k, (row >> (n - 1 - k)) & 1 == 1)).collect()).into()
        })
        .collect();
    let mut parts: Vec<E> = vec![ExpressionNode::Or(minterms).into()];
    for i in 0..n {
        parts.push(ExpressionNode::Or(vec![lit(i, true), lit(i, false)]).into());
    }
    ExpressionNode::And(parts).into()
}

pub fn bdd_of_bits(names: &[String], bits: &[bool]) -> B {
    Bdd::try_from(expr_of_bits(names, bits)).expect("small")
}

pub fn dec_val(s: &Sexp) -> Val {
    if let Sexp::List(l) = s {
        if !l.is_empty() {
            match atom(&l[0]) {
                "T" => {
                    let names: Vec<String> = match &l[1] {
                        Sexp::List(ns) => ns.iter().map(dec_name).collect(),
                        _ => vec![],
                    };
                    return Val::T(TruthTable::verif_from_raw(names, dec_bits(&l[2])));
                }
                "B" => {
                    let names: Vec<String> = match &l[1] {
                        Sexp::List(ns) => ns.iter().map(dec_name).collect(),
                        _ => vec![],
                    };
                    return Val::B(bdd_of_bits(&names, &dec_bits(&l[2])));
                }
                _ => {}
            }
        }
    }
    Val::E(dec_expr(s))
}

pub fn dec_arg(s: &Sexp) -> Arg {
    match s {
        Sexp::Atom(a) => {
            if let Some(rest) = a.strip_prefix('x') {
                if rest.chars().all(|c| c.is_ascii_hexdigit()) && rest.len() % 2 == 0 {
                    return Arg::X(unhex(rest));
                }
            }
            if a == "0" || a == "1" {
                return Arg::O(a == "1");
            }
            Arg::A(a.clone())
        }
        Sexp::List(l) if !l.is_empty() => match atom(&l[0]) {
            "V" => Arg::V(
                l[1..]
                    .iter()
                    .filter_map(|kv| match kv {
                        Sexp::List(p) if p.len() == 2 => Some((dec_name(&p[0]), atom(&p[1]) == "1")),
                        _ => None,
                    })
                    .collect(),
            ),
            "S" => Arg::S(l[1..].iter().map(dec_name).collect()),
            "M" => Arg::M(
                l[1..]
                    .iter()
                    .filter_map(|kv| match kv {
                        Sexp::List(p) if p.len() == 2 => Some((dec_name(&p[0]), dec_val(&p[1]))),
                        _ => None,
                    })
                    .collect(),
            ),
            _ => Arg::F(dec_val(s)),
        },
        _ => Arg::A(String::new()),
    }
}
